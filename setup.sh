#!/bin/sh
# Build everything the claimed checks need, offline, from files on disk only:
# the Coq closure of every claimed property (full .vo build) and the harness binaries of their legs.
set -e
cd "$(dirname "$0")"
mkdir -p build evidence replays
python3 - <<'PY'
import sys, os
sys.path.insert(0, os.path.join(os.getcwd(), "lib"))
import vlib
from props import PROPS
from manifest_static import CLAIMED
targets, bins = [], set()
for pid in CLAIMED:
    cfg = PROPS[pid]
    targets.append("Props/%s.vo" % pid)
    targets += list(cfg.get("coq", []))
    for leg in cfg["legs"]:
        bins.add((leg.get("binary", "zunit"), bool(leg.get("race"))))
ok, log = vlib.coq_make(sorted(set(targets)))
print("coq build ok (%d targets)" % len(set(targets)) if ok else log[-3000:])
if not ok:
    sys.exit(1)
for b, race in sorted(bins):
    ok, path, log = vlib.go_build(b, race=race)
    print("%s%s build: %s" % (b, "-race" if race else "", "ok" if ok else log[-3000:]))
    if not ok:
        sys.exit(1)
PY
