#!/bin/sh
# Build everything the checks need, offline, from files on disk only.
set -e
cd "$(dirname "$0")"
mkdir -p build evidence replays
python3 -c "import sys; sys.path.insert(0,'lib'); import vlib; ok,log=vlib.coq_make(); print(log[-3000:] if not ok else 'coq build ok'); sys.exit(0 if ok else 1)"
# warm the Go build cache and the harness binary
python3 - <<'PY'
import sys, os
sys.path.insert(0, os.path.join(os.getcwd(), "lib"))
import vlib
ok, path, log = vlib.go_build("zunit")
print("zunit build:", "ok" if ok else log[-3000:])
sys.exit(0 if ok else 1)
PY
