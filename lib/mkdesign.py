#!/usr/bin/env python3
"""Assembles /verif/DESIGN.md from lib/design/*.md, known-findings.txt, fixes/*.msg and seeded/*/meta.json."""
import glob, json, os, re
V = os.path.dirname(os.path.dirname(os.path.abspath(__file__)))
D = os.path.join(V, "lib", "design")
rd = lambda p: open(p).read().rstrip() + "\n"
out = [rd(os.path.join(D, "00-head.md"))]
import sys
sys.path.insert(0, os.path.join(V, "lib"))
from manifest_static import CLAIMED
for i in range(1, 20):
    pid = "C%02d" % i
    p = os.path.join(D, pid + ".md")
    if os.path.exists(p):
        txt = rd(p)
        if pid not in CLAIMED:
            txt = txt.rstrip() + "\n\n*(status: built, not yet claimed in MANIFEST.json)*\n"
        out.append("\n" + txt)
    else:
        out.append("\n### %s\n\n*(check not built yet - listed under not_applicable in MANIFEST.json)*\n" % pid)
# ---- at a glance (from the evidence files of the last runs)
try:
    rows_g = []
    for i in range(1, 20):
        pid = "C%02d" % i
        ev = json.load(open(os.path.join(V, "evidence", pid + ".json")))
        cov = ev["coverage"]
        legs = ", ".join("%s %d" % (c["driver"], c["evaluations"]) for c in cov.get("correspondence", []))
        rows_g.append("| %s | %d/%d | %s | %s | %.0f s |\n" % (pid, cov.get("discharged", 0), cov.get("obligations", 0), legs, ev.get("tier"), ev.get("wall_s", 0)))
    out.append("\n## 4b. At a glance (last run of each check on this machine)\n\n| Property | theorems checked | correspondence legs (cases) | tier | wall |\n|---|---|---|---|---|\n" + "".join(rows_g))
except Exception as e:
    pass
# ---- defects
out.append("\n---------------------------------------------------------------------------------------\n\n## 5. Defects found on the unchanged tree\n\n"
           "Each was first reproduced by the machinery against the real code (the witness is in `corpus/`), then either repaired by one\n"
           "minimal unguarded `fix:` commit in `/repo` (patch and message also under `fixes/`; the model follows the fixed code, the old\n"
           "behaviour is kept as an `…_orig` definition with a `…_refuted` lemma) or listed as a known finding.\n\n")
fixed, finds = [], []
for line in open(os.path.join(V, "known-findings.txt")):
    line = line.strip()
    if line.startswith("fixed:"):
        m = re.match(r"fixed:\s+property=(\S+)\s+(\S+)\s+(.*)", line)
        if m: fixed.append(m.groups())
    elif line.startswith("finding:"):
        kv = dict(re.findall(r"(\w+)=(\S+)", line))
        text = re.sub(r"^finding:\s*((property|driver|monitor|tag|key)=\S+\s+)*", "", line)
        finds.append((kv.get("property"), kv.get("driver"), kv.get("tag"), text))
out.append("**Fixed (%d):**\n\n| Property | Commit | What failed |\n|---|---|---|\n" % len(fixed))
for p, c, t in sorted(fixed):
    out.append("| %s | `%s` | %s |\n" % (p, c, t.replace("|", "/")))
out.append("\n**Known findings (%d)** - the check prints `KNOWN-FINDING:` for a monitor failure on a case carrying the tag, and reports any other violation:\n\n| Property | Driver / tag | What fails |\n|---|---|---|\n" % len(finds))
for p, d, tag, t in sorted(finds, key=lambda x: (x[0] or "", x[2] or "")):
    out.append("| %s | %s / `%s` | %s |\n" % (p, d, tag, t.replace("|", "/")))
# ---- seeded
rows = []
for mp in sorted(glob.glob(os.path.join(V, "seeded", "*", "meta.json"))):
    m = json.load(open(mp))
    rows.append((m.get("property"), os.path.basename(os.path.dirname(mp)), m.get("change", ""), m.get("needs", ""), m.get("caught_by", ""), (m.get("note", "") + ((" - SUPERSEDED: " + m["applies_to"]) if m.get("superseded") else "")).lstrip(" -")))
out.append("\n## 6. Seeded property-breaking changes (written by independent agents) and which check catches them\n\n"
           "Each change compiles, keeps the existing test suite green and comes with a demonstration that fails with it and passes without;\n"
           "all of that was re-confirmed in a scratch worktree (`lib/muttest.sh`) before the change was kept under `seeded/`.\n\n"
           "| Property | Id | Change | Needs to manifest | Caught by |\n|---|---|---|---|---|\n")
n_all = len(rows)
n_missed = sum(1 for r in rows if "missed by the first version" in r[5] or "first version of the check itself hung" in r[5] or "MISSED" in r[5])
n_weak = sum(1 for r in rows if "only as a broken correspondence" in r[5] or "no-failing-input-found" in r[5] and "first version" in r[5])
out.insert(len(out) - 1, "")
out[-1] = out[-1].replace("| Property | Id |", ("**Campaign.** %d changes were kept, written in six rounds by fresh agents that saw only the text of one property and a scratch worktree "
    "(later rounds were told what had been tried and asked for mechanisms far from it: callers in other packages, configuration and flag handling, "
    "start-up and shutdown order, error and retry paths, whole-pipeline effects; the sixth round, run in the last session, also asked for state carried from one seed or pass to the next and for rarely used options). %d of them were MISSED by the check as it stood when they were written and %d more were "
    "reported only as a broken correspondence without a failing input; every one of these led to a strengthening (a new leg, generator dimension, monitor or theorem - "
    "named in the last column) and is now reported with a concrete failing input by the check of its own property - with one exception stated in the table: C16-m10 is caught by the check of C06, the property that owns the redirect limit, not by C16's. Four of the strengthenings exposed genuine defects of the "
    "unchanged code that were then repaired (`fix:` commits d7c4d36, 55466e0, 3ec1779, 210c439). Three thorough-tier false alarms of the checks themselves "
    "(C04, C10, C15/C16 under load) were found and corrected along the way (described in the sections of those properties).\n\n| Property | Id |") % (n_all, n_missed, n_weak), 1)
for r in rows:
    out.append("| %s | %s | %s | %s | %s%s |\n" % (r[0], r[1], r[2].replace("|", "/"), r[3].replace("|", "/"), r[4].replace("|", "/"), (" - " + r[5]) if r[5] else ""))
out.append("\n" + rd(os.path.join(D, "99-trusted.md")))
open(os.path.join(V, "DESIGN.md"), "w").write("".join(out))
print("DESIGN.md: %d bytes" % len("".join(out)))
