#!/usr/bin/env python3
"""Assembles /verif/DESIGN.md from lib/design/*.md, known-findings.txt, fixes/*.msg and seeded/*/meta.json."""
import glob, json, os, re
V = os.path.dirname(os.path.dirname(os.path.abspath(__file__)))
D = os.path.join(V, "lib", "design")
rd = lambda p: open(p).read().rstrip() + "\n"
out = [rd(os.path.join(D, "00-head.md"))]
import sys
sys.path.insert(0, os.path.join(V, "lib"))
from manifest_static import CLAIMED
for i in range(1, 20):
    pid = "C%02d" % i
    p = os.path.join(D, pid + ".md")
    if os.path.exists(p):
        txt = rd(p)
        if pid not in CLAIMED:
            txt = txt.rstrip() + "\n\n*(status: built, not yet claimed in MANIFEST.json)*\n"
        out.append("\n" + txt)
    else:
        out.append("\n### %s\n\n*(check not built yet - listed under not_applicable in MANIFEST.json)*\n" % pid)
# ---- defects
out.append("\n---------------------------------------------------------------------------------------\n\n## 5. Defects found on the unchanged tree\n\n"
           "Each was first reproduced by the machinery against the real code (the witness is in `corpus/`), then either repaired by one\n"
           "minimal unguarded `fix:` commit in `/repo` (patch and message also under `fixes/`; the model follows the fixed code, the old\n"
           "behaviour is kept as an `…_orig` definition with a `…_refuted` lemma) or listed as a known finding.\n\n")
fixed, finds = [], []
for line in open(os.path.join(V, "known-findings.txt")):
    line = line.strip()
    if line.startswith("fixed:"):
        m = re.match(r"fixed:\s+property=(\S+)\s+(\S+)\s+(.*)", line)
        if m: fixed.append(m.groups())
    elif line.startswith("finding:"):
        kv = dict(re.findall(r"(\w+)=(\S+)", line))
        text = re.sub(r"^finding:\s*((property|driver|monitor|tag|key)=\S+\s+)*", "", line)
        finds.append((kv.get("property"), kv.get("driver"), kv.get("tag"), text))
out.append("**Fixed (%d):**\n\n| Property | Commit | What failed |\n|---|---|---|\n" % len(fixed))
for p, c, t in sorted(fixed):
    out.append("| %s | `%s` | %s |\n" % (p, c, t.replace("|", "/")))
out.append("\n**Known findings (%d)** - the check prints `KNOWN-FINDING:` for a monitor failure on a case carrying the tag, and reports any other violation:\n\n| Property | Driver / tag | What fails |\n|---|---|---|\n" % len(finds))
for p, d, tag, t in sorted(finds, key=lambda x: (x[0] or "", x[2] or "")):
    out.append("| %s | %s / `%s` | %s |\n" % (p, d, tag, t.replace("|", "/")))
# ---- seeded
rows = []
for mp in sorted(glob.glob(os.path.join(V, "seeded", "*", "meta.json"))):
    m = json.load(open(mp))
    rows.append((m.get("property"), os.path.basename(os.path.dirname(mp)), m.get("change", ""), m.get("needs", ""), m.get("caught_by", ""), (m.get("note", "") + ((" - SUPERSEDED: " + m["applies_to"]) if m.get("superseded") else "")).lstrip(" -")))
out.append("\n## 6. Seeded property-breaking changes (written by independent agents) and which check catches them\n\n"
           "Each change compiles, keeps the existing test suite green and comes with a demonstration that fails with it and passes without;\n"
           "all of that was re-confirmed in a scratch worktree (`lib/muttest.sh`) before the change was kept under `seeded/`.\n\n"
           "| Property | Id | Change | Needs to manifest | Caught by |\n|---|---|---|---|---|\n")
for r in rows:
    out.append("| %s | %s | %s | %s | %s%s |\n" % (r[0], r[1], r[2].replace("|", "/"), r[3].replace("|", "/"), r[4].replace("|", "/"), (" - " + r[5]) if r[5] else ""))
out.append("\n" + rd(os.path.join(D, "99-trusted.md")))
open(os.path.join(V, "DESIGN.md"), "w").write("".join(out))
print("DESIGN.md: %d bytes" % len("".join(out)))
