#!/bin/bash
# usage: muttest.sh <Cxx> <mutation dir (patch.diff + demo)> <demo file> <dest dir in repo> <go test args...>
# Validates a seeded mutation in a scratch worktree (build, demo fails with / passes without, package tests pass)
# and runs ./check Cxx against the mutated tree. Prints a summary; never touches /repo itself.
set -u
PID=$1; MD=$2; DEMO=$3; DEST=$4; shift 4
export GOFLAGS=-mod=mod GOPROXY=off
WT=$(mktemp -d /tmp/mt-$PID-XXXX); rmdir $WT
git -C /repo worktree add --detach $WT HEAD -q || exit 2
cd $WT
res() { echo "[muttest $PID $(basename $MD)] $*"; }
cp $MD/$DEMO $DEST/zz_demo_test.go
if go test -vet=off -count=1 "$@" >/tmp/mt.$$.log 2>&1; then res "demo on clean tree: PASS (expected)"; else res "demo on clean tree: FAIL (unexpected)"; tail -5 /tmp/mt.$$.log; fi
if ! git apply $MD/patch.diff; then res "patch does not apply"; cd /; git -C /repo worktree remove --force $WT; exit 2; fi
if go build ./... >/tmp/mt.$$.log 2>&1; then res "build with mutation: ok"; else res "build with mutation: FAILED"; tail -5 /tmp/mt.$$.log; fi
if go test -vet=off -count=1 "$@" >/tmp/mt.$$.log 2>&1; then res "demo with mutation: PASS (unexpected)"; else res "demo with mutation: FAIL (expected)"; fi
rm -f $DEST/zz_demo_test.go
PKGS=$(git diff --name-only | xargs -n1 dirname | sort -u | sed 's|^|./|')
if go test -vet=off -count=1 $PKGS >/tmp/mt.$$.log 2>&1; then res "existing tests of touched packages with mutation: pass"; else res "existing tests with mutation: FAIL"; tail -5 /tmp/mt.$$.log; fi
cd /verif
VERIF_REPO=$WT timeout 1500 ./check $PID > /tmp/mt.$$.check 2>&1; RC=$?
res "check exit=$RC  $(grep -c '^VIOLATION' /tmp/mt.$$.check) VIOLATION line(s)"
grep -E "^\[$PID\] [a-z]+:|^VIOLATION|proof leg" /tmp/mt.$$.check | cut -c1-220
rm -rf /verif/build/alt-$(python3 -c "import hashlib,sys;print(hashlib.sha1(sys.argv[1].encode()).hexdigest()[:10])" $WT)
git -C /repo worktree remove --force $WT
rm -f /tmp/mt.$$.*
