"""Shared machinery of ./check: proof leg, build leg, correspondence leg, verdict, evidence."""
import fcntl, json, os, re, shutil, subprocess, sys, tempfile, time, glob
from concurrent.futures import ThreadPoolExecutor

VERIF = os.path.dirname(os.path.dirname(os.path.abspath(__file__)))
REPO = os.environ.get("VERIF_REPO", "/repo")
COQ = os.path.join(VERIF, "coq")
import hashlib
BUILD = os.path.join(VERIF, "build") if REPO == "/repo" else os.path.join(VERIF, "build", "alt-" + hashlib.sha1(REPO.encode()).hexdigest()[:10])
HARNESS = os.path.join(VERIF, "harness")
# evidence of runs against another checkout (VERIF_REPO=..., used to try seeded changes) must not overwrite the evidence of /repo
EVID = os.path.join(VERIF, "evidence") if REPO == "/repo" else os.path.join(BUILD, "evidence")
REPLAYS = os.path.join(VERIF, "replays") if REPO == "/repo" else os.path.join(BUILD, "replays")
CORPUS = os.path.join(VERIF, "corpus")
NCPU = os.cpu_count() or 4

FORBIDDEN = re.compile(
    r"\b(Admitted|admit|Axiom|Axioms|Parameter|Parameters|Conjecture|Conjectures|Unset\s+Guard|bypass_check|Admit\s+Obligations|type-in-type|impredicative-set|native_compute)\b")

# axioms of the standard library that a theorem may depend on (only C18's Flocq theorems use any: the axioms of
# Coq's classical real numbers, which every statement about Flocq's B2R depends on)
ALLOWED_AXIOMS = {
    "sig_not_dec", "ClassicalDedekindReals.sig_not_dec", "sig_forall_dec", "ClassicalDedekindReals.sig_forall_dec",
    "functional_extensionality_dep", "FunctionalExtensionality.functional_extensionality_dep",
    "proof_irrelevance", "ProofIrrelevance.proof_irrelevance", "JMeq_eq", "JMeq.JMeq_eq",
    "classic", "Classical_Prop.classic", "Eqdep.Eq_rect_eq.eq_rect_eq",
}

TRUSTED_BASE = [
    "Coq 8.16.1 kernel (coqc; vm_compute used for witness lemmas, finite sweeps and for evaluating the model on harness cases; no native_compute)",
    "no axioms: Print Assumptions under every property theorem reports 'Closed under the global context' (checked on every run)",
    "correspondence check (hand-written model, differential testing): Go drivers under /verif/harness compiled into /repo with -tags verif -overlay, their generators, export shims and the printing of Coq case terms",
    "no extraction: the model is evaluated inside Coq on the harness-written case files",
    "modelled, not verified: Go runtime/scheduler/channels/sync primitives, IEEE-754 float conversion, third-party parsers and libraries, OS and file system",
]


def go_env():
    env = dict(os.environ)
    env["GOFLAGS"] = "-mod=mod"
    env["GOPROXY"] = "off"
    env.pop("GOSUMDB", None)
    env.pop("GOTOOLCHAIN", None)
    env.setdefault("GOCACHE", os.path.join(os.path.expanduser("~"), ".cache", "go-build"))
    return env


class Lock:
    def __init__(self, name, shared=False):
        d = os.path.join(VERIF, "build") if shared else BUILD
        os.makedirs(d, exist_ok=True)
        self.path = os.path.join(d, name)

    def __enter__(self):
        self.f = open(self.path, "w")
        fcntl.flock(self.f, fcntl.LOCK_EX)
        return self

    def __exit__(self, *a):
        fcntl.flock(self.f, fcntl.LOCK_UN)
        self.f.close()


def run(cmd, cwd=None, timeout=1200, env=None, input=None):
    try:
        p = subprocess.run(cmd, cwd=cwd, env=env, input=input, stdout=subprocess.PIPE, stderr=subprocess.STDOUT,
                           timeout=timeout, text=True, errors="replace")
        return p.returncode, p.stdout
    except subprocess.TimeoutExpired as e:
        out = e.stdout if isinstance(e.stdout, str) else (e.stdout or b"").decode("utf8", "replace")
        return 124, out + "\n[timeout after %ss]" % timeout


# ------------------------------------------------------------------------------ proof leg

def write_coqproject():
    files = sorted(os.path.relpath(p, COQ) for p in glob.glob(os.path.join(COQ, "**", "*.v"), recursive=True))
    txt = "-Q . ZenoV\n-arg -w -arg -deprecated\n" + "\n".join(files) + "\n"
    path = os.path.join(COQ, "_CoqProject")
    if not os.path.exists(path) or open(path).read() != txt:
        open(path, "w").write(txt)


def coq_make(targets=None):
    """Full .vo build (incremental) of the whole development, or of the given .vo targets and
    everything they depend on.  Returns (ok, log)."""
    with Lock(".coq.lock", shared=True):
        write_coqproject()
        if not os.path.exists(os.path.join(COQ, "Makefile")) or \
                os.path.getmtime(os.path.join(COQ, "Makefile")) < os.path.getmtime(os.path.join(COQ, "_CoqProject")):
            rc, out = run(["coq_makefile", "-f", "_CoqProject", "-o", "Makefile"], cwd=COQ)
            if rc != 0:
                return False, out
        cmd = ["timeout", "3000", "make", "-j%d" % NCPU] + (list(targets) if targets else ["-k"])
        rc, out = run(cmd, cwd=COQ, timeout=3100)
        if rc != 0 and "No rule to make target" in out:
            # a .v file was renamed or removed since the dependency file was written
            for f in (".Makefile.d",):
                try:
                    os.remove(os.path.join(COQ, f))
                except OSError:
                    pass
            run(["coq_makefile", "-f", "_CoqProject", "-o", "Makefile"], cwd=COQ)
            rc, out = run(cmd, cwd=COQ, timeout=3100)
        return rc == 0, out


def forbidden_scan():
    bad = []
    for path in glob.glob(os.path.join(COQ, "**", "*.v"), recursive=True):
        txt = open(path, errors="replace").read()
        # strip comments (non-nested is enough for a conservative scan: scan both raw and stripped)
        stripped = re.sub(r"\(\*.*?\*\)", " ", txt, flags=re.S)
        for m in FORBIDDEN.finditer(stripped):
            line = stripped[:m.start()].count("\n") + 1
            bad.append("%s:%d: %s" % (os.path.relpath(path, VERIF), line, m.group(0)))
    return bad


def proof_leg(pid, extra_targets=(), thorough=False):
    """Returns dict(ok, obligations, discharged, theorems, failures[], log)."""
    res = dict(ok=False, obligations=0, discharged=0, theorems=[], failures=[], axioms=[])
    prop_v = os.path.join(COQ, "Props", pid + ".v")
    if not os.path.exists(prop_v):
        res["failures"].append("missing " + prop_v)
        return res
    src = open(prop_v).read()
    thms = re.findall(r"^\s*Theorem\s+(\w+)", src, flags=re.M)
    res["theorems"] = thms
    res["obligations"] = len(thms)
    bad = forbidden_scan()
    if bad:
        res["failures"].append("forbidden constructs: " + "; ".join(bad[:5]))
    ok, log = coq_make(["Props/%s.vo" % pid] + list(extra_targets))
    res["make_log"] = log[-3000:]
    if not ok:
        m = re.findall(r'File "([^"]+)", line (\d+)[^\n]*\n(Error:[^\n]*(?:\n[^\n]+){0,6})', log)
        res["failures"].append("coq build failed: " + (("%s line %s: %s" % m[0]) if m else log[-600:]))
        return res
    tmpd = tempfile.mkdtemp(prefix="zv-prop-")
    try:
        rc, out = run(["timeout", "900", "coqc", "-Q", ".", "ZenoV", "-w", "-deprecated", os.path.join("Props", pid + ".v"),
                       "-o", os.path.join(tmpd, pid + ".vo")], cwd=COQ, timeout=950)
    finally:
        shutil.rmtree(tmpd, ignore_errors=True)
    res["prop_log"] = out[-3000:]
    if rc != 0:
        res["failures"].append("coqc Props/%s.v failed: %s" % (pid, out[-600:]))
        return res
    closed = len(re.findall(r"Closed under the global context", out))
    # a block = the lines after "Axioms:" up to the next blank line / next report; an axiom's name starts in column 0
    # (its type may follow on the same line after " : " or on indented continuation lines)
    ax_blocks = []
    cur = None
    for ln in out.split("\n"):
        if ln.strip() == "Axioms:":
            cur = []
            ax_blocks.append(cur)
        elif cur is not None:
            if not ln.strip() or ln.startswith("Closed under") or re.match(r"^(Theorem|Fetching|File) ", ln):
                cur = None
            elif not ln[0].isspace():
                cur.append(ln.split()[0].rstrip(":"))
    axs = set(a for blk in ax_blocks for a in blk)
    res["axioms"] = sorted(axs)
    not_allowed = [a for a in axs if a not in ALLOWED_AXIOMS and a.split(".")[-1] not in ALLOWED_AXIOMS]
    if not_allowed:
        res["failures"].append("theorems depend on axioms outside the standard library: " + ", ".join(not_allowed))
    res["discharged"] = closed + len(ax_blocks) if not not_allowed else closed
    n_pa = len(re.findall(r"^\s*Print Assumptions\s+(\w+)", src, flags=re.M))
    if n_pa < len(thms):
        res["failures"].append("Props/%s.v: %d theorems but %d Print Assumptions" % (pid, len(thms), n_pa))
    if res["discharged"] < res["obligations"]:
        res["failures"].append("only %d of %d theorems reported their assumptions" % (res["discharged"], res["obligations"]))
    if thorough and not res["failures"]:
        # independent re-check of the compiled property file and everything it depends on
        rc, out = run(["timeout", "3300", "coqchk", "-silent", "-o", "-Q", ".", "ZenoV", "ZenoV.Props." + pid], cwd=COQ, timeout=3400)
        m = re.search(r"\* Axioms:\s*(.*?)\n\s*\n", out, flags=re.S)
        ax = (m.group(1).strip() if m else "?")
        res["coqchk"] = {"exit": rc, "axioms": ax, "tail": out[-600:]}
        if rc != 0:
            res["failures"].append("coqchk failed: " + out[-400:])
        elif ax != "<none>":
            names = [a.split(":")[0].strip() for a in ax.split("\n") if a.strip()]
            bad = [a for a in names if a.split(".")[-1] not in ALLOWED_AXIOMS and a not in ALLOWED_AXIOMS]
            if bad:
                res["failures"].append("coqchk reports axioms outside the standard library: " + ", ".join(bad))
    res["ok"] = not res["failures"]
    return res


# ------------------------------------------------------------------------------ build leg

def write_overlay(target=None):
    """The overlay of one binary.  A shim that carries a line `//verif:only a,b` is compiled into the binaries a and b only:
    a shim that depends on unexported signatures then cannot break the build of the binaries that do not need it."""
    os.makedirs(BUILD, exist_ok=True)
    repl = {}
    for f in sorted(glob.glob(os.path.join(HARNESS, "shims", "*.go"))):
        txt = open(f).read()
        m = re.search(r"^//verif:target\s+(\S+)", txt, flags=re.M)
        only = re.search(r"^//verif:only\s+(\S+)", txt, flags=re.M)
        if only and target is not None and target not in only.group(1).split(","):
            continue
        if m:
            repl[os.path.join(REPO, m.group(1))] = f
    for d in sorted(os.listdir(HARNESS)):
        if d in ("shims", "common"):
            continue
        dp = os.path.join(HARNESS, d)
        if os.path.isdir(dp):
            for f in sorted(glob.glob(os.path.join(dp, "*.go"))):
                repl[os.path.join(REPO, "internal", "verifharness", d, os.path.basename(f))] = f
            # the common driver framework is compiled into every binary
            for f in sorted(glob.glob(os.path.join(HARNESS, "common", "*.go"))):
                repl[os.path.join(REPO, "internal", "verifharness", d, "zz_common_" + os.path.basename(f))] = f
    path = os.path.join(BUILD, "overlay.%s.json" % target if target else "overlay.json")
    tmp = path + ".%d" % os.getpid()
    json.dump({"Replace": repl}, open(tmp, "w"), indent=1)
    os.replace(tmp, path)
    return path


def go_build(target="zunit", race=False):
    """Builds the harness binary from /repo's CURRENT working tree. Returns (ok, path, log)."""
    with Lock(".go.%s.lock" % target):
        ov = write_overlay(target)
        outp = os.path.join(BUILD, target + ("-race" if race else ""))
        # never let the build touch /repo's go.mod / go.sum (a harness import may promote an indirect
        # requirement): build against private copies taken from the current tree
        modcopy = os.path.join(BUILD, "go.%s.mod" % target)
        shutil.copyfile(os.path.join(REPO, "go.mod"), modcopy)
        shutil.copyfile(os.path.join(REPO, "go.sum"), modcopy[:-4] + ".sum")
        cmd = ["go", "build", "-modfile", modcopy, "-tags", "verif", "-overlay", ov, "-o", outp]
        if race:
            cmd.append("-race")
        cmd.append("./internal/verifharness/" + target)
        rc, out = run(cmd, cwd=REPO, env=go_env(), timeout=1500)
        return rc == 0, outp, out


# ------------------------------------------------------------------------------ correspondence leg

def parse_list(out, name):
    m = re.search(r"^%s\s*=\s*(.*?)\n\s*:\s" % name, out, flags=re.S | re.M)
    if not m:
        return None
    return [int(x) for x in re.findall(r"\d+", re.sub(r"%\w+", "", m.group(1)))]


def eval_shard(vfile):
    d = os.path.dirname(vfile)
    base = os.path.basename(vfile)[:-2]
    rc, out = run(["timeout", "1700", "coqc", "-Q", COQ, "ZenoV", "-w", "-deprecated", base + ".v"], cwd=d, timeout=1800)
    for ext in (".vo", ".vok", ".vos", ".glob"):
        try:
            os.remove(os.path.join(d, base + ext))
        except OSError:
            pass
    try:
        os.remove(os.path.join(d, "." + base + ".aux"))
    except OSError:
        pass
    if rc != 0:
        return dict(shard=base, error=out[-1500:])
    diff = parse_list(out, "DIFF")
    mon = parse_list(out, "MON")
    if diff is None or mon is None:
        return dict(shard=base, error="could not parse coqc output: " + out[-800:])
    return dict(shard=base, diff=diff, mon=list(zip(mon[0::2], mon[1::2])))


class LegResult:
    def __init__(self, driver):
        self.driver = driver
        self.meta = {}
        self.diffs = []   # (input, shard, idx)
        self.mons = []    # (input, monitor number, shard, idx)
        self.errors = []
        self.crashes = []  # (input, exit code, log tail): the implementation killed the driver process on this input
        self.tags = {}    # input -> tags of that case
        self.wall = 0.0


def run_leg(binary, driver, n, seed, tier, shard=250, corpus=None, single_input=None, extra_env=None, timeout=3000, jobs=None, coq_targets=None):
    """Run one driver on the implementation, then evaluate the model on its case files."""
    t0 = time.time()
    lr = LegResult(driver)
    work = tempfile.mkdtemp(prefix="zv-%s-" % driver)
    try:
        cmd = [binary, driver, "-seed", str(seed), "-n", str(n), "-shard", str(shard), "-out", work, "-tier", tier]
        if corpus and os.path.exists(corpus):
            cmd += ["-corpus", corpus]
        if single_input is not None:
            cmd += ["-input", single_input]
        env = dict(os.environ)
        env["VERIF_REPO"] = REPO
        if extra_env:
            env.update(extra_env)
        rc, out = run(cmd, cwd=work, timeout=timeout, env=env)
        lr.driver_log = out[-4000:]
        if rc != 0:
            lr.errors.append("driver %s exited %d: %s" % (driver, rc, out[-1500:]))
            # the process died: which input was it executing?  Re-run each candidate alone.
            mh = re.search(r"^HANG: driver \S+: the implementation did not return within \S+ on input: (.*)$", out, flags=re.M)
            if rc == 3 and mh:
                # the driver's own per-case watchdog named the input: no need to wait for the hang a second time
                lr.crashes.append((mh.group(1), rc, out[-3000:]))
            elif single_input is None:
                try:
                    cands = [l for l in open(os.path.join(work, driver + ".inflight")).read().split("\n") if l.strip()]
                except OSError:
                    cands = []
                for c in cands[:16]:
                    w2 = tempfile.mkdtemp(prefix="zv-%s-crash-" % driver)
                    try:
                        rc2, out2 = run([binary, driver, "-input", c, "-out", w2, "-tier", tier], cwd=w2, timeout=600, env=env)
                    finally:
                        shutil.rmtree(w2, ignore_errors=True)
                    if rc2 != 0:
                        lr.crashes.append((c, rc2, out2[-3000:]))
            else:
                lr.crashes.append((single_input, rc, out[-3000:]))
            return lr
        try:
            lr.meta = json.load(open(os.path.join(work, driver + ".meta.json")))
        except Exception as e:
            lr.errors.append("driver %s wrote no meta: %s" % (driver, e))
            return lr
        shards = [os.path.join(work, s + ".v") for s in (lr.meta.get("shards") or [])]
        with ThreadPoolExecutor(max_workers=jobs or NCPU) as ex:
            results = list(ex.map(eval_shard, shards))
        # a compiled library changed under us (somebody rebuilt part of coq/ meanwhile): rebuild, retry once
        stale = [i for i, r in enumerate(results) if "error" in r and ("inconsistent assumptions" in r["error"] or "Cannot find a physical path" in r["error"] or "not a valid" in r["error"])]
        if stale and coq_targets:
            coq_make(list(coq_targets))
            with ThreadPoolExecutor(max_workers=jobs or NCPU) as ex:
                redo = list(ex.map(eval_shard, [shards[i] for i in stale]))
            for i, r in zip(stale, redo):
                results[i] = r
        for r in results:
            if "error" in r:
                lr.errors.append("model evaluation failed on %s: %s" % (r["shard"], r["error"]))
                continue
            inputs = open(os.path.join(work, r["shard"] + ".inputs")).read().split("\n")
            try:
                tags = open(os.path.join(work, r["shard"] + ".tags")).read().split("\n")
            except OSError:
                tags = []
            for i in set(r["diff"]) | set(i for (i, _) in r["mon"]):
                if i < len(tags):
                    lr.tags[inputs[i]] = [t for t in tags[i].split(",") if t]
            for i in r["diff"]:
                lr.diffs.append((inputs[i], r["shard"], i))
            for (i, k) in r["mon"]:
                lr.mons.append((inputs[i], k, r["shard"], i))
    finally:
        if os.environ.get("VERIF_KEEP"):   # debugging aid: keep the case files of this leg
            shutil.copytree(work, os.path.join(os.environ["VERIF_KEEP"], os.path.basename(work)), dirs_exist_ok=True)
        shutil.rmtree(work, ignore_errors=True)
        lr.wall = time.time() - t0
    return lr


def shrink_candidates(binary, driver, inp):
    rc, out = run([binary, driver, "-shrink", inp], timeout=60)
    if rc != 0:
        return []
    return [l for l in out.split("\n") if l.strip()]


def still_fails(binary, driver, inp, kind, mon, tier="quick"):
    lr = run_leg(binary, driver, 0, 1, tier, single_input=inp, jobs=1)
    if lr.errors:
        return False
    if kind == "mon":
        return any(k == mon for (_, k, _, _) in lr.mons)
    return bool(lr.diffs)


def shrink(binary, driver, inp, kind, mon, budget=40):
    cur = inp
    steps = 0
    progress = True
    while progress and steps < budget:
        progress = False
        for c in shrink_candidates(binary, driver, cur):
            steps += 1
            if steps > budget:
                break
            if len(c) < len(cur) and still_fails(binary, driver, c, kind, mon):
                cur = c
                progress = True
                break
    return cur


# ------------------------------------------------------------------------------ known findings

def load_findings(pid):
    """Lines:  finding: property=C13 driver=bucket monitor=2 tag=evict ...text...
               fixed: property=C13 <commit> ...   (suppresses nothing)"""
    res = []
    path = os.path.join(VERIF, "known-findings.txt")
    if not os.path.exists(path):
        return res
    for line in open(path):
        line = line.strip()
        if not line.startswith("finding:"):
            continue
        kv = dict(re.findall(r"(\w+)=(\S+)", line))
        if kv.get("property") != pid:
            continue
        text = line[len("finding:"):].strip()
        # drop the leading key=value tokens: what remains is the description printed after KNOWN-FINDING
        toks = text.split(" ")
        while toks and re.match(r"^(property|driver|monitor|tag|key)=\S+$", toks[0]):
            toks.pop(0)
        kv["text"] = " ".join(toks)
        res.append(kv)
    return res


# ------------------------------------------------------------------------------ evidence

def write_evidence(pid, tier, seed, proof, legs, wall, violations, extra=None, assumptions=None, checker_cmd=None):
    os.makedirs(EVID, exist_ok=True)
    evaluations = sum(l.meta.get("evaluations", 0) for l in legs)
    nontriv = sum(l.meta.get("distinct_nontrivial", 0) for l in legs)
    samples = []
    for t in proof.get("theorems", [])[:3]:
        samples.append({"obligation": "Theorem %s (coq/Props/%s.v), Print Assumptions checked" % (t, pid)})
    for l in legs:
        for s in (l.meta.get("samples") or [])[:2]:
            samples.append({"driver": l.driver, "input": s})
    cov = {
        "obligations": proof.get("obligations", 0),
        "discharged": proof.get("discharged", 0),
        "theorems": proof.get("theorems", []),
        "axioms_reported": proof.get("axioms", []),
        "checker_cmd": checker_cmd or ("make -C coq (coq_makefile, full .vo build) && coqc -Q coq ZenoV coq/Props/%s.v  [Print Assumptions under every Theorem]" % pid),
        "trusted_base": ([TRUSTED_BASE[0],
                          "axioms: the theorems of this file that speak about IEEE-754 values (Flocq 4, B2R) depend on the standard library's "
                          "axioms of the classical real numbers and nothing else - " + ", ".join(proof.get("axioms", [])) +
                          " - as Print Assumptions reports on every run; every other theorem reports 'Closed under the global context'"]
                         + TRUSTED_BASE[2:]) if proof.get("axioms") else TRUSTED_BASE,
        "evaluations": evaluations,
        "distinct_nontrivial": nontriv,
        "rule": " | ".join("%s: %s" % (l.driver, l.meta.get("rule", "")) for l in legs),
        "samples": samples,
        "correspondence": [
            {"driver": l.driver, "evaluations": l.meta.get("evaluations", 0), "distinct": l.meta.get("distinct", 0),
             "distinct_nontrivial": l.meta.get("distinct_nontrivial", 0), "corpus_cases": l.meta.get("corpus_cases", 0),
             "input_distribution": l.meta.get("tags") or {}, "model_vs_impl_differences": len(l.diffs),
             "monitor_failures": len(l.mons), "errors": l.errors, "notes": l.meta.get("notes") or [],
             "wall_s": round(l.wall, 2)} for l in legs],
        "proof_failures": proof.get("failures", []),
        "coqchk": proof.get("coqchk", "not run in this tier (thorough tier runs `coqchk -silent -o` on the property file's closure)"),
    }
    if extra:
        cov.update(extra)
    ev = {
        "property_id": pid, "tier": tier, "seed": seed, "level": "proof", "coverage": cov,
        "assumptions": assumptions or [], "wall_s": round(wall, 2), "violations": violations,
    }
    path = os.path.join(EVID, pid + ".json")
    tmp = path + ".tmp%d" % os.getpid()
    json.dump(ev, open(tmp, "w"), indent=1)
    os.replace(tmp, path)
    return path
