"""Per-property configuration of ./check, one module per property under lib/propdefs/Cxx.py
defining PROP = dict(legs=[...], partial=..., assumptions=[...], level_text=..., technique=...)."""
import glob, importlib.util, os

PROPS = {}
for _f in sorted(glob.glob(os.path.join(os.path.dirname(os.path.abspath(__file__)), "propdefs", "C*.py"))):
    _pid = os.path.basename(_f)[:-3]
    _spec = importlib.util.spec_from_file_location("propdef_" + _pid, _f)
    _m = importlib.util.module_from_spec(_spec)
    _spec.loader.exec_module(_m)
    PROPS[_pid] = _m.PROP
