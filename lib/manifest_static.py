HOOK_COMMITS = []

# properties not (yet) claimed; removed from this list automatically once they appear in props.PROPS
_PENDING = "check not built yet in this development; to be claimed once its model, theorems and driver exist"
NOT_APPLICABLE = {("C%02d" % i): _PENDING for i in range(1, 20)}

LEVEL_TEXT = {
    "C18": "Theorems for all (total, free, operator value) triples: the decision equals free < floor(tau) with tau spelled as in the property (exact to the byte) wherever Go defines the float->uint64 conversion, monotone in free space for ALL inputs incl. NaN/Inf/out-of-range, branches meet at 256 GiB, watcher loop tracks the threshold on every tick sequence. Model tied to checkThreshold and to the real WatchDiskSpace loop by a boundary-dense differential check on every run.",
}

TECHNIQUE = {}
