# commits in /repo that add build-tag-guarded hooks (none so far: everything is injected with -overlay)
HOOK_COMMITS = []

# properties not (yet) claimed; an entry is dropped automatically once lib/propdefs/<id>.py exists
_PENDING = "check not built yet in this development; to be claimed once its model, theorems and driver exist"
NOT_APPLICABLE = {("C%02d" % i): _PENDING for i in range(1, 20)}
