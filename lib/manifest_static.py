# commits in /repo that add build-tag-guarded hooks (everything else is injected with -overlay)
HOOK_COMMITS = ["eaad75c33193eac5d38649492fb7d6ea2d9f8370"]

# properties not (yet) claimed; an entry is dropped automatically once lib/propdefs/<id>.py exists
_PENDING = "check not built yet in this development; to be claimed once its model, theorems and driver exist"
NOT_APPLICABLE = {("C%02d" % i): _PENDING for i in range(1, 20)}

# properties whose check is finished and reviewed by the coordinator; only these are claimed in MANIFEST.json
CLAIMED = ["C01", "C02", "C03", "C04", "C05", "C06", "C07", "C08", "C09", "C10", "C11", "C12", "C13", "C14", "C15", "C16", "C17", "C18", "C19"]
