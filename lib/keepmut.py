#!/usr/bin/env python3
"""keepmut.py <Cxx> <k> <srcdir> <change> <needs> <caught_by> [note]  -> seeded/Cxx-m<k>/{patch.diff, demo*, README.md, meta.json}"""
import json, os, shutil, sys, glob, subprocess
pid, k, src, change, needs, caught = sys.argv[1:7]
note = sys.argv[7] if len(sys.argv) > 7 else ""
V = os.path.dirname(os.path.dirname(os.path.abspath(__file__)))
dst = os.path.join(V, "seeded", "%s-m%s" % (pid, k))
os.makedirs(dst, exist_ok=True)
for f in glob.glob(os.path.join(src, "*")):
    if os.path.isfile(f):
        shutil.copy(f, dst)
base = subprocess.run(["git", "-C", "/repo", "log", "--format=%h", "-1"], capture_output=True, text=True).stdout.strip()
meta = {"property": pid, "id": "%s-m%s" % (pid, k), "change": change, "needs": needs, "caught_by": caught, "note": note,
        "written_by": "independent sub-agent given only the property text and a scratch worktree of /repo",
        "confirmed": "lib/muttest.sh in a scratch worktree: builds, existing tests of the touched packages pass, demonstration fails with the change and passes without, ./check %s run with VERIF_REPO=<worktree>" % pid,
        "apply": "git -C /repo apply seeded/%s-m%s/patch.diff ; ./check %s ; git -C /repo checkout -- ." % (pid, k, pid),
        "repo_head_when_confirmed": base}
json.dump(meta, open(os.path.join(dst, "meta.json"), "w"), indent=1)
print("kept", dst)
