PROP = dict(
    coq=["Seen/SeenHarness.vo"],
    legs=[
        dict(driver="seen", binary="zseen", quick=500, thorough=8000, shard=50,
             monitors=["seen_after_record (a URL checked before is skipped, except seed/redirect over asset-only, then recorded as seed)",
                       "seen_only_if_reported (a node is marked only if the store held its key; only nodes at the working depth are marked)",
                       "no_two_nonseed_same_url (after preprocess one non-seed node per URL)",
                       "store_monotone (no entry lost or downgraded, also across Close/Start)",
                       "seen_not_requested (seen nodes carry no request, the others are PreProcessed with one)",
                       "key_deterministic (same parsed text, same canonical string)",
                       "store_exact (the store holds exactly the URLs checked so far, each with the strongest type it was checked as)"]),
        dict(driver="seenconc", binary="zseen", quick=10, thorough=120, shard=1,
             monitors=["seen_after_record (parallel phase: every URL recorded before the phase started is skipped; seed/redirect over asset-only is let through and promoted)",
                       "seen_only_if_reported (parallel phase: a URL private to one tree, never recorded, is not skipped)",
                       "store_exact (after the parallel phase the store is the union of what was checked)",
                       "seen_not_requested"]),
        dict(driver="hqseen", binary="zseen", quick=500, thorough=12000, shard=50,
             monitors=["hq_seen_only_if_reported (per asset, per batch: marked only if the HQ's reply to the request that carried the node's text was an answer without that text; every Fresh node is in one of the pass's requests; after a failed batch nothing further is marked)",
                       "hq_seen_if_reported (every batch answered: a text no answer returned is skipped)",
                       "hq_like_with_like (the text sent is the canonical text the answer is compared with)",
                       "hq_seen_after_record (faithful HQ: a canonical URL handed over before is skipped)",
                       "seen_not_requested",
                       "no_two_nonseed_same_url"]),
    ],
    partial="Seencheck enabled = what the operator asked for: every case takes its configuration from operator flags (--disable-seencheck, --disable-local-dedupe, "
            "--disable-assets-capture, --warc-on-disk, --capture-alternate-pages, --disable-rate-limit; local and HQ mode) through viper, the Config struct tags and the real "
            "GenerateCrawlConfig; the monitors judge by the flag --disable-seencheck alone. "
            "The canonical string is taken as the identity of a URL (its computation is C09's; key_deterministic is monitored, not proved). "
            "The crawl HQ service is not part of the repository: C08_hq_seen_after_record is about a reference HQ (a set of texts), the per-call "
            "theorems hold for every answer, and for every partition of a pass's request into batches with every reply per batch (the model does not predict the partition: the code as it stands sends one request). Concurrent checks that WRITE the same URL are outside the property (a record completed before a check started must be honoured: covered by the parallel leg seenconc, whose concurrent trees share only URLs they read).",
    assumptions=["fnv64a is injective on the canonical strings in play (needed by C08_seen_only_if_recorded only; checked on every generated case)",
                 "LevelDB Get returns the last value Set for a key, also after Close/Start on the same directory (the driver observes the store after every step)",
                 "http.NewRequest succeeds on a canonical URL (else the node is Failed, not modelled)",
                 "the crawl HQ returns the URLs it was sent and has not seen, with the Value it was sent (hq_ref)"],
    level_text="Theorems for every key function, every initial store and every history of tree-level operations (direct seencheck, preprocess, close/re-open) over one "
               "persistent store, by induction over the concatenated work list; every item tree and every node position; every HQ answer; every way of cutting the HQ request into batches (the answers of the batches, concatenated, are the answer to the whole request: C08_hq_batching_irrelevant, every --hq-batch-size >= 1: C08_hq_batch_size_irrelevant; per-asset only-if/if for every list of exchanges). Model tied to the real "
               "seencheck.Start/SeencheckItem/Close on a scratch LevelDB, to the real preprocess function and to the real hq.SeencheckItem + gocrawlhq client against a "
               "scripted fake HQ that records every request of a pass with its reply, under --hq-batch-size 1..5 (45% of the cases) with assets pages of k*b-1, k*b, k*b+1 distinct assets, on histories with overlapping URLs in many spellings, including one seed's life pass after pass (Completed inner nodes with fetched children, later nodes bringing their URLs back).",
)
