PROP = dict(
    coq=["Pipe/StopHarness.vo"],
    legs=[
        dict(driver="stop", quick=36, thorough=720, shard=12, noshrink=True,
             monitors=["stop_returns_without_crash", "no_open_warc_file_left", "warc_files_hold_complete_records_only",
                       "all_stage_workers_returned"]),
    ],
    partial="'Bounded time' is a step bound in the model (an explicit measure) and a watchdog in the harness. The model covers the "
            "stage workers, the reactor run loop, the WARC files and the stop sequence after reactor.Freeze(); the watcher goroutines "
            "stopped first (disk / WARC-queue watchers, which call pause.Pause/Resume) are covered by C14's protocol theorems, the "
            "queue source's own stop (lq.Stop) and the third-party WARC writer's drain are exercised by the matrix only. Environment "
            "hypothesis: a fetch in progress ends (HTTP timeouts).",
    assumptions=["a worker that is processing a seed finishes in finitely many steps (fetch timeouts; the label LWork is always enabled)",
                 "the WARC writer drains its queue and renames its files when the client is closed (third-party recorder)",
                 "Go's select may pick any ready case (a cancelled worker may still take a seed)"],
    level_text="Theorems for EVERY stop moment (any worker states, channel contents, pending pause tokens, worker and WARC-file counts) "
               "and every interleaving: each step decreases an explicit measure (bounded time, no livelock), some step is enabled until "
               "the stop sequence is complete (no deadlock), and the only stuck states are stopped ones with all workers returned and all "
               "WARC files renamed; the pre-fix worker loop is refuted by a witness. Tied to the code by a matrix of real crawls stopped "
               "through the real controler.Stop() at every hook point / while paused / at quiescence x proxy/direct, sync/async, limiter, "
               "workers, pool, on-disk, seencheck on/off, with an independent WARC reader.",
)
