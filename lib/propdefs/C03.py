PROP = dict(
    coq=["Pipe/StopHarness.vo", "Pipe/WarcStopProofs.vo", "Pipe/LimiterWaitHarness.vo", "Pipe/LimiterWaitProofs.vo"],
    legs=[
        dict(driver="stop", quick=36, thorough=720, shard=12, noshrink=True,
             monitors=["stop_returns_without_crash", "no_open_warc_file_left", "warc_files_hold_complete_records_only",
                       "all_stage_workers_returned", "every_acknowledged_exchange_on_disk_after_stop",
                       "request_and_response_records_in_pairs"]),
        dict(driver="limwait", quick=60, thorough=1500, shard=250,
             monitors=["limiter_waiters_served_30s_plus_floor_time_after_last_answer"]),
    ],
    partial="'Bounded time' is a step bound in the model (an explicit measure) and a watchdog in the harness. The model covers the "
            "stage workers, the reactor run loop, the WARC files and the stop sequence after reactor.Freeze(); the watcher goroutines "
            "stopped first (disk / WARC-queue watchers, which call pause.Pause/Resume) are covered by C14's protocol theorems, the "
            "queue source's own stop (lq.Stop) is exercised by the matrix only. The WARC side of archiver.Stop() (workers with their "
            "fetch goroutines, the client's dialer goroutines and WaitGroup, the WARCWriter channel, the recordWriter pool, "
            "close/rename) is a second LTS (Pipe/WarcStopLts.v) transcribed from archiver.go and the third-party warc v0.8.76 "
            "sources; what stays assumed about that library and the OS is listed under assumptions. Environment hypothesis: a "
            "fetch in progress ends (HTTP timeouts). The rate limiter's share of that hypothesis is proved rather than assumed: the "
            "wait for a host's token (BucketManager.Wait, which does not watch the context) is bounded in every reachable bucket state "
            "by the penalty cap and the refill floor (Pipe/LimiterWait.v on C13's bucket model Rate/Bucket.v; real-time polling "
            "granularity, 50 ms, is not modelled).",
    assumptions=["a worker that is processing a seed finishes in finitely many steps (fetch timeouts; the label LWork is always enabled) - "
                 "for the rate limiter's wait inside archive() this is theorem C03_limiter_wait_bounded, not an assumption",
                 "third-party warc v0.8.76 behaves as its source reads (transcribed into Pipe/WarcStopLts.v): one gzip member per "
                 "record, a batch is flushed before the next receive, bufio/OS writes of a record are not torn once flushed, "
                 "rename keeps the file content; a connection is wrapped (WaitGroup.Add) only while its fetch goroutine is inside "
                 "client.Do (net/http cancels a pending dial with its request); DNS 'resource' batches (sent and awaited by the "
                 "fetch goroutine itself) are not modelled",
                 "Go's select may pick any ready case (a cancelled worker may still take a seed)"],
    level_text="Theorems for EVERY stop moment (any worker states, channel contents, pending pause tokens, worker and WARC-file counts) "
               "and every interleaving: each step decreases an explicit measure (bounded time, no livelock), some step is enabled until "
               "the stop sequence is complete (no deadlock), and the only stuck states are stopped ones with all workers returned and all "
               "WARC files renamed; the pre-fix worker loop is refuted by a witness. The WARC side of the stop sequence "
               "has its own LTS and theorems for every state and interleaving: no send on a closed channel (no panic), an explicit "
               "measure, stuck = final, every renamed file holds whole batches only and no *.open file is left, conservation of "
               "records (disk + owed changes only by started fetches and discarded exchanges), no deadlock incl. unbuffered hand-over "
               "and synchronous feedback waits; closing the client before the workers returned / without WaitGroup.Wait is refuted by "
               "witness schedules reaching the panic. Tied to the code by a matrix of real crawls stopped "
               "through the real controler.Stop() at every hook point / while paused / at quiescence x proxy/direct, sync/async, limiter, "
               "workers, pool, on-disk, seencheck on/off, with an independent WARC reader; both models are run from the abstracted "
               "stop state of every crawl and compared with the observation (returned, no crash, workers gone, no .open, no bad file, "
               "one file per writer, request/response pairs, every acknowledged exchange on disk). "
               "Rate limiter: for every capacity, configured rate and every history of a host's answers (any number of consecutive 5xx, "
               "429-class penalties, successes, polls) all n goroutines waiting for the host's token are served 30 s (penalty cap) + n "
               "tokens' worth of time at the floor rate min(1/2, rate) after the host's last answer (2 s each in the usual configurations); "
               "a 5xx branch without the floor is refuted by a witness (six 503: still waiting ten hours later). Tied to the code by the "
               "limwait leg (the real tokenBucket under an injected clock: histories, then n real Wait() calls at the covered instant; the "
               "monitor is the theorem's own statement, C03_limiter_monitor_is_theorem) and, end to end, by stop cases with the limiter on, "
               "every row on one host that answers 503 to the whole first wave of fetches and retries (>= 5 consecutive 5xx) and the stop "
               "request arriving when the next row of that host reaches a worker, with a bound on Stop() computed from the code's constants.",
)
