PROP = dict(
    coq=["Html/HtmlHarness.vo", "Html/Lit.vo"],
    legs=[
        dict(driver="html", binary="zhtml", quick=400, thorough=12000, shard=50,
             monitors=["standard_attrs_extracted (every planted asset URL outside the named exclusions, tag enabled, is among HTMLAssets' strings)",
                       "anchors_become_outlinks (every planted <a href>, resolved, is among HTMLOutlinks' URLs and, hop limit allowing, among the items postprocessItem returns)",
                       "requested_unless_excused (children / outlink items normalise to the RFC 3986 resolution of every planted simple reference)",
                       "property_text_without_exclusions (as the previous one, for every planted reference: the code's deliberate heuristics show up here)",
                       "redirect_chain_followed (not applicable to this driver)"]),
        dict(driver="htmlreq", binary="zhtml", quick=200, thorough=4000, shard=50,
             monitors=["standard_attrs_extracted (as for html)",
                       "anchors_become_outlinks (the page sits behind 0..4 redirects in a seed tree built by the real postprocess()/preprocess(): redirects do not count for the depth limit)",
                       "requested_unless_excused (the REQUEST the real preprocess() built for every planted simple reference has the URL of its RFC 3986 resolution against the PAGE - the last URL of the chain, not the seed)",
                       "property_text_without_exclusions (the same for every planted reference)",
                       "redirect_chain_followed (the item that received the page has the URL the chain of Location headers leads to, every hop resolved against its parent)"]),
        dict(driver="htmlarch", binary="zhtml", quick=150, thorough=3000, shard=50,
             monitors=["standard_attrs_extracted (as for html)",
                       "anchors_become_outlinks (the page was fetched by the real archiver stage: archive() and its own call of ProcessBody)",
                       "requested_unless_excused (requests built by the real preprocess() after the real archive() and postprocess(), under domains crawl x disable-assets-capture x max-hops x hops)",
                       "property_text_without_exclusions (the same with the excuses of the property text only)",
                       "redirect_chain_followed (the archived item has the page URL)"]),
    ],
    partial="goquery / golang.org/x/net/html, net/url (resolveURL), ada (NormalizeURL), encoding/json and xurls are oracles: the theorems are over DOMs and over reference ASTs of the simple forms; "
            "the driver checks on every document that the real parser reads the rendering back to the generated DOM and records the oracles' answers. No theorem covers arbitrary bytes.",
    assumptions=["extractOutlinks reaches the HTML extractor unless is_s3(Server, Content-Type) (transcribed in Html.v, after the repair C07-s3-xhtml: XHTML is not claimed by IsS3)",
                 "the HTML parser reads the rendering of a generated DOM back to that DOM (checked node by node on every case)",
                 "on simple references NormalizeURL (ada) returns the RFC 3986 section 5.2 resolution against the parent it is given (checked on every planted reference by monitor 2, on every redirect hop by monitor 4)",
                 "the two CSS regular expressions match what Scan.bg_scan / Scan.css_scan say on valid UTF-8, and srcsetURLs what Scan.ss_scan says (checked by the edge stream)"],
    level_text="Theorems for all DOMs, all configurations (disable-html-tag, capture-alternate-pages, disable-assets-capture, max-hops) and all item states: every URL planted in a standard embedding attribute "
               "is extracted unless a NAMED exclusion applies, anchors become outlinks under the hop guard, the S3 listing decoder only gets XML content types (anchors of an HTML page are handed on whatever the Server header says), redirects do not count for the depth limit and the base of resolution moves along a redirect chain to the page (all chain lengths), the srcset splitter (HTML's algorithm: commas inside URLs, any ASCII white space before descriptors) and the two url() scanners are complete on well-formed values; the code before the C07 repairs is kept as _orig definitions with refutation witnesses; "
               "tied to HTMLAssets/HTMLOutlinks/postprocessItem/NormalizeURL by a differential check on generated documents.",
)
