PROP = dict(
    coq=["Stage/PassHarness.vo", "Pipe/PipeHarness.vo", "Pipe/PipeExamples.vo", "Stage/PassTests.vo"],
    legs=[
        dict(driver="pass", quick=600, thorough=30000, shard=50, noshrink=True,
             monitors=["finished_exactly_once", "wellformed_at_stage_boundaries", "finish_iff_tree_done",
                       "unique_urls_after_preprocess", "redirect_chain_le_max", "asset_depth_le_3", "fetched_once", "redirect_within_limit_always_followed", "redirect_target_kept_whatever_its_path"]),
        dict(driver="pipe", quick=36, thorough=1500, shard=12,
             monitors=["finished_exactly_once (one fin.finished, one notification, one delete per queue row)",
                       "finished_only_when_tree_done", "no_fetch_after_finish", "every_built_request_fetched_before_pass_end",
                       "in_flight_le_tokens", "reactor_idle_at_quiescence", "wellformed_at_stage_boundaries",
                       "seed_in_one_place_at_a_time", "attempts_le_max_retry_plus_1", "redirect_chain_and_asset_depth_bounds",
                       "accepted_responses_in_warc_when_seed_finished", "crawl_never_wedged_with_seeds_in_flight", "no_seed_fetched_beyond_max_hops (depth along the via chain, through the queue)",
                       "queue_receives_one_finish_report_per_row_and_a_reported_row_is_out_of_the_pipeline (reports counted at the queue's own finisher: those of the pipeline's finisher and those of the queue's consumer for rows that are not URLs; no offer/insert/stage hook/fetch of a row after its report)"]),
    ],
    partial="Go scheduler / channel runtime are taken to implement the interleaving semantics of the LTS (channels as bags: "
            "FIFO order is not needed by any theorem). Termination (an explicit bound on the length of every execution) is proved for "
            "--domains-crawl off, the case for which C06 bounds the passes of a seed; with it on, safety, deadlock freedom and 'stuck "
            "implies everything finished' stand. The per-seed statements of Stage/PassSpec.v are proved (Stage/PassProofs.v) and are also "
            "exercised pass by pass against the real stage workers.",
    assumptions=["channels are linearizable bags of capacity WorkersCount; the reactor API is atomic at call granularity (C12)",
                 "stage workers own a seed exclusively between receive and send",
                 "queue row ids are pairwise distinct (UNIQUE primary key of lq.db)"],
    level_text="Theorems over ALL label sequences of the pipeline LTS (every interleaving of reactor, stage workers and finisher for any "
               "worker count, every site behaviour through per-pass oracles): no panic, finished at most once and only with no pending "
               "node, conservation of queue rows, token accounting, deadlock freedom, stuck => all finished exactly once, every execution finite with an explicit bound (domains-crawl off); "
               "at the queue's side (the list of finish reports along an execution, sent by the finisher or - for a row whose text is not a URL - at once by the queue's own consumer): no row reported twice, "
               "exactly once each at rest, a reported row never again queued / tracked / in a channel / reported, a row finished at once never in the pipeline before or after; per seed: no stage panics, well-formed at every boundary, Finish iff nothing pending, no URL fetched by two nodes. Tied to the "
               "code twice: (1) the real reactor/preprocessor/postprocessor/finisher workers replayed pass by pass against the stage "
               "model; (2) whole real crawls (controler.Start/Stop, local queue, WARC writer, origin server, perturbed schedules, "
               "W in 1..4, asset concurrency 1..3, queue rows that are not URLs mixed among the seeds) whose hook-event traces are replayed through PipeLts.step; finish reports "
               "are counted where the queue receives them.",
)
