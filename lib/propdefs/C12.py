PROP = dict(
    coq=["Reactor/ReactorHarness.vo"],
    legs=[
        dict(driver="reactor", binary="zreactor", quick=900, thorough=12000, shard=150,
             monitors=["accounting (tokens <= cap, tracked <= tokens, equal when no call is in progress)",
                       "ledger (tracked seeds = accepted - finished)",
                       "rejected call changes nothing",
                       "closed reactor accepts nothing",
                       "delivery in send order",
                       "feedback never blocks (well-formed client)"]),
    ],
    partial="",
    assumptions=[],
    level_text="",
)
