PROP = dict(
    coq=["Reactor/ReactorHarness.vo"],
    legs=[
        dict(driver="reactor", binary="zreactor", quick=1300, thorough=15000, shard=150,
             monitors=["accounting (tokens <= cap, tracked <= tokens, equal when no call is in progress)",
                       "ledger (tracked seeds = accepted - finished)",
                       "rejected call changes nothing",
                       "closed reactor accepts nothing",
                       "delivery in send order",
                       "feedback never blocks (well-formed client)",
                       "answers depend on the seed id only (finish nil iff tracked, feedback 'not present' iff untracked)"]),
        dict(driver="reactorc", binary="zreactor", quick=1500, thorough=24000, shard=100,
             monitors=["no deadlock (run became quiescent)",
                       "bounded in-flight seeds at every moment of the history",
                       "quiescent accounting (tokens = tracked = accepted - finished)",
                       "every accepted seed delivered, once per accepted insert/feedback",
                       "rejections (unknown feedback, repeated finish) exact; a finished accepted seed has one successful finish",
                       "closed reactor accepts nothing"]),
        dict(driver="reactorcfg", binary="zreactor", quick=90, thorough=600, shard=300, noshrink=True,
             monitors=["input channel has room for every token holder (cap(input) >= token count)",
                       "cap(tokenPool) = token count",
                       "filled reactor: all n inserts return with the output not drained, feedback of a received seed returns nil"]),
        dict(driver="reactorpipe", quick=1, thorough=40, shard=50, noshrink=True,
             monitors=["the pipeline gives the reactor exactly --workers tokens",
                       "at most --workers seeds tracked at every sample of a real crawl",
                       "the crawl completed"]),
    ],
    partial="Linearizability of the fine-grained transition system with respect to its own call-granularity runs is checked on "
            "recorded concurrent histories (Wing-Gong search evaluated in Coq), not proved. The Go memory model is not modelled: "
            "Stop()/Freeze() read and write the package variable globalReactor without synchronisation (a data race if they overlap "
            "API calls); Stop() concurrent with an API call can panic (nil dereference, send on closed channel) - in the model this "
            "is the crashed flag, excluded by the client discipline (Zeno stops every stage and the source before reactor.Stop()).",
    assumptions=["Go channels are linearizable FIFO queues, sync.Map operations (Load, LoadOrStore, CompareAndSwap, LoadAndDelete) are atomic, "
                 "context cancellation is monotone and a cancelled parent cancels its child; select fires any ready arm",
                 "the model is id-based by construction: operations carry a seed id, the state table is a set of ids, so no answer can depend on "
                 "which *models.Item object carries the id (a CompareAndSwap in ReceiveFeedback that fails because another object was stored "
                 "meanwhile is retried by the loop: a stutter); the drivers issue feedback / finish with distinct objects of the same id in 60% of the cases",
                 "items passed to the reactor are seeds (the IsSeed() panic path is not exercised)"],
    level_text="Theorems over ALL label sequences of a labelled transition system whose steps are the individual channel / sync.Map / "
               "context operations of reactor.go (any number of concurrent calls, every select arm chosen by the label, all token counts "
               "and output capacities): accounting invariant, per-seed token ledger, FIFO conservation, delivery (explicit schedule + "
               "bounded, never-stuck system steps), feedback costs no token and never blocks (well-formed client), rejections without side "
               "effects, closed reactor accepts nothing, deadlock freedom + decreasing measure; refutation witnesses for the two defects of "
               "the original code. Tied to the real reactor on every run by sequential histories compared step by step and concurrent "
               "histories checked by monitors and a linearizability search.",
    technique="Coq LTS + induction over label lists; differential testing at call granularity; monitors; Wing-Gong linearizability check in Coq",
)
