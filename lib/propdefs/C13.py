PROP = dict(
    coq=["Rate/RateHarness.vo"],
    search_mult=4,
    legs=[
        dict(driver="bucket", binary="zrate", quick=900, thorough=20000, shard=60,
             monitors=["tokens_range", "rate_range", "window_bound", "penalty_honoured",
                       "five_xx_only_lowers", "success_only_raises_to_ideal"]),
        dict(driver="mgr", binary="zrate", quick=120, thorough=1500, shard=30,
             monitors=["table_bounded", "lifetime_window_bound", "lifetime_penalty_honoured",
                       "host_window_bound_across_evictions", "host_penalty_across_evictions"]),
        # the same stream under the Go race detector (a detected race makes the driver exit 66)
        dict(driver="mgr", binary="zrate", race=True, noshrink=True, quick=60, thorough=400, shard=30,
             monitors=["table_bounded", "lifetime_window_bound", "lifetime_penalty_honoured",
                       "host_window_bound_across_evictions", "host_penalty_across_evictions"]),
        # concurrent first contact: k goroutines leave a spin barrier together and call Wait (one of them possibly
        # AdjustOnFailure(429)) for a host that has no bucket yet; no eviction/cleanup can happen in these cases, so the
        # lifetime window bound / penalty must hold for every schedule (catches a non-atomic check-then-insert in getBucket)
        # rounds with the suffix x: the context handed to NewBucketManager is cancelled (what archiver.Stop does) while callers are
        # blocked in Wait on an empty bucket / under a penalty, later rounds run on the cancelled manager: a return of Wait is a
        # release, so the same window/penalty predicates must hold (C13_cancel_* theorems, Rate/Cancel.v)
        dict(driver="mgrconc", binary="zrate", noshrink=True, quick=24, thorough=300, shard=30,
             monitors=["table_bounded", "lifetime_window_bound", "lifetime_penalty_honoured",
                       "host_window_bound_across_evictions", "host_penalty_across_evictions"]),
        # the table bound under concurrent bursts of NEW hosts on a table just below its bound (small maxBuckets, spin barrier,
        # table size read at quiescence after every burst); shared with C16
        dict(driver="mgrburst", binary="zrate", quick=30, thorough=600, shard=40,
             monitors=["table_bounded"]),
        # the archiver's use of the limiter: real archiver.Start/worker/archive() + real HTTP against a local origin with a
        # scripted status sequence per host, max-retry 0-2; requests observed as they arrive at the origin, bucket state
        # (failure count, rate) read after the first item
        # one driver process per (capacity, rate) pair - the archiver can be started once per process; capacity != rate so
        # that the order of the two values in archiver.Start is visible
        # ... and one --warc-discard-status list per process (403,429 / 403 / Zeno's default 429): the script alphabet has the
        # Cloudflare challenge page (403c = 403 + cf-mitigated: challenge), which archive() must report to the limiter as a
        # throttling failure whatever the discard list says about status 403, and the plain 403 (a success for archive())
        dict(driver="archrl", binary="zratearch", noshrink=True, env={"ZV_ARCHRL_CONF": "2,7", "ZV_ARCHRL_DISCARD": "403,429"}, quick=8, thorough=60, shard=50,
             monitors=["penalty_honoured_at_origin_across_items", "every_failure_answer_reported_5xx_lowers_rate",
                       "limiter_built_with_operator_capacity_and_rate", "window_bound_at_origin_with_configured_values"]),
        dict(driver="archrl", binary="zratearch", noshrink=True, env={"ZV_ARCHRL_CONF": "9,1", "ZV_ARCHRL_DISCARD": "403"}, quick=6, thorough=50, shard=50,
             monitors=["penalty_honoured_at_origin_across_items", "every_failure_answer_reported_5xx_lowers_rate",
                       "limiter_built_with_operator_capacity_and_rate", "window_bound_at_origin_with_configured_values"]),
        dict(driver="archrl", binary="zratearch", noshrink=True, env={"ZV_ARCHRL_CONF": "150,50", "ZV_ARCHRL_DISCARD": "429"}, quick=6, thorough=50, shard=50,
             monitors=["penalty_honoured_at_origin_across_items", "every_failure_answer_reported_5xx_lowers_rate",
                       "limiter_built_with_operator_capacity_and_rate", "window_bound_at_origin_with_configured_values"]),
        # a STOP of the crawl with workers blocked in the limiter's Wait (penalty after 429/408/425/challenge, or empty bucket at
        # 0.2 tokens/s): one process = all cases brought to their blocked state, then ONE archiver.Stop(); the origin is watched
        # for another 1.5 s: no request of another item inside the penalty, no request without a token, also during shutdown
        dict(driver="archstop", binary="zratearch", noshrink=True, env={"ZV_ARCHRL_CONF": "3,0.2", "ZV_ARCHRL_DISCARD": "403,429"},
             quick=6, thorough=40, shard=50,
             monitors=["penalty_honoured_at_origin_across_items", "every_failure_answer_reported_5xx_lowers_rate",
                       "limiter_built_with_operator_capacity_and_rate", "window_bound_at_origin_with_configured_values"]),
        # hosts in continuous use while the stale-bucket sweep ticks (cleanup period 250-400 ms real time, table far from full):
        # a bucket accessed within the last period is never swept, window/penalty bounds hold across the ticks
        dict(driver="mgrsweep", binary="zrate", noshrink=True, quick=10, thorough=150, shard=40,
             monitors=["sweep_spares_active_hosts", "window_bound_across_sweeps_for_busy_hosts",
                       "penalty_honoured_across_sweeps_for_busy_hosts"]),
    ],
    partial="IEEE-754: the model computes over Q where the code uses binary64 (tokens/rate compared within 1e-9, a grant decision "
            "within 1e-6 of the threshold is not compared); per-host bounds hold for a bucket's lifetime only - LFU eviction and the "
            "stale-bucket cleanup hand a host a fresh full bucket (known finding); archive() retries do not pass through Wait (the archrl leg checks, on the real archiver, that every item passes through Wait once, that every failure answer - also the one to the last permitted attempt - is reported, and that no request of another item reaches the origin inside the penalty; a plain 403 is not reported by archive(), a 403 Cloudflare challenge page is - whatever --warc-discard-status says; the archstop leg checks the same at the origin across archiver.Stop()).",
    assumptions=["binary64 arithmetic of refill/adjustOnFailure/onSuccess is within 1e-9 of exact arithmetic (checked on every run, not proved)",
                 "clock readings taken under tb.mu are non-decreasing in lock order (monotonic clock)",
                 "capacity >= 0 and configured rate >= 0 (NaN/negative configuration not modelled)",
                 "table bound: host names non-empty and fewer than 2^31-1 getBucket calls per manager (evictLFU scans below math.MaxInt32 and uses \"\" as 'none')"],
    level_text="Theorems by induction over all operation histories (= all schedules, operations being atomic under the bucket mutex) and all "
               "clock readings: ranges for every history; window bound by a potential-function argument; penalty by an invariant; manager "
               "table bound over all label lists incl. every eviction choice. Model tied to the real bucket under a virtual clock by one-step "
               "simulation from the implementation's own state, and to the real BucketManager by a real-time black-box stream. "
               "Stopping the crawl: an LTS of callers inside the blocking Wait with cancellations of the manager's context at arbitrary points; "
               "theorem: every run is a run of the manager without the cancellations and the returned Wait calls are exactly its token grants "
               "(so window bound and penalty hold for the returns across a stop); tied to the real manager (mgrconc rounds with a cancel) and "
               "to the real archiver stopped with workers blocked in Wait (archstop leg, observed at the origin).",
)
