PROP = dict(
    coq=["Stage/PassHarness.vo"],
    legs=[
        dict(driver="pass", quick=1500, thorough=30000, shard=50, noshrink=True,
             monitors=["finished_exactly_once", "wellformed_at_stage_boundaries", "finish_iff_tree_done",
                       "unique_urls_after_preprocess", "redirect_chain_le_max", "asset_depth_le_3", "fetched_once"]),
    ],
    partial="Go scheduler / channel runtime are taken as the interleaving semantics; the archiver stage is scripted in the "
            "component driver (its real code runs in the end-to-end leg).",
    assumptions=["channels are linearizable FIFOs", "stage workers own a seed exclusively between receive and send"],
    level_text="Theorems over all oracle sequences (= all site behaviours, seen-store answers, filter outcomes) about the stage model, which is replayed pass by pass against the real reactor/preprocessor/postprocessor/finisher workers.",
)
