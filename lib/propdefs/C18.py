PROP = dict(
    coq=["Disk/DiskHarness.vo"],
    legs=[
        dict(driver="disk", quick=6000, thorough=300000, shard=400,
             monitors=["refuse_exact (spec over Q: refused <-> free < floor(tau))", "refuse_monotone"]),
        dict(driver="diskstat", quick=15, thorough=15, shard=20, noshrink=True,
             monitors=["refuse_exact (spec over Q: refused <-> free < floor(tau))", "refuse_monotone"]),
        dict(driver="diskwatch", quick=6, thorough=80, shard=100, noshrink=True,
             monitors=["watcher_tracks (paused <-> last sample low)", "watcher_alternates"]),
        dict(driver="diskstart", quick=6, thorough=40, shard=100, noshrink=True,
             monitors=["start_refuse_exact (refused to start <-> free on the JOB volume < floor(tau))"]),
        dict(driver="diskflag", quick=25, thorough=400, shard=500, noshrink=True,
             monitors=["flag_exact (--min-space-required as given on the command line = the value the guard uses, bit for bit)"]),
        dict(driver="diskhold", quick=4, thorough=24, shard=100, noshrink=True,
             monitors=["watcher_tracks (paused <-> last sample low)", "watcher_alternates"]),
    ],
    partial="IEEE-754: the float operations of checkThreshold are exact on the domain (argument in DESIGN.md C18); "
            "the float->uint64 conversion is modelled as floor where Go defines it (< 2^64) and left unconstrained beyond.",
    assumptions=["binary64 multiplication/division by powers of two and total*25/128 for total <= 2^38 are exact",
                 "uint64(f) = floor(f) for 0 <= f < 2^64 (Go spec); implementation-defined beyond, not compared"],
    level_text="Theorems for all (total, free, operator value) triples: the decision equals free < floor(tau) with tau spelled as in the property (exact to the byte) wherever Go defines the float->uint64 conversion, monotone in free space for ALL inputs incl. NaN/Inf/out-of-range, branches meet at 256 GiB, watcher loop tracks the threshold on every tick sequence. Model tied to checkThreshold and to the real WatchDiskSpace loop by a boundary-dense differential check on every run, and to the real start-up check (controler.Start in a child process, job directory and working directory on different filesystems on opposite sides of the threshold; trivial when the machine offers only one filesystem), to the real command line path of the operator value (cobra flags -> viper -> InitConfig in a child process) (this leg found that exactly the value 20 was reset to 0; fixed by /repo 55466e0, model = the fixed code) and to the real pipeline with all watchers sharing the pause manager (the disk watcher's pause holds while the disk stays low, sync and async WARC writing).",
)
