PROP = dict(
    coq=["Disk/DiskHarness.vo", "Disk/FloatExact.vo", "Disk/FloatExactProofs.vo"],
    legs=[
        dict(driver="disk", quick=6000, thorough=300000, shard=400,
             monitors=["refuse_exact (spec over Q: refused <-> free < floor(tau))", "refuse_monotone"]),
        dict(driver="diskstat", quick=15, thorough=15, shard=20, noshrink=True,
             monitors=["refuse_exact (spec over Q: refused <-> free < floor(tau))", "refuse_monotone"]),
        dict(driver="diskwatch", quick=6, thorough=80, shard=100, noshrink=True,
             monitors=["watcher_tracks (paused <-> last sample low)", "watcher_alternates"]),
        dict(driver="diskstart", quick=6, thorough=40, shard=100, noshrink=True,
             monitors=["start_refuse_exact (refused to start <-> free on the JOB volume < floor(tau))"]),
        dict(driver="diskflag", quick=25, thorough=400, shard=500, noshrink=True,
             monitors=["flag_exact (--min-space-required as given on the command line = the value the guard uses, bit for bit)"]),
        dict(driver="diskhold", quick=4, thorough=24, shard=100, noshrink=True,
             monitors=["watcher_tracks (paused <-> last sample low)", "watcher_alternates"]),
    ],
    partial="IEEE-754: checkThreshold's float computation is modelled operation by operation in Flocq's binary64 (Disk/FloatExact.v) and PROVED equal "
            "to the integer model on every volume size, free-space value and binary64 operator value (C18_float_exact; the default and the operator rule never round: "
            "C18_float_default_exact, C18_float_operator_exact). These four theorems use the standard library's axioms of the real numbers "
            "(ClassicalDedekindReals.sig_forall_dec, sig_not_dec, FunctionalExtensionality.functional_extensionality_dep, Classical_Prop.classic) through Flocq. "
            "The float->uint64 conversion is truncation where Go defines it (result in [0, 2^64)) and left unconstrained beyond (both models say None on exactly the same inputs).",
    assumptions=["Go's float64 arithmetic is IEEE-754 binary64 with round-to-nearest-even, no fused operations across the explicit float64() conversions (Go spec); Flocq 4.1.0's Binary/Bits formalisation of it",
                 "uint64(f) = trunc(f) for 0 <= trunc(f) < 2^64 (Go spec); implementation-defined beyond, not compared",
                 "axioms of R from Coq's standard library (sig_forall_dec, sig_not_dec, functional_extensionality_dep, classic) under the four C18_float_* theorems only"],
    level_text="Theorems for all (total, free, operator value) triples: the decision equals free < floor(tau) with tau spelled as in the property (exact to the byte) wherever Go defines the float->uint64 conversion, monotone in free space for ALL inputs incl. NaN/Inf/out-of-range, branches meet at 256 GiB, watcher loop tracks the threshold on every tick sequence. The float computation itself (Flocq binary64, every operation of checkThreshold) is proved equal to that integer model for every binary64 operator value, NaN/Inf/subnormal/overflowing included (kernel-checked; standard-library axioms of R). Both models tied to checkThreshold (the Flocq model is run on the very float of each case) and to the real WatchDiskSpace loop by a boundary-dense differential check on every run, and to the real start-up check (controler.Start in a child process, job directory and working directory on different filesystems on opposite sides of the threshold; trivial when the machine offers only one filesystem), to the real command line path of the operator value (cobra flags -> viper -> InitConfig in a child process) (this leg found that exactly the value 20 was reset to 0; fixed by /repo 55466e0, model = the fixed code) and to the real pipeline with all watchers sharing the pause manager (the disk watcher's pause holds while the disk stays low, sync and async WARC writing).",
)
