PROP = dict(
    coq=["Stage/PassHarness.vo", "Stage/OutlinksHarness.vo", "Pipe/PipeHarness.vo", "Stage/PassTests.vo"],
    legs=[
        dict(driver="pass", quick=500, thorough=30000, shard=50, noshrink=True,
             monitors=["finished_exactly_once", "wellformed_at_stage_boundaries", "finish_iff_tree_done",
                       "unique_urls_after_preprocess", "redirect_chain_le_max", "asset_depth_le_3", "fetched_once", "redirect_within_limit_always_followed", "redirect_target_kept_whatever_its_path"]),
        dict(driver="hops", quick=1200, thorough=60000, shard=600,
             monitors=["outlink_hop_rule", "children_inherit_hops", "redirect_counter_and_limit", "outlink_via_is_parent_page"]),
        dict(driver="pipeadv", quick=14, thorough=500, shard=7, noshrink=True,
             monitors=["finished_exactly_once", "finished_only_when_tree_done", "no_fetch_after_finish", "every_built_request_fetched_before_pass_end",
                       "in_flight_le_tokens", "reactor_idle_at_quiescence", "wellformed_at_stage_boundaries", "seed_in_one_place_at_a_time",
                       "attempts_le_max_retry_plus_1", "redirect_chain_and_asset_depth_bounds", "accepted_responses_in_warc_when_seed_finished", "crawl_never_wedged_with_seeds_in_flight", "no_seed_fetched_beyond_max_hops (depth along the via chain, through the queue)"]),
    ],
    partial="With --domains-crawl active the code disables the asset-depth cut-off on purpose; the depth and pass-bound theorems are stated "
            "for domains-crawl off, as the property is. The retry loop's bound is C02's model of archive() (Warc/Retry.v), tied to the code "
            "by C02's archive-to-WARC leg and by the attempt-count monitor on real crawls of adversarial sites. What the extractors return is "
            "an input of the hop-rule model (the extractors themselves are C07 / C19).",
    assumptions=["--max-retry >= 0"],
    level_text="Theorems for every oracle list (= every server behaviour): redirect counters exact and <= max-redirect, asset depth <= 3, a seed "
               "finishes within 4*(max-redirect+1) passes (tight), at most max-retry+1 attempts per visit, and the hop rules as equalities on "
               "what is queued. Tied to the code by the real stage workers replayed pass by pass, the real postprocessItem on synthetic pages "
               "(hops x max-hops x domains-crawl on/off x statuses x redirect counters), and real crawls of adversarial sites.",
)
