PROP = dict(
    coq=["Pipe/FootprintHarness.vo", "Pipe/PipeExamples.vo", "Rate/RateHarness.vo"],
    legs=[
        dict(driver="footprint", quick=8, thorough=120, shard=8, noshrink=True,
             monitors=["both_runs_reach_quiescence", "reactor_tracks_nothing_and_all_tokens_free", "no_body_or_temp_file_left",
                       "limiter_table_within_bound", "fds_and_goroutines_do_not_grow_from_N_to_4N",
                       "descriptors_on_files_do_not_grow_from_N_to_4N", "log_directory_holds_at_most_one_descriptor"]),
        # the real BucketManager under a stream of Wait / failure / success reports and cleanups (driver shared with C13;
        # only the table-bound monitor belongs to this property)
        dict(driver="mgr", binary="zrate", corpus_from="C13", quick=60, thorough=800, shard=30, only_monitors=[0],
             monitors=["table_bounded", "lifetime_window_bound", "lifetime_penalty_honoured",
                       "host_window_bound_across_evictions", "host_penalty_across_evictions"]),
        # concurrent bursts of new hosts against a table just below its bound (driver shared with C13): size read at quiescence
        dict(driver="mgrburst", binary="zrate", corpus_from="C13", quick=30, thorough=600, shard=40, only_monitors=[0],
             monitors=["table_bounded"]),
    ],
    partial="Goroutine and file-descriptor counts are facts of the Go runtime and the OS that no executable model can exhibit: they are "
            "measured (N against 4N seeds, separate processes, same configuration), not proved; the comparison tolerates a few idle "
            "keep-alive connections either way (descriptors on files: one). In half of the runs with a small heap the collector is off, so "
            "that a descriptor whose Close() was lost is not closed behind the scenes by a finalizer; in the other runs such a leak shows only "
            "as far as the collector has not run since. What IS proved, for any number of seeds: the reactor is empty and all tokens are free in "
            "every stuck state, at most W seeds are ever in flight, no node holds a body after post-processing, archive() closes every body "
            "it opens, the limiter table stays within its bound, the rotated log file holds at most one descriptor after any number of rotations.",
    assumptions=["host names are non-empty and fewer than 2^31-1 bucket requests are made (hypotheses of the limiter-table bound, shown necessary in Rate/ManagerProofs.v)",
                 "idle footprint is sampled 300 ms after quiescence",
                 "descriptors are classified by the target of their /proc/self/fd link (log directory of the job, WARC files, WARC temp directory, databases, sockets, pipes, other)"],
    level_text="Theorems for every number of queue rows, worker count, interleaving and site behaviour (reactor idle at quiescence, in-flight "
               "bounded, bodies closed, limiter table bounded) and for every sequence of log rotations, writes and closes (the rotated log file holds "
               "at most one descriptor) + a measured comparison of the quiescent footprint after N and after 4N seeds "
               "(large spooled bodies, failures, redirects, up to 40 hosts so that the limiter table evicts; in half of the cases with file logging through "
               "the real log.Start() and --log-file-rotation of 10-35 ms, so that the 4N run sees many more rotations; partly with the collector "
               "off so that finalizers hide nothing; descriptors counted in total and by kind) on the real pipeline.",
)
