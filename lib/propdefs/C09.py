PROP = dict(
    coq=["Url/UrlHarness.vo", "Url/Lit.vo"],
    legs=[
        dict(driver="url", binary="zurl", quick=6000, thorough=120000, shard=400,
             monitors=["deterministic (same answer on 5 fresh evaluations)",
                       "idempotent (canonical string is a fixed point, modulo quote stripping)",
                       "shape_ok (http/https, dotted non-loopback host, absolute path, no fragment, no dot segment)",
                       "query_order_kept (parameters of a well-formed query keep order and multiplicity)",
                       "resolve_keeps_origin (a reference without scheme and authority keeps the parent's scheme, credentials, host and port)",
                       "resolve_in_directory (a path-relative reference without dot segments lands in the parent's directory)"]),
    ],
    partial="The ada (WHATWG) parser, net/url and x/net/idna are oracles: the theorems are about the reference normaliser on the reference grammar (URL ASTs); outside the grammar only the monitored sample speaks.",
    assumptions=["on the reference grammar ada + net/url behave as the reference normaliser says (validated on every generated in-grammar URL by the driver)"],
    level_text="Theorems for all URLs/references of the reference grammar and all byte strings (escape/query).",
)
