PROP = dict(
    coq=["Url/UrlHarness.vo", "Url/Lit.vo", "Html/HtmlHarness.vo", "Html/Lit.vo"],
    legs=[
        dict(driver="url", binary="zurl", quick=6000, thorough=120000, shard=400,
             monitors=["deterministic (same answer on 5 fresh evaluations, parent's String() called before or not)",
                       "idempotent (canonical string is a fixed point, modulo quote stripping)",
                       "shape_ok (http/https, dotted non-loopback host, absolute path, no fragment, no dot segment, no panic)",
                       "query_order_kept (the well-formed parameters of a query keep order and multiplicity, whatever droppable pieces - empty, semicolon, bad escape - surround them)",
                       "resolve_keeps_origin (a reference without scheme and authority keeps the parent's scheme, credentials, host and port)",
                       "resolve_in_directory (a path-relative reference without dot segments lands in the parent's directory)",
                       "fragment_irrelevant (the text and the text cut at its first '#' get the same answer, however many '#' follow)",
                       "scheme_relative_takes_parent_scheme (a //host reference under a parent gets the parent's scheme, RFC 3986 5.2.2)",
                       "state_independent (an object parsed before normalisation, as the sources do for seeds, gives the same String(), Raw and parsed URL as a fresh one; String() is the text of the parsed URL; for an object that was also stringed before: same outcome class and Raw)",
                       "string_cache_fresh (String() and the parsed URL are canonical also on an object whose String() was called before normalisation)"]),
        # the same normaliser reached through the pipeline: seed -> preprocess() -> 3xx with a Location header -> postprocessItem() ->
        # preprocess(); the Location texts are the url generator's references, weighted towards those on which RFC 3986 / net/url and
        # the URL standard disagree (backslashes, tabs, blanks, %2e dot segments, "\\\\host", empty / "." / "..")
        dict(driver="urlredir", binary="zurl", quick=2500, thorough=60000, shard=400,
             monitors=["redirect_target_is_normalize (the redirect target's URL is what NormalizeURL gives for (Location text, parent): nothing in between interprets the reference)",
                       "shape_ok (as in the url leg) and the request goes to the canonical URL",
                       "resolve_keeps_origin (as in the url leg)",
                       "resolve_in_directory (as in the url leg)",
                       "scheme_relative_takes_parent_scheme (as in the url leg)"]),
        # "resolve against the PARENT": which URL the callers hand to NormalizeURL as the parent. The driver of C07 builds seed trees with
        # redirect chains through the real postprocess()/preprocess(); only its monitor 4 belongs to this property (every hop of a chain
        # of Location headers is resolved against the item it was found on, not against the seed)
        dict(driver="htmlreq", binary="zhtml", corpus_from="C07", quick=120, thorough=3000, shard=50, only_monitors=[4],
             monitors=["(C07)", "(C07)", "(C07)", "(C07)",
                       "redirect_chain_followed (the item that received the page has the URL the chain of Location headers leads to, every hop resolved against its parent)"]),
    ],
    partial="The ada (WHATWG) parser, net/url and x/net/idna are oracles: the theorems are about the reference normaliser "
            "(coq/Url/Resolve.v) on URL ASTs of the reference grammar (coq/Url/RefUrl.v: in_grammar); text -> AST parsing is "
            "bypassed by generating ASTs and rendering them. Outside the grammar (IDN, IPv6, numeric hosts, backslashes, "
            "control bytes, bytes that net/url re-escapes in a path) there is no theorem, only the monitored sample. "
            "The model follows the code after the two repairs committed to /repo (8ac6930 query order, ce05a6f base choice; patches in fixes/C09-*.diff); the code as found is kept "
            "as reencode_orig / normalize_orig with refutation lemmas. Three third-party deviations are known findings "
            "(ada-dotpath, invalid-utf8, netpath-reescape).",
    assumptions=["on the reference grammar ada + net/url behave as the reference normaliser says (URL standard: lower-casing, default port, "
                 "credential clean-up, dot-segment removal, special-query percent-encoding; net/url keeps a valid raw path verbatim) - "
                 "validated against the real functions on every generated in-grammar case (98.8% of the grammar stream)",
                 "'loopback' is what the code checks: the canonical hostname is neither \"localhost\" nor \"127.0.0.1\" and contains a dot"],
    level_text="32 theorems, closed under the global context. For ALL byte strings: QueryUnescape(QueryEscape s) = s; parse(encode ps) = ps "
               "(order, multiplicity); ada's query encoding is invisible to url.ParseQuery. For ALL URL ASTs, parents and reference forms: "
               "the normaliser is a function and independent of whether String() was already called on the parent; an accepted result "
               "normalised again with any parent is itself; every accepted result is http/https with a dotted host other than localhost/127.0.0.1, "
               "no fragment, an absolute path and no dot segment (AST level unconditionally, text level with the monitor's own predicate on the grammar, "
               "inductively along parent chains); closed forms for absolute, scheme-relative, path-absolute, path-relative, query-only and "
               "fragment-only references; RFC 3986 5.2.4 as rewriting rules; query parameters kept through the whole normaliser. "
               "Refuted for the code as found: map-order encodeQuery (determinism, order), base choice (credentials dropped, %2f-first reference). "
               "Model tied to NormalizeURL + URL.String() by a differential check on generated ASTs (grandparent/parent/reference, 5 fresh evaluations "
               "each) and six monitors on both the grammar and a mutated text stream, on every run.",
    technique="Coq proof about an executable reference normaliser over URL ASTs + differential testing against NormalizeURL/URL.String() with monitors",
)
