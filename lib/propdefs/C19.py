PROP = dict(
    coq=["Ext/ExtHarness.vo", "Ext/Pack.vo", "Queue/QueueHarness.vo", "Html/HtmlHarness.vo", "Html/Lit.vo"],
    legs=[
        dict(binary="zext", driver="fileext", quick=3000, thorough=40000, shard=400,
             monitors=["file_ext_spec (computed from the end of the string)", "file_ext_is_last_segment (class known by construction)"]),
        dict(binary="zext", driver="json", quick=600, thorough=12000, shard=60,
             monitors=["json_all_found: planted URLs returned in the right class", "json_only_found: returned strings occur as values",
                       "error iff rendering damaged", "planted URLs that fasturl rejects are found", "host-only URL is an outlink",
                       "json_embedded_padded: URLs in white-space padded embedded JSON are found"]),
        dict(binary="zext", driver="xml", quick=600, thorough=12000, shard=60,
             monitors=["xml_all_found: planted URLs returned in the right class", "xml_only_found: returned strings come from attribute / text nodes",
                       "error iff rendering damaged", "host-only URL is an outlink", "sitemap_detected"]),
        dict(binary="zext", driver="m3u8", quick=500, thorough=8000, shard=50,
             monitors=["m3u8_all_found: segment / variant / referenced-rendition URIs returned", "m3u8_only_found",
                       "error iff playlist damaged", "renditions of unreferenced groups are found"]),
        dict(binary="zext", driver="docpost", quick=400, thorough=6000, shard=50,
             monitors=["post_hops: children at the item's hop count, outlinks one further", "post_hop_guard: no outlink at or beyond --max-hops",
                       "post_split: planted URLs become children / outlinks (document = freshly archived seed)", "the archiver keeps the document's body",
                       "post_at_all_found: every planted link of a document at asset depth <= 2 counted without redirections is extracted, "
                       "wherever redirections sit between seed, page and asset"]),
        dict(binary="zext", driver="s3", quick=400, thorough=8000, shard=40,
             monitors=["s3_walk_complete: every non-empty object under the root prefix queued", "s3_walk_complete (converse): nothing else queued",
                       "s3_walk_terminates within walk_bound fetch decisions"]),
        # "...has been QUEUED" / "...is REQUESTED": what happens to the extracted links afterwards, in the two places where independent
        # seeded changes lost them: the local queue's producer (driver of C15, its monitor 1: every outlink handed over is a row of lq.db)
        # and the resolution of a child's relative URL against the item it was found on (driver of C07, its monitor 4)
        dict(driver="lqflow", binary="zqueue", corpus_from="C15", quick=8, thorough=100, shard=2, noshrink=True, only_monitors=[1],
             monitors=["(C15)", "lq_every_outlink_queued_with_fields", "(C15)", "(C15)"]),
        dict(driver="htmlreq", binary="zhtml", corpus_from="C07", quick=120, thorough=3000, shard=50, only_monitors=[4],
             monitors=["(C07)", "(C07)", "(C07)", "(C07)", "redirect_chain_followed (every hop resolved against its parent)"]),
    ],
    partial="encoding/json, encoding/xml, grafov/m3u8, fasturl (isValidURL) and xurls are oracles: the model works on the decoded JSON value "
            "tree (with an embedded-JSON node carrying what json.Unmarshal yields), on the RawToken tree, on the playlist line structure, and takes "
            "fasturl's verdict and xurls' matches as data; every generated document is rendered and read back by the real parser on every run. "
            "The bucket server is a model (continuation token = cursor into the listing order, honoured whatever the other parameters are; "
            "single-byte or no delimiter; ListObjects without delimiter), cross-checked page by page against an independently written Go simulator. "
            "Post-processing (extractAssets / extractOutlinks dispatch, hop counts, hop limit, the 'too deep' cut-off on the depth without redirections "
            "for every position of the item on a path of redirection / asset edges below its seed) is modelled for a freshly archived item with "
            "assets capture on and domains crawl off, for JSON / XML / sitemap / M3U8 bodies under their usual Content-Types; the S3 branch of the "
            "dispatch (IsS3) and the site-specific extractors are not modelled.",
    assumptions=["the real parser reads the rendering of a generated AST back to that AST (checked on every case by the model-vs-implementation diff)",
                 "isValidURL(u) = true for a planted URL is a hypothesis of C19_json_all_found (fasturl is third-party); URLs outside fasturl's grammar are a known finding",
                 "S3 servers honour a continuation token as a position in key order even when the prefix parameter changed (Zeno's sub-folder links keep the parent page's token)"],
    level_text="Theorems over all documents / playlists / buckets: findURLs returns exactly the oracle-accepted string values reachable through arrays, "
               "objects and likely-JSON strings at any depth, split by a byte-exact hasFileExtension whose specification (last path segment) is proved; "
               "the RawToken walk returns exactly the http-prefixed attribute values, trimmed http-prefixed character data and regex matches at any depth; "
               "M3U8 returns all segment, variant and referenced-rendition URIs; the depth that decides post-processing's cut-off (read off the shared item-tree model) "
               "counts asset edges only, for every path from the seed, so a document at asset depth <= 2 yields all its links whatever redirections lie on the way; for every bucket, page size >= 1, both list APIs, every delimiter, root prefix "
               "and every fetch order the walk over the links extractor.S3 returns ends within an explicit bound having queued exactly the non-empty objects. "
               "Tied to the real extractor.JSON / XML / IsSitemapXML / M3U8 / S3 / hasFileExtension by planted-URL generators (documents placed at generated positions of the seed's item tree: 0..3 redirections before the page, page / asset / asset of asset, "
               "redirections between them) and a bucket simulator on every run.",
    technique="Coq proof over an executable model + differential correspondence with planted-URL monitors",
)
