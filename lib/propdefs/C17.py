PROP = dict(
    coq=["Stats/StatsHarness.vo"],
    legs=[
        dict(driver="stats", binary="zstats", race=True, quick=150, thorough=3000, shard=25,
             env={"GORACE": "exitcode=0"},
             monitors=["totals_exact (total = initial + number of events, resets notwithstanding)",
                       "mean_exact (count = #adds, sum = sum of values; getter = sum/count)",
                       "gauges_exact (gauge = initial + incr - decr; TUI agrees)",
                       "mean_consistent_under_reset (all adds v => sum = count*v)",
                       "no_data_race (race detector silent: every access is atomic or under its mutex)",
                       "reporting_paths_agree (GetMapTUI, getTotal/getAllTotal, getters)"]),
    ],
    partial="",
    assumptions=[],
    level_text="",
)
