PROP = dict(
    coq=["Stats/StatsHarness.vo"],
    legs=[
        dict(driver="stats", binary="zstats", race=True, quick=300, thorough=4000, shard=25,
             env={"GORACE": "exitcode=0"},
             monitors=["totals_exact (total = initial + number of events, resets notwithstanding)",
                       "mean_exact (count = #adds, sum = sum of values; getter = sum/count)",
                       "gauges_exact (gauge = initial + incr - decr; TUI agrees)",
                       "mean_consistent_under_reset (all adds v => sum = count*v)",
                       "no_data_race (race detector silent: every access is atomic or under its mutex)",
                       "reporting_paths_agree (GetMapTUI, getTotal/getAllTotal, getters)"]),
        dict(driver="gauges", binary="zstats", race=True, quick=14, thorough=150, shard=8, noshrink=True, jobs=4,
             env={"GORACE": "exitcode=0"},
             monitors=["gauge_equals_live_workers (real stage workers up: getters, TUI, /metrics)",
                       "gauge_zero_after_stop (after each Stop the stopped stages read 0)",
                       "totals_exact_with_live_workers (TUI and /metrics counters = number of events)",
                       "no_data_race"]),
        dict(driver="cycles", binary="zstats", race=True, quick=24, thorough=150, shard=30, noshrink=True,
             env={"GORACE": "exitcode=0"},
             monitors=["gauge_equals_live_workers (all workers up, every Start/Stop cycle)",
                       "gauge_zero_when_stop_returns (read in the statement after Stop(): decrement happens-before wg.Done)",
                       "exported_gauge_equals_live_workers (Prometheus gauge, workers up)",
                       "exported_gauge_zero_when_stop_returns (Prometheus gauge)"]),
        dict(driver="finstat", binary="zstats", race=True, quick=40, thorough=600, shard=100, noshrink=True,
             env={"GORACE": "exitcode=0"},
             monitors=["seeds_finished_exact (marked finished in the reactor = counted, also after Stop() with blocked hand-overs)",
                       "finisher_stop_returns"]),
        dict(driver="archstat", binary="zstats", race=True, quick=20, thorough=400, shard=40,
             env={"GORACE": "exitcode=0"},
             monitors=["status_counts_exact (statuses archive() accepts: count = responses the origin served)",
                       "status_counts_exact_retried (5xx/408/425/429: count = responses the origin served)",
                       "urls_crawled_exact (= items that left the archiver)"]),
    ],
    partial="mean.go is modelled AFTER fixes/C17-mean-mutex.diff (count and sum under one mutex): the code as found is kept as "
            "mean_*_orig and refuted by C17_mean_reset_orig_refuted (reset racing add tears count/sum; reproduced on the real "
            "code by the driver; fixed in /repo by 1aaa3f7). Critical sections (sync.Mutex) are single steps of the "
            "transition system; Go's memory model for sync/atomic (sequentially consistent atomics) is assumed, not modelled. "
            "Prometheus collectors are third-party and only checked (their /metrics values against event counts), not modelled. "
            "The per-second rate value (rate.get) is modelled but nothing is claimed about it: it depends on the clock.",
    assumptions=["sync/atomic operations are sequentially consistent and indivisible (Go memory model); sync.Mutex gives mutual exclusion",
                 "the rate objects of the bucket are reachable only through rateBucket methods (checked by reading; the -race build reports any unlocked access)",
                 "stage workers do nothing with their own gauge between the Incr at start and the deferred Decr (gauge_free; checked on the real workers by the gauges driver)"],
    level_text="Labelled transition system over atomic actions (Add/Load/Store/Swap/CAS on 64-bit words, critical sections as single steps); goroutines are "
               "resumption programs transliterated from the Go bodies, with data flow and branches; theorems by induction over ARBITRARY schedules "
               "(pending-effect invariant in a commutative monoid): totals exact incl. under resets/getters/concurrent key creation, means exact and "
               "consistent under reset, gauges = live workers at every point of every schedule, order irrelevance and equality with the sequential "
               "run, 2^64 wrap-around throughout; witnesses for the original mean code and for the bucket without its mutex. Tied to the code by "
               "2..32 goroutines hammering the real package under the race detector and by real stage workers in child processes, compared at every quiescent point.",
    technique="Coq: resumption-program LTS + pending-effect invariant; Go: -race differential bursts, child processes with real workers, /metrics scrape",
)
