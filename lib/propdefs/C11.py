PROP = dict(
    coq=["Tree/TreeHarness.vo", "Stage/PassHarness.vo"],
    legs=[
        dict(driver="tree", quick=900, thorough=20000, shard=60,
             monitors=["links_symmetric_ids_unique", "wellformed_at_stage_boundaries", "dedupe_unique",
                       "dedupe_keeps_urls", "complete_iff_no_pending"]),
        dict(driver="treex", quick=12696, thorough=602520, shard=800, search_mult=3,
             monitors=["links_symmetric_ids_unique", "wellformed_at_stage_boundaries", "dedupe_unique",
                       "dedupe_keeps_urls", "complete_iff_no_pending"]),
        # "through every sequence of operations the STAGES perform on a seed's tree": the operation sequences above are issued by the
        # driver; here the real preprocess / postprocess / finisher issue them (driver of C01, scripted archiver), and the tree is
        # judged at every stage boundary: consistency check, unique ids, complete-iff-nothing-pending, completion reached
        dict(driver="pass", corpus_from="C01", quick=300, thorough=10000, shard=50, noshrink=True, only_monitors=[0, 1, 2, 3, 7],
             monitors=["completion_reached_exactly_once", "wellformed_at_stage_boundaries", "finish_iff_tree_done",
                       "one_node_per_url_after_the_stages_dedupe", "(C06)", "(C06)", "(C01)",
                       "status_compatible_with_structure: a node that was given a redirect target is GotRedirected (not GotChildren) and has the target as child",
                       "(C01)"]),
    ],
    partial="childrenMu locking is not modelled (a seed is owned by one goroutine at a time except inside archive(), see C01); "
            "re-parenting an existing child through AddChild is not modelled (the stages only add new items).",
    assumptions=["a URL of the model is the canonical text URL.String() (what is requested, seenchecked, fetched), not URL.Raw: 'one node per URL' is one node per String(); the drivers write one URL id in up to four different Raw spellings with one common String() (checked at start-up, the driver exits non-zero otherwise) and report a node's URL from String() only",
                 "node ids are unique (UUIDs); the model addresses nodes by id where Go uses pointers - the driver checks the pointer side after every op"],
    level_text="Theorems by structural induction over item trees and induction over operation sequences; the model is replayed against the real models.Item API after every operation (pipeline-shaped and arbitrary sequences, plus every tree of <= 3 nodes (quick) / <= 4 nodes (thorough) with every status assignment). 'Exactly one node per URL after de-duplication' is proved for every tree with unique ids (C11_dedupe_unique_all) and monitored at every DedupeItems call whose input tree has unique ids, pipeline-shaped or not; 'no URL lost' holds and is monitored in the pipeline state only. URL identity in the model is String() identity: the tree driver writes the URLs of 3 generated cases out of 4 in random Raw spellings (same URL id, same String(), different Raw; tag rawvariants:yes/no in the input distribution), the exhaustive driver writes node j in spelling j mod 4, so de-duplication is exercised on nodes whose Raw differs although they are one URL.",
)
