PROP = dict(
    coq=["Tree/TreeHarness.vo"],
    legs=[
        dict(driver="tree", quick=900, thorough=20000, shard=60,
             monitors=["links_symmetric_ids_unique", "wellformed_at_stage_boundaries", "dedupe_unique",
                       "dedupe_keeps_urls", "complete_iff_no_pending"]),
        dict(driver="treex", quick=12696, thorough=602520, shard=800, search_mult=3,
             monitors=["links_symmetric_ids_unique", "wellformed_at_stage_boundaries", "dedupe_unique",
                       "dedupe_keeps_urls", "complete_iff_no_pending"]),
    ],
    partial="childrenMu locking is not modelled (a seed is owned by one goroutine at a time except inside archive(), see C01); "
            "re-parenting an existing child through AddChild is not modelled (the stages only add new items).",
    assumptions=["a URL of the model is the canonical text URL.String() (what is requested, seenchecked, fetched), not URL.Raw: 'one node per URL' is one node per String(); the drivers write one URL id in up to four different Raw spellings with one common String() (checked at start-up, the driver exits non-zero otherwise) and report a node's URL from String() only",
                 "node ids are unique (UUIDs); the model addresses nodes by id where Go uses pointers - the driver checks the pointer side after every op"],
    level_text="Theorems by structural induction over item trees and induction over operation sequences; the model is replayed against the real models.Item API after every operation (pipeline-shaped and arbitrary sequences, plus every tree of <= 3 nodes (quick) / <= 4 nodes (thorough) with every status assignment). 'Exactly one node per URL after de-duplication' is proved for every tree with unique ids (C11_dedupe_unique_all) and monitored at every DedupeItems call whose input tree has unique ids, pipeline-shaped or not; 'no URL lost' holds and is monitored in the pipeline state only. URL identity in the model is String() identity: the tree driver writes the URLs of 3 generated cases out of 4 in random Raw spellings (same URL id, same String(), different Raw; tag rawvariants:yes/no in the input distribution), the exhaustive driver writes node j in spelling j mod 4, so de-duplication is exercised on nodes whose Raw differs although they are one URL.",
)
