PROP = dict(
    coq=["Safe/SafeHarness.vo"],
    legs=[
        dict(driver="scan", binary="zsafe", quick=3000, thorough=120000, shard=375,
             monitors=["no_panic (the real scanner returned for this input)",
                       "value (GetShortID is a prefix of the id of at most 11 bytes; Link-header URLs are non-empty)"]),
        dict(driver="dispatch", binary="zsafe", quick=3000, thorough=60000, shard=500,
             monitors=["dispatch_nil_safe (an item satisfying the archiver's invariant is processed without a panic)",
                       "not_archived_untouched (an item in another state is returned as it came)",
                       "archiver_establishes_invariant (an item prepared by the real archiver.ProcessBody, which returned nil, has response, MIME and parsed URL set)"]),
        dict(driver="dcmatch", binary="zsafe", quick=1500, thorough=60000, shard=250,
             monitors=["match_total (the real domainscrawl.Match returned for this configuration and this link text)"]),
        dict(driver="fuzz", binary="zsafe", quick=12800, thorough=300000, shard=4000,
             monitors=["no_panic (recover() in the child caught nothing)",
                       "no_hang (the child answered within the watchdog; a missing answer counts when reproduced on a fresh child with the watchdog doubled)",
                       "no_crash (the child process survived: no fatal error, no out-of-memory; a death counts when reproduced on a fresh child)"]),
    ],
    partial="The theorems cover ZENO'S OWN byte-level code only (hasFileExtension, isLikelyJSON, GetShortID, the Link header parser, "
            "extractFromScriptContent, srcsetURLs, reddit.ExtractAPIPostPermalinks, the nil-safety of postprocessItem / extractAssets / extractOutlinks under the "
            "archiver's invariant, the domains-crawl matcher domainscrawl.Match and the outlink loop that consults it, for every operator configuration). Third-party decoders (x/net/html via goquery, encoding/json, encoding/xml, grafov/m3u8, pdfcpu, mimetype, "
            "xurls, fasturl, ada) are NOT modelled: for them the check is structure-aware fuzzing in isolated child processes (the `fuzz` leg), "
            "which is a search and not a proof - a silent run only says that no crasher was among this run's generated inputs. "
            "That search found six third-party defects (known-findings.txt): the m3u8 nil dereference and the pdfcpu makeslice panic are fixed "
            "at Zeno's call sites (e1baacb); pdfcpu stack exhaustion on a cyclic page tree, pdfcpu 93 GiB allocation, pdfcpu exponential "
            "parse time and x/net/html quadratic parse time remain as known findings - not repairable by a small patch inside Zeno.",
    assumptions=[
        "the byte-level models of strings.IndexByte/LastIndexByte/HasPrefix/Contains/Split/SplitN/SplitAfterN/Trim/TrimSpace and of the rune "
        "stepping of `range` over a string say what the Go library does (total functions; compared with the real library by the scan driver on every run)",
        "archiver invariant: an item whose state is ItemArchived has a response, a MIME type and a parsed URL (archiver.go sets the response after "
        "client.Do succeeded and ProcessBody sets the MIME before returning nil: C10_process_body_sets_mime on the control-flow model, and the "
        "monitor archiver_establishes_invariant on the REAL ProcessBody in the dispatch and fuzz/arch legs); without it postprocessItem does dereference nil "
        "(lemmas dispatch_unguarded_refuted, dispatch_unguarded_mime_refuted; replayed on the real function by the dispatch driver)",
        "extractors return no nil entries in their outlink slices and a freshly made child item has no parent (so AddChild cannot fail)",
        "int counters do not overflow (inputs far below 2^63 bytes)",
        "domains-crawl matcher: fasturl.ParseURL returns either an error (and a nil URL) or a URL, and regexp MatchString (RE2) is total - both enter "
        "the matcher model as arbitrary functions (theorems quantify over them); the dcmatch driver feeds their real answers as oracle values",
    ],
    level_text="Theorems for ALL byte strings / all item views, status codes, predicate valuations, configurations and extractor outcomes, about "
               "Zeno's own scanners and dispatch only: every slice, index and nil dereference is in bounds, every loop ends within a stated "
               "linear number of iterations; for ALL domains-crawl configurations (any plain domains, stored URLs, regular expressions), link texts, "
               "URL parsers and expression semantics the matcher and the outlink loop return, and the early return on a parse error is proved to be "
               "needed exactly for configurations with a plain domain or a host-only URL. The models are tied to the code by differential testing on every run (outputs and panic/no-panic). "
               "For everything behind a third-party decoder the level is fuzzing in child processes with recover(), watchdog and memory cap: "
               "a search, not a proof.",
    technique="Coq 8.16 proofs over Gallina transcriptions with explicit panicking operations + differential testing (scan, dispatch, dcmatch) + "
              "structure-aware fuzzing in isolated subprocesses (fuzz)",
)
