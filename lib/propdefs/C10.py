PROP = dict(
    coq=["Safe/SafeHarness.vo"],
    legs=[
        dict(driver="scan", binary="zsafe", quick=3000, thorough=120000, shard=375,
             monitors=["no_panic (the real scanner returned for this input)",
                       "value (GetShortID is a prefix of the id of at most 11 bytes; Link-header URLs are non-empty)"]),
        dict(driver="dispatch", binary="zsafe", quick=3000, thorough=60000, shard=500,
             monitors=["dispatch_nil_safe (an item satisfying the archiver's invariant is processed without a panic)",
                       "not_archived_untouched (an item in another state is returned as it came)"]),
        dict(driver="fuzz", binary="zsafe", quick=20000, thorough=600000, shard=4000,
             monitors=["no_panic (recover() in the child caught nothing)",
                       "no_hang (the child answered within the watchdog)",
                       "no_crash (the child process survived: no fatal error, no out-of-memory)"]),
    ],
    partial="",
    assumptions=[],
    level_text="",
)
