PROP = dict(
    coq=["Queue/QueueHarness.vo", "Stage/OutlinksHarness.vo", "Pipe/CrashHarness.vo"],
    legs=[
        dict(driver="hqpath", binary="zqueue", quick=400, thorough=6000, shard=100,
             monitors=["hops_roundtrip (pathToHops(hopsToPath h) = h)", "path_is_L_only_and_count_is_number_of_L"]),
        dict(driver="lqdb", binary="zqueue", quick=400, thorough=6000, shard=40,
             monitors=["lq_no_value_or_id_twice", "lq_add_skips_present_value_keeps_fields", "lq_delete_exactly_listed_ids",
                       "lq_get_hands_out_fresh_rows_and_claims_them"]),
        dict(driver="hqflow", binary="zqueue", quick=32, thorough=300, shard=4, noshrink=True,
             monitors=["hq_outlinks_delivered_once_with_text_via_hops", "hq_retry_same_batch_sizes_and_sender_bound",
                       "hq_seed_roundtrip_id_text_via_hops", "hq_acks_by_id", "hq_text_and_via_bytes_unchanged"]),
        dict(driver="lqflow", binary="zqueue", quick=14, thorough=100, shard=2, noshrink=True,
             monitors=["lq_no_value_twice_in_table", "lq_every_outlink_queued_with_fields", "lq_seed_roundtrip_id_text_via_hops",
                       "lq_acks_by_id"]),
        # "...each outlink is handed to the queue with its hop count and its parent page as via": the hop count and via the
        # postprocessor gives an outlink (real postprocessItem on synthetic pages; driver of C06; its monitors 0 and 3)
        dict(driver="hops", corpus_from="C06", quick=600, thorough=20000, shard=600, only_monitors=[0, 3],
             monitors=["outlink_hop_rule", "(C06)", "(C06)", "outlink_via_is_parent_page"]),
        # "...finish acks reach the queue" END TO END: whole real crawls on the local queue (driver of C04; its monitor 0): after the
        # restart every row of the queue is crawled, acknowledged and deleted - seeds that need several passes (assets, redirects:
        # reactor.ReceiveFeedback rewrites their source) and one-pass seeds alike.  The other monitors belong to C04.
        dict(driver="crash", corpus_from="C15", quick=6, thorough=60, shard=6, noshrink=True, only_monitors=[0],
             monitors=["every_queue_row_acknowledged_and_deleted_end_to_end (multi-pass seeds included)", "(C04)", "(C04)", "(C04)", "(C04)", "(C04)"]),
    ],
    search_mult=3,
    partial="Shutdown is outside this property (after Stop the machine does not move and what is in flight stays undelivered: "
            "stated as ex_stop_strands; C03/C04). The lq producer does not retry: a database error makes it give the batch up "
            "(visible in the theorem as the [dropped] term, provably empty for hq and for lq runs without database errors). "
            "Real time is not modelled: Tick is a label that may occur at any moment, retry sleeps are state only. "
            "The finisher stage's hand-over of finished seeds runs through the real finisher workers in about a third of the "
            "hqflow cases (incl. pause/resume during a DELETE outage); its routing of fresh seeds to the produce channel is "
            "covered by C01's driver, here the produce channel is fed by the driver (with the postprocessor's own items in the pp cases).",
    assumptions=["Go channels, goroutines, time.Ticker, context: modelled by the labelled transition system, not verified",
                 "gocrawlhq client + encoding/json + net/http: the wire between producer and HQ is exercised on every run against a fake HQ, not modelled (json.Marshal replaces invalid UTF-8 by U+FFFD: see known findings)",
                 "SQLite (ncruces/go-sqlite3): which FRESH rows a LIMITed SELECT returns is an oracle checked for legality; UNIQUE(value) is reported in preference to the PRIMARY KEY violation (checked on every run)",
                 "net/url.ParseRequestURI decides which queued URLs become seeds (oracle, evaluated by the driver)"],
    level_text="Theorems over ALL label sequences of the receiver/dispatcher/sender machine (all interleavings, timer ticks, "
               "finite fault sequences, any batch size / channel capacity / number of senders, any item type): nothing dropped, "
               "nothing invented, order kept inside batches, bounded fault-free completion with a strictly decreasing measure and "
               "deadlock freedom; over ALL operation sequences of the lq table: no value twice, acknowledgement by id, fields kept; "
               "hop/path round trip for all hop counts. Tied to the code by running the REAL hq.Start goroutines against a fake HQ "
               "with generated fault sequences (incl. outages: the same request failing 3..6 times in a row; outlinks made by the real postprocessor for pages behind redirects and for child-asset documents; real finisher workers with pause/resume during an outage; fetch rounds of 2..4 concurrent gets with single sub-fetches failing; a partial ack batch pending at the flush tick while the batch channel is backed up by a DELETE outage; more than two full lq producer batches in one go), the REAL lq.Start goroutines and the REAL LQClient on scratch SQLite files, every run.",
)
