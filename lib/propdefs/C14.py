PROP = dict(
    coq=["Pause/PauseHarness.vo", "Pause/PauseStartHarness.vo", "Pipe/StopHarness.vo", "Pipe/WarcStopProofs.vo"],
    legs=[
        dict(driver="pause", binary="zpause", quick=900, thorough=8000, shard=300,
             monitors=["calls_complete (no Pause/Resume call in progress once nothing moves)",
                       "no_panic (no send on a closed channel; quiescence reached)",
                       "stop_releases_workers (every cancelled worker returned and unsubscribed)",
                       "paused_takes_no_work / resume_wakes_all (a live worker is in the acknowledging send iff IsPaused)",
                       "pause_reaches_all / resume_wakes_all (a round of Pause calls leaves the manager paused, a round of Resume calls unpaused)",
                       "no_panic: no PauseCh is ever closed (Pause may still be about to send on it)",
                       "pause_sticks (a Pause invoked while every Resume in progress is already collecting, with no later Resume, leaves the manager paused and the live workers acknowledging)"]),
        dict(driver="pauseconc", binary="zpause", quick=1200, thorough=20000, shard=400,
             monitors=["calls_complete (no Pause/Resume call in progress once nothing moves)",
                       "no_panic (no send on a closed channel; quiescence reached)",
                       "stop_releases_workers (every cancelled worker returned and unsubscribed)",
                       "paused_takes_no_work / resume_wakes_all (a live worker is in the acknowledging send iff IsPaused)",
                       "pause_reaches_all / resume_wakes_all (a round of Pause calls leaves the manager paused, a round of Resume calls unpaused)",
                       "no_panic: no PauseCh is ever closed (Pause may still be about to send on it)",
                       "pause_sticks (a Pause invoked while every Resume in progress is already collecting, with no later Resume, leaves the manager paused and the live workers acknowledging)"]),
        # "pause stops ALL workers of EVERY stage": the stages are started through their EXPORTED Start(inputChan, outputChan) / Stop() with
        # config.WorkersCount = w (nothing in this binary's driver names an unexported identifier of a stage package, so a change of the
        # workers' signatures leaves this leg running); one child process per case
        dict(driver="pausestart", binary="zpausestart", quick=48, thorough=600, shard=48,
             monitors=["calls_complete / no_panic (every Pause, Resume and Stop() call returns, quiescence is reached, no goroutine of the crawler panics)",
                       "subscribers_are_live_workers (until Stop() the manager has one subscriber per worker - w per stage - and every stage its w worker goroutines; afterwards none)",
                       "pause_stops_every_worker (between an observation with the manager paused and the next one, unless a Resume is issued, no stage takes an item and none comes out)",
                       "pause_stops_every_worker / resume_wakes_all (until Stop(), all w workers of every stage are in the acknowledging send iff IsPaused, in the main select iff not)",
                       "resume_wakes_all (until Stop(), whenever the manager is not paused every item offered so far was taken and came out of its stage)",
                       "pause_reaches_all / resume_wakes_all (after Pause the manager is paused, after Resume it is not)"]),
        # "...worker exit and SHUTDOWN can leave a caller or a worker blocked forever", with the pause held by the real disk watcher or by
        # pause.Pause while stage workers are busy: the end-to-end stop driver of C03 (corpus only in the quick tier: its stop=paused and
        # stop=diskpaused inputs); monitors 0 and 3 belong to this property
        dict(driver="stop", corpus_from="C03", quick=0, thorough=60, shard=12, noshrink=True, only_monitors=[0, 3],
             monitors=["stop_returns_without_crash", "(C03)", "(C03)", "all_stage_workers_returned"]),
    ],
    partial="The theorems C14_calls_complete .. C14_pause_sticks are about workers that do not feed each other (independent subscribers); "
            "workers joined by stage channels are covered by the witness C14_sequential_resume_refuted (the model has the link and the hand-over) and by the "
            "driver's linked-worker cases, whose monitors extend the quiescence predicates to chains (a worker stuck in its hand-over upstream of an "
            "acknowledging worker counts as paused), not by a general theorem. The population of subscribers is fixed in the model (the stages subscribe at start-up, before any pause; a subscriber that joins "
            "while paused gets no token and is waited for by the next Resume - not modelled). 'Blocked forever' is stated without fairness: "
            "from every reachable state system steps alone stop within mu(s) steps in a state with no pending call; a call can still be "
            "delayed for as long as other controllers keep invoking new calls (mutex fairness is the Go runtime's). A work item is two labels (taken / passed on) and "
            "always ends by itself or by cancellation (a worker stuck inside an item is C01's subject). The callers (disk / WARC-queue watcher loops, TUI) are represented by "
            "arbitrary invocation orders, not modelled line by line.",
    assumptions=["Go channel, select, sync.Mutex, sync.WaitGroup, sync.Map.Range and atomic.Bool semantics as modelled in Pause/PauseLts.v (one label per operation; Range = snapshot of the keys, presence re-checked at each visit)",
                 "subscriptions happen before the first Pause (start-up order of startPipeline)",
                 "the theorems are about the repaired protocol (commits 2e672eb, fb4cbc4, 31dcd5b = fixes/C14-*.diff); the code before them is refuted (C14_orig_refuted) and the driver showed the same on the real code"],
    level_text="Theorems over ALL label lists (= all schedules and all orders of Pause/Resume/cancel/work invocations) for any number of workers and "
               "controllers, by an inductive invariant (mutex holder <-> the one call past its first step; per phase which workers still owe an "
               "acknowledgement), deadlock freedom at every reachable state, and a strictly decreasing measure for system steps (valid for every "
               "variant of the code). Witness lemmas refute the code as found (3 defects), each single-repair omission, two tempting repair "
               "candidates, Pause without the mutex, and sequential collection of the acknowledgements in Resume (deadlock with workers that feed each other). Model tied to the real pause package driven by REAL stage worker goroutines (independent, made busy with items, or joined into chains through bounded channels like the stages): after every invocation (sequential "
               "driver: exact prediction, except where a Pause and a Resume both wait for the mutex; concurrent driver: monitors) the process is observed at true quiescence, decided from a "
               "stop-the-world goroutine dump, so a call that never returns is detected without timeouts. Stage level (pausestart): the real stages started through their exported Start/Stop with WorkersCount = w (2-4), seeds offered while paused: exact prediction by the same LTS and monitors for C14_subscribers_are_live_workers / C14_pause_stops_every_worker (one subscriber per worker, no stage takes an item between two paused observations, all w workers of every stage acknowledging iff paused).",
    technique="Coq proof (LTS + invariant + measure) with differential/monitor correspondence on the real goroutines",
)
