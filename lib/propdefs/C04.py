PROP = dict(
    coq=["Pipe/CrashHarness.vo", "Pipe/PipeHarness.vo"],
    legs=[
        dict(driver="crash", quick=24, thorough=600, shard=12, noshrink=True,
             monitors=["nothing_stranded_after_restart (every remaining row is crawled and deleted in run 2)",
                       "finished_implies_captured (acknowledged captures of deleted rows are complete records on disk; every deleted row whose URL the origin answers - 2xx, 3xx, 401/403/404/410/451, 408/429/5xx after the last attempt, half-marked challenge pages: any status the discard policy keeps - has a response record)",
                       "refetched_after_restart (rows not yet pre-processed in run 1)",
                       "refetched_after_restart_even_if_preprocessed",
                       "warc_readable_up_to_last_complete_record",
                       "row_deleted_only_for_a_seed_whose_tree_is_done (also when the finish falls into a graceful stop)",
                       "deleted_in_first_run_implies_requested (every row deleted in run 1 - all rows are in scope, also those whose path or query mentions an excluded host - had a request sent for its own URL in run 1)"]),
        # "finished implies captured" at the instant of the finish report (no kill needed): whole real crawls of sites with
        # large bodies; at every fin.finished the WARC files on disk are read (monitor 10)
        dict(driver="pipebodies", quick=10, thorough=400, shard=5, noshrink=True,
             monitors=["finished_exactly_once", "finished_only_when_tree_done", "no_fetch_after_finish", "every_built_request_fetched_before_pass_end",
                       "in_flight_le_tokens", "reactor_idle_at_quiescence", "wellformed_at_stage_boundaries", "seed_in_one_place_at_a_time",
                       "attempts_le_max_retry_plus_1", "redirect_chain_and_asset_depth_bounds",
                       "accepted_responses_in_warc_when_seed_finished", "crawl_never_wedged_with_seeds_in_flight", "no_seed_fetched_beyond_max_hops (depth along the via chain, through the queue)"]),
    ],
    partial="Durability means 'survives process death' (SIGKILL; data handed to the OS): power loss and file-system behaviour are outside "
            "the model. SQLite's transactions and the WARC writer's record-at-a-time append are trusted (third party); the model takes a "
            "claim / delete batch as atomic and a record as complete-or-tail. That a row handed out again is then crawled to the end is C01. "
            "Known finding: with seencheck on, the seen-store is written when a seed is pre-processed, before it is fetched, so a seed that was "
            "pre-processed but not captured before the kill is skipped as 'seen' in the next run and never fetched (it is finished and deleted "
            "without a capture).",
    assumptions=["one process owns a job directory at a time", "lq.db transactions are atomic and durable on commit (SQLite)",
                 "synchronous WARC writing: the writer acknowledges a record only once it is completely in the file (C02)"],
    level_text="Theorems over all histories with crashes after any prefix, graceful stops and restarts: acknowledged captures are always among "
               "the complete records, rows are never lost except by deletion of a finished seed, the complete records only grow, and after a "
               "restart every remaining row is FRESH; the pre-fix code is refuted by witnesses. A second model with the durable seen-store "
               "and the per-seed fetch (refining the first) proves 'deleted implies own URL captured or failed for good' seed by seed, exactly "
               "up to the seen-write-ahead finding, and is replayed on every observed history; in the first run of a job (no restart yet) a row is deleted "
               "only after its own URL was requested, whether the run goes on, is killed or is stopped. Tied to the code by real crawls on the local "
               "queue that are SIGKILLed at every instrumented point x occurrence / at random times / stopped gracefully, whose lq.db and WARC "
               "files are inspected on disk and which are then restarted on the same job directory; the sites answer seeds with successes, "
               "redirects, client and server errors, real and half-marked challenge pages, and some rows mention excluded hosts in their path or query.",
)
