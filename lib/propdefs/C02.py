PROP = dict(
    coq=["Warc/WarcHarness.vo", "Pipe/PipeHarness.vo"],
    legs=[
        dict(driver="body", binary="zwarc", quick=1000, thorough=12000, shard=64,
             monitors=["body_drained (no error => every byte taken from the reader)",
                       "body_drained (spooled copy byte-identical iff the MIME rule selects it)",
                       "body_closed_exactly_once", "body_error_no_spool", "body_quiet_ok",
                       "body_drained (MIME detected on exactly the first min(2048,len) bytes)"]),
        dict(driver="discard", binary="zwarc", quick=110, thorough=1500, shard=14,  # one case = 15 environments x 606 statuses
             monitors=["discard_iff (exhaustive over status x cf-mitigated shapes x Server/CDN header and body environments)", "discard_reason", "is_challenge_page",
                       "hooks_pure (after the chain returned the body reader still yields every byte)",
                       "hooks_pure (verdicts depend on status and cf-mitigated only, not on Server/other headers or the body)"]),
        # origin pages include the class the discard hooks look at (403/429/503 + Server: cloudflare / other CDN headers, no challenge header)
        # and head twins (payloads above the dedupe threshold differing only in the first KB): tags hit:server-*, head-twins
        # about a third of the warcleg cases run the archiver with --proxy (local SOCKS5 proxy): the proxied WARC client
        # (ClientWithProxy) is then judged by the same monitors, in particular rejected_never_stored (tags proxy:true/false)
        dict(driver="warcleg", binary="zwarc", quick=34, thorough=250, shard=12, noshrink=False,
             monitors=["accepted_stored_byte_exact_after_stop", "written_before_archived (WARC on disk at the arch.written point)",
                       "rejected_never_stored", "members_complete_and_files_finalised",
                       "all_accepted_written_when_seed_leaves_archiver", "attempts_le", "retry_rule (retry_iff: attempts follow the retry rule)",
                       "revisit_identical (a revisit only for a payload served for that URL, referring to a stored response with that very payload)"]),
        # end to end: whole real crawls (controler.Start/Stop, local queue, all stages); at the instant a seed is
        # reported finished the WARC files on disk are read with the independent reader (monitor 10)
        dict(driver="pipebodies", quick=14, thorough=600, shard=7, noshrink=True,
             monitors=["finished_exactly_once", "finished_only_when_tree_done", "no_fetch_after_finish", "every_built_request_fetched_before_pass_end",
                       "in_flight_le_tokens", "reactor_idle_at_quiescence", "wellformed_at_stage_boundaries", "seed_in_one_place_at_a_time",
                       "attempts_le_max_retry_plus_1", "redirect_chain_and_asset_depth_bounds",
                       "accepted_responses_in_warc_when_seed_finished", "crawl_never_wedged_with_seeds_in_flight", "no_seed_fetched_beyond_max_hops (depth along the via chain, through the queue)"]),
    ],
    search_mult=3,
    partial="Component-level slice plus a single-process archive-to-WARC leg: the full-pipeline ordering (finish message only "
            "after the write) is checked by the end-to-end leg 'pipe' (WARC files read at the instant of each fin.finished). The byte capture, record writing, gzip framing and the "
            "feedback channel are third-party (github.com/CorentinB/warc): in the proofs the recorder is an environment with the "
            "stated feedback contract; the warcleg leg validates it on every run against an independent WARC reader. "
            "C02_all_awaited holds only for the variant with fixes/C02-await-feedback.diff; the code as it is does not wait for "
            "the write of responses it retries or gives up on (C02_all_awaited_orig_refuted, known finding).",
    assumptions=["io.Reader contract as scripted: a Read returns at most len(p) bytes; after the script io.EOF forever",
                 "io.CopyN into *bytes.Buffer = Buffer.ReadFrom(LimitReader) (Go standard library): reads until limit, EOF or error; an error delivered with the byte that reaches the limit is dropped",
                 "mimetype.Detect / MIME.Is / MIME.Parent are oracles (their answers are inputs of the model)",
                 "spooled temp file writes do not fail (disk full is outside the model)",
                 "recorder contract: the feedback channel of a request yields only after its record batch was flushed to the WARC file or dropped (discard hook / capture error)",
                 "MaxRetry >= 0"],
    level_text="Theorems for all reader scripts (chunkings, non-sticky errors, deadline failures), all MIME oracles and configurations "
               "(ProcessBody drains the body and keeps a byte-identical copy exactly when the MIME rule selects it); for all status codes, "
               "header values and discard lists (policy); for all hook lists, header maps and bodies (the chain is a function of status and "
               "cf-mitigated that hands the body reader on untouched, so the recorder digests the payload itself and a revisit can only stand "
               "for an identical payload; Builder.Build preserves this for any pure hooks); for all outcome sequences of client.Do (attempts <= MaxRetry+1, bodies closed "
               "on every exit, SetStatus(ItemArchived) only after the feedback of that very request; lifted to all interleavings with the "
               "writer under the feedback contract). Tied to the code by three differential legs on every run: real ProcessBody on "
               "scripted readers, the real hook chain swept exhaustively over 100..599 x 15 header/Server/body environments with a watched body "
               "reader (still yields every byte afterwards), and the real archiver with a real "
               "WARC client (direct, or the proxied one behind a local SOCKS5 --proxy) in one process per case, read back with an independent WARC reader at the arch.written point, at archiver "
               "exit and after Stop (origin pages include CDN error pages - 403/429/503 with Server: cloudflare and other CDN headers - and "
               "payloads that differ only in their first KB; a revisit must refer to a stored response with the identical payload).",
    technique="Coq model + proofs; differential testing of ProcessBody / discard chain / archive() against the model; independent WARC reader",
)
