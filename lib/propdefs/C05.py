PROP = dict(
    coq=["Scope/ScopeHarness.vo"],
    legs=[
        dict(driver="scope", binary="zscope", quick=600, thorough=9000, shard=30,
             monitors=["request_in_scope (every attached request: in_scope on the item's Host/String() and on the request's own URL, defaults appended)",
                       "request_shape_ok (every attached request: http/https, host not localhost/127.0.0.1, host has a dot)",
                       "request_iff_preprocessed (a request is attached exactly to the PreProcessed nodes)",
                       "rejected_seed_no_request (a seed at the working depth that is out of scope by the implementation's own strings ends Failed/Completed, childless, without request)"]),
        # the archiver's side: the REAL archiver stage + WARC/HTTP client against a scripted origin that answers 3xx to
        # out-of-scope URLs; every request that ARRIVES at the origin is judged; one process per WARC writing mode
        dict(driver="scopearch", binary="zscope", noshrink=True, env={"ZV_SCOPEARCH_ASYNC": "0"}, quick=26, thorough=130, shard=60,
             monitors=["origin_request_in_scope (every request arriving at the origin: in_scope under the operator's lists)",
                       "origin_request_shape_ok"]),
        dict(driver="scopearch", binary="zscope", noshrink=True, env={"ZV_SCOPEARCH_ASYNC": "1"}, quick=26, thorough=130, shard=60,
             monitors=["origin_request_in_scope (every request arriving at the origin: in_scope under the operator's lists)",
                       "origin_request_shape_ok"]),
        # the start-up: the REAL config.GenerateCrawlConfig with --exclusion-file given as local paths and as http URLs on a scripted
        # in-process server whose one answer succeeds or fails; when the crawl starts the real preprocess() runs on probe URLs
        dict(driver="scopecfg", binary="zscope", quick=60, thorough=600, shard=30,
             monitors=["started_all_named_files_in_force (a crawl that starts has read every --exclusion-file the operator named and every line of every one is among the effective expressions)",
                       "no_request_for_excluded_probe (no request for a URL that a line of ANY named exclusion file matches; a crawl that does not start requests nothing)"]),
    ],
    partial="The URL parsers (net/url, ada, x/net/idna), Go's regexp and http.NewRequest are oracles: per node the model receives ada's protocol/hostname and "
            "the Host / String() / regex answers the code reads, and decides from them; the normaliser itself is C09. The model follows the code as fixed by 02226a3 (fixes/C05-scope-host-before-string); the code before it is kept as passes_orig with refutation witnesses. The preprocess()-level theorem is lifted to "
            "every execution of the pipeline LTS of C01 (Pipe/PipeScope.v: everything the archiver is about to fetch was accepted). The one read of an exclusion file at start-up (file system, network) is an oracle too (FOk content | FFail); domainscrawl.Match is an oracle answer per URL (its domain rule is transcribed for the witnesses).",
    assumptions=["node ids are unique (Go: pointer identity)",
                 "ada's protocol/hostname of a reference equal those of its own href re-parsed (the driver reads them from the href)"],
    level_text="Theorems for all item trees with unique ids x all operator configurations x all oracle answers: a request is attached only to nodes whose URL passed "
               "NormalizeURL's scheme/host tests and the include/exclude blocks (defaults appended), wherever the node sits; a rejected seed gets no request; "
               "filter algebra (substring test exact, defaults always present, include required, exclusion wins, the lines of ALL --exclusion-file files are in force, GenerateCrawlConfig keeps the operator's entries as typed: the string filters are case-sensitive, the last line of an exclusion file counts with or without a final newline / with CRLF). Model tied to the real preprocess() + GenerateCrawlConfig() "
               "by a differential check on generated trees and URL texts on every run; exclusion files are written byte for byte in six styles (LF, no final newline, CRLF, CRLF without final newline, blank line in between, empty last line) and the model reads the CONTENT (read_lines = bufio.ScanLines); a seed at the working depth arrives fresh or with URL.Parse() already called, as the three seed sources deliver it; every request is judged against the OPERATOR's lists (gen_cfg of the input, never what GenerateCrawlConfig returned), filter strings with upper-case letters and planted URLs that contain a filter string as typed / with other letter case are part of the generator; the exclusion regexes are spread over 0-3 real files and the effective compiled list is compared with the model's concatenation, the regex answers given to model and monitors come from the driver's own compilation of every line of every file. Long URLs (2-6 KB, the matching part at the end) are planted when a case has exclusion expressions. A second driver sends pre-processed items through the REAL archiver (sync and async WARC writing) to a scripted origin answering 3xx to out-of-scope URLs and judges every request that arrives at the origin with the same predicates. --domains-crawl (its own matcher, a hop-count option) is a configuration dimension of both drivers - domain, URL and expression entries next to include filters, planted URLs on crawled domains outside the include set - and a theorem says it never widens the include filter (filter and tree level, for every answer of the matcher). A third driver gives --exclusion-file arguments (local paths and http URLs on a scripted in-process server whose one answer succeeds or fails: status, refused, reset, cut short, time-out, redirection loop, missing file, line above the scanner's limit, line the regexp compiler refuses) to the REAL GenerateCrawlConfig and, when the crawl starts, runs the real preprocess() on one probe URL per expression of every named file: a crawl that starts has every line of every named file in force (theorems over all file lists and all read outcomes), an unreadable file refuses the start.",
    technique="Coq model of the include/exclude/shape tests refining the pre-processing oracle of the shared stage model; differential check against the real preprocess()",
)
