(* C14 - what the generated case files evaluate: the model's prediction against what the real
   pause package and the real stage workers did (diffs), and the property's own predicates on the
   implementation's observations alone (mons). *)
From ZenoV Require Import Lib.Harness Pause.PauseLts.

Inductive op := OPause (c : nat) | OResume (c : nat) | OStop (w : nat) | OStopAll
              | OHold (w : nat) | ORelease (w : nat).

(* observation at quiescence (busy workers stay busy until the driver takes their item back):
   per controller 0 = no call in progress, 1 = inside Resume collecting acknowledgements,
   2 = waiting for the manager mutex, 3 = elsewhere inside a call;  pause.IsPaused();  per worker
   0 = in the main select, 1 = in the acknowledging send, 2 = returned, 4 = busy with an item,
   3 = anywhere else;
   number of subscribers; number of removed subscriptions whose PauseCh is closed; panic (or the
   quiescence safety deadline expired) *)
Record obs := Ob { o_ctl : list nat; o_paused : bool; o_ws : list nat; o_subs : nat; o_pcl : nat; o_bad : bool }.

(* links (u, d, k): worker u passes its items on to worker d through a channel of capacity k;
   rounds: the ops issued together, and the observation once nothing moves *)
Record pcase := PC { p_nw : nat; p_nc : nat; p_links : list (nat * nat * nat);
                     p_rounds : list (list op * obs) }.

Definition lkf (links : list (nat * nat * nat)) (w : nat) : option nat :=
  match find (fun l => Nat.eqb (fst (fst l)) w) links with
  | Some l => Some (snd (fst l))
  | None => None
  end.

(* ---------------- model side ---------------- *)
Definition try_step (v : variant) (s : state) (l : label) : state :=
  match step v s l with Some s' => s' | None => s end.

Definition apply_op (v : variant) (s : state) (o : op) : state :=
  match o with
  | OPause c => try_step v s (LCall c KPause)     (* a controller inside a call cannot call again *)
  | OResume c => try_step v s (LCall c KResume)
  | OStop w => try_step v s (LStop w)
  | OStopAll => fold_left (fun s w => try_step v s (LStop w)) (seq 0 (nw s)) s
  | OHold w => try_step v s (LWork w)       (* only a worker in its main select takes the item *)
  | ORelease w => try_step v s (LDone w)
  end.

(* a worker that comes back to its main select with a pause token (or a cancelled context) AND an
   upstream worker ready to hand it an item: select takes either arm *)
Definition amb_link (s : state) : bool :=
  existsb (fun u => match link s u with
                    | Some d => wpc_eqb (w_pc (wk s u)) WBusy && wpc_eqb (w_pc (wk s d)) WRun &&
                                (w_tok (wk s d) || w_stop (wk s d))
                    | None => false
                    end) (seq 0 (nw s)).

(* every system step except the end of an item that goes to the driver, which is the driver's to
   decide; the flag reports that an ambiguous state was met *)
Fixpoint settle_a (v : variant) (fuel : nat) (s : state) : state * bool :=
  match fuel with
  | 0 => (s, false)
  | S k => if amb_link s then (s, true)
           else match pick_h v s with
                | Some l => match step v s l with Some s' => settle_a v k s' | None => (s, false) end
                | None => (s, false)
                end
  end.
Definition settle (v : variant) (s : state) : state * bool := settle_a v (S (mu s) * S (nw s)) s.

Definition wcode (x : wst) : nat :=
  match w_pc x with WRun => 0 | WAck => 1 | WGone => 2 | WBusy => 4 | _ => 3 end.
Definition ccode (x : cpc) : nat :=
  match x with CIdle => 0 | CRRange _ _ => 1 | CPStart | CRStart => 2 | _ => 3 end.

Definition project (s : state) : obs :=
  Ob (map (fun c => ccode (ct s c)) (seq 0 (nc s)))
     (paused s)
     (map (fun w => wcode (wk s w)) (seq 0 (nw s)))
     (length (filter (fun w => w_sub (wk s w)) (seq 0 (nw s))))
     (length (filter (fun w => negb (w_sub (wk s w)) && w_pclosed (wk s w)) (seq 0 (nw s))))
     (panic s).

Fixpoint bools_eqb (a c : list bool) : bool :=
  match a, c with
  | [], [] => true
  | x :: a', y :: c' => Bool.eqb x y && bools_eqb a' c'
  | _, _ => false
  end.
Fixpoint nats_eqb (a c : list nat) : bool :=
  match a, c with
  | [], [] => true
  | x :: a', y :: c' => Nat.eqb x y && nats_eqb a' c'
  | _, _ => false
  end.
Definition obs_eqb (a c : obs) : bool :=
  nats_eqb (o_ctl a) (o_ctl c) && Bool.eqb (o_paused a) (o_paused c) &&
  nats_eqb (o_ws a) (o_ws c) && Nat.eqb (o_subs a) (o_subs c) && Nat.eqb (o_pcl a) (o_pcl c) &&
  Bool.eqb (o_bad a) (o_bad c).

(* a Pause and a Resume both wait for the mutex: which one gets it first is the Go runtime's
   choice and decides the outcome; the exact comparison stops there (the monitors do not) *)
Definition ambiguous (s : state) : bool :=
  existsb (fun c => match ct s c with CPStart => true | _ => false end) (seq 0 (nc s)) &&
  existsb (fun c => match ct s c with CRStart => true | _ => false end) (seq 0 (nc s)).

(* true = the implementation's observations differ from the model's at some round *)
Fixpoint diff_rounds (v : variant) (s : state) (rs : list (list op * obs)) : bool :=
  match rs with
  | [] => false
  | (ops, o) :: r =>
      let s0 := fold_left (apply_op v) ops s in
      if ambiguous s0 then false
      else let (s', amb) := settle v s0 in
           if amb then false
           else if obs_eqb (project s') o then diff_rounds v s' r else true
  end.

(* exact prediction only for unbuffered links (the model's hand-over is a rendezvous) *)
Definition diff_case_v (v : variant) (c : pcase) : bool :=
  forallb (fun l : nat * nat * nat => Nat.eqb (snd l) 0) (p_links c) &&
  diff_rounds v (init_l (p_nw c) (p_nc c) (lkf (p_links c))) (p_rounds c).

(* sequential driver: the model (of the repaired code) predicts every observation *)
Definition diffs (l : list pcase) := bad_idx (diff_case_v fixed) l.
(* the same comparison against the model of the code as found (used once, by hand, to validate
   that [orig] is the behaviour of the unpatched tree) *)
Definition diffs_orig (l : list pcase) := bad_idx (diff_case_v orig) l.
(* concurrent driver: the outcome depends on the schedule; monitors only *)
Definition cdiffs (l : list pcase) : list N := [].

(* ---------------- monitors: observations only ---------------- *)
Definition upd_list (l : list bool) (i : nat) : list bool :=
  map (fun jb : nat * bool => if Nat.eqb (fst jb) i then true else snd jb) (combine (seq 0 (length l)) l).

Definition cancel_op (canc : list bool) (o : op) : list bool :=
  match o with
  | OStop w => upd_list canc w
  | OStopAll => map (fun _ => true) canc
  | _ => canc
  end.

Definition is_pause (o : op) := match o with OPause _ => true | _ => false end.
Definition is_resume (o : op) := match o with OResume _ => true | _ => false end.

Definition is_zero (n : nat) : bool := Nat.eqb n 0.
Definition code (o : obs) (w : nat) : nat := nth w (o_ws o) 3.

(* worker w is inside an item that only the driver (or nobody: the receiver has left) can take:
   the observation is then not one of a process that has come to rest by itself *)
Fixpoint held (lk : nat -> option nat) (o : obs) (fuel w : nat) : bool :=
  match fuel with
  | 0 => false
  | S k => Nat.eqb (code o w) 4 &&
           match lk w with
           | None => true
           | Some d => Nat.eqb (code o d) 2 || held lk o k d
           end
  end.
(* worker w is inside an item and waits (through a chain of hand-overs) for a worker that has
   acknowledged the pause: the state of an upstream stage while the pipeline is paused *)
Fixpoint waitp (lk : nat -> option nat) (o : obs) (fuel w : nat) : bool :=
  match fuel with
  | 0 => false
  | S k => Nat.eqb (code o w) 4 &&
           match lk w with
           | None => false
           | Some d => Nat.eqb (code o d) 1 || waitp lk o k d
           end
  end.
Definition full (lk : nat -> option nat) (o : obs) : bool :=
  let n := length (o_ws o) in negb (existsb (held lk o (S n)) (seq 0 n)).
(* the live workers are where the pause flag says *)
Definition follow (lk : nat -> option nat) (canc : list bool) (o : obs) : bool :=
  let n := length (o_ws o) in
  forallb (fun w => if nth w canc false then true
                    else if o_paused o then Nat.eqb (code o w) 1 || waitp lk o (S n) w
                    else Nat.eqb (code o w) 0) (seq 0 n).

(* generic fold over the rounds with the set of cancelled workers *)
Fixpoint all_rounds (f : list bool -> list op -> obs -> bool) (canc : list bool)
         (rs : list (list op * obs)) : bool :=
  match rs with
  | [] => true
  | (ops, o) :: r => let canc' := fold_left cancel_op ops canc in
                     f canc' ops o && all_rounds f canc' r
  end.

Definition over_rounds (f : pcase -> list bool -> list op -> obs -> bool) (c : pcase) : bool :=
  all_rounds (f c) (repeat false (p_nw c)) (p_rounds c).

(* 0 calls_complete: once nothing moves (and no worker is inside an item that only the driver can
   take), no Pause / Resume call is in progress *)
Definition mon_calls_return : pcase -> bool :=
  over_rounds (fun (c : pcase) _ _ (o : obs) =>
    Nat.eqb (length (o_ctl o)) (p_nc c) &&
    (negb (full (lkf (p_links c)) o) || forallb is_zero (o_ctl o))).

(* 1 no panic (send on a closed channel), quiescence reached *)
Definition mon_no_panic : pcase -> bool := over_rounds (fun _ _ _ (o : obs) => negb (o_bad o)).

(* 2 stop_releases_workers: every cancelled worker has returned and unsubscribed *)
Definition mon_stopped_gone : pcase -> bool :=
  over_rounds (fun (c : pcase) canc _ (o : obs) =>
    Nat.eqb (length (o_ws o)) (p_nw c) &&
    forallb (fun kw : bool * nat => if fst kw then Nat.eqb (snd kw) 2 else true) (combine canc (o_ws o)) &&
    Nat.eqb (o_subs o) (length (filter negb canc))).

(* 3 paused_takes_no_work / resume_wakes_all at quiescence: a live worker is in the acknowledging
   send (or, upstream of one, stuck in its hand-over) iff the manager is paused; it is in its main
   select iff not *)
Definition mon_follow_flag : pcase -> bool :=
  over_rounds (fun (c : pcase) canc _ (o : obs) =>
    negb (full (lkf (p_links c)) o) || follow (lkf (p_links c)) canc o).

(* 4 the calls take effect: when no call was in progress before the round, then after a round of
   Pause calls only the manager is paused, after a round of Resume calls only it is not
   (pause_reaches_all / resume_wakes_all) *)
Fixpoint effect (lk : nat -> option nat) (prev : list nat) (rs : list (list op * obs)) : bool :=
  match rs with
  | [] => true
  | (ops, o) :: r =>
      (let np := existsb is_pause ops in let nr := existsb is_resume ops in
       if negb (forallb is_zero prev) || negb (full lk o) || negb (forallb is_zero (o_ctl o)) then true
       else if np && negb nr then o_paused o else if nr && negb np then negb (o_paused o) else true)
      && effect lk (o_ctl o) r
  end.
Definition mon_call_effect (c : pcase) : bool :=
  effect (lkf (p_links c)) (repeat 0 (p_nc c)) (p_rounds c).

(* 5 no channel that a Pause may still be about to send on is ever closed (no_panic's reason) *)
Definition mon_pausech_open : pcase -> bool := over_rounds (fun _ _ _ (o : obs) => Nat.eqb (o_pcl o) 0).

(* 6 pause_sticks (C14_pause_sticks + C14_calls_complete): a Pause invoked by an idle controller
   at a moment when every call in progress is a Resume that is already collecting (phase 1: none
   waits for the mutex), and after which no Resume is invoked, leaves the manager paused and every
   live worker acknowledging whenever all calls have returned and no worker is inside an item.
   [prev]: controller phases at the previous observation; [armed]: such a Pause has been seen. *)
Definition pause_by_idle (prev : list nat) (o : op) : bool :=
  match o with OPause c => Nat.eqb (nth c prev 1) 0 | _ => false end.

Fixpoint sticks (lk : nat -> option nat) (canc : list bool) (prev : list nat) (armed : bool)
         (rs : list (list op * obs)) : bool :=
  match rs with
  | [] => true
  | (ops, o) :: r =>
      let canc' := fold_left cancel_op ops canc in
      let armed' :=
        if existsb is_resume ops then false
        else armed || (existsb (pause_by_idle prev) ops && forallb (fun p => Nat.leb p 1) prev) in
      (if armed' && full lk o && forallb is_zero (o_ctl o)
       then o_paused o && follow lk canc' o
       else true)
      && sticks lk canc' (o_ctl o) armed' r
  end.

Definition mon_pause_sticks (c : pcase) : bool :=
  sticks (lkf (p_links c)) (repeat false (p_nw c)) (repeat 0 (p_nc c)) false (p_rounds c).

Definition mons (l : list pcase) :=
  mon_idx [mon_calls_return; mon_no_panic; mon_stopped_gone; mon_follow_flag; mon_call_effect;
           mon_pausech_open; mon_pause_sticks] l.
