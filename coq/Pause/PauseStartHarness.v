(* C14 - stage-level driver (`pausestart`): the four stages are started through their exported
   Start(inputChan, outputChan) with config.WorkersCount = w, every stage on channels of its own;
   one controller issues Pause / Resume, items are offered on the input channels, Stop() ends the
   stages.  After every op the process is observed at quiescence.  [diffs]: the LTS's prediction of
   the observations; [mons]: the theorems' predicates on the observations alone. *)
From ZenoV Require Import Lib.Harness Pause.PauseLts.

Inductive sop := SPause | SResume | SFeed (k : nat) | SStop.

(* one stage at quiescence: worker goroutines in the main select / in the acknowledging send /
   anywhere else; items the workers have taken so far (hook point "<stage>.in"); items that came
   out of the stage so far *)
Record sstage := SS { ss_main : nat; ss_ack : nat; ss_other : nat; ss_taken : nat; ss_out : nat }.

(* so_ok: the op's call returned, quiescence was reached, nothing panicked *)
Record sobs := SOb { so_ok : bool; so_paused : bool; so_subs : nat; so_st : list sstage }.

(* s_w workers per stage, s_nst stages *)
Record scase := SC { s_w : nat; s_nst : nat; s_rounds : list (sop * sobs) }.

(* ---------------- model side ---------------- *)
Definition try_step (v : variant) (s : state) (l : label) : state :=
  match step v s l with Some s' => s' | None => s end.

Definition settle (v : variant) (s : state) : state := quiesce v (S (mu s)) s.

(* the workers of stage j *)
Definition stage_ws (w j : nat) : list nat := seq (j * w) w.

(* p items are on offer at the stage's input channel: as long as one of its workers is in the main
   select it takes one (LWork), handles it and passes it on (LDone) *)
Fixpoint drain_stage (v : variant) (s : state) (ws : list nat) (p : nat) : state * nat :=
  match p with
  | 0 => (s, 0)
  | S p' => match find (fun w => enabled v s (LWork w)) ws with
            | Some w => let s1 := try_step v (try_step v s (LWork w)) (LDone w) in
                        let (s2, t) := drain_stage v s1 ws p' in (s2, S t)
            | None => (s, 0)
            end
  end.

(* model state: LTS state, per stage the items still on offer and the items taken *)
Record mst := MS { m_s : state; m_pend : list nat; m_taken : list nat }.

Fixpoint drain_all (v : variant) (w : nat) (s : state) (j : nat) (pend taken : list nat)
  : state * list nat * list nat :=
  match pend, taken with
  | p :: pr, t :: tr =>
      let (s1, k) := drain_stage v s (stage_ws w j) p in
      let '(s2, pr', tr') := drain_all v w s1 (S j) pr tr in
      (s2, (p - k) :: pr', (t + k) :: tr')
  | _, _ => (s, [], [])
  end.

Definition drain (v : variant) (w : nat) (m : mst) : mst :=
  let '(s, p, t) := drain_all v w (m_s m) 0 (m_pend m) (m_taken m) in MS s p t.

Definition apply_sop (v : variant) (w : nat) (m : mst) (o : sop) : mst :=
  match o with
  | SPause => drain v w (MS (settle v (try_step v (m_s m) (LCall 0 KPause))) (m_pend m) (m_taken m))
  | SResume => drain v w (MS (settle v (try_step v (m_s m) (LCall 0 KResume))) (m_pend m) (m_taken m))
  | SFeed k => drain v w (MS (m_s m) (map (fun p => p + k) (m_pend m)) (m_taken m))
  | SStop => let s := fold_left (fun s x => try_step v s (LStop x)) (seq 0 (nw (m_s m))) (m_s m) in
             drain v w (MS (settle v s) (m_pend m) (m_taken m))
  end.

Definition count_pc (s : state) (ws : list nat) (f : wpc -> bool) : nat :=
  length (filter (fun x => f (w_pc (wk s x))) ws).

Definition sproject (w nst : nat) (m : mst) : sobs :=
  let s := m_s m in
  SOb (negb (panic s) && forallb (fun c => is_idle_c (ct s c)) (seq 0 (nc s)))
      (paused s)
      (length (filter (fun x => w_sub (wk s x)) (seq 0 (nw s))))
      (map (fun jt : nat * nat =>
              let ws := stage_ws w (fst jt) in
              SS (count_pc s ws (fun p => wpc_eqb p WRun)) (count_pc s ws (fun p => wpc_eqb p WAck))
                 (count_pc s ws (fun p => negb (wpc_eqb p WRun || wpc_eqb p WAck || wpc_eqb p WGone)))
                 (snd jt) (snd jt))
           (combine (seq 0 nst) (m_taken m))).

Definition sstage_eqb (a c : sstage) : bool :=
  Nat.eqb (ss_main a) (ss_main c) && Nat.eqb (ss_ack a) (ss_ack c) && Nat.eqb (ss_other a) (ss_other c) &&
  Nat.eqb (ss_taken a) (ss_taken c) && Nat.eqb (ss_out a) (ss_out c).
Fixpoint sstages_eqb (a c : list sstage) : bool :=
  match a, c with
  | [], [] => true
  | x :: a', y :: c' => sstage_eqb x y && sstages_eqb a' c'
  | _, _ => false
  end.
Definition sobs_eqb (a c : sobs) : bool :=
  Bool.eqb (so_ok a) (so_ok c) && Bool.eqb (so_paused a) (so_paused c) &&
  Nat.eqb (so_subs a) (so_subs c) && sstages_eqb (so_st a) (so_st c).

Fixpoint sdiff_rounds (v : variant) (w nst : nat) (m : mst) (rs : list (sop * sobs)) : bool :=
  match rs with
  | [] => false
  | (o, ob) :: r => let m' := apply_sop v w m o in
                    if sobs_eqb (sproject w nst m') ob then sdiff_rounds v w nst m' r else true
  end.

Definition sdiff_case (c : scase) : bool :=
  sdiff_rounds fixed (s_w c) (s_nst c)
    (MS (init (s_w c * s_nst c) 1) (repeat 0 (s_nst c)) (repeat 0 (s_nst c))) (s_rounds c).

Definition diffs (l : list scase) := bad_idx sdiff_case l.

(* ---------------- monitors: observations only ---------------- *)
Definition is_sstop (o : sop) := match o with SStop => true | _ => false end.
Definition is_sresume (o : sop) := match o with SResume => true | _ => false end.
Definition fed_of (o : sop) := match o with SFeed k => k | _ => 0 end.

(* 0 calls_complete / no_panic: every Pause, Resume and Stop() call returned, quiescence reached,
   no goroutine of the crawler panicked *)
Definition mon_calls_return (c : scase) : bool := forallb (fun r : sop * sobs => so_ok (snd r)) (s_rounds c).

(* 1 subscribers_are_live_workers (+ stop_releases_workers): until Stop() the manager has one
   subscriber per worker - w per stage - and every stage has its w worker goroutines; afterwards
   none of either *)
Fixpoint subs_ok (w nst : nat) (stopped : bool) (rs : list (sop * sobs)) : bool :=
  match rs with
  | [] => true
  | (o, ob) :: r =>
      let st := stopped || is_sstop o in
      let want := if st then 0 else w in
      Nat.eqb (so_subs ob) (want * nst) && Nat.eqb (length (so_st ob)) nst &&
      forallb (fun x => Nat.eqb (ss_main x + ss_ack x + ss_other x) want) (so_st ob) &&
      subs_ok w nst st r
  end.
Definition mon_subscribers (c : scase) : bool := subs_ok (s_w c) (s_nst c) false (s_rounds c).

(* 2 pause_stops_every_worker: between an observation with the manager paused and the next one,
   unless the op in between is a Resume, NO stage takes an item and none comes out of a stage *)
Fixpoint no_work (prev : option sobs) (rs : list (sop * sobs)) : bool :=
  match rs with
  | [] => true
  | (o, ob) :: r =>
      (match prev with
       | Some pb => if so_paused pb && negb (is_sresume o)
                    then sstages_eqb (map (fun x => SS 0 0 0 (ss_taken x) (ss_out x)) (so_st pb))
                                     (map (fun x => SS 0 0 0 (ss_taken x) (ss_out x)) (so_st ob))
                    else true
       | None => true
       end) && no_work (Some ob) r
  end.
Definition mon_no_work_while_paused (c : scase) : bool := no_work None (s_rounds c).

(* 3 pause_stops_every_worker / resume_wakes_all at quiescence (calls_complete's final_ok): until
   Stop(), all w workers of every stage are in the acknowledging send iff the manager is paused,
   in the main select iff not *)
Fixpoint follow_ok (w : nat) (stopped : bool) (rs : list (sop * sobs)) : bool :=
  match rs with
  | [] => true
  | (o, ob) :: r =>
      let st := stopped || is_sstop o in
      (st || forallb (fun x => if so_paused ob then Nat.eqb (ss_ack x) w && Nat.eqb (ss_main x) 0
                               else Nat.eqb (ss_main x) w && Nat.eqb (ss_ack x) 0) (so_st ob)) &&
      follow_ok w st r
  end.
Definition mon_follow_flag (c : scase) : bool := follow_ok (s_w c) false (s_rounds c).

(* 4 unpaused workers work (resume_wakes_all): until Stop(), whenever the manager is not paused
   every item offered so far has been taken and has come out of its stage *)
Fixpoint delivers (fed : nat) (stopped : bool) (rs : list (sop * sobs)) : bool :=
  match rs with
  | [] => true
  | (o, ob) :: r =>
      let st := stopped || is_sstop o in
      let fed' := fed + fed_of o in
      (st || so_paused ob ||
       forallb (fun x => Nat.eqb (ss_taken x) fed' && Nat.eqb (ss_out x) fed') (so_st ob)) &&
      delivers fed' st r
  end.
Definition mon_delivers (c : scase) : bool := delivers 0 false (s_rounds c).

(* 5 the calls take effect (pause_reaches_all / resume_wakes_all): after Pause the manager is
   paused, after Resume it is not *)
Definition mon_call_effect (c : scase) : bool :=
  forallb (fun r : sop * sobs => match fst r with
                                 | SPause => so_paused (snd r)
                                 | SResume => negb (so_paused (snd r))
                                 | _ => true
                                 end) (s_rounds c).

Definition mons (l : list scase) :=
  mon_idx [mon_calls_return; mon_subscribers; mon_no_work_while_paused; mon_follow_flag;
           mon_delivers; mon_call_effect] l.
