(* C14 - model of internal/pkg/controler/pause/pause.go together with the pause arm of the four
   stage workers (internal/pkg/{preprocessor,archiver,postprocessor,finisher}: `worker`).

   A deterministic labelled transition system: one label = one channel / atomic / sync.Map
   operation of one goroutine; the label carries every nondeterministic choice (which goroutine
   moves, which element a Range visits next, which Resume call's receiver takes a worker's
   acknowledgement, which ready `select` arm a worker takes).  "For all schedules" is
   "for all label lists".

   The same [step] describes the code before and after the three repairs, selected by a
   [variant]:
     v_ackctx  - the worker acknowledges with
                   select { case ResumeCh <- struct{}{}: case <-ctx.Done(): return }
                 (false: the bare blocking send  ResumeCh <- struct{}{}  of the original code)
     v_mutex   - Resume holds the manager mutex from its first to its last step (false: original code)
     v_pmutex  - Pause holds the same mutex (false: original code; with v_mutex alone a Pause can
                 return, having done nothing, while a Resume is still collecting)
     v_early   - Resume returns at once when nothing is paused (false: original code, Resume
                 always waits for one send from every subscriber)
     v_closep  - Unsubscribe closes PauseCh (original code); false: only ResumeCh is closed
     v_seq     - Resume receives the acknowledgements one subscriber after the other inside Range
                 instead of by one receiver goroutine per subscriber (never part of the code: a
                 "simplification" that deadlocks when workers feed each other)
     v_unsubmutex - Unsubscribe takes the manager mutex too (a repair candidate that the model
                 refutes; never part of the code)
   Executable definitions only; proofs are in PauseProofs.v. *)
From Coq Require Export List Arith Bool PeanoNat.
Export ListNotations.

Record variant := V { v_ackctx : bool; v_mutex : bool; v_pmutex : bool; v_early : bool; v_closep : bool;
                     v_unsubmutex : bool; v_seq : bool }.
Definition orig  : variant := V false false false false true false false.
Definition fixed : variant := V true true true true false false false.

(* ---- stage worker (one subscriber) ----
   WRun    in the main select { ctx.Done / PauseCh / input }
   WBusy   took an item from the input channel and is handling it (not looking at its channels;
           the item ends by itself, or - the output select has a ctx.Done arm - by cancellation)
   WAck    took the pause token, blocked acknowledging on ResumeCh
   WDel    returned from the loop; deferred Unsubscribe about to run  subscribers.Delete
   WCloseP about to  close(PauseCh)      (only when v_closep)
   WCloseR about to  close(ResumeCh)
   WGone   Unsubscribe finished, wg.Done() *)
Inductive wpc := WRun | WBusy | WAck | WDel | WCloseP | WCloseR | WGone.

Record wst := W {
  w_pc : wpc;
  w_tok : bool;       (* PauseCh (buffer 1) holds a token *)
  w_pclosed : bool;   (* PauseCh closed *)
  w_rclosed : bool;   (* ResumeCh closed *)
  w_sub : bool;       (* key present in manager.subscribers *)
  w_stop : bool       (* the worker's context is cancelled *)
}.

(* ---- a controller (disk watcher, WARC-queue watcher, operator, ...): one sequential caller ----
   CPStart           Pause() invoked, not yet past Lock / CompareAndSwap
   CPRange todo      inside subscribers.Range, keys [todo] not yet visited
   CPSend x todo     Range callback running for key x, about to do the non-blocking send
   CRStart           Resume() invoked, not yet past Lock / IsPaused test
   CRRange todo aw   Range still has [todo] to visit; receiver goroutines wait on the
                     ResumeCh of the workers in [aw]   (todo = [] : in wg.Wait()) *)
Inductive cpc :=
| CIdle | CPStart | CPRange (todo : list nat) | CPSend (x : nat) (todo : list nat)
| CRStart | CRRange (todo aw : list nat).

Inductive owner := OC (c : nat) | OW (w : nat).

Record state := St {
  nw : nat;                 (* workers 0 .. nw-1 *)
  nc : nat;                 (* controllers 0 .. nc-1 *)
  paused : bool;            (* manager.isPaused *)
  holder : option owner;    (* who holds manager.mu (always None without v_mutex) *)
  wk : nat -> wst;
  ct : nat -> cpc;
  panic : bool;             (* send on a closed channel happened: the process is dead *)
  link : nat -> option nat  (* static wiring: worker w passes its items on to worker d's input
                               channel (unbuffered), as the stages do; None: to the outside *)
}.

Definition upd {A} (f : nat -> A) (i : nat) (x : A) : nat -> A :=
  fun j => if Nat.eqb j i then x else f j.

Definition set_w (s : state) (w : nat) (x : wst) : state :=
  St (nw s) (nc s) (paused s) (holder s) (upd (wk s) w x) (ct s) (panic s) (link s).
Definition set_c (s : state) (c : nat) (x : cpc) : state :=
  St (nw s) (nc s) (paused s) (holder s) (wk s) (upd (ct s) c x) (panic s) (link s).
Definition set_paused (s : state) (b : bool) : state :=
  St (nw s) (nc s) b (holder s) (wk s) (ct s) (panic s) (link s).
Definition set_holder (s : state) (h : option owner) : state :=
  St (nw s) (nc s) (paused s) h (wk s) (ct s) (panic s) (link s).
Definition set_panic (s : state) : state :=
  St (nw s) (nc s) (paused s) (holder s) (wk s) (ct s) true (link s).

Definition wset_pc (x : wst) (p : wpc) := W p (w_tok x) (w_pclosed x) (w_rclosed x) (w_sub x) (w_stop x).
Definition wset_tok (x : wst) (b : bool) := W (w_pc x) b (w_pclosed x) (w_rclosed x) (w_sub x) (w_stop x).
Definition wset_stop (x : wst) := W (w_pc x) (w_tok x) (w_pclosed x) (w_rclosed x) (w_sub x) true.

Definition memb (w : nat) (l : list nat) : bool := existsb (Nat.eqb w) l.
Definition rem (w : nat) (l : list nat) : list nat := filter (fun j => negb (Nat.eqb j w)) l.

Definition free (s : state) : bool := match holder s with None => true | Some _ => false end.
Definition lock_free (v : variant) (s : state) : bool := negb (v_mutex v) || free s.
Definition take (v : variant) (s : state) (o : owner) : state :=
  if v_mutex v then set_holder s (Some o) else s.
Definition release (v : variant) (s : state) : state :=
  if v_mutex v then set_holder s None else s.
(* the same for Pause *)
Definition plock_free (v : variant) (s : state) : bool := negb (v_pmutex v) || free s.
Definition ptake (v : variant) (s : state) (o : owner) : state :=
  if v_pmutex v then set_holder s (Some o) else s.
Definition prelease (v : variant) (s : state) : state :=
  if v_pmutex v then set_holder s None else s.

(* may Range go on to the next key?  (sequential collection: only after the pending receive) *)
Definition visit_ok (v : variant) (aw : list nat) : bool :=
  negb (v_seq v && match aw with [] => false | _ => true end).

Inductive kind := KPause | KResume.

Inductive label :=
(* environment: invocations and work arriving *)
| LCall (c : nat) (k : kind)     (* controller c calls Pause() / Resume() *)
| LStop (w : nat)                (* worker w's context is cancelled (stage Stop / worker exit) *)
| LWork (w : nat)                (* worker w takes one item from its input channel *)
(* Pause *)
| LPauseBegin (c : nat)          (* [Lock;] CompareAndSwap(false,true); Range starts or call returns *)
| LPauseVisit (c w : nat)        (* Range loads key w: callback entered if still present *)
| LPauseSend (c : nat)           (* select { case PauseCh <- : default: } *)
| LPauseEnd (c : nat)            (* Range finished; [Unlock;] return *)
(* Resume *)
| LResumeBegin (c : nat)         (* [Lock; if !isPaused return;] Range starts *)
| LResumeVisit (c w : nat)       (* Range loads key w: receiver goroutine spawned if present
                                    (v_seq: the receive is done in place, Range goes on after it) *)
| LHandshake (c w : nat)         (* w's send on ResumeCh meets the receiver of call c *)
| LRecvClosed (c w : nat)        (* receiver of call c sees ResumeCh of w closed *)
| LResumeEnd (c : nat)           (* wg.Wait returns; CompareAndSwap(true,false); [Unlock;] return *)
(* worker *)
| LTakePause (w : nat)           (* case <-PauseCh *)
| LSeeStop (w : nat)             (* case <-ctx.Done() in the main select *)
| LAckStop (w : nat)             (* case <-ctx.Done() in the acknowledging select (v_ackctx) *)
| LUnsubDelete (w : nat)         (* subscribers.Delete *)
| LUnsubCloseP (w : nat)         (* close(PauseCh) *)
| LUnsubCloseR (w : nat)         (* close(ResumeCh); wg.Done *)
| LDone (w : nat)                (* the item is handled and passed on: back to the main select *)
| LBusyStop (w : nat).           (* case <-ctx.Done() in the select that passes the item on *)

(* system labels: steps the program takes by itself once calls have been invoked *)
Definition sys (l : label) : bool :=
  match l with LCall _ _ | LStop _ | LWork _ => false | _ => true end.

Definition step (v : variant) (s : state) (l : label) : option state :=
  if panic s then None else
  match l with
  | LCall c k =>
      if c <? nc s then
        match ct s c with
        | CIdle => Some (set_c s c (match k with KPause => CPStart | KResume => CRStart end))
        | _ => None
        end
      else None
  | LStop w => if w <? nw s then Some (set_w s w (wset_stop (wk s w))) else None
  | LWork w =>
      if w <? nw s then
        match w_pc (wk s w) with
        | WRun => Some (set_w s w (wset_pc (wk s w) WBusy))
        | _ => None
        end
      else None
  | LDone w =>
      if w <? nw s then
        match w_pc (wk s w) with
        | WBusy =>
            match link s w with
            | None => Some (set_w s w (wset_pc (wk s w) WRun))
            | Some d =>
                (* outputCh <- seed meets the downstream worker's  case seed := <-inputCh *)
                if (w <? d) && (d <? nw s) then
                  match w_pc (wk s d) with
                  | WRun => Some (set_w (set_w s w (wset_pc (wk s w) WRun)) d
                                        (wset_pc (wk s d) WBusy))
                  | _ => None
                  end
                else None
            end
        | _ => None
        end
      else None
  | LBusyStop w =>
      if w <? nw s then
        match w_pc (wk s w) with
        | WBusy => if w_stop (wk s w) then Some (set_w s w (wset_pc (wk s w) WDel)) else None
        | _ => None
        end
      else None
  | LPauseBegin c =>
      if c <? nc s then
        match ct s c with
        | CPStart =>
            if plock_free v s then
              if paused s then Some (set_c s c CIdle)
              else Some (ptake v (set_c (set_paused s true) c (CPRange (seq 0 (nw s)))) (OC c))
            else None
        | _ => None
        end
      else None
  | LPauseVisit c w =>
      if c <? nc s then
        match ct s c with
        | CPRange todo =>
            if memb w todo then
              if w_sub (wk s w) then Some (set_c s c (CPSend w (rem w todo)))
              else Some (set_c s c (CPRange (rem w todo)))
            else None
        | _ => None
        end
      else None
  | LPauseSend c =>
      if c <? nc s then
        match ct s c with
        | CPSend x todo =>
            if w_pclosed (wk s x) then Some (set_panic s)
            else Some (set_c (set_w s x (wset_tok (wk s x) true)) c (CPRange todo))
        | _ => None
        end
      else None
  | LPauseEnd c =>
      if c <? nc s then
        match ct s c with
        | CPRange [] => Some (prelease v (set_c s c CIdle))
        | _ => None
        end
      else None
  | LResumeBegin c =>
      if c <? nc s then
        match ct s c with
        | CRStart =>
            if lock_free v s then
              if v_early v && negb (paused s) then Some (set_c s c CIdle)
              else Some (take v (set_c s c (CRRange (seq 0 (nw s)) [])) (OC c))
            else None
        | _ => None
        end
      else None
  | LResumeVisit c w =>
      if c <? nc s then
        match ct s c with
        | CRRange todo aw =>
            if memb w todo && visit_ok v aw then
              if w_sub (wk s w) then Some (set_c s c (CRRange (rem w todo) (w :: aw)))
              else Some (set_c s c (CRRange (rem w todo) aw))
            else None
        | _ => None
        end
      else None
  | LHandshake c w =>
      if c <? nc s then
        match ct s c with
        | CRRange todo aw =>
            if memb w aw then
              match w_pc (wk s w) with
              | WAck => Some (set_c (set_w s w (wset_pc (wk s w) WRun)) c (CRRange todo (rem w aw)))
              | _ => None
              end
            else None
        | _ => None
        end
      else None
  | LRecvClosed c w =>
      if c <? nc s then
        match ct s c with
        | CRRange todo aw =>
            if memb w aw && w_rclosed (wk s w) then Some (set_c s c (CRRange todo (rem w aw)))
            else None
        | _ => None
        end
      else None
  | LResumeEnd c =>
      if c <? nc s then
        match ct s c with
        | CRRange [] [] => Some (release v (set_c (set_paused s false) c CIdle))
        | _ => None
        end
      else None
  | LTakePause w =>
      if w <? nw s then
        match w_pc (wk s w) with
        | WRun => if w_tok (wk s w)
                  then Some (set_w s w (wset_pc (wset_tok (wk s w) false) WAck))
                  else None
        | _ => None
        end
      else None
  | LSeeStop w =>
      if w <? nw s then
        match w_pc (wk s w) with
        | WRun => if w_stop (wk s w) then Some (set_w s w (wset_pc (wk s w) WDel)) else None
        | _ => None
        end
      else None
  | LAckStop w =>
      if w <? nw s then
        match w_pc (wk s w) with
        | WAck => if v_ackctx v && w_stop (wk s w)
                  then Some (set_w s w (wset_pc (wk s w) WDel)) else None
        | _ => None
        end
      else None
  | LUnsubDelete w =>
      if w <? nw s then
        match w_pc (wk s w) with
        | WDel =>
            if negb (v_unsubmutex v) || free s then
              let x := wk s w in
              let x' := W (if v_closep v then WCloseP else WCloseR)
                          (w_tok x) (w_pclosed x) (w_rclosed x) false (w_stop x) in
              let s' := set_w s w x' in
              Some (if v_unsubmutex v then set_holder s' (Some (OW w)) else s')
            else None
        | _ => None
        end
      else None
  | LUnsubCloseP w =>
      if w <? nw s then
        match w_pc (wk s w) with
        | WCloseP =>
            let x := wk s w in
            Some (set_w s w (W WCloseR (w_tok x) true (w_rclosed x) (w_sub x) (w_stop x)))
        | _ => None
        end
      else None
  | LUnsubCloseR w =>
      if w <? nw s then
        match w_pc (wk s w) with
        | WCloseR =>
            let x := wk s w in
            let s' := set_w s w (W WGone (w_tok x) (w_pclosed x) true (w_sub x) (w_stop x)) in
            Some (if v_unsubmutex v then set_holder s' None else s')
        | _ => None
        end
      else None
  end.

Fixpoint run (v : variant) (s : state) (ls : list label) : option state :=
  match ls with
  | [] => Some s
  | l :: r => match step v s l with Some s' => run v s' r | None => None end
  end.

(* n subscribed running workers, m idle controllers, nothing paused *)
Definition w0 : wst := W WRun false false false true false.
Definition init_l (n m : nat) (lk : nat -> option nat) : state :=
  St n m false None (fun _ => w0) (fun _ => CIdle) false lk.
(* independent workers *)
Definition init (n m : nat) : state := init_l n m (fun _ => None).

(* ---- every system label that can possibly be enabled in s (finite) ---- *)
Definition cands_c (s : state) (c : nat) : list label :=
  [LPauseBegin c; LPauseSend c; LPauseEnd c; LResumeBegin c; LResumeEnd c] ++
  match ct s c with
  | CPRange todo => map (LPauseVisit c) todo
  | CRRange todo aw => map (LResumeVisit c) todo ++ map (LHandshake c) aw ++ map (LRecvClosed c) aw
  | _ => []
  end.
Definition cands_w (w : nat) : list label :=
  [LTakePause w; LSeeStop w; LAckStop w; LUnsubDelete w; LUnsubCloseP w; LUnsubCloseR w;
   LDone w; LBusyStop w].
Definition cands (s : state) : list label :=
  flat_map (cands_c s) (seq 0 (nc s)) ++ flat_map cands_w (seq 0 (nw s)).

Definition enabled (v : variant) (s : state) (l : label) : bool :=
  match step v s l with Some _ => true | None => false end.

(* no system label enabled *)
Definition quiescent_b (v : variant) (s : state) : bool :=
  forallb (fun l => negb (enabled v s l)) (cands s).

(* a fixed scheduler: the first enabled system label *)
Definition pick (v : variant) (s : state) : option label := find (enabled v s) (cands s).

Fixpoint quiesce (v : variant) (fuel : nat) (s : state) : state :=
  match fuel with
  | 0 => s
  | S k => match pick v s with
           | Some l => match step v s l with Some s' => quiesce v k s' | None => s end
           | None => s
           end
  end.

(* the same scheduler for the correspondence check, where an item that leaves the experiment (its
   worker has no downstream worker) lasts until the driver takes it: that [LDone] is never picked *)
Definition is_done (s : state) (l : label) : bool :=
  match l with
  | LDone w => match link s w with None => true | Some _ => false end
  | _ => false
  end.
Definition pick_h (v : variant) (s : state) : option label :=
  find (fun l => negb (is_done s l) && enabled v s l) (cands s).
Fixpoint quiesce_h (v : variant) (fuel : nat) (s : state) : state :=
  match fuel with
  | 0 => s
  | S k => match pick_h v s with
           | Some l => match step v s l with Some s' => quiesce_h v k s' | None => s end
           | None => s
           end
  end.

(* ---- termination measure of system steps ---- *)
Fixpoint sumf (f : nat -> nat) (n : nat) : nat :=
  match n with 0 => 0 | S k => sumf f k + f k end.

Definition cmeasure (n : nat) (x : cpc) : nat :=
  match x with
  | CIdle => 0
  | CPStart => 2 * n + 2
  | CPRange todo => 2 * length todo + 1
  | CPSend _ todo => 2 * length todo + 2
  | CRStart => 2 * n + 2
  | CRRange todo aw => 2 * length todo + length aw + 1
  end.
Definition pcmeasure (p : wpc) : nat :=
  match p with
  | WGone => 0 | WCloseR => 1 | WCloseP => 2 | WDel => 3 | WAck => 4 | WRun => 5 | WBusy => 6
  end.
Definition wmeasure (x : wst) : nat := pcmeasure (w_pc x) + (if w_tok x then 1 else 0).
Definition mu (s : state) : nat :=
  3 * sumf (fun c => cmeasure (nw s) (ct s c)) (nc s) + sumf (fun w => wmeasure (wk s w)) (nw s)
  + (if panic s then 0 else 1).

(* ---- what a quiescent state must look like ---- *)
Definition wpc_eqb (a b : wpc) : bool :=
  match a, b with
  | WRun, WRun | WBusy, WBusy | WAck, WAck | WDel, WDel | WCloseP, WCloseP | WCloseR, WCloseR | WGone, WGone => true
  | _, _ => false
  end.
Definition is_idle_c (x : cpc) : bool := match x with CIdle => true | _ => false end.

(* worker w is where it should be once nothing moves any more *)
Definition worker_ok (s : state) (w : nat) : bool :=
  let x := wk s w in
  if w_stop x then wpc_eqb (w_pc x) WGone
  else if paused s then wpc_eqb (w_pc x) WAck
  else wpc_eqb (w_pc x) WRun && negb (w_tok x).

Definition final_ok_b (s : state) : bool :=
  negb (panic s)
  && forallb (fun c => is_idle_c (ct s c)) (seq 0 (nc s))
  && forallb (worker_ok s) (seq 0 (nw s)).
