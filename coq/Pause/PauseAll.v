(* C14 - "pause stops ALL workers of every stage": what the stage-level driver (the stages started
   through their exported Start with WorkersCount = w) observes, as statements about the LTS of
   PauseLts.v.

   [init n m] gives every one of the n workers a subscription of its own (w_sub, a PauseCh of its
   own): "one subscription per worker goroutine" is how the four stages are written.  The
   statements below are what follows from it for the repaired protocol, over all schedules:
   - the subscribers of the manager are exactly the workers whose context is not cancelled;
   - once nothing moves while the manager is paused, EVERY live worker is in the acknowledging
     send, and from there no schedule that contains no new Resume invocation lets ANY worker take
     a work item (whatever else is invoked: further Pause calls, cancellations, work offered);
   - once nothing moves while the manager is not paused, every live worker can take work. *)
From Coq Require Import Lia.
From ZenoV Require Import Pause.PauseLts Pause.PauseBase Pause.PauseProofs.

(* keys of manager.subscribers / workers whose context is not cancelled *)
Definition nsubs (s : state) : nat := length (filter (fun w => w_sub (wk s w)) (seq 0 (nw s))).
Definition nlive (s : state) : nat := length (filter (fun w => negb (w_stop (wk s w))) (seq 0 (nw s))).

Definition no_resume_call (ls : list label) : Prop := forall l c, In l ls -> l <> LCall c KResume.

(* ---- the population is fixed ---- *)
Lemma step_nw v s l s' : step v s l = Some s' -> nw s' = nw s /\ nc s' = nc s.
Proof.
  unfold step. intros H. destruct (panic s); [discriminate|].
  destruct l; dstep H; inversion H; subst; clear H;
    unfold take, release, ptake, prelease;
    repeat match goal with |- context [if ?b then _ else _] => destruct b end;
    cbn; split; reflexivity.
Qed.

Lemma run_nw v ls : forall s s', run v s ls = Some s' -> nw s' = nw s /\ nc s' = nc s.
Proof.
  induction ls as [|l ls IH]; intros s s' H; cbn [run] in H.
  - inversion H; subst. split; reflexivity.
  - destruct (step v s l) as [s1|] eqn:E; [|discriminate].
    destruct (step_nw v s l s1 E) as [A B]. destruct (IH s1 s' H) as [C D]. split; congruence.
Qed.

(* ---- "everything is stopped": no call past its first step, nobody in (or on the way back to) the
   main select ---- *)
Definition stopped_all (s : state) : Prop :=
  paused s = true /\
  (forall c, c < nc s -> ct s c = CIdle \/ ct s c = CPStart) /\
  (forall w, w < nw s -> w_pc (wk s w) <> WRun /\ w_pc (wk s w) <> WBusy).

Lemma stopped_set_w s w x :
  stopped_all s -> w_pc x <> WRun /\ w_pc x <> WBusy -> stopped_all (set_w s w x).
Proof.
  intros [Hp [Hc Hw]] Hx. split; [exact Hp|]. split; [exact Hc|].
  intros w' Hlt. cbn [wk set_w nw] in *. unfold upd.
  destruct (Nat.eqb_spec w' w) as [->|Hne]; [exact Hx | apply Hw; exact Hlt].
Qed.

Lemma stopped_set_c s c x :
  stopped_all s -> x = CIdle \/ x = CPStart -> stopped_all (set_c s c x).
Proof.
  intros [Hp [Hc Hw]] Hx. split; [exact Hp|]. split; [|exact Hw].
  intros c' Hlt. cbn [ct set_c nc] in *. unfold upd.
  destruct (Nat.eqb_spec c' c) as [->|Hne]; [exact Hx | apply Hc; exact Hlt].
Qed.

Lemma stopped_set_holder s h : stopped_all s -> stopped_all (set_holder s h).
Proof. intros H. exact H. Qed.

Ltac ct_contra Hc :=
  match goal with
  | Hlt : (?c <? nc ?s) = true, E : ct ?s ?c = _ |- _ =>
      exfalso; destruct (Hc c (ltb_lt' _ _ Hlt)) as [X|X]; rewrite X in E; discriminate E
  end.
Ltac pc_contra Hw :=
  match goal with
  | Hlt : (?w <? nw ?s) = true, E : w_pc (wk ?s ?w) = _ |- _ =>
      exfalso; destruct (Hw w (ltb_lt' _ _ Hlt)) as [X1 X2]; congruence
  end.

Lemma stopped_step s l s' :
  stopped_all s -> step fixed s l = Some s' -> (forall c, l <> LCall c KResume) ->
  stopped_all s' /\ forall w, l <> LWork w.
Proof.
  intros HK Hstep Hnr. pose proof HK as [Hp [Hc Hw]].
  unfold step in Hstep. destruct (panic s); [discriminate|].
  destruct l.
  - (* LCall *) split; [|discriminate]. dstep Hstep; inversion Hstep; subst; clear Hstep.
    + apply stopped_set_c; [exact HK | right; reflexivity].
    + exfalso. apply (Hnr c). reflexivity.
  - (* LStop *) split; [|discriminate]. dstep Hstep; inversion Hstep; subst; clear Hstep.
    apply stopped_set_w; [exact HK|]. cbn [w_pc wset_stop]. apply Hw. apply ltb_lt'. assumption.
  - (* LWork *) dstep Hstep; pc_contra Hw.
  - (* LPauseBegin *) split; [|discriminate]. dstep Hstep; try ct_contra Hc.
    + inversion Hstep; subst; clear Hstep. apply stopped_set_c; [exact HK | left; reflexivity].
    + congruence.
  - (* LPauseVisit *) dstep Hstep; ct_contra Hc.
  - (* LPauseSend *) dstep Hstep; ct_contra Hc.
  - (* LPauseEnd *) dstep Hstep; ct_contra Hc.
  - (* LResumeBegin *) dstep Hstep; ct_contra Hc.
  - (* LResumeVisit *) dstep Hstep; ct_contra Hc.
  - (* LHandshake *) dstep Hstep; ct_contra Hc.
  - (* LRecvClosed *) dstep Hstep; ct_contra Hc.
  - (* LResumeEnd *) dstep Hstep; ct_contra Hc.
  - (* LTakePause *) dstep Hstep; pc_contra Hw.
  - (* LSeeStop *) dstep Hstep; pc_contra Hw.
  - (* LAckStop *) split; [|discriminate]. dstep Hstep; inversion Hstep; subst; clear Hstep.
    apply stopped_set_w; [exact HK|]. cbn [w_pc wset_pc]. split; discriminate.
  - (* LUnsubDelete *) split; [|discriminate]. dstep Hstep; inversion Hstep; subst; clear Hstep;
      cbn [v_unsubmutex v_closep fixed];
      apply stopped_set_w; try exact HK; cbn [w_pc]; split; discriminate.
  - (* LUnsubCloseP *) split; [|discriminate]. dstep Hstep; inversion Hstep; subst; clear Hstep.
    apply stopped_set_w; [exact HK|]. cbn [w_pc]. split; discriminate.
  - (* LUnsubCloseR *) split; [|discriminate]. dstep Hstep; inversion Hstep; subst; clear Hstep;
      cbn [v_unsubmutex fixed];
      apply stopped_set_w; try exact HK; cbn [w_pc]; split; discriminate.
  - (* LDone *) dstep Hstep; pc_contra Hw.
  - (* LBusyStop *) dstep Hstep; pc_contra Hw.
Qed.

Lemma stopped_run ls : forall s s',
  stopped_all s -> run fixed s ls = Some s' -> no_resume_call ls ->
  stopped_all s' /\ forall w, ~ In (LWork w) ls.
Proof.
  induction ls as [|l ls IH]; intros s s' HK Hrun Hnr; cbn [run] in Hrun.
  - inversion Hrun; subst. split; [exact HK | intros w []].
  - destruct (step fixed s l) as [s1|] eqn:E; [|discriminate].
    destruct (stopped_step s l s1 HK E) as [HK1 Hl].
    { intros c Heq. apply (Hnr l c); [left; reflexivity | exact Heq]. }
    destruct (IH s1 s' HK1 Hrun) as [HK' Hin].
    { intros l' c Hin. apply Hnr. right. exact Hin. }
    split; [exact HK'|]. intros w [Heq|H]; [exact (Hl w Heq) | exact (Hin w H)].
Qed.

Lemma final_stopped s : final_ok s -> paused s = true -> stopped_all s.
Proof.
  intros [_ [Hc Hw]] Hp. split; [exact Hp|]. split.
  - intros c Hlt. left. apply Hc. exact Hlt.
  - intros w Hlt. specialize (Hw w Hlt). rewrite Hp in Hw.
    destruct (w_stop (wk s w)); rewrite Hw; split; discriminate.
Qed.

(* ---- the subscribers are the live workers ---- *)
Lemma filter_ext_len (f g : nat -> bool) l :
  (forall x, In x l -> f x = g x) -> length (filter f l) = length (filter g l).
Proof.
  induction l as [|a l IH]; intros H; [reflexivity|]. cbn [filter].
  rewrite (H a (or_introl eq_refl)). destruct (g a); cbn [length]; rewrite IH; auto;
    intros x Hx; apply H; right; exact Hx.
Qed.

Lemma subscribers_are_live_workers_lemma : forall n m ls s,
  run fixed (init n m) ls = Some s ->
  nw s = n /\
  (forall w, w < nw s -> w_stop (wk s w) = false -> w_sub (wk s w) = true) /\
  (quiescent fixed s -> nsubs s = nlive s).
Proof.
  intros n m ls s Hreach. pose proof (reachable_inv n m ls s Hreach) as HI.
  split; [exact (proj1 (run_nw fixed ls _ _ Hreach))|].
  assert (Hlive : forall w, w < nw s -> w_stop (wk s w) = false -> w_sub (wk s w) = true).
  { intros w Hw Hs. pose proof (inv_w s HI w Hw) as Hwf. unfold wwf in Hwf.
    destruct Hwf as [_ [_ [Hsub [_ [Hrun _]]]]]. apply (proj2 Hsub).
    destruct (Hrun Hs) as [H|H]; [left; exact H | right; left; exact H]. }
  split; [exact Hlive|].
  intros Hq. unfold nsubs, nlive. apply filter_ext_len. intros w Hin. apply in_seq in Hin.
  assert (Hw : w < nw s) by lia.
  destruct (w_stop (wk s w)) eqn:Es; cbn [negb].
  - destruct (stop_releases_workers_lemma n m ls s [] s w Hreach (Forall_nil _) eq_refl Hq Hw Es)
      as [_ [H _]]. exact H.
  - apply Hlive; assumption.
Qed.

(* ---- a pause stops every worker; without a pause every worker works ---- *)
Lemma pause_stops_every_worker_lemma : forall n m ls0 s,
  run fixed (init n m) ls0 = Some s -> quiescent fixed s ->
  (paused s = true ->
     (forall w, w < nw s -> w_stop (wk s w) = false -> w_pc (wk s w) = WAck) /\
     forall ls s', run fixed s ls = Some s' -> no_resume_call ls ->
                   paused s' = true /\ forall w, ~ In (LWork w) ls) /\
  (paused s = false ->
     forall w, w < nw s -> w_stop (wk s w) = false -> step fixed s (LWork w) <> None).
Proof.
  intros n m ls0 s Hreach Hq.
  destruct (calls_complete_lemma n m ls0 s Hreach) as [_ [Hfin _]].
  pose proof (Hfin [] s (Forall_nil _) eq_refl Hq) as Hf. split.
  - intros Hp. split.
    + intros w Hw Hs. destruct Hf as [_ [_ Hws]]. specialize (Hws w Hw).
      rewrite Hs, Hp in Hws. exact Hws.
    + intros ls s' Hrun Hnr.
      destruct (stopped_run ls s s' (final_stopped s Hf Hp) Hrun Hnr) as [[Hp' _] Hno].
      split; assumption.
  - intros Hp w Hw Hs. destruct Hf as [Hpan [_ Hws]]. specialize (Hws w Hw).
    rewrite Hs, Hp in Hws. destruct Hws as [Hpc _].
    unfold step. rewrite Hpan. rewrite (proj2 (Nat.ltb_lt w (nw s)) Hw). rewrite Hpc. discriminate.
Qed.

(* ---- non-vacuity: three workers (one stage with WorkersCount = 3), a complete Pause ---- *)
Example nonvacuous_pause_stops_every_worker :
  match run fixed (init 3 1) (full_pause 0 [0; 1; 2]) with
  | Some s => quiescent_b fixed s && paused s && Nat.eqb (nsubs s) 3 && Nat.eqb (nlive s) 3
              && forallb (fun w => wpc_eqb (w_pc (wk s w)) WAck) [0; 1; 2]
              && forallb (fun w => negb (enabled fixed s (LWork w))) [0; 1; 2]
  | None => false
  end = true.
Proof. vm_compute. reflexivity. Qed.

(* ... and after the matching Resume every one of them takes work again *)
Example nonvacuous_unpaused_workers_work :
  match run fixed (init 3 1) (full_pause 0 [0; 1; 2] ++
          [LCall 0 KResume; LResumeBegin 0; LResumeVisit 0 0; LResumeVisit 0 1; LResumeVisit 0 2;
           LHandshake 0 0; LHandshake 0 1; LHandshake 0 2; LResumeEnd 0]) with
  | Some s => quiescent_b fixed s && negb (paused s)
              && forallb (fun w => enabled fixed s (LWork w)) [0; 1; 2]
  | None => false
  end = true.
Proof. vm_compute. reflexivity. Qed.
