(* C14 - facts about the pause LTS that hold for EVERY variant of the code: the candidate list is
   complete, system steps terminate (measure), a maximal system execution exists from every
   state.  Proofs only; the model is PauseLts.v. *)
From Coq Require Import Lia.
From ZenoV Require Import Pause.PauseLts.

(* ---- small facts ---- *)
Lemma upd_same {A} (f : nat -> A) i x : upd f i x i = x.
Proof. unfold upd. now rewrite Nat.eqb_refl. Qed.

Lemma upd_other {A} (f : nat -> A) i j x : j <> i -> upd f i x j = f j.
Proof. intros Hne. unfold upd. destruct (Nat.eqb_spec j i); congruence. Qed.

Lemma memb_In w l : memb w l = true <-> In w l.
Proof.
  unfold memb. rewrite existsb_exists. split.
  - intros [x [Hin Heq]]. apply Nat.eqb_eq in Heq. now subst.
  - intros Hin. exists w. split; [assumption | apply Nat.eqb_refl].
Qed.

Lemma rem_In x w l : In x (rem w l) <-> In x l /\ x <> w.
Proof.
  unfold rem. rewrite filter_In. split; intros [Hin Hne]; split; try assumption.
  - intros ->. now rewrite Nat.eqb_refl in Hne.
  - destruct (Nat.eqb_spec x w); [contradiction | reflexivity].
Qed.

Lemma rem_length_le w l : length (rem w l) <= length l.
Proof.
  unfold rem. induction l as [|a l IH]; cbn [filter length]; [lia|].
  destruct (negb (a =? w)); cbn [length]; lia.
Qed.

Lemma rem_length_lt w l : In w l -> length (rem w l) < length l.
Proof.
  unfold rem. induction l as [|a l IH]; cbn [filter length In]; [contradiction|]. intros [->|Hin].
  - rewrite Nat.eqb_refl. cbn [negb]. pose proof (rem_length_le w l) as Hle. unfold rem in Hle. lia.
  - specialize (IH Hin). destruct (negb (a =? w)); cbn [length]; lia.
Qed.

Lemma rem_NoDup w l : NoDup l -> NoDup (rem w l).
Proof. intros Hnd. unfold rem. now apply NoDup_filter. Qed.

Lemma sumf_ext f g n : (forall i, i < n -> f i = g i) -> sumf f n = sumf g n.
Proof.
  induction n as [|n IH]; intros Heq; cbn; [reflexivity|].
  rewrite IH by (intros i Hi; apply Heq; lia). rewrite Heq by lia. reflexivity.
Qed.

Lemma sumf_upd {A} (g : A -> nat) (m : nat -> A) i x n :
  i < n -> sumf (fun j => g (upd m i x j)) n + g (m i) = sumf (fun j => g (m j)) n + g x.
Proof.
  induction n as [|n IH]; intros Hi; [lia|]. cbn.
  destruct (Nat.eq_dec i n) as [->|Hne].
  - rewrite upd_same.
    rewrite (sumf_ext (fun j => g (upd m n x j)) (fun j => g (m j)) n)
      by (intros j Hj; rewrite upd_other by lia; reflexivity).
    lia.
  - rewrite (upd_other m i n x) by lia. specialize (IH ltac:(lia)). lia.
Qed.

Lemma sumf_upd_ge {A} (g : A -> nat) (m : nat -> A) i x n :
  n <= i -> sumf (fun j => g (upd m i x j)) n = sumf (fun j => g (m j)) n.
Proof. intros Hi. apply sumf_ext. intros j Hj. rewrite upd_other by lia. reflexivity. Qed.

(* ---- measure bookkeeping ---- *)
Lemma mu_set_c s c x :
  c < nc s -> mu (set_c s c x) + 3 * cmeasure (nw s) (ct s c) = mu s + 3 * cmeasure (nw s) x.
Proof.
  intros Hc. unfold mu. cbn [nw nc ct wk panic link set_c].
  pose proof (sumf_upd (cmeasure (nw s)) (ct s) c x (nc s) Hc) as Hs. lia.
Qed.

Lemma mu_set_w s w x :
  w < nw s -> mu (set_w s w x) + wmeasure (wk s w) = mu s + wmeasure x.
Proof.
  intros Hw. unfold mu. cbn [nw nc ct wk panic link set_w].
  pose proof (sumf_upd wmeasure (wk s) w x (nw s) Hw) as Hs. lia.
Qed.

Lemma mu_set_w_ge s w x : nw s <= w -> mu (set_w s w x) = mu s.
Proof.
  intros Hw. unfold mu. cbn [nw nc ct wk panic link set_w].
  rewrite (sumf_upd_ge wmeasure (wk s) w x (nw s) Hw). reflexivity.
Qed.

Lemma mu_set_w_le s w x :
  wmeasure x <= wmeasure (wk s w) + 1 -> mu (set_w s w x) <= mu s + 1.
Proof.
  intros Hle. destruct (Nat.lt_ge_cases w (nw s)) as [Hw|Hw].
  - pose proof (mu_set_w s w x Hw). lia.
  - rewrite mu_set_w_ge by assumption. lia.
Qed.

Lemma mu_set_paused s b : mu (set_paused s b) = mu s.
Proof. reflexivity. Qed.
Lemma mu_set_holder s h : mu (set_holder s h) = mu s.
Proof. reflexivity. Qed.
Lemma mu_take v s o : mu (take v s o) = mu s.
Proof. unfold take. destruct (v_mutex v); reflexivity. Qed.
Lemma mu_release v s : mu (release v s) = mu s.
Proof. unfold release. destruct (v_mutex v); reflexivity. Qed.
Lemma mu_ptake v s o : mu (ptake v s o) = mu s.
Proof. unfold ptake. destruct (v_pmutex v); reflexivity. Qed.
Lemma mu_prelease v s : mu (prelease v s) = mu s.
Proof. unfold prelease. destruct (v_pmutex v); reflexivity. Qed.

Lemma mu_set_w_lt s w x :
  w < nw s -> wmeasure x < wmeasure (wk s w) -> mu (set_w s w x) < mu s.
Proof. intros Hw Hlt. pose proof (mu_set_w s w x Hw). lia. Qed.

Ltac wstep :=
  apply mu_set_w_lt; [apply Nat.ltb_lt; assumption |];
  unfold wmeasure, wset_pc, wset_tok; cbn [w_pc w_tok];
  repeat match goal with H : w_pc _ = _ |- _ => rewrite H end;
  repeat match goal with H : w_tok _ = _ |- _ => rewrite H end;
  cbn [pcmeasure]; try (destruct (w_tok _)); lia.

Ltac dstep H :=
  repeat match type of H with
         | context [match ?x with _ => _ end] => destruct x eqn:?; try discriminate H
         end.

Lemma ltb_lt' a b : (a <? b) = true -> a < b.
Proof. apply Nat.ltb_lt. Qed.

Definition nolinks (s : state) : Prop := forall w, link s w = None.

Lemma step_link v s l s' : step v s l = Some s' -> link s' = link s.
Proof.
  intros Hstep. unfold step in Hstep. destruct (panic s); [discriminate|].
  destruct l; dstep Hstep; inversion Hstep; subst; clear Hstep;
    unfold take, release, ptake, prelease;
    repeat match goal with |- context [if ?b then _ else _] => destruct b end; reflexivity.
Qed.

(* every system step strictly decreases the measure: for every variant of the code (workers that
   do not feed each other) *)
Lemma step_mu v s l s' : nolinks s -> sys l = true -> step v s l = Some s' -> mu s' < mu s.
Proof.
  intros Hnl Hsys Hstep. unfold step in Hstep.
  destruct (panic s) eqn:Hpanic; [discriminate|].
  destruct l; cbn in Hsys; try discriminate Hsys.
  - (* LPauseBegin *)
    dstep Hstep; inversion Hstep; subst; clear Hstep.
    + pose proof (mu_set_c s c CIdle (ltb_lt' _ _ Heqb)) as Hm.
      rewrite Heqc0 in Hm. cbn [cmeasure] in Hm. lia.
    + rewrite mu_ptake.
      pose proof (mu_set_c (set_paused s true) c (CPRange (seq 0 (nw s))) (ltb_lt' _ _ Heqb)) as Hm.
      cbn [nw ct set_paused] in Hm. rewrite Heqc0 in Hm. cbn [cmeasure] in Hm.
      rewrite seq_length in Hm. rewrite mu_set_paused in Hm. lia.
  - (* LPauseVisit *)
    dstep Hstep; inversion Hstep; subst; clear Hstep;
      apply memb_In in Heqb0; pose proof (rem_length_lt _ _ Heqb0) as Hlen.
    + pose proof (mu_set_c s c (CPSend w (rem w todo)) (ltb_lt' _ _ Heqb)) as Hm.
      rewrite Heqc0 in Hm. cbn [cmeasure] in Hm. lia.
    + pose proof (mu_set_c s c (CPRange (rem w todo)) (ltb_lt' _ _ Heqb)) as Hm.
      rewrite Heqc0 in Hm. cbn [cmeasure] in Hm. lia.
  - (* LPauseSend *)
    dstep Hstep; inversion Hstep; subst; clear Hstep.
    + (* send on a closed channel: the panic bit of the measure *)
      unfold mu. cbn [nw nc ct wk panic set_panic]. rewrite Hpanic. lia.
    + pose proof (mu_set_c (set_w s x (wset_tok (wk s x) true)) c (CPRange todo) (ltb_lt' _ _ Heqb)) as Hm.
      cbn [nw nc ct set_w] in Hm. rewrite Heqc0 in Hm. cbn [cmeasure] in Hm.
      pose proof (mu_set_w_le s x (wset_tok (wk s x) true)) as Hw.
      assert (Hle : wmeasure (wset_tok (wk s x) true) <= wmeasure (wk s x) + 1).
      { unfold wmeasure, wset_tok. cbn [w_pc w_tok]. destruct (w_tok (wk s x)); lia. }
      specialize (Hw Hle). lia.
  - (* LPauseEnd *)
    dstep Hstep; inversion Hstep; subst; clear Hstep.
    rewrite mu_prelease.
    pose proof (mu_set_c s c CIdle (ltb_lt' _ _ Heqb)) as Hm.
    rewrite Heqc0 in Hm. cbn [cmeasure length] in Hm. lia.
  - (* LResumeBegin *)
    dstep Hstep; inversion Hstep; subst; clear Hstep.
    + pose proof (mu_set_c s c CIdle (ltb_lt' _ _ Heqb)) as Hm.
      rewrite Heqc0 in Hm. cbn [cmeasure] in Hm. lia.
    + rewrite mu_take.
      pose proof (mu_set_c s c (CRRange (seq 0 (nw s)) []) (ltb_lt' _ _ Heqb)) as Hm.
      rewrite Heqc0 in Hm. cbn [cmeasure length] in Hm. rewrite seq_length in Hm. lia.
  - (* LResumeVisit *)
    dstep Hstep; inversion Hstep; subst; clear Hstep;
      apply andb_prop in Heqb0; destruct Heqb0 as [Heqb0 _]; apply memb_In in Heqb0; pose proof (rem_length_lt _ _ Heqb0) as Hlen.
    + pose proof (mu_set_c s c (CRRange (rem w todo) (w :: aw)) (ltb_lt' _ _ Heqb)) as Hm.
      rewrite Heqc0 in Hm. cbn [cmeasure length] in Hm. lia.
    + pose proof (mu_set_c s c (CRRange (rem w todo) aw) (ltb_lt' _ _ Heqb)) as Hm.
      rewrite Heqc0 in Hm. cbn [cmeasure] in Hm. lia.
  - (* LHandshake *)
    dstep Hstep; inversion Hstep; subst; clear Hstep.
    apply memb_In in Heqb0. pose proof (rem_length_lt _ _ Heqb0) as Hlen.
    pose proof (mu_set_c (set_w s w (wset_pc (wk s w) WRun)) c (CRRange todo (rem w aw)) (ltb_lt' _ _ Heqb)) as Hm.
    cbn [nw nc ct set_w] in Hm. rewrite Heqc0 in Hm. cbn [cmeasure] in Hm.
    pose proof (mu_set_w_le s w (wset_pc (wk s w) WRun)) as Hw.
    assert (Hle : wmeasure (wset_pc (wk s w) WRun) <= wmeasure (wk s w) + 1).
    { unfold wmeasure, wset_pc. cbn [w_pc w_tok]. rewrite Heqw0. cbn [pcmeasure]. lia. }
    specialize (Hw Hle). lia.
  - (* LRecvClosed *)
    dstep Hstep; inversion Hstep; subst; clear Hstep.
    apply andb_prop in Heqb0. destruct Heqb0 as [Hmem _].
    apply memb_In in Hmem. pose proof (rem_length_lt _ _ Hmem) as Hlen.
    pose proof (mu_set_c s c (CRRange todo (rem w aw)) (ltb_lt' _ _ Heqb)) as Hm.
    rewrite Heqc0 in Hm. cbn [cmeasure] in Hm. lia.
  - (* LResumeEnd *)
    dstep Hstep; inversion Hstep; subst; clear Hstep.
    rewrite mu_release.
    pose proof (mu_set_c (set_paused s false) c CIdle (ltb_lt' _ _ Heqb)) as Hm.
    cbn [nw ct set_paused] in Hm. rewrite Heqc0 in Hm. cbn [cmeasure length] in Hm.
    rewrite mu_set_paused in Hm. lia.
  - (* LTakePause *)
    dstep Hstep; inversion Hstep; subst; clear Hstep. wstep.
  - (* LSeeStop *)
    dstep Hstep; inversion Hstep; subst; clear Hstep. wstep.
  - (* LAckStop *)
    dstep Hstep; inversion Hstep; subst; clear Hstep. wstep.
  - (* LUnsubDelete *)
    dstep Hstep; inversion Hstep; subst; clear Hstep; rewrite ?mu_set_holder; wstep.
  - (* LUnsubCloseP *)
    dstep Hstep; inversion Hstep; subst; clear Hstep. wstep.
  - (* LUnsubCloseR *)
    dstep Hstep; inversion Hstep; subst; clear Hstep; rewrite ?mu_set_holder; wstep.
  - (* LDone *)
    rewrite (Hnl w) in Hstep. dstep Hstep; inversion Hstep; subst; clear Hstep. wstep.
  - (* LBusyStop *)
    dstep Hstep; inversion Hstep; subst; clear Hstep. wstep.
Qed.

(* ---- executions ---- *)
Definition quiescent (v : variant) (s : state) : Prop := forall l, sys l = true -> step v s l = None.
Definition all_sys (ls : list label) : Prop := Forall (fun l => sys l = true) ls.

Lemma run_app v s a b :
  run v s (a ++ b) = match run v s a with Some s' => run v s' b | None => None end.
Proof.
  revert s. induction a as [|l a IH]; intros s; cbn [run app]; [reflexivity|].
  destruct (step v s l); [apply IH | reflexivity].
Qed.

Lemma nolinks_step v s l s' : nolinks s -> step v s l = Some s' -> nolinks s'.
Proof. intros Hnl Hstep w. rewrite (step_link v s l s' Hstep). apply Hnl. Qed.

Lemma run_mu v ls : forall s s',
  nolinks s -> all_sys ls -> run v s ls = Some s' -> length ls + mu s' <= mu s.
Proof.
  induction ls as [|l ls IH]; intros s s' Hnl Hall Hrun; cbn [run length] in *.
  - inversion Hrun; subst. lia.
  - inversion Hall as [|? ? Hl Hls]; subst.
    destruct (step v s l) as [s1|] eqn:Hstep; [|discriminate].
    pose proof (step_mu v s l s1 Hnl Hl Hstep).
    specialize (IH s1 s' (nolinks_step v s l s1 Hnl Hstep) Hls Hrun). lia.
Qed.

(* ---- the candidate list is complete ---- *)
Lemma in_cands_c s c l : c < nc s -> In l (cands_c s c) -> In l (cands s).
Proof.
  intros Hc Hin. unfold cands. apply in_or_app. left. apply in_flat_map.
  exists c. split; [apply in_seq; lia | assumption].
Qed.

Lemma in_cands_w s w l : w < nw s -> In l (cands_w w) -> In l (cands s).
Proof.
  intros Hw Hin. unfold cands. apply in_or_app. right. apply in_flat_map.
  exists w. split; [apply in_seq; lia | assumption].
Qed.

Lemma cands_complete v s l s' : sys l = true -> step v s l = Some s' -> In l (cands s).
Proof.
  intros Hsys Hstep. unfold step in Hstep.
  destruct (panic s) eqn:Hpanic; [discriminate|].
  destruct l; cbn in Hsys; try discriminate Hsys; dstep Hstep;
    try (apply (in_cands_c s c); [apply Nat.ltb_lt; assumption |];
         unfold cands_c; cbn [In app]; tauto);
    try (apply (in_cands_w s w); [apply Nat.ltb_lt; assumption |];
         unfold cands_w; cbn [In]; tauto).
  - (* LPauseVisit *) 
    apply (in_cands_c s c); [apply Nat.ltb_lt; assumption |].
    unfold cands_c. apply in_or_app. right. rewrite Heqc0. apply in_map. now apply memb_In.
  - apply (in_cands_c s c); [apply Nat.ltb_lt; assumption |].
    unfold cands_c. apply in_or_app. right. rewrite Heqc0. apply in_map. now apply memb_In.
  - (* LResumeVisit *)
    apply (in_cands_c s c); [apply Nat.ltb_lt; assumption |].
    unfold cands_c. apply in_or_app. right. rewrite Heqc0.
    apply in_or_app. left. apply in_map. apply andb_prop in Heqb0. now apply memb_In.
  - apply (in_cands_c s c); [apply Nat.ltb_lt; assumption |].
    unfold cands_c. apply in_or_app. right. rewrite Heqc0.
    apply in_or_app. left. apply in_map. apply andb_prop in Heqb0. now apply memb_In.
  - (* LHandshake *)
    apply (in_cands_c s c); [apply Nat.ltb_lt; assumption |].
    unfold cands_c. apply in_or_app. right. rewrite Heqc0.
    apply in_or_app. right. apply in_or_app. left. apply in_map. now apply memb_In.
  - (* LRecvClosed *)
    apply (in_cands_c s c); [apply Nat.ltb_lt; assumption |].
    unfold cands_c. apply in_or_app. right. rewrite Heqc0.
    apply in_or_app. right. apply in_or_app. right. apply in_map.
    apply andb_prop in Heqb0. now apply memb_In.
Qed.

Lemma cands_sys s l : In l (cands s) -> sys l = true.
Proof.
  unfold cands. intros Hin. apply in_app_or in Hin. destruct Hin as [Hin|Hin];
    apply in_flat_map in Hin; destruct Hin as [i [_ Hin]].
  - unfold cands_c in Hin. apply in_app_or in Hin. destruct Hin as [Hin|Hin].
    + cbn [In] in Hin. intuition (subst; reflexivity).
    + destruct (ct s i); try contradiction.
      * apply in_map_iff in Hin. destruct Hin as [? [<- _]]. reflexivity.
      * repeat (apply in_app_or in Hin; destruct Hin as [Hin|Hin]);
          apply in_map_iff in Hin; destruct Hin as [? [<- _]]; reflexivity.
  - unfold cands_w in Hin. cbn [In] in Hin. intuition (subst; reflexivity).
Qed.

Lemma quiescent_b_spec v s : quiescent_b v s = true <-> quiescent v s.
Proof.
  unfold quiescent_b, quiescent. rewrite forallb_forall. split.
  - intros Hall l Hsys. destruct (step v s l) as [s'|] eqn:Hstep; [|reflexivity].
    pose proof (Hall l (cands_complete v s l s' Hsys Hstep)) as Hneg.
    unfold enabled in Hneg. rewrite Hstep in Hneg. discriminate.
  - intros Hq l Hin. unfold enabled. rewrite (Hq l (cands_sys s l Hin)). reflexivity.
Qed.

Lemma pick_some v s l : pick v s = Some l -> sys l = true /\ exists s', step v s l = Some s'.
Proof.
  unfold pick. intros Hf. apply find_some in Hf. destruct Hf as [Hin Hen]. split.
  - exact (cands_sys s l Hin).
  - unfold enabled in Hen. destruct (step v s l) as [s'|]; [now exists s' | discriminate].
Qed.

Lemma pick_none v s : pick v s = None -> quiescent v s.
Proof.
  unfold pick. intros Hf l Hsys. destruct (step v s l) as [s'|] eqn:Hstep; [|reflexivity].
  pose proof (find_none _ _ Hf l (cands_complete v s l s' Hsys Hstep)) as Hen.
  unfold enabled in Hen. rewrite Hstep in Hen. discriminate.
Qed.

(* the scheduler [quiesce] reaches a quiescent state by system steps once it has enough fuel *)
Lemma quiesce_spec v fuel : forall s, nolinks s -> mu s < fuel ->
  exists ls, all_sys ls /\ run v s ls = Some (quiesce v fuel s) /\ quiescent v (quiesce v fuel s).
Proof.
  induction fuel as [|k IH]; intros s Hnl Hmu; [lia|]. cbn [quiesce].
  destruct (pick v s) as [l|] eqn:Hpick.
  - destruct (pick_some v s l Hpick) as [Hsys [s1 Hstep]]. rewrite Hstep.
    pose proof (step_mu v s l s1 Hnl Hsys Hstep) as Hlt.
    destruct (IH s1 (nolinks_step v s l s1 Hnl Hstep) ltac:(lia)) as [ls [Hall [Hrun Hq]]].
    exists (l :: ls). split; [constructor; assumption|]. split; [|assumption].
    cbn [run]. rewrite Hstep. assumption.
  - exists []. split; [constructor|]. split; [reflexivity|]. now apply pick_none.
Qed.

(* every state has a maximal system execution, and every system execution is short *)
Lemma maximal_exists v s : nolinks s ->
  exists ls s', all_sys ls /\ run v s ls = Some s' /\ quiescent v s'.
Proof.
  intros Hnl.
  destruct (quiesce_spec v (S (mu s)) s Hnl ltac:(lia)) as [ls [Hall [Hrun Hq]]].
  exists ls, (quiesce v (S (mu s)) s). auto.
Qed.
