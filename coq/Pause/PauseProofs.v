(* C14 - proofs about the repaired pause protocol ([fixed]) and refutation witnesses for the
   original code and for the repair candidates.  The model is PauseLts.v; variant-independent
   facts (measure, maximal executions) are in PauseBase.v. *)
From Coq Require Import Lia.
From ZenoV Require Import Pause.PauseLts Pause.PauseBase.

(* a running worker whose PauseCh is empty: it will not acknowledge anything *)
(* in the main select or handling an item: will come (back) to the main select by itself *)
Notation running x := (w_pc x = WRun \/ w_pc x = WBusy).
Definition idle (x : wst) : Prop := running x /\ w_tok x = false.
(* a worker that owes an acknowledgement: token queued, or already blocked on ResumeCh *)
Definition pending (x : wst) : Prop := (running x /\ w_tok x = true) \/ w_pc x = WAck.

Definition wwf (x : wst) : Prop :=
  w_pclosed x = false /\
  w_pc x <> WCloseP /\
  (w_sub x = true <-> (running x \/ w_pc x = WAck \/ w_pc x = WDel)) /\
  (w_rclosed x = true <-> w_pc x = WGone) /\
  (w_stop x = false -> running x \/ w_pc x = WAck) /\
  (w_pc x = WAck -> w_tok x = false).

Definition active (x : cpc) : bool :=
  match x with CPRange _ | CPSend _ _ | CRRange _ _ => true | _ => false end.

(* what the call that holds the mutex guarantees about the workers *)
Definition phase_at (s : state) (x : cpc) : Prop :=
  match x with
  | CPRange todo =>
      (forall w, In w todo -> w < nw s) /\
      (forall w, w < nw s -> idle (wk s w) -> In w todo) /\
      (forall w, In w todo -> ~ pending (wk s w))
  | CPSend x todo =>
      (x < nw s /\ ~ In x todo) /\
      (forall w, In w todo -> w < nw s) /\
      (forall w, w < nw s -> idle (wk s w) -> w = x \/ In w todo) /\
      (forall w, w = x \/ In w todo -> ~ pending (wk s w))
  | CRRange todo aw =>
      (forall w, In w aw -> ~ In w todo) /\
      (forall w, In w todo \/ In w aw -> w < nw s) /\
      (forall w, w < nw s -> idle (wk s w) -> ~ In w todo /\ ~ In w aw) /\
      (forall w, w < nw s -> pending (wk s w) -> In w todo \/ In w aw)
  | _ => False
  end.

Definition phase (s : state) : Prop :=
  match holder s with
  | None => if paused s then forall w, w < nw s -> ~ idle (wk s w)
            else forall w, w < nw s -> ~ pending (wk s w)
  | Some (OC c) => paused s = true /\ phase_at s (ct s c)
  | Some (OW _) => False
  end.

Record Inv (s : state) : Prop := {
  inv_panic : panic s = false;
  inv_w : forall w, w < nw s -> wwf (wk s w);
  inv_hold : forall c, c < nc s -> (active (ct s c) = true <-> holder s = Some (OC c));
  inv_holder : forall c, holder s = Some (OC c) -> c < nc s;
  inv_phase : phase s;
  inv_nolinks : nolinks s   (* the theorems are about workers that do not feed each other *)
}.

Lemma inv_init n m : Inv (init n m).
Proof.
  constructor; cbn.
  - reflexivity.
  - intros w _. unfold wwf, w0. cbn. intuition (try discriminate; auto).
  - intros c _. split; discriminate.
  - discriminate.
  - unfold phase, pending. cbn. intros w _ [[_ H]|H]; discriminate.
  - intros w. reflexivity.
Qed.

(* ---- worker-only updates ---- *)
Lemma idle_upd s w x w' :
  (idle x -> idle (wk s w)) -> idle (upd (wk s) w x w') -> idle (wk s w').
Proof. unfold upd. destruct (w' =? w) eqn:E; [apply Nat.eqb_eq in E; subst|]; auto. Qed.

Lemma pending_upd s w x w' :
  (pending x -> pending (wk s w)) -> pending (upd (wk s) w x w') -> pending (wk s w').
Proof. unfold upd. destruct (w' =? w) eqn:E; [apply Nat.eqb_eq in E; subst|]; auto. Qed.

Lemma inv_set_w s w x :
  Inv s -> wwf x -> (idle x -> idle (wk s w)) -> (pending x -> pending (wk s w)) ->
  Inv (set_w s w x).
Proof.
  intros [Hp Hw Hh Hhd Hph Hnl] Hx Hidle Hpend. constructor; cbn [panic nw nc holder ct wk paused set_w]; [| | | | | exact Hnl].
  - assumption.
  - intros w' Hw'. unfold upd. destruct (w' =? w); auto.
  - assumption.
  - assumption.
  - unfold phase in *. cbn [panic nw nc holder ct wk paused set_w].
    destruct (holder s) as [[c|w1]|].
    + destruct Hph as [Hpa Hat]. split; [assumption|].
      unfold phase_at in *. cbn [panic nw nc holder ct wk paused set_w].
      destruct (ct s c); try assumption; try exact Hnl.
      * destruct Hat as [H0 [H1 H2]]. split; [assumption|]. split.
        -- intros w' Hw' Hi. apply H1; [assumption|]. eapply idle_upd; eassumption.
        -- intros w' Hin Hpe. apply (H2 w' Hin). eapply pending_upd; eassumption.
      * destruct Hat as [Hx0 [H0 [H1 H2]]]. split; [assumption|]. split; [assumption|]. split.
        -- intros w' Hw' Hi. apply H1; [assumption|]. eapply idle_upd; eassumption.
        -- intros w' Hin Hpe. apply (H2 w' Hin). eapply pending_upd; eassumption.
      * destruct Hat as [H1 [H2 [H3 H4]]]. repeat split; try assumption; try exact Hnl.
        -- apply (H3 w0 H). eapply idle_upd; eassumption.
        -- apply (H3 w0 H). eapply idle_upd; eassumption.
        -- intros w' Hw' Hpe. apply H4; [assumption|]. eapply pending_upd; eassumption.
    + assumption.
    + destruct (paused s).
      * intros w' Hw' Hi. apply (Hph w' Hw'). eapply idle_upd; eassumption.
      * intros w' Hw' Hpe. apply (Hph w' Hw'). eapply pending_upd; eassumption.
Qed.

(* ---- controller updates ---- *)
Lemma phase_at_set_c s c x y : phase_at (set_c s c x) y <-> phase_at s y.
Proof. unfold phase_at. cbn [nw wk set_c]. reflexivity. Qed.

Lemma inv_set_c_inactive s c x :
  Inv s -> c < nc s -> active (ct s c) = false -> active x = false -> Inv (set_c s c x).
Proof.
  intros [Hp Hw Hh Hhd Hph Hnl] Hc Hold Hnew.
  assert (Hne : holder s <> Some (OC c)).
  { intros Heq. apply (Hh c Hc) in Heq. congruence. }
  constructor; cbn [panic nw nc holder ct wk paused set_c]; try assumption; try exact Hnl.
  - intros c' Hc'. unfold upd. destruct (c' =? c) eqn:E.
    + apply Nat.eqb_eq in E. subst c'. split; [congruence | intros Heq; contradiction].
    + apply Hh. assumption.
  - unfold phase in *. cbn [panic nw nc holder ct wk paused set_c].
    destruct (holder s) as [[c0|w1]|]; try assumption; try exact Hnl.
    destruct Hph as [Hpa Hat]. split; [assumption|].
    assert (Hc0 : c0 <> c) by congruence.
    rewrite upd_other by assumption. apply phase_at_set_c. assumption.
Qed.

Lemma inv_holder_move s c x :
  Inv s -> c < nc s -> holder s = Some (OC c) -> active x = true -> phase_at s x ->
  Inv (set_c s c x).
Proof.
  intros [Hp Hw Hh Hhd Hph Hnl] Hc Hhold Hnew Hat.
  constructor; cbn [panic nw nc holder ct wk paused set_c]; try assumption; try exact Hnl.
  - intros c' Hc'. unfold upd. destruct (c' =? c) eqn:E.
    + apply Nat.eqb_eq in E. subst c'. split; auto.
    + apply Hh. assumption.
  - unfold phase in *. cbn [panic nw nc holder ct wk paused set_c].
    rewrite Hhold in *. destruct Hph as [Hpa _]. split; [assumption|].
    rewrite upd_same. apply phase_at_set_c. assumption.
Qed.

(* the call of controller c takes the free mutex and enters an active state *)
Lemma inv_acquire s c x b :
  Inv s -> c < nc s -> holder s = None -> active x = true -> b = true ->
  phase_at s x -> Inv (set_holder (set_c (set_paused s b) c x) (Some (OC c))).
Proof.
  intros [Hp Hw Hh Hhd Hph Hnl] Hc Hfree Hnew -> Hat.
  constructor; cbn [panic nw nc holder ct wk paused set_c set_paused set_holder]; try assumption; try exact Hnl.
  - intros c' Hc'. unfold upd. destruct (c' =? c) eqn:E.
    + apply Nat.eqb_eq in E. subst c'. split; auto.
    + apply Nat.eqb_neq in E. split.
      * intros Ha. apply (Hh c' Hc') in Ha. congruence.
      * intros Heq. congruence.
  - intros c' Heq. congruence.
  - unfold phase. cbn [panic nw nc holder ct wk paused set_c set_paused set_holder].
    split; [reflexivity|]. rewrite upd_same. exact Hat.
Qed.

(* the holder returns: mutex released, phase of the free manager established *)
Lemma inv_release s c (b : bool) :
  Inv s -> c < nc s -> holder s = Some (OC c) ->
  (if b return Prop then forall w, w < nw s -> ~ idle (wk s w)
   else forall w, w < nw s -> ~ pending (wk s w)) ->
  Inv (set_holder (set_c (set_paused s b) c CIdle) None).
Proof.
  intros [Hp Hw Hh Hhd Hph Hnl] Hc Hhold Hnew.
  constructor; cbn [panic nw nc holder ct wk paused set_c set_paused set_holder]; try assumption; try exact Hnl.
  - intros c' Hc'. unfold upd. destruct (c' =? c) eqn:E.
    + split; discriminate.
    + apply Nat.eqb_neq in E. split; [|discriminate].
      intros Ha. apply (Hh c' Hc') in Ha. congruence.
  - discriminate.
Qed.

(* ---- the invariant is preserved by every step of the repaired code ---- *)
Lemma free_none s : free s = true -> holder s = None.
Proof. unfold free. destruct (holder s); [discriminate | reflexivity]. Qed.

Lemma wwf_sub_running x : wwf x -> (running x \/ w_pc x = WAck) -> w_sub x = true.
Proof. intros [_ [_ [Hs _]]] Hpc. apply Hs. tauto. Qed.

Lemma pending_sub x : wwf x -> pending x -> w_sub x = true.
Proof. intros Hx [[Hpc _]|Hpc]; apply (wwf_sub_running x Hx); auto. Qed.

Lemma idle_sub x : wwf x -> idle x -> w_sub x = true.
Proof. intros Hx [Hpc _]. apply (wwf_sub_running x Hx); auto. Qed.

Ltac wstep_inv :=
  match goal with
  | HI : Inv ?s, Hlt : (?w <? nw ?s) = true |- Inv (set_w ?s ?w _) =>
      apply Nat.ltb_lt in Hlt; pose proof (inv_w s HI w Hlt) as Hx;
      repeat match goal with H : _ && _ = true |- _ => apply andb_prop in H; destruct H end;
      apply inv_set_w; [assumption | | |];
      unfold wwf, idle, pending, wset_pc, wset_tok, wset_stop in *;
      cbn [w_pc w_tok w_pclosed w_rclosed w_sub w_stop] in *;
      repeat match goal with H : w_pc _ = _ |- _ => rewrite H in * end;
      repeat match goal with H : w_tok _ = _ |- _ => rewrite H in * end;
      repeat match goal with H : w_stop _ = _ |- _ => rewrite H in * end;
      intuition (try discriminate; try congruence; auto)
  end.

Lemma step_inv s l s' : Inv s -> step fixed s l = Some s' -> Inv s'.
Proof.
  intros HI Hstep. unfold step in Hstep.
  destruct (panic s) eqn:Hpanic; [discriminate|].
  destruct l.
  - (* LCall *)
    dstep Hstep; inversion Hstep; subst; clear Hstep;
      (apply inv_set_c_inactive; [assumption | apply Nat.ltb_lt; assumption | | reflexivity];
       match goal with H : ct s c = CIdle |- _ => rewrite H end; reflexivity).
  - (* LStop *)
    dstep Hstep; inversion Hstep; subst; clear Hstep.
    apply Nat.ltb_lt in Heqb.
    apply inv_set_w; [assumption | | |].
    + pose proof (inv_w s HI w Heqb) as Hx. unfold wwf, wset_stop in *. cbn. intuition discriminate.
    + unfold idle, wset_stop. cbn. tauto.
    + unfold pending, wset_stop. cbn. tauto.
  - (* LWork *)
    dstep Hstep; inversion Hstep; subst; clear Hstep. wstep_inv.
  - (* LPauseBegin *)
    cbn [fixed v_pmutex plock_free ptake negb orb] in Hstep.
    dstep Hstep; inversion Hstep; subst; clear Hstep; apply Nat.ltb_lt in Heqb.
    + apply inv_set_c_inactive; [assumption | assumption | rewrite Heqc0; reflexivity | reflexivity].
    + pose proof (free_none s Heqb0) as Hfree.
      apply inv_acquire; try assumption; try reflexivity.
      pose proof (inv_phase s HI) as Hph. unfold phase in Hph. rewrite Hfree, Heqb1 in Hph.
      cbn [phase_at]. split; [|split].
      * intros w Hin. apply in_seq in Hin. lia.
      * intros w Hw _. apply in_seq. lia.
      * intros w Hin. apply in_seq in Hin. apply Hph. lia.
  - (* LPauseVisit *)
    dstep Hstep; inversion Hstep; subst; clear Hstep; apply Nat.ltb_lt in Heqb;
      apply memb_In in Heqb0;
      assert (Hhold : holder s = Some (OC c))
        by (apply (inv_hold s HI c Heqb); rewrite Heqc0; reflexivity);
      pose proof (inv_phase s HI) as Hph; unfold phase in Hph; rewrite Hhold, Heqc0 in Hph;
      destruct Hph as [Hpa [H0 [H1 H2]]];
      (apply inv_holder_move; [assumption | assumption | assumption | reflexivity |]);
      cbn [phase_at].
    + split; [|split; [|split]].
      * split; [apply H0; assumption|]. intros Hin. apply rem_In in Hin. tauto.
      * intros w' Hin. apply rem_In in Hin. apply H0; tauto.
      * intros w' Hw' Hi. destruct (Nat.eq_dec w' w) as [->|Hne]; [left; reflexivity|].
        right. apply rem_In. split; [apply H1; assumption | assumption].
      * intros w' [->|Hin]; [apply H2; assumption|].
        apply rem_In in Hin. apply H2; tauto.
    + split; [|split].
      * intros w' Hin. apply rem_In in Hin. apply H0; tauto.
      * intros w' Hw' Hi. apply rem_In. split; [apply H1; assumption|].
        intros ->. pose proof (idle_sub _ (inv_w s HI w Hw') Hi). congruence.
      * intros w' Hin. apply rem_In in Hin. apply H2; tauto.
  - (* LPauseSend *)
    dstep Hstep; inversion Hstep; subst; clear Hstep; apply Nat.ltb_lt in Heqb;
      assert (Hhold : holder s = Some (OC c))
        by (apply (inv_hold s HI c Heqb); rewrite Heqc0; reflexivity);
      pose proof (inv_phase s HI) as Hph; unfold phase in Hph; rewrite Hhold, Heqc0 in Hph;
      destruct Hph as [Hpa [[Hx Hnin] [H0 [H1 H2]]]];
      pose proof (inv_w s HI x Hx) as Hwx.
    + unfold wwf in Hwx. destruct Hwx as [Hcl _]. congruence.
    + destruct HI as [Hp Hw Hh Hhd Hph Hnl].
      constructor; cbn [panic nw nc holder ct wk paused set_c set_w]; try assumption; try exact Hnl.
      * intros w' Hw'. unfold upd. destruct (w' =? x) eqn:E; [|apply Hw; assumption].
        assert (Hnp : ~ pending (wk s x)) by (apply H2; left; reflexivity).
        unfold wwf, wset_tok, pending in *. cbn [w_pc w_tok w_pclosed w_rclosed w_sub w_stop].
        intuition.
      * intros c' Hc'. unfold upd. destruct (c' =? c) eqn:E.
        -- apply Nat.eqb_eq in E. subst c'. split; auto.
        -- apply Hh. assumption.
      * unfold phase. cbn [panic nw nc holder ct wk paused set_c set_w]. rewrite Hhold.
        split; [assumption|]. rewrite upd_same. cbn [phase_at nw wk set_c set_w].
        split; [assumption|]. split.
        -- intros w' Hw' Hi. unfold upd in Hi. destruct (w' =? x) eqn:E.
           ++ unfold idle, wset_tok in Hi. cbn [w_pc w_tok] in Hi. destruct Hi; discriminate.
           ++ apply Nat.eqb_neq in E. destruct (H1 w' Hw' Hi); [contradiction | assumption].
        -- intros w' Hin Hpe. unfold upd in Hpe. destruct (w' =? x) eqn:E.
           ++ apply Nat.eqb_eq in E. subst w'. contradiction.
           ++ apply (H2 w'); [right; assumption | assumption].
  - (* LPauseEnd *)
    cbn [fixed v_pmutex prelease] in Hstep.
    dstep Hstep; inversion Hstep; subst; clear Hstep; apply Nat.ltb_lt in Heqb.
    assert (Hhold : holder s = Some (OC c))
      by (apply (inv_hold s HI c Heqb); rewrite Heqc0; reflexivity).
    pose proof (inv_phase s HI) as Hph. unfold phase in Hph. rewrite Hhold, Heqc0 in Hph.
    destruct Hph as [Hpa [H0 [H1 H2]]].
    pose proof (inv_release s c true HI Heqb Hhold) as Hrel.
    assert (Heq : set_paused s true = s).
    { unfold set_paused. rewrite <- Hpa. destruct s; reflexivity. }
    rewrite Heq in Hrel. apply Hrel. intros w Hw Hi. exact (H1 w Hw Hi).
  - (* LResumeBegin *)
    cbn [fixed v_mutex v_early lock_free take negb orb andb] in Hstep.
    dstep Hstep; inversion Hstep; subst; clear Hstep; apply Nat.ltb_lt in Heqb.
    + apply inv_set_c_inactive; [assumption | assumption | rewrite Heqc0; reflexivity | reflexivity].
    + pose proof (free_none s Heqb0) as Hfree.
      assert (Hpa : paused s = true) by (destruct (paused s); [reflexivity | discriminate]).
      assert (Heq : set_paused s true = s).
      { unfold set_paused. rewrite <- Hpa. destruct s; reflexivity. }
      rewrite <- Heq at 1.
      apply inv_acquire; try assumption; try reflexivity.
      pose proof (inv_phase s HI) as Hph. unfold phase in Hph. rewrite Hfree, Hpa in Hph.
      cbn [phase_at]. split; [|split; [|split]].
      * intros w [].
      * intros w [Hin|[]]. apply in_seq in Hin. lia.
      * intros w Hw Hi. exfalso. exact (Hph w Hw Hi).
      * intros w Hw _. left. apply in_seq. lia.
  - (* LResumeVisit *)
    dstep Hstep; inversion Hstep; subst; clear Hstep; apply Nat.ltb_lt in Heqb;
      apply andb_prop in Heqb0; destruct Heqb0 as [Heqb0 _]; apply memb_In in Heqb0;
      assert (Hhold : holder s = Some (OC c))
        by (apply (inv_hold s HI c Heqb); rewrite Heqc0; reflexivity);
      pose proof (inv_phase s HI) as Hph; unfold phase in Hph; rewrite Hhold, Heqc0 in Hph;
      destruct Hph as [Hpa [H1 [H2 [H3 H4]]]];
      (apply inv_holder_move; [assumption | assumption | assumption | reflexivity |]);
      cbn [phase_at].
    + split; [|split; [|split]].
      * intros w' [<-|Hin] Hr; apply rem_In in Hr; [tauto|]. apply (H1 w' Hin). tauto.
      * intros w' [Hin|[<-|Hin]]; [apply rem_In in Hin|..]; apply H2; tauto.
      * intros w' Hw' Hi. destruct (H3 w' Hw' Hi) as [Ha Hb]. split.
        -- intros Hr. apply rem_In in Hr. tauto.
        -- intros [<-|Hin]; tauto.
      * intros w' Hw' Hpe. destruct (Nat.eq_dec w' w) as [->|Hne]; [right; left; reflexivity|].
        destruct (H4 w' Hw' Hpe) as [Hin|Hin]; [left; apply rem_In; tauto | right; right; assumption].
    + split; [|split; [|split]].
      * intros w' Hin Hr. apply rem_In in Hr. apply (H1 w' Hin). tauto.
      * intros w' [Hin|Hin]; [apply rem_In in Hin|]; apply H2; tauto.
      * intros w' Hw' Hi. destruct (H3 w' Hw' Hi) as [Ha Hb]. split; [|assumption].
        intros Hr. apply rem_In in Hr. tauto.
      * intros w' Hw' Hpe. destruct (H4 w' Hw' Hpe) as [Hin|Hin]; [|right; assumption].
        left. apply rem_In. split; [assumption|]. intros ->.
        pose proof (pending_sub _ (inv_w s HI w Hw') Hpe). congruence.
  - (* LHandshake *)
    dstep Hstep; inversion Hstep; subst; clear Hstep; apply Nat.ltb_lt in Heqb;
      apply memb_In in Heqb0;
      assert (Hhold : holder s = Some (OC c))
        by (apply (inv_hold s HI c Heqb); rewrite Heqc0; reflexivity);
      pose proof (inv_phase s HI) as Hph; unfold phase in Hph; rewrite Hhold, Heqc0 in Hph;
      destruct Hph as [Hpa [H1 [H2 [H3 H4]]]].
    assert (Hw : w < nw s) by (apply H2; tauto).
    pose proof (inv_w s HI w Hw) as Hwx.
    destruct HI as [Hp Hwf Hh Hhd Hph Hnl].
    constructor; cbn [panic nw nc holder ct wk paused set_c set_w]; try assumption; try exact Hnl.
    + intros w' Hw'. unfold upd. destruct (w' =? w) eqn:E; [|apply Hwf; assumption].
      unfold wwf, wset_pc in *. cbn [w_pc w_tok w_pclosed w_rclosed w_sub w_stop].
      rewrite Heqw0 in Hwx. intuition (try discriminate; auto).
    + intros c' Hc'. unfold upd. destruct (c' =? c) eqn:E.
      * apply Nat.eqb_eq in E. subst c'. split; auto.
      * apply Hh. assumption.
    + unfold phase. cbn [panic nw nc holder ct wk paused set_c set_w]. rewrite Hhold.
      split; [assumption|]. rewrite upd_same. cbn [phase_at nw wk set_c set_w].
      split; [|split; [|split]].
      * intros w' Hr. apply rem_In in Hr. apply H1; tauto.
      * intros w' [Hin|Hr]; [|apply rem_In in Hr]; apply H2; tauto.
      * intros w' Hw' Hi. unfold upd in Hi. destruct (w' =? w) eqn:E.
        -- apply Nat.eqb_eq in E. subst w'. split; [apply H1; assumption|].
           intros Hr. apply rem_In in Hr. tauto.
        -- destruct (H3 w' Hw' Hi) as [Ha Hb]. split; [assumption|].
           intros Hr. apply rem_In in Hr. tauto.
      * intros w' Hw' Hpe. unfold upd in Hpe. destruct (w' =? w) eqn:E.
        -- exfalso. unfold pending, wset_pc in Hpe. cbn [w_pc w_tok] in Hpe.
           unfold wwf in Hwx. rewrite Heqw0 in Hwx.
           destruct Hpe as [[_ Ht]|Hpc]; [|discriminate].
           assert (w_tok (wk s w) = false) by tauto. congruence.
        -- apply Nat.eqb_neq in E. destruct (H4 w' Hw' Hpe) as [Hin|Hin]; [left; assumption|].
           right. apply rem_In. tauto.
  - (* LRecvClosed *)
    dstep Hstep; inversion Hstep; subst; clear Hstep; apply Nat.ltb_lt in Heqb;
      apply andb_prop in Heqb0; destruct Heqb0 as [Hmem Hrc]; apply memb_In in Hmem;
      assert (Hhold : holder s = Some (OC c))
        by (apply (inv_hold s HI c Heqb); rewrite Heqc0; reflexivity);
      pose proof (inv_phase s HI) as Hph; unfold phase in Hph; rewrite Hhold, Heqc0 in Hph;
      destruct Hph as [Hpa [H1 [H2 [H3 H4]]]].
    assert (Hw : w < nw s) by (apply H2; tauto).
    pose proof (inv_w s HI w Hw) as Hwx.
    apply inv_holder_move; [assumption | assumption | assumption | reflexivity |].
    cbn [phase_at]. split; [|split; [|split]].
    + intros w' Hr. apply rem_In in Hr. apply H1; tauto.
    + intros w' [Hin|Hr]; [|apply rem_In in Hr]; apply H2; tauto.
    + intros w' Hw' Hi. destruct (H3 w' Hw' Hi) as [Ha Hb]. split; [assumption|].
      intros Hr. apply rem_In in Hr. tauto.
    + intros w' Hw' Hpe. destruct (H4 w' Hw' Hpe) as [Hin|Hin]; [left; assumption|].
      right. apply rem_In. split; [assumption|]. intros ->.
      unfold wwf in Hwx. assert (Hg : w_pc (wk s w) = WGone) by (apply Hwx; assumption).
      unfold pending in Hpe. rewrite Hg in Hpe. destruct Hpe as [[[Hd|Hd] _]|Hd]; discriminate.
  - (* LResumeEnd *)
    cbn [fixed v_mutex release] in Hstep.
    dstep Hstep; inversion Hstep; subst; clear Hstep; apply Nat.ltb_lt in Heqb.
    assert (Hhold : holder s = Some (OC c))
      by (apply (inv_hold s HI c Heqb); rewrite Heqc0; reflexivity).
    pose proof (inv_phase s HI) as Hph. unfold phase in Hph. rewrite Hhold, Heqc0 in Hph.
    destruct Hph as [Hpa [H1 [H2 [H3 H4]]]].
    apply (inv_release s c false HI Heqb Hhold).
    intros w Hw Hpe. destruct (H4 w Hw Hpe) as [[]|[]].
  - (* LTakePause *)
    dstep Hstep; inversion Hstep; subst; clear Hstep. wstep_inv.
  - (* LSeeStop *)
    dstep Hstep; inversion Hstep; subst; clear Hstep. wstep_inv.
  - (* LAckStop *)
    dstep Hstep; inversion Hstep; subst; clear Hstep. wstep_inv.
  - (* LUnsubDelete *)
    cbn [fixed v_unsubmutex v_closep negb orb] in Hstep.
    dstep Hstep; inversion Hstep; subst; clear Hstep. wstep_inv.
  - (* LUnsubCloseP *)
    dstep Hstep; inversion Hstep; subst; clear Hstep.
    apply Nat.ltb_lt in Heqb. pose proof (inv_w s HI w Heqb) as Hx.
    unfold wwf in Hx. tauto.
  - (* LUnsubCloseR *)
    cbn [fixed v_unsubmutex] in Hstep.
    dstep Hstep; inversion Hstep; subst; clear Hstep. wstep_inv.
  - (* LDone *)
    rewrite (inv_nolinks s HI w) in Hstep.
    dstep Hstep; inversion Hstep; subst; clear Hstep. wstep_inv.
  - (* LBusyStop *)
    dstep Hstep; inversion Hstep; subst; clear Hstep. wstep_inv.
Qed.

Lemma run_inv ls : forall s s', Inv s -> run fixed s ls = Some s' -> Inv s'.
Proof.
  induction ls as [|l ls IH]; intros s s' HI Hrun; cbn [run] in Hrun.
  - inversion Hrun; subst. assumption.
  - destruct (step fixed s l) as [s1|] eqn:Hstep; [|discriminate].
    apply (IH s1 s'); [eapply step_inv; eassumption | assumption].
Qed.

Lemma reachable_inv n m ls s : run fixed (init n m) ls = Some s -> Inv s.
Proof. apply run_inv. apply inv_init. Qed.

(* ---- deadlock freedom: a state of the repaired protocol in which no system step is enabled has
   no pending call, no panic, every cancelled worker gone and every other worker exactly where
   the pause flag says ---- *)
Ltac contra_q Hq l :=
  let Hn := fresh "Hn" in
  pose proof (Hq l eq_refl) as Hn; unfold step, lock_free, plock_free, visit_ok in Hn;
  cbn [fixed v_mutex v_pmutex v_early v_ackctx v_closep v_unsubmutex v_seq negb orb andb] in Hn;
  try match goal with HI : Inv ?s |- _ => rewrite ?(inv_nolinks s HI) in Hn end;
  repeat match goal with
         | H : panic _ = _ |- _ => rewrite H in Hn
         | H : (_ <? _) = true |- _ => rewrite H in Hn
         | H : ct _ _ = _ |- _ => rewrite H in Hn
         | H : w_pc _ = _ |- _ => rewrite H in Hn
         | H : w_tok _ = _ |- _ => rewrite H in Hn
         | H : w_stop _ = _ |- _ => rewrite H in Hn
         | H : w_rclosed _ = _ |- _ => rewrite H in Hn
         | H : free _ = _ |- _ => rewrite H in Hn
         end;
  cbn [fixed v_mutex v_pmutex v_early v_ackctx v_closep v_unsubmutex lock_free plock_free negb orb andb memb existsb] in Hn;
  rewrite ?Nat.eqb_refl in Hn; cbn [orb andb negb] in Hn;
  repeat match type of Hn with
         | context [if ?b then _ else _] => destruct b
         end;
  discriminate Hn.

Lemma quiescent_holder_free s : Inv s -> quiescent fixed s -> holder s = None.
Proof.
  intros HI Hq. pose proof (inv_panic s HI) as Hpanic.
  destruct (holder s) as [[c|w]|] eqn:Hhold; [| |reflexivity].
  - exfalso. pose proof (inv_holder s HI c Hhold) as Hc.
    assert (Hcb : (c <? nc s) = true) by (apply Nat.ltb_lt; assumption).
    pose proof (inv_phase s HI) as Hph. unfold phase in Hph. rewrite Hhold in Hph.
    destruct Hph as [Hpa Hat].
    destruct (ct s c) as [| |todo|x todo| |todo aw] eqn:Hct; cbn [phase_at] in Hat; try contradiction.
    + destruct todo as [|w t]; [contra_q Hq (LPauseEnd c) | contra_q Hq (LPauseVisit c w)].
    + contra_q Hq (LPauseSend c).
    + destruct todo as [|w t]; [|contra_q Hq (LResumeVisit c w)].
      destruct aw as [|w aw]; [contra_q Hq (LResumeEnd c)|].
      destruct Hat as [H1 [H2 [H3 H4]]].
      assert (Hw : w < nw s) by (apply H2; right; left; reflexivity).
      assert (Hwb : (w <? nw s) = true) by (apply Nat.ltb_lt; assumption).
      pose proof (inv_w s HI w Hw) as Hwx.
      assert (Hni : ~ idle (wk s w)).
      { intros Hi. destruct (H3 w Hw Hi) as [_ Hb]. apply Hb. left. reflexivity. }
      destruct (w_pc (wk s w)) eqn:Hpc.
      * destruct (w_tok (wk s w)) eqn:Htok; [contra_q Hq (LTakePause w)|].
        apply Hni. split; [left; assumption | assumption].
      * contra_q Hq (LDone w).
      * contra_q Hq (LHandshake c w).
      * contra_q Hq (LUnsubDelete w).
      * unfold wwf in Hwx. tauto.
      * contra_q Hq (LUnsubCloseR w).
      * assert (Hrc : w_rclosed (wk s w) = true) by (unfold wwf in Hwx; apply Hwx; assumption).
        contra_q Hq (LRecvClosed c w).
  - exfalso. pose proof (inv_phase s HI) as Hph. unfold phase in Hph. rewrite Hhold in Hph.
    assumption.
Qed.

Lemma quiescent_final s : Inv s -> quiescent fixed s -> final_ok_b s = true.
Proof.
  intros HI Hq. pose proof (inv_panic s HI) as Hpanic.
  pose proof (quiescent_holder_free s HI Hq) as Hhold.
  assert (Hfree : free s = true) by (unfold free; rewrite Hhold; reflexivity).
  unfold final_ok_b. rewrite Hpanic. cbn [negb andb].
  apply andb_true_intro. split.
  - apply forallb_forall. intros c Hin. apply in_seq in Hin.
    assert (Hc : c < nc s) by lia.
    assert (Hcb : (c <? nc s) = true) by (apply Nat.ltb_lt; assumption).
    pose proof (inv_hold s HI c Hc) as Hact. rewrite Hhold in Hact.
    destruct (ct s c) eqn:Hct; cbn [active is_idle_c] in *; try reflexivity;
      try (exfalso; assert (Hd : @None owner = Some (OC c)) by (apply Hact; reflexivity); discriminate Hd).
    + contra_q Hq (LPauseBegin c).
    + contra_q Hq (LResumeBegin c).
  - apply forallb_forall. intros w Hin. apply in_seq in Hin.
    assert (Hw : w < nw s) by lia.
    assert (Hwb : (w <? nw s) = true) by (apply Nat.ltb_lt; assumption).
    pose proof (inv_w s HI w Hw) as Hwx.
    pose proof (inv_phase s HI) as Hph. unfold phase in Hph. rewrite Hhold in Hph.
    unfold worker_ok.
    destruct (w_stop (wk s w)) eqn:Hstop.
    + destruct (w_pc (wk s w)) eqn:Hpc; cbn [wpc_eqb]; try reflexivity.
      * contra_q Hq (LSeeStop w).
      * contra_q Hq (LDone w).
      * contra_q Hq (LAckStop w).
      * contra_q Hq (LUnsubDelete w).
      * unfold wwf in Hwx. tauto.
      * contra_q Hq (LUnsubCloseR w).
    + assert (Hrun : running (wk s w) \/ w_pc (wk s w) = WAck)
        by (unfold wwf in Hwx; tauto).
      assert (Hnb : w_pc (wk s w) <> WBusy).
      { intros Hpc. contra_q Hq (LDone w). }
      destruct (paused s) eqn:Hpa.
      * destruct Hrun as [[Hpc|Hpc]|Hpc]; [|contradiction|rewrite Hpc; reflexivity].
        rewrite Hpc. cbn [wpc_eqb].
        destruct (w_tok (wk s w)) eqn:Htok; [contra_q Hq (LTakePause w)|].
        exfalso. apply (Hph w Hw). split; [left; assumption | assumption].
      * destruct Hrun as [[Hpc|Hpc]|Hpc]; [|contradiction|].
        -- rewrite Hpc. cbn [wpc_eqb].
           destruct (w_tok (wk s w)) eqn:Htok; [|reflexivity].
           exfalso. apply (Hph w Hw). left. split; [left; assumption | assumption].
        -- exfalso. apply (Hph w Hw). right. assumption.
Qed.

(* =====================  the property's statements  ===================== *)

(* what "nobody is blocked" means in a state where nothing moves any more *)
Definition final_ok (s : state) : Prop :=
  panic s = false /\
  (forall c, c < nc s -> ct s c = CIdle) /\
  (forall w, w < nw s ->
     if w_stop (wk s w) then w_pc (wk s w) = WGone
     else if paused s then w_pc (wk s w) = WAck
          else w_pc (wk s w) = WRun /\ w_tok (wk s w) = false).

Lemma wpc_eqb_eq a b : wpc_eqb a b = true -> a = b.
Proof. destruct a, b; cbn; intros H; try discriminate H; reflexivity. Qed.

Lemma final_ok_b_spec s : final_ok_b s = true -> final_ok s.
Proof.
  unfold final_ok_b, final_ok. intros H.
  apply andb_prop in H. destruct H as [H Hw]. apply andb_prop in H. destruct H as [Hp Hc].
  split; [destruct (panic s); [discriminate | reflexivity]|]. split.
  - intros c Hlt. rewrite forallb_forall in Hc. specialize (Hc c ltac:(apply in_seq; lia)).
    destruct (ct s c); try discriminate Hc. reflexivity.
  - intros w Hlt. rewrite forallb_forall in Hw. specialize (Hw w ltac:(apply in_seq; lia)).
    unfold worker_ok in Hw. destruct (w_stop (wk s w)); [now apply wpc_eqb_eq|].
    destruct (paused s); [now apply wpc_eqb_eq|].
    apply andb_prop in Hw. destruct Hw as [H1 H2]. split; [now apply wpc_eqb_eq|].
    destruct (w_tok (wk s w)); [discriminate | reflexivity].
Qed.

Lemma final_ok_b_false s : final_ok_b s = false -> ~ final_ok s.
Proof.
  intros Hb [Hp [Hc Hw]]. enough (final_ok_b s = true) by congruence.
  unfold final_ok_b. rewrite Hp. cbn [negb andb]. apply andb_true_intro. split.
  - apply forallb_forall. intros c Hin. apply in_seq in Hin. rewrite Hc by lia. reflexivity.
  - apply forallb_forall. intros w Hin. apply in_seq in Hin. specialize (Hw w ltac:(lia)).
    unfold worker_ok. destruct (w_stop (wk s w)); [rewrite Hw; reflexivity|].
    destruct (paused s); [rewrite Hw; reflexivity|]. destruct Hw as [-> ->]. reflexivity.
Qed.

(* calls_complete: from every state the repaired protocol can reach - under ANY schedule, with
   any number of workers and controllers, any order of Pause / Resume invocations, worker
   cancellations and work - (1) system steps alone cannot go on for more than [mu s] steps,
   (2) whenever they stop, no call is pending, nothing panicked, every cancelled worker is gone
   and every other worker is exactly where the pause flag says, (3) such a maximal execution
   exists. *)
Lemma calls_complete_lemma : forall n m ls0 s,
  run fixed (init n m) ls0 = Some s ->
  (forall ls s', all_sys ls -> run fixed s ls = Some s' -> length ls <= mu s) /\
  (forall ls s', all_sys ls -> run fixed s ls = Some s' -> quiescent fixed s' -> final_ok s') /\
  (exists ls s', all_sys ls /\ run fixed s ls = Some s' /\ quiescent fixed s').
Proof.
  intros n m ls0 s Hreach. pose proof (reachable_inv n m ls0 s Hreach) as HI. split; [|split].
  - intros ls s' Hall Hrun. pose proof (run_mu fixed ls s s' (inv_nolinks s HI) Hall Hrun). lia.
  - intros ls s' Hall Hrun Hq. apply final_ok_b_spec. apply quiescent_final; [|assumption].
    eapply run_inv; eassumption.
  - apply maximal_exists. exact (inv_nolinks s HI).
Qed.

(* stop_releases_workers: once nothing moves, every worker whose context was cancelled has
   unsubscribed and left (so Stop's wg.Wait returns) - whatever the pause state was. *)
Lemma stop_releases_workers_lemma : forall n m ls0 s ls s' w,
  run fixed (init n m) ls0 = Some s ->
  all_sys ls -> run fixed s ls = Some s' -> quiescent fixed s' ->
  w < nw s' -> w_stop (wk s' w) = true ->
  w_pc (wk s' w) = WGone /\ w_sub (wk s' w) = false /\ w_rclosed (wk s' w) = true.
Proof.
  intros n m ls0 s ls s' w Hreach Hall Hrun Hq Hw Hstop.
  pose proof (reachable_inv n m ls0 s Hreach) as HI.
  pose proof (run_inv ls s s' HI Hrun) as HI'.
  pose proof (final_ok_b_spec s' (quiescent_final s' HI' Hq)) as [_ [_ Hws]].
  specialize (Hws w Hw). rewrite Hstop in Hws.
  pose proof (inv_w s' HI' w Hw) as Hwx. unfold wwf in Hwx. rewrite Hws in Hwx.
  split; [assumption|]. split; [|tauto].
  destruct (w_sub (wk s' w)) eqn:E; [|reflexivity].
  exfalso. destruct Hwx as [_ [_ [Hs _]]].
  destruct (proj1 Hs eq_refl) as [[H|H]|[H|H]]; discriminate H.
Qed.

(* a label that lets worker w leave the acknowledging send *)
Definition releases (w : nat) (l : label) : Prop :=
  l = LAckStop w \/ exists c, l = LHandshake c w.

Lemma ack_stays v ls : forall s s' w,
  run v s ls = Some s' -> w_pc (wk s w) = WAck ->
  (forall l, In l ls -> ~ releases w l) ->
  w_pc (wk s' w) = WAck /\ ~ In (LWork w) ls.
Proof.
  induction ls as [|l ls IH]; intros s s' w Hrun Hack Hnr; cbn [run] in Hrun.
  - inversion Hrun; subst. split; [assumption | intros []].
  - destruct (step v s l) as [s1|] eqn:Hstep; [|discriminate].
    assert (Hl : ~ releases w l) by (apply Hnr; left; reflexivity).
    assert (Hkeep : w_pc (wk s1 w) = WAck /\ l <> LWork w).
    { unfold step in Hstep. destruct (panic s); [discriminate|].
      destruct l; dstep Hstep; inversion Hstep; subst; clear Hstep;
        cbn [wk set_w set_c set_paused set_holder set_panic take release ptake prelease];
        unfold take, release, ptake, prelease;
        repeat match goal with |- context [if ?b then _ else _] => destruct b end;
        cbn [wk set_w set_c set_paused set_holder set_panic];
        (split; [|try discriminate]);
        try assumption;
        try (unfold upd;
             match goal with |- context [?a =? ?b] => destruct (Nat.eqb_spec a b) as [->|Hne] end;
             [|assumption]);
        try congruence;
        try (cbn [w_pc wset_stop wset_tok wset_pc]; assumption);
        try (unfold upd;
             repeat match goal with
                    | |- context [?a =? ?b] => destruct (Nat.eqb_spec a b) as [->|?]
                    end;
             cbn [w_pc wset_pc]; congruence);
        try (exfalso; apply Hl; unfold releases; eauto).
      all: try (intros Heq; inversion Heq; subst; congruence). }
    destruct Hkeep as [Hk Hne].
    destruct (IH s1 s' w Hrun Hk ltac:(intros l' Hin; apply Hnr; right; assumption)) as [H1 H2].
    split; [assumption|]. intros [Heq|Hin]; [congruence | contradiction].
Qed.

Lemma pending_paused s w : Inv s -> w < nw s -> pending (wk s w) -> paused s = true.
Proof.
  intros HI Hw Hpe. pose proof (inv_phase s HI) as Hph. unfold phase in Hph.
  destruct (holder s) as [[c|w1]|]; [tauto | contradiction |].
  destruct (paused s); [reflexivity|]. exfalso. exact (Hph w Hw Hpe).
Qed.

(* paused_takes_no_work: a worker that has acknowledged the pause (took the token, is in the
   acknowledging send) exists only while the manager is paused, cannot take work, and stays
   there - over every continuation of the schedule - until a Resume call's receiver takes its
   acknowledgement or its own context is cancelled; in between it takes no work item. *)
Lemma paused_takes_no_work_lemma : forall n m ls0 s w,
  run fixed (init n m) ls0 = Some s -> w < nw s -> w_pc (wk s w) = WAck ->
  paused s = true /\
  step fixed s (LWork w) = None /\
  forall ls s', run fixed s ls = Some s' -> (forall l, In l ls -> ~ releases w l) ->
                w_pc (wk s' w) = WAck /\ ~ In (LWork w) ls.
Proof.
  intros n m ls0 s w Hreach Hw Hack. pose proof (reachable_inv n m ls0 s Hreach) as HI.
  split; [|split].
  - apply (pending_paused s w HI Hw). right. assumption.
  - unfold step. destruct (panic s); [reflexivity|]. destruct (w <? nw s); [|reflexivity].
    rewrite Hack. reflexivity.
  - intros ls s' Hrun Hnr. eapply ack_stays; eassumption.
Qed.

(* the return of a Pause call / of a Resume call, as a step *)
Definition pause_returns (s : state) (l : label) (s' : state) : Prop :=
  exists c, (l = LPauseEnd c \/ l = LPauseBegin c) /\ ct s c <> CIdle /\ ct s' c = CIdle.
Definition resume_returns (s : state) (l : label) (s' : state) : Prop :=
  exists c, (l = LResumeEnd c \/ l = LResumeBegin c) /\ ct s c <> CIdle /\ ct s' c = CIdle.

(* pause_reaches_all: when any Pause call returns the manager is paused and every worker has the
   token queued, is already blocked acknowledging, or is leaving - none is left running with an
   empty PauseCh. *)
Lemma pause_reaches_all_lemma : forall n m ls0 s l s',
  run fixed (init n m) ls0 = Some s -> step fixed s l = Some s' -> pause_returns s l s' ->
  paused s' = true /\ forall w, w < nw s' -> ~ idle (wk s' w).
Proof.
  intros n m ls0 s l s' Hreach Hstep [c [Hl [Hne Hidle]]].
  pose proof (reachable_inv n m ls0 s Hreach) as HI.
  pose proof (step_inv s l s' HI Hstep) as HI'.
  assert (Hfp : holder s' = None /\ paused s' = true).
  { unfold step in Hstep. destruct (panic s); [discriminate|].
    destruct Hl as [-> | ->];
      cbn [fixed v_mutex v_pmutex v_early lock_free take release plock_free ptake prelease negb orb andb] in Hstep;
      dstep Hstep; inversion Hstep; subst; clear Hstep;
      cbn [holder paused ct set_c set_paused set_holder] in *.
    - split; [reflexivity|].
      assert (Hh : holder s = Some (OC c))
        by (apply (inv_hold s HI c ltac:(apply Nat.ltb_lt; assumption)); rewrite Heqc0; reflexivity).
      pose proof (inv_phase s HI) as Hph. unfold phase in Hph. rewrite Hh in Hph. tauto.
    - split; [apply free_none; assumption | assumption].
    - rewrite upd_same in Hidle. discriminate. }
  destruct Hfp as [Hf Hp]. split; [assumption|].
  pose proof (inv_phase s' HI') as Hph. unfold phase in Hph. rewrite Hf, Hp in Hph. exact Hph.
Qed.

(* resume_wakes_all: when any Resume call returns the manager is not paused and no worker is
   still blocked acknowledging or has an unconsumed pause token: every one of them was woken
   (or has left because it was cancelled). *)
Lemma resume_wakes_all_lemma : forall n m ls0 s l s',
  run fixed (init n m) ls0 = Some s -> step fixed s l = Some s' -> resume_returns s l s' ->
  paused s' = false /\ forall w, w < nw s' -> ~ pending (wk s' w).
Proof.
  intros n m ls0 s l s' Hreach Hstep [c [Hl [Hne Hidle]]].
  pose proof (reachable_inv n m ls0 s Hreach) as HI.
  pose proof (step_inv s l s' HI Hstep) as HI'.
  assert (Hfp : holder s' = None /\ paused s' = false).
  { unfold step in Hstep. destruct (panic s); [discriminate|].
    destruct Hl as [-> | ->];
      cbn [fixed v_mutex v_pmutex v_early lock_free take release plock_free ptake prelease negb orb andb] in Hstep;
      dstep Hstep; inversion Hstep; subst; clear Hstep;
      cbn [holder paused ct set_c set_paused set_holder] in *.
    - split; reflexivity.
    - split; [apply free_none; assumption|]. destruct (paused s); [discriminate | reflexivity].
    - rewrite upd_same in Hidle. discriminate. }
  destruct Hfp as [Hf Hp]. split; [assumption|].
  pose proof (inv_phase s' HI') as Hph. unfold phase in Hph. rewrite Hf, Hp in Hph. exact Hph.
Qed.

(* no send on a closed channel - no PauseCh is ever closed -, mutual exclusion of the calls past
   their first step *)
Lemma no_panic_lemma : forall n m ls s,
  run fixed (init n m) ls = Some s ->
  panic s = false /\
  (forall w, w < nw s -> w_pclosed (wk s w) = false) /\
  forall c c', c < nc s -> c' < nc s -> active (ct s c) = true -> active (ct s c') = true -> c = c'.
Proof.
  intros n m ls s Hreach. pose proof (reachable_inv n m ls s Hreach) as HI. split.
  - exact (inv_panic s HI).
  - split; [intros w Hw; pose proof (inv_w s HI w Hw) as Hx; unfold wwf in Hx; tauto|].
    intros c c' Hc Hc' Ha Ha'. apply (inv_hold s HI c Hc) in Ha. apply (inv_hold s HI c' Hc') in Ha'.
    congruence.
Qed.

(* =====================  refutation witnesses  ===================== *)
(* A witness is a schedule (label list) from [init n m] after which no system step is enabled
   although a call is still pending / a cancelled worker has not left / the process panicked. *)
Definition refutes (v : variant) (n m : nat) (ls : list label) : bool :=
  match run v (init n m) ls with
  | Some s => quiescent_b v s && negb (final_ok_b s)
  | None => false
  end.

Definition stuck (v : variant) (n m : nat) (ls : list label) : Prop :=
  exists s, run v (init n m) ls = Some s /\ quiescent v s /\ ~ final_ok s.

Lemma refutes_sound v n m ls : refutes v n m ls = true -> stuck v n m ls.
Proof.
  unfold refutes, stuck. destruct (run v (init n m) ls) as [s|]; [|discriminate].
  intros H. apply andb_prop in H. destruct H as [Hq Hf]. exists s. split; [reflexivity|]. split.
  - now apply quiescent_b_spec.
  - apply final_ok_b_false. destruct (final_ok_b s); [discriminate | reflexivity].
Qed.

(* one complete Pause by controller c over workers 0..n-1 visited in order, then every worker
   takes its token *)
Definition full_pause (c : nat) (ws : list nat) : list label :=
  [LCall c KPause; LPauseBegin c] ++ flat_map (fun w => [LPauseVisit c w; LPauseSend c]) ws ++
  [LPauseEnd c] ++ map LTakePause ws.

(* DESIGN.md section 7 #8: stop while paused.  The paused worker is in the bare send
   `ResumeCh <- struct{}{}` and cannot see ctx.Done(): it never leaves, Stop's wg.Wait hangs. *)
Definition w_stop_while_paused : list label := full_pause 0 [0] ++ [LStop 0].
Lemma stop_while_paused_orig_refuted : stuck orig 1 1 w_stop_while_paused.
Proof. apply refutes_sound. vm_compute. reflexivity. Qed.

(* #9: Resume while nothing is paused waits for one send from every (running) subscriber. *)
Definition w_unmatched_resume : list label := [LCall 0 KResume; LResumeBegin 0; LResumeVisit 0 0].
Lemma unmatched_resume_orig_refuted : stuck orig 1 1 w_unmatched_resume.
Proof. apply refutes_sound. vm_compute. reflexivity. Qed.

(* #9, second half: the blocked Resume takes the acknowledgement of the NEXT Pause and undoes it:
   controller 1's Pause has returned, nobody called Resume after it, nothing moves any more -
   and the manager is not paused, the worker is running. *)
Definition w_pause_undone : list label :=
  w_unmatched_resume ++ full_pause 1 [0] ++ [LHandshake 0 0; LResumeEnd 0].
Lemma pause_undone_orig_refuted :
  exists s, run orig (init 1 2) w_pause_undone = Some s /\ quiescent orig s /\
            ct s 1 = CIdle /\ paused s = false /\ w_pc (wk s 0) = WRun.
Proof.
  destruct (run orig (init 1 2) w_pause_undone) as [s|] eqn:Hrun; [|vm_compute in Hrun; discriminate].
  exists s. split; [reflexivity|].
  assert (Hb : quiescent_b orig s && is_idle_c (ct s 1) && negb (paused s) && wpc_eqb (w_pc (wk s 0)) WRun = true).
  { revert Hrun. vm_compute. intros Hrun. inversion Hrun; subst. reflexivity. }
  apply andb_prop in Hb. destruct Hb as [Hb H4]. apply andb_prop in Hb. destruct Hb as [Hb H3].
  apply andb_prop in Hb. destruct Hb as [H1 H2].
  split; [now apply quiescent_b_spec|]. split; [destruct (ct s 1); try discriminate; reflexivity|].
  split; [destruct (paused s); [discriminate|reflexivity] | now apply wpc_eqb_eq].
Qed.

(* #10: Unsubscribe closes PauseCh between Range loading the key and the send: panic. *)
Definition w_unsubscribe_race : list label :=
  [LCall 0 KPause; LPauseBegin 0; LPauseVisit 0 0;
   LStop 0; LSeeStop 0; LUnsubDelete 0; LUnsubCloseP 0; LPauseSend 0].
Lemma unsubscribe_race_orig_refuted :
  exists s, run orig (init 1 1) w_unsubscribe_race = Some s /\ panic s = true.
Proof.
  destruct (run orig (init 1 1) w_unsubscribe_race) as [s|] eqn:Hrun; [|vm_compute in Hrun; discriminate].
  exists s. split; [reflexivity|]. revert Hrun. vm_compute. intros Hrun. inversion Hrun. reflexivity.
Qed.

(* each of the three repairs is needed: leave one out and the same schedules still get stuck *)
Lemma without_ack_select_refuted : stuck (V false true true true false false false) 1 1 w_stop_while_paused.
Proof. apply refutes_sound. vm_compute. reflexivity. Qed.
Lemma without_resume_guard_refuted : stuck (V true false false false false false false) 1 1 w_unmatched_resume.
Proof. apply refutes_sound. vm_compute. reflexivity. Qed.
Lemma with_pausech_close_refuted : stuck (V true true true true true false false) 1 1 w_unsubscribe_race.
Proof. apply refutes_sound. vm_compute. reflexivity. Qed.

(* repair candidates that the model rejects *)
(* (a) "Resume returns at once when nothing is paused" WITHOUT the mutex: two concurrent Resume
   calls each take one of the two acknowledgements and wait for the other one forever. *)
Definition w_two_resumes : list label :=
  full_pause 0 [0; 1] ++
  [LCall 1 KResume; LCall 2 KResume; LResumeBegin 1; LResumeBegin 2;
   LResumeVisit 1 0; LResumeVisit 1 1; LResumeVisit 2 0; LResumeVisit 2 1;
   LHandshake 1 0; LHandshake 2 1].
Lemma early_return_without_mutex_candidate_refuted :
  stuck (V true false false true false false false) 2 3 w_two_resumes.
Proof. apply refutes_sound. vm_compute. reflexivity. Qed.

(* (b) Unsubscribe takes the mutex as well (to protect close(PauseCh)): Resume holds it while
   waiting for the very worker that is leaving. *)
Definition w_unsub_mutex : list label :=
  full_pause 0 [0] ++ [LCall 0 KResume; LResumeBegin 0; LResumeVisit 0 0; LStop 0; LAckStop 0].
Lemma unsubscribe_mutex_candidate_refuted : stuck (V true true true true true true false) 1 1 w_unsub_mutex.
Proof. apply refutes_sound. vm_compute. reflexivity. Qed.

Lemma orig_refuted_lemma :
  stuck orig 1 1 w_stop_while_paused /\
  stuck orig 1 1 w_unmatched_resume /\
  (exists s, run orig (init 1 2) w_pause_undone = Some s /\ quiescent orig s /\
             ct s 1 = CIdle /\ paused s = false /\ w_pc (wk s 0) = WRun) /\
  (exists s, run orig (init 1 1) w_unsubscribe_race = Some s /\ panic s = true).
Proof.
  exact (conj stop_while_paused_orig_refuted (conj unmatched_resume_orig_refuted
        (conj pause_undone_orig_refuted unsubscribe_race_orig_refuted))).
Qed.

Lemma repairs_needed_lemma :
  stuck (V false true true true false false false) 1 1 w_stop_while_paused /\
  stuck (V true false false false false false false) 1 1 w_unmatched_resume /\
  stuck (V true true true true true false false) 1 1 w_unsubscribe_race /\
  stuck (V true false false true false false false) 2 3 w_two_resumes /\
  stuck (V true true true true true true false) 1 1 w_unsub_mutex.
Proof.
  exact (conj without_ack_select_refuted (conj without_resume_guard_refuted
        (conj with_pausech_close_refuted (conj early_return_without_mutex_candidate_refuted
         unsubscribe_mutex_candidate_refuted)))).
Qed.

(* the repaired code on the same schedules: they either are no schedules of it any more or end well *)
Example fixed_survives_witnesses :
  refutes fixed 1 1 w_stop_while_paused = false /\ refutes fixed 1 1 w_unmatched_resume = false /\
  refutes fixed 1 1 w_unsubscribe_race = false /\ refutes fixed 2 3 w_two_resumes = false /\
  refutes fixed 1 1 w_unsub_mutex = false.
Proof. vm_compute. repeat split. Qed.

(* =====================  non-vacuity  ===================== *)
(* a reachable state of the repaired protocol with an acknowledging worker (paused_takes_no_work) *)
Example nonvacuous_ack :
  exists s, run fixed (init 2 2) (full_pause 0 [0; 1]) = Some s /\ w_pc (wk s 1) = WAck /\ 1 < nw s.
Proof.
  destruct (run fixed (init 2 2) (full_pause 0 [0; 1])) as [s|] eqn:Hrun; [|vm_compute in Hrun; discriminate].
  exists s. split; [reflexivity|]. revert Hrun. vm_compute. intros Hrun. inversion Hrun. split; [reflexivity | lia].
Qed.

(* a Resume that really has workers to wake and returns (resume_wakes_all), after a Pause that
   really reached them (pause_reaches_all) *)
Definition full_cycle : list label :=
  full_pause 0 [0; 1] ++
  [LCall 1 KResume; LResumeBegin 1; LResumeVisit 1 1; LResumeVisit 1 0; LHandshake 1 0; LHandshake 1 1].
Example nonvacuous_resume :
  match run fixed (init 2 2) full_cycle with
  | Some s => match step fixed s (LResumeEnd 1) with
              | Some s' => negb (is_idle_c (ct s 1)) && is_idle_c (ct s' 1) && negb (paused s')
              | None => false
              end
  | None => false
  end = true.
Proof. vm_compute. reflexivity. Qed.

(* a stuck-looking situation of the old code that the repaired code leaves: stop while paused,
   with an unmatched Resume and a second Pause pending; running the scheduler ends well *)
Example nonvacuous_calls_complete :
  match run fixed (init 2 3)
          (full_pause 0 [0; 1] ++ [LStop 0; LCall 1 KResume; LCall 0 KResume; LCall 2 KPause]) with
  | Some s => negb (final_ok_b s) && final_ok_b (quiesce fixed (S (mu s)) s)
              && wpc_eqb (w_pc (wk (quiesce fixed (S (mu s)) s) 0)) WGone
  | None => false
  end = true.
Proof. vm_compute. reflexivity. Qed.

(* =====================  a Pause invoked while no Resume is waiting to start sticks  ============ *)
(* [J]: no Resume call is before its first step, and either some Pause call is before its first
   step or the manager is paused with no Resume call in progress at all. *)
Definition is_resume_pc (x : cpc) : bool :=
  match x with CRStart | CRRange _ _ => true | _ => false end.

Definition J (s : state) : Prop :=
  (forall c, c < nc s -> ct s c <> CRStart) /\
  ((exists b, b < nc s /\ ct s b = CPStart) \/
   (paused s = true /\ forall c, c < nc s -> is_resume_pc (ct s c) = false)).

Lemma free_no_resume s : Inv s -> holder s = None ->
  (forall c, c < nc s -> ct s c <> CRStart) -> forall c, c < nc s -> is_resume_pc (ct s c) = false.
Proof.
  intros HI Hfree Hns c Hc. pose proof (inv_hold s HI c Hc) as Hact. rewrite Hfree in Hact.
  specialize (Hns c Hc).
  destruct (ct s c); cbn [is_resume_pc active] in *; try reflexivity; try congruence.
  exfalso. assert (Hd : @None owner = Some (OC c)) by (apply Hact; reflexivity). discriminate Hd.
Qed.

Lemma J_set_c s c x :
  J s -> c < nc s -> x <> CRStart -> ct s c <> CPStart ->
  (is_resume_pc x = true -> is_resume_pc (ct s c) = true) -> J (set_c s c x).
Proof.
  intros [Hns Hd] Hc Hx Hnp Hres. split; cbn [nc ct paused set_c].
  - intros c' Hc'. unfold upd. destruct (c' =? c); [assumption | apply Hns; assumption].
  - destruct Hd as [[b [Hb Hbs]]|[Hpa Hnr]].
    + left. exists b. split; [assumption|]. unfold upd. destruct (Nat.eqb_spec b c) as [->|Hne];
        [contradiction | assumption].
    + right. split; [assumption|]. intros c' Hc'. unfold upd.
      destruct (Nat.eqb_spec c' c) as [->|Hne]; [|apply Hnr; assumption].
      destruct (is_resume_pc x) eqn:E; [|reflexivity].
      rewrite <- (Hnr c Hc). symmetry. apply Hres. reflexivity.
Qed.

Lemma J_step s l s' :
  Inv s -> J s -> step fixed s l = Some s' -> (forall c, l <> LCall c KResume) -> J s'.
Proof.
  intros HI HJ Hstep Hnr. pose proof HJ as [Hns Hd]. unfold step in Hstep.
  destruct (panic s) eqn:Hpanic; [discriminate|].
  destruct l;
    cbn [fixed v_mutex v_pmutex v_early v_unsubmutex v_closep lock_free take release plock_free ptake prelease negb orb andb] in Hstep;
    dstep Hstep; inversion Hstep; subst; clear Hstep;
    try exact HJ;
    try (exfalso; apply (Hnr c); reflexivity);
    try (apply Nat.ltb_lt in Heqb).
  - (* LCall c KPause *)
    split; cbn [nc ct paused set_c].
    + intros c' Hc'. unfold upd. destruct (c' =? c); [discriminate | apply Hns; assumption].
    + left. exists c. split; [assumption | apply upd_same].
  - (* LPauseBegin, already paused: returns *)
    pose proof (free_no_resume s HI (free_none s Heqb0) Hns) as Hnores.
    split; cbn [nc ct paused set_c].
    + intros c' Hc'. unfold upd. destruct (c' =? c); [discriminate | apply Hns; assumption].
    + right. split; [assumption|]. intros c' Hc'. unfold upd.
      destruct (c' =? c); [reflexivity | apply Hnores; assumption].
  - (* LPauseBegin, pauses *)
    pose proof (free_no_resume s HI (free_none s Heqb0) Hns) as Hnores.
    split; cbn [nc ct paused set_c set_paused set_holder].
    + intros c' Hc'. unfold upd. destruct (c' =? c); [discriminate | apply Hns; assumption].
    + right. split; [reflexivity|]. intros c' Hc'. unfold upd.
      destruct (c' =? c); [reflexivity | apply Hnores; assumption].
  - apply J_set_c; try assumption; try discriminate; rewrite Heqc0; discriminate.
  - apply J_set_c; try assumption; try discriminate; rewrite Heqc0; discriminate.
  - (* LPauseSend *)
    assert (HJ' : J (set_w s x (wset_tok (wk s x) true))) by exact HJ.
    apply J_set_c; try assumption; try discriminate; cbn [ct set_w]; rewrite Heqc0; discriminate.
  - (* LPauseEnd *)
    assert (HJ' : J (set_c s c CIdle)).
    { apply J_set_c; try assumption; try discriminate; rewrite Heqc0; discriminate. }
    exact HJ'.
  - (* LResumeBegin: there is no Resume before its first step *)
    exfalso. apply (Hns c Heqb). assumption.
  - exfalso. apply (Hns c Heqb). assumption.
  - apply J_set_c; try assumption; try discriminate; rewrite Heqc0; try discriminate; reflexivity.
  - apply J_set_c; try assumption; try discriminate; rewrite Heqc0; try discriminate; reflexivity.
  - (* LHandshake *)
    assert (HJ' : J (set_w s w (wset_pc (wk s w) WRun))) by exact HJ.
    apply J_set_c; try assumption; try discriminate; cbn [ct set_w]; rewrite Heqc0; try discriminate; reflexivity.
  - apply J_set_c; try assumption; try discriminate; rewrite Heqc0; try discriminate; reflexivity.
  - (* LResumeEnd *)
    destruct Hd as [[b [Hb Hbs]]|[Hpa Hnores]].
    + split; cbn [nc ct paused set_c set_paused set_holder].
      * intros c' Hc'. unfold upd. destruct (c' =? c); [discriminate | apply Hns; assumption].
      * left. exists b. split; [assumption|]. unfold upd.
        destruct (Nat.eqb_spec b c) as [->|Hne]; [congruence | assumption].
    + specialize (Hnores c Heqb). rewrite Heqc0 in Hnores. discriminate.
Qed.

Lemma J_run ls : forall s s',
  Inv s -> J s -> run fixed s ls = Some s' ->
  (forall l c, In l ls -> l <> LCall c KResume) -> Inv s' /\ J s'.
Proof.
  induction ls as [|l ls IH]; intros s s' HI HJ Hrun Hnr; cbn [run] in Hrun.
  - inversion Hrun; subst. split; assumption.
  - destruct (step fixed s l) as [s1|] eqn:Hstep; [|discriminate].
    apply (IH s1 s'); try assumption; try exact Hnl.
    + eapply step_inv; eassumption.
    + eapply J_step; try eassumption. intros c. apply Hnr. left. reflexivity.
    + intros l' c Hin. apply Hnr. right. assumption.
Qed.

(* pause_sticks: a Pause invoked at a moment when no Resume call is still before its first step
   (every Resume in progress is already collecting acknowledgements) - and not followed by any new
   Resume invocation - leaves the manager paused once every call has returned, under every
   schedule: the Resume calls in flight finish first, then the Pause takes effect. *)
Lemma pause_sticks_lemma : forall n m ls0 s b s1 ls s',
  run fixed (init n m) ls0 = Some s ->
  (forall c, c < nc s -> ct s c <> CRStart) ->
  step fixed s (LCall b KPause) = Some s1 ->
  run fixed s1 ls = Some s' ->
  (forall l c, In l ls -> l <> LCall c KResume) ->
  (forall c, c < nc s' -> ct s' c = CIdle) ->
  paused s' = true.
Proof.
  intros n m ls0 s b s1 ls s' Hreach Hns Hcall Hrun Hnr Hidle.
  pose proof (reachable_inv n m ls0 s Hreach) as HI.
  pose proof (step_inv s _ s1 HI Hcall) as HI1.
  assert (HJ1 : J s1).
  { unfold step in Hcall. destruct (panic s); [discriminate|].
    dstep Hcall; inversion Hcall; subst; clear Hcall. apply Nat.ltb_lt in Heqb0.
    split; cbn [nc ct paused set_c].
    - intros c' Hc'. unfold upd. destruct (c' =? b); [discriminate | apply Hns; assumption].
    - left. exists b. split; [assumption | apply upd_same]. }
  destruct (J_run ls s1 s' HI1 HJ1 Hrun Hnr) as [_ [_ [[b' [Hb' Hbs]]|[Hpa _]]]]; [|assumption].
  rewrite (Hidle b' Hb') in Hbs. discriminate.
Qed.

(* Without the mutex in Pause (Resume keeps it): controller 0's Resume is collecting and still
   waits for worker 1, which is handling an item with the pause token queued; worker 0 has
   already been released.  Controller 1's Pause finds isPaused still set, does nothing and
   returns - with worker 0 running on an empty PauseCh (pause_reaches_all is false); then the
   Resume finishes and nothing is paused although the last invocation was a Pause. *)
Definition v_no_pause_mutex : variant := V true true false true false false false.
Definition w_pause_nomutex : list label :=
  [LWork 1; LCall 0 KPause; LPauseBegin 0; LPauseVisit 0 0; LPauseSend 0; LPauseVisit 0 1;
   LPauseSend 0; LPauseEnd 0; LTakePause 0;
   LCall 0 KResume; LResumeBegin 0; LResumeVisit 0 0; LResumeVisit 0 1; LHandshake 0 0;
   LCall 1 KPause].
Definition w_pause_nomutex_end : list label :=
  [LPauseBegin 1; LDone 1; LTakePause 1; LHandshake 0 1; LResumeEnd 0].

Definition pause_nomutex_check : bool :=
  match run v_no_pause_mutex (init 2 2) w_pause_nomutex with
  | Some s =>
      match step v_no_pause_mutex s (LPauseBegin 1) with
      | Some s' =>
          negb (is_idle_c (ct s 1)) && is_idle_c (ct s' 1) && paused s' &&
          wpc_eqb (w_pc (wk s' 0)) WRun && negb (w_tok (wk s' 0)) &&
          match run v_no_pause_mutex (init 2 2) (w_pause_nomutex ++ w_pause_nomutex_end) with
          | Some t => quiescent_b v_no_pause_mutex t && is_idle_c (ct t 0) && is_idle_c (ct t 1) &&
                      negb (paused t) && wpc_eqb (w_pc (wk t 0)) WRun && wpc_eqb (w_pc (wk t 1)) WRun
          | None => false
          end
      | None => false
      end
  | None => false
  end.

Lemma pause_without_mutex_refuted :
  (exists s s', run v_no_pause_mutex (init 2 2) w_pause_nomutex = Some s /\
                step v_no_pause_mutex s (LPauseBegin 1) = Some s' /\
                pause_returns s (LPauseBegin 1) s' /\ paused s' = true /\ idle (wk s' 0)) /\
  (exists t, run v_no_pause_mutex (init 2 2) (w_pause_nomutex ++ w_pause_nomutex_end) = Some t /\
             quiescent v_no_pause_mutex t /\ ct t 0 = CIdle /\ ct t 1 = CIdle /\ paused t = false).
Proof.
  assert (Hc : pause_nomutex_check = true) by (vm_compute; reflexivity).
  unfold pause_nomutex_check in Hc.
  destruct (run v_no_pause_mutex (init 2 2) w_pause_nomutex) as [s|] eqn:Hr1; [|discriminate].
  destruct (step v_no_pause_mutex s (LPauseBegin 1)) as [s'|] eqn:Hs1; [|discriminate].
  destruct (run v_no_pause_mutex (init 2 2) (w_pause_nomutex ++ w_pause_nomutex_end)) as [t|] eqn:Hr2.
  2: { repeat (apply andb_prop in Hc; destruct Hc as [Hc ?]); discriminate. }
  repeat match type of Hc with _ && _ = true => apply andb_prop in Hc; destruct Hc as [Hc ?] end.
  repeat match goal with H : _ && _ = true |- _ => apply andb_prop in H; destruct H end.
  split.
  - exists s, s'. split; [reflexivity|]. split; [assumption|]. split; [|split; [assumption|split]].
    + exists 1. split; [right; reflexivity|]. split.
      * intros Heq. rewrite Heq in *. discriminate.
      * destruct (ct s' 1); try discriminate; reflexivity.
    + left. now apply wpc_eqb_eq.
    + destruct (w_tok (wk s' 0)); [discriminate | reflexivity].
  - exists t. split; [reflexivity|]. split; [now apply quiescent_b_spec|].
    split; [destruct (ct t 0); try discriminate; reflexivity|].
    split; [destruct (ct t 1); try discriminate; reflexivity|].
    destruct (paused t); [discriminate | reflexivity].
Qed.

(* the repaired code cannot take that schedule: the Pause waits for the mutex *)
Example fixed_blocks_pause_during_resume :
  match run fixed (init 2 2) w_pause_nomutex with
  | Some s => match step fixed s (LPauseBegin 1) with Some _ => false | None => true end
  | None => false
  end = true.
Proof. vm_compute. reflexivity. Qed.

(* pause_sticks is not vacuous: the same history on the repaired code, run to quiescence *)
Example nonvacuous_pause_sticks :
  match run fixed (init 2 2) w_pause_nomutex with
  | Some s => let t := quiesce fixed (S (mu s)) s in
              final_ok_b t && paused t && wpc_eqb (w_pc (wk t 0)) WAck && wpc_eqb (w_pc (wk t 1)) WAck
  | None => false
  end = true.
Proof. vm_compute. reflexivity. Qed.

(* =====================  workers that feed each other  ===================== *)
(* Resume collects the acknowledgements CONCURRENTLY - one receiver goroutine per subscriber - so
   no acknowledgement waits for another one.  With workers that feed each other this matters:
   worker 0 passes its items on to worker 1.  Worker 1 has acknowledged the pause; worker 0 is
   still inside an item, blocked in  outputCh <- seed  because worker 1 does not take anything,
   its pause token queued.  A Resume that receives SEQUENTIALLY inside Range and meets worker 0
   first waits for an acknowledgement that can only come after worker 1 has been woken - which the
   same call would do next: circular wait, Resume never returns, every worker stays parked. *)
Definition v_seq_resume : variant := V true true true true false false true.
Definition link01 (w : nat) : option nat := match w with 0 => Some 1 | _ => None end.

Definition w_seq_resume : list label :=
  [LWork 1; LWork 0;                                  (* both inside an item; 0 waits for 1 *)
   LCall 0 KPause; LPauseBegin 0; LPauseVisit 0 0; LPauseSend 0; LPauseVisit 0 1; LPauseSend 0;
   LPauseEnd 0;
   LDone 1; LTakePause 1;                             (* 1 is done, takes the token, acknowledges *)
   LCall 0 KResume; LResumeBegin 0; LResumeVisit 0 0]. (* Range meets worker 0 first *)

Definition stuck_l (v : variant) (n m : nat) (lk : nat -> option nat) (ls : list label) : Prop :=
  exists s, run v (init_l n m lk) ls = Some s /\ quiescent v s /\ ~ final_ok s.

Definition seq_resume_fixed_ok : bool :=
  match run fixed (init_l 2 1 link01) w_seq_resume with
  | Some s => final_ok_b (quiesce fixed 100 s) && negb (paused (quiesce fixed 100 s))
  | None => false
  end.

Lemma sequential_resume_refuted :
  stuck_l v_seq_resume 2 1 link01 w_seq_resume /\
  (* the same schedule is one of the real code too, and there the concurrent receivers finish it *)
  seq_resume_fixed_ok = true.
Proof.
  split.
  - unfold stuck_l.
    destruct (run v_seq_resume (init_l 2 1 link01) w_seq_resume) as [s|] eqn:Hrun;
      [|vm_compute in Hrun; discriminate].
    exists s. split; [reflexivity|].
    assert (Hb : quiescent_b v_seq_resume s && negb (final_ok_b s) = true).
    { revert Hrun. vm_compute. intros Hrun. inversion Hrun; subst. reflexivity. }
    apply andb_prop in Hb. destruct Hb as [Hq Hf]. split; [now apply quiescent_b_spec|].
    apply final_ok_b_false. destruct (final_ok_b s); [discriminate | reflexivity].
  - vm_compute. reflexivity.
Qed.

(* with independent workers the sequential variant survives the same shape of schedule: the
   defect needs the dependency *)
Example sequential_resume_needs_dependency :
  match run v_seq_resume (init 2 1) w_seq_resume with
  | Some s => final_ok_b (quiesce v_seq_resume 100 s)
  | None => false
  end = true.
Proof. vm_compute. reflexivity. Qed.
