(* C15 - proofs about the receiver / dispatcher / sender machine (Queue/Batcher.v). *)
From Coq Require Import List Arith Bool NArith Lia Permutation.
From ZenoV Require Import Queue.Batcher.
Import ListNotations.

Section Proofs.
Context {A : Type}.
Notation st := (st A).
Notation label := (label A).
Notation sender := (sender A).

(* ---------- small list facts ---------- *)

Lemma nth_error_split_sn : forall (l : list sender) i x,
  nth_error l i = Some x -> l = firstn i l ++ x :: skipn (S i) l.
Proof.
  induction l as [|a l IH]; intros [|i] x H; simpl in *; try discriminate.
  - inversion H; reflexivity.
  - f_equal. apply IH; assumption.
Qed.

Lemma length_remove_nth : forall (l : list sender) i x,
  nth_error l i = Some x -> S (length (remove_nth i l)) = length l.
Proof.
  intros l i x H. unfold remove_nth.
  rewrite (nth_error_split_sn l i x H) at 3.
  rewrite !app_length. simpl. lia.
Qed.

Lemma length_set_nth : forall (l : list sender) i x y,
  nth_error l i = Some x -> length (set_nth i y l) = length l.
Proof.
  intros l i x y H. unfold set_nth.
  rewrite (nth_error_split_sn l i x H) at 3.
  rewrite !app_length. simpl. lia.
Qed.

Lemma map_batch_set_nth : forall (l : list sender) i x bo,
  nth_error l i = Some x ->
  map s_batch (set_nth i (Snd (s_batch x) bo) l) = map s_batch l.
Proof.
  intros l i x bo H. unfold set_nth.
  rewrite (nth_error_split_sn l i x H) at 3.
  rewrite !map_app. simpl. reflexivity.
Qed.

Lemma map_batch_remove_nth : forall (l : list sender) i x,
  nth_error l i = Some x ->
  map s_batch l = map s_batch (firstn i l) ++ s_batch x :: map s_batch (skipn (S i) l)
  /\ map s_batch (remove_nth i l) = map s_batch (firstn i l) ++ map s_batch (skipn (S i) l).
Proof.
  intros l i x H. split.
  - rewrite (nth_error_split_sn l i x H) at 1. rewrite map_app. reflexivity.
  - unfold remove_nth. rewrite map_app. reflexivity.
Qed.

Lemma perm_ack {B} : forall (a d s1 s2 r : list B) b,
  Permutation (a ++ d ++ (s1 ++ b :: s2) ++ r) ((a ++ [b]) ++ d ++ (s1 ++ s2) ++ r).
Proof.
  intros. rewrite <- !app_assoc. simpl.
  apply Permutation_app_head.
  rewrite (app_assoc d s1 (b :: s2 ++ r)), (app_assoc d s1 (s2 ++ r)).
  symmetry. apply Permutation_middle.
Qed.

Lemma perm_drop {B} : forall (a d s r : list B) b,
  Permutation (a ++ d ++ s ++ b :: r) (a ++ (d ++ [b]) ++ s ++ r).
Proof.
  intros. apply Permutation_app_head. rewrite <- !app_assoc. simpl.
  apply Permutation_app_head. symmetry. apply Permutation_middle.
Qed.

Lemma perm_ack_head {B} : forall (a d s r : list B) b,
  Permutation (a ++ d ++ s ++ b :: r) ((a ++ [b]) ++ d ++ s ++ r).
Proof.
  intros. rewrite <- !app_assoc. simpl. apply Permutation_app_head.
  rewrite (app_assoc d s (b :: r)), (app_assoc d s r).
  symmetry. apply Permutation_middle.
Qed.

Lemma filter_snoc {B} (f : B -> bool) l x :
  filter f (l ++ [x]) = if f x then filter f l ++ [x] else filter f l.
Proof. rewrite filter_app. simpl. destruct (f x); [reflexivity | apply app_nil_r]. Qed.

Lemma run_app : forall (c : cfg) ls1 ls2 (s : st),
  run c s (ls1 ++ ls2) = match run c s ls1 with Some s' => run c s' ls2 | None => None end.
Proof.
  intros c ls1; induction ls1 as [|l ls1 IH]; intros ls2 s; simpl; [reflexivity|].
  destruct (step c s l); [apply IH | reflexivity].
Qed.

Lemma items_of_app : forall (l1 l2 : list label), items_of (l1 ++ l2) = items_of l1 ++ items_of l2.
Proof.
  induction l1 as [|l l1 IH]; intros l2; simpl; [reflexivity|].
  destruct l; simpl; rewrite ?IH; reflexivity.
Qed.

(* ---------- the attempt log ---------- *)

Lemma ackl_snoc : forall (al : list (list A * res)) b o,
  map fst (filter (fun e => is_ok (snd e)) (al ++ [(b, o)]))
  = if is_ok o then map fst (filter (fun e => is_ok (snd e)) al) ++ [b]
    else map fst (filter (fun e => is_ok (snd e)) al).
Proof.
  intros. rewrite filter_snoc. simpl. destruct (is_ok o); [rewrite map_app|]; reflexivity.
Qed.

Lemma accl_snoc : forall (al : list (list A * res)) b o,
  map fst (filter (fun e => negb (is_fail (snd e))) (al ++ [(b, o)]))
  = if is_fail o then map fst (filter (fun e => negb (is_fail (snd e))) al)
    else map fst (filter (fun e => negb (is_fail (snd e))) al) ++ [b].
Proof.
  intros. rewrite filter_snoc. simpl. destruct (is_fail o); simpl; [|rewrite map_app]; reflexivity.
Qed.

Lemma drpl_snoc : forall (al : list (list A * res)) b o,
  map fst (filter (fun e => is_fail (snd e)) (al ++ [(b, o)]))
  = if is_fail o then map fst (filter (fun e => is_fail (snd e)) al) ++ [b]
    else map fst (filter (fun e => is_fail (snd e)) al).
Proof.
  intros. rewrite filter_snoc. simpl. destruct (is_fail o); [rewrite map_app|]; reflexivity.
Qed.

(* ---------- the invariant ---------- *)

Definition bmax (c : cfg) : nat := Nat.max (bsize c) 1.

Definition recv_ok (c : cfg) (s : st) : Prop :=
  match rstate s with
  | Filling => length (pending s) < bmax c
  | Sending => pending s <> [] /\ length (pending s) <= bmax c
  end.

Definition batch_ok (c : cfg) (b : list A) : Prop := b <> [] /\ length b <= bmax c.

Definition backoff_ok (c : cfg) (sd : sender) : Prop :=
  (s_backoff sd <= N.max 1 (maxbo c))%N.

Record Inv (c : cfg) (ls : list label) (s : st) : Prop := {
  inv_stream : concat (made s) ++ pending s = items_of ls;
  inv_perm : Permutation (made s) (acked s ++ dropped c s ++ inflight s);
  inv_recv : recv_ok c s;
  inv_made : Forall (batch_ok c) (made s);
  inv_chan : length (chan s) <= cap c;
  inv_snds : length (snds s) <= nsend c;
  inv_sync : sync c = true -> disp s = None /\ snds s = [];
  inv_backoff : Forall (backoff_ok c) (snds s);
  inv_log : Forall (fun e => In (fst e) (made s)) (attlog s);
  inv_lost : forallb (fun l => negb (is_lost_label l)) ls = true -> accepted s = acked s;
  inv_nofail : forallb (fun l => negb (is_syncfail_label l)) ls = true -> dropped c s = []
}.

Lemma inv_init : forall c, Inv c [] (init : st).
Proof.
  intros c.
  assert (Hd : dropped c (init : st) = []) by (unfold dropped; destruct (sync c); reflexivity).
  constructor; simpl.
  - reflexivity.
  - rewrite Hd. simpl. constructor.
  - unfold recv_ok, bmax; simpl; lia.
  - constructor.
  - lia.
  - lia.
  - intros _; split; reflexivity.
  - constructor.
  - constructor.
  - intros _; reflexivity.
  - intros _; exact Hd.
Qed.

Lemma forallb_snoc {B} (f : B -> bool) l x : forallb f (l ++ [x]) = forallb f l && f x.
Proof. rewrite forallb_app. simpl. rewrite andb_true_r. reflexivity. Qed.

Lemma in_inflight_made : forall c ls (s : st) b, Inv c ls s -> In b (inflight s) -> In b (made s).
Proof.
  intros c ls s b HI Hin. eapply Permutation_in; [symmetry; apply (inv_perm _ _ _ HI)|].
  apply in_or_app; right. apply in_or_app; right. exact Hin.
Qed.

Lemma backoff_next_ok : forall c sd b, backoff_ok c sd ->
  backoff_ok c (Snd b (next_backoff c (s_backoff sd))).
Proof.
  unfold backoff_ok, next_backoff. intros c sd b H2. cbn [s_backoff].
  destruct (N.min_spec (2 * s_backoff sd) (maxbo c)) as [[Hlt ->]|[Hle ->]];
    destruct (N.max_spec 1 (maxbo c)) as [[Hx Hm]|[Hx Hm]]; rewrite Hm in *; lia.
Qed.

Lemma Forall_set_nth : forall (P : sender -> Prop) (l : list sender) i x y,
  nth_error l i = Some x -> Forall P l -> P y -> Forall P (set_nth i y l).
Proof.
  intros P l i x y Hn HF Hy. unfold set_nth.
  rewrite (nth_error_split_sn l i x Hn) in HF.
  apply Forall_app in HF as [H1 H2]. inversion H2; subst.
  apply Forall_app; split; [assumption | constructor; assumption].
Qed.

Lemma Forall_remove_nth : forall (P : sender -> Prop) (l : list sender) i x,
  nth_error l i = Some x -> Forall P l -> Forall P (remove_nth i l).
Proof.
  intros P l i x Hn HF. unfold remove_nth.
  rewrite (nth_error_split_sn l i x Hn) in HF.
  apply Forall_app in HF as [H1 H2]. inversion H2; subst.
  apply Forall_app; split; assumption.
Qed.

Lemma Forall_In_mono {B} (l : list B) (m m' : list (list A)) (f : B -> list A) :
  incl m m' -> Forall (fun e => In (f e) m) l -> Forall (fun e => In (f e) m') l.
Proof. intros Hi HF. eapply Forall_impl; [|exact HF]. intros e He. apply Hi; exact He. Qed.

Ltac unf := unfold acked, accepted, dropped, inflight, recv_ok in *; simpl in *.
Ltac tail_hyps :=
  try solve [rewrite forallb_snoc; let H := fresh in intros H; apply andb_prop in H as [H _]; auto].

Lemma inv_step : forall c ls (s s' : st) l,
  Inv c ls s -> step c s l = Some s' -> Inv c (ls ++ [l]) s'.
Proof.
  intros c ls s s' l HI Hs.
  assert (HI0 := HI).
  destruct HI as [Hstream Hperm Hrecv Hmade Hchan Hsnds Hsync Hbo Hlog Hlost Hnofail].
  destruct s as [p r ch d sn al m stp].
  unfold step in Hs. destruct stp; [discriminate|].
  unf.
  destruct l as [x| | | | |i o|o|].
  - (* Recv *)
    destruct r; [|discriminate]. inversion Hs; subst s'; clear Hs.
    constructor; unf; auto; tail_hyps.
    + rewrite items_of_app. simpl. rewrite <- Hstream. rewrite app_assoc. reflexivity.
    + rewrite app_length; simpl.
      destruct (bsize c <=? length p + 1) eqn:E.
      * apply Nat.leb_le in E. split; [destruct p; discriminate | unfold bmax in *; lia].
      * apply Nat.leb_gt in E. unfold bmax in *; lia.
  - (* Tick *)
    destruct r; [|discriminate]. inversion Hs; subst s'; clear Hs.
    constructor; unf; auto; tail_hyps.
    + rewrite items_of_app. simpl. rewrite app_nil_r. exact Hstream.
    + destruct p; simpl in *; [exact Hrecv|]. split; [discriminate | lia].
  - (* Push *)
    destruct r; [discriminate|].
    destruct (length ch <? cap c) eqn:E; [|discriminate]. apply Nat.ltb_lt in E.
    inversion Hs; subst s'; clear Hs.
    constructor; unf; auto; tail_hyps.
    + rewrite items_of_app. simpl. rewrite !app_nil_r. rewrite concat_app. simpl.
      rewrite app_nil_r. exact Hstream.
    + rewrite !app_assoc. apply Permutation_app_tail. rewrite <- !app_assoc. exact Hperm.
    + unfold bmax; lia.
    + apply Forall_app; split; [assumption|]. constructor; [|constructor].
      destruct Hrecv as [Hne Hlen]. split; assumption.
    + rewrite app_length; simpl; lia.
    + eapply Forall_In_mono; [|exact Hlog]. intros b Hb. apply in_or_app; left; exact Hb.
  - (* Dispatch *)
    destruct (sync c) eqn:Esync; [discriminate|].
    destruct d; [discriminate|]. destruct ch as [|b ch']; [discriminate|].
    inversion Hs; subst s'; clear Hs.
    constructor; unf; rewrite ?Esync; simpl; auto; tail_hyps.
    + rewrite items_of_app. simpl. rewrite app_nil_r. exact Hstream.
    + lia.
    + intros; discriminate.
  - (* Spawn *)
    destruct (sync c) eqn:Esync; [discriminate|].
    destruct d as [b|]; [|discriminate].
    destruct (length sn <? nsend c) eqn:E; [|discriminate]. apply Nat.ltb_lt in E.
    inversion Hs; subst s'; clear Hs.
    constructor; unf; rewrite ?Esync; simpl; auto; tail_hyps.
    + rewrite items_of_app. simpl. rewrite app_nil_r. exact Hstream.
    + rewrite map_app. simpl. rewrite <- app_assoc. exact Hperm.
    + rewrite app_length; simpl; lia.
    + intros; discriminate.
    + apply Forall_app; split; [assumption|]. constructor; [|constructor].
      unfold backoff_ok; simpl; lia.
  - (* Attempt *)
    destruct (sync c) eqn:Esync; [discriminate|].
    destruct (nth_error sn i) as [sd|] eqn:En; [|discriminate].
    assert (Hin : In (s_batch sd) m).
    { apply (in_inflight_made c ls _ _ HI0).
      unfold inflight; simpl. apply in_or_app; left. apply in_map. eapply nth_error_In; exact En. }
    destruct o.
    + (* Ok *)
      inversion Hs; subst s'; clear Hs.
      destruct (map_batch_remove_nth sn i sd En) as [E1 E2].
      constructor; unf; rewrite ?Esync; simpl; auto; tail_hyps.
      * rewrite items_of_app. simpl. rewrite app_nil_r. exact Hstream.
      * rewrite ackl_snoc. simpl. rewrite E2. rewrite E1 in Hperm.
        etransitivity; [exact Hperm|].
        apply (perm_ack _ [] _ _ (olist d ++ ch) (s_batch sd)).
      * pose proof (length_remove_nth sn i sd En). lia.
      * intros; discriminate.
      * eapply Forall_remove_nth; eassumption.
      * apply Forall_app; split; [assumption|]. constructor; [exact Hin|constructor].
      * rewrite forallb_snoc. intros H; apply andb_prop in H as [H _].
        rewrite ackl_snoc, accl_snoc. simpl. f_equal. auto.
    + (* Fail *)
      inversion Hs; subst s'; clear Hs.
      constructor; unf; rewrite ?Esync; simpl; auto; tail_hyps.
      * rewrite items_of_app. simpl. rewrite app_nil_r. exact Hstream.
      * rewrite ackl_snoc. simpl. rewrite (map_batch_set_nth sn i sd _ En). exact Hperm.
      * rewrite (length_set_nth sn i sd _ En). exact Hsnds.
      * intros; discriminate.
      * eapply Forall_set_nth; [eassumption|assumption|].
        apply backoff_next_ok. eapply Forall_forall; [exact Hbo|]. eapply nth_error_In; exact En.
      * apply Forall_app; split; [assumption|]. constructor; [exact Hin|constructor].
      * rewrite forallb_snoc. intros H; apply andb_prop in H as [H _].
        rewrite ackl_snoc, accl_snoc. simpl. auto.
    + (* Lost *)
      inversion Hs; subst s'; clear Hs.
      constructor; unf; rewrite ?Esync; simpl; auto; tail_hyps.
      * rewrite items_of_app. simpl. rewrite app_nil_r. exact Hstream.
      * rewrite ackl_snoc. simpl. rewrite (map_batch_set_nth sn i sd _ En). exact Hperm.
      * rewrite (length_set_nth sn i sd _ En). exact Hsnds.
      * intros; discriminate.
      * eapply Forall_set_nth; [eassumption|assumption|].
        apply backoff_next_ok. eapply Forall_forall; [exact Hbo|]. eapply nth_error_In; exact En.
      * apply Forall_app; split; [assumption|]. constructor; [exact Hin|constructor].
      * rewrite forallb_snoc. simpl. rewrite andb_false_r. discriminate.
  - (* SyncSend *)
    destruct (sync c) eqn:Esync; [|discriminate].
    destruct ch as [|b ch'].
    { destruct o; discriminate. }
    assert (Hin : In b m).
    { apply (in_inflight_made c ls _ _ HI0).
      unfold inflight; simpl. apply in_or_app; right. apply in_or_app; right. left; reflexivity. }
    destruct o; [| |discriminate].
    + (* Ok *)
      inversion Hs; subst s'; clear Hs.
      constructor; unf; rewrite ?Esync; simpl; auto; tail_hyps.
      * rewrite items_of_app. simpl. rewrite app_nil_r. exact Hstream.
      * rewrite ackl_snoc, drpl_snoc. simpl.
        etransitivity; [exact Hperm|].
        rewrite (app_assoc (map s_batch sn) (olist d) (b :: ch')).
        rewrite (app_assoc (map s_batch sn) (olist d) ch').
        apply perm_ack_head.
      * lia.
      * apply Forall_app; split; [assumption|]. constructor; [exact Hin|constructor].
      * rewrite forallb_snoc. intros H; apply andb_prop in H as [H _].
        rewrite ackl_snoc, accl_snoc. simpl. f_equal. auto.
      * rewrite forallb_snoc. intros H; apply andb_prop in H as [H _].
        rewrite drpl_snoc. simpl. auto.
    + (* Fail: the batch is given up *)
      inversion Hs; subst s'; clear Hs.
      constructor; unf; rewrite ?Esync; simpl; auto; tail_hyps.
      * rewrite items_of_app. simpl. rewrite app_nil_r. exact Hstream.
      * rewrite ackl_snoc, drpl_snoc. simpl.
        etransitivity; [exact Hperm|].
        rewrite (app_assoc (map s_batch sn) (olist d) (b :: ch')).
        rewrite (app_assoc (map s_batch sn) (olist d) ch').
        apply perm_drop.
      * lia.
      * apply Forall_app; split; [assumption|]. constructor; [exact Hin|constructor].
      * rewrite forallb_snoc. intros H; apply andb_prop in H as [H _].
        rewrite ackl_snoc, accl_snoc. simpl. auto.
      * rewrite forallb_snoc. simpl. rewrite andb_false_r. discriminate.
  - (* Stop *)
    inversion Hs; subst s'; clear Hs.
    constructor; unf; auto; tail_hyps.
    rewrite items_of_app. simpl. rewrite app_nil_r. exact Hstream.
Qed.

Lemma inv_run : forall c ls (s : st), run c init ls = Some s -> Inv c ls s.
Proof.
  intros c ls. induction ls as [|l ls IH] using rev_ind; intros s H.
  - simpl in H. inversion H; subst. apply inv_init.
  - rewrite run_app in H. destruct (run c init ls) as [s0|] eqn:E; [|discriminate].
    simpl in H. destruct (step c s0 l) as [s1|] eqn:E1; [|discriminate].
    inversion H; subst. eapply inv_step; [apply IH; reflexivity | exact E1].
Qed.

(* ---------- no drop ---------- *)

Lemma Permutation_concat {B} : forall (l l' : list (list B)),
  Permutation l l' -> Permutation (concat l) (concat l').
Proof.
  intros l l' H; induction H; simpl.
  - constructor.
  - apply Permutation_app_head; assumption.
  - rewrite !app_assoc. apply Permutation_app_tail. apply Permutation_app_comm.
  - etransitivity; eassumption.
Qed.

(* For EVERY label sequence - any interleaving of items arriving, timer ticks, internal moves,
   and any finite sequence of failed or lost requests - what was received is, in order, the
   concatenation of the closed batches plus the open batch; and the closed batches are, as a
   multiset, exactly the acknowledged ones, the given-up ones (lq producer on a database error
   only) and the ones still on their way.  Nothing is dropped, nothing is invented. *)
Theorem no_drop_lemma : forall (c : cfg) (ls : list label) (s : st),
  run c init ls = Some s ->
  concat (made s) ++ pending s = items_of ls
  /\ Permutation (made s) (acked s ++ dropped c s ++ inflight s)
  /\ Permutation (items_of ls)
       (concat (acked s) ++ concat (dropped c s) ++ concat (inflight s) ++ pending s)
  /\ (sync c = false -> dropped c s = [])
  /\ (forallb (fun l => negb (is_syncfail_label l)) ls = true -> dropped c s = [])
  /\ (forallb (fun l => negb (is_lost_label l)) ls = true -> accepted s = acked s)
  /\ Forall (fun e => In (fst e) (made s)) (attlog s).
Proof.
  intros c ls s H. pose proof (inv_run c ls s H) as HI.
  destruct HI as [Hstream Hperm Hrecv Hmade Hchan Hsnds Hsync Hbo Hlog Hlost Hnofail].
  repeat split; auto.
  - rewrite <- Hstream.
    rewrite !app_assoc. apply Permutation_app_tail. rewrite <- !app_assoc.
    rewrite <- !concat_app. apply Permutation_concat. exact Hperm.
  - intros E. unfold dropped. rewrite E. reflexivity.
Qed.

(* sizes: every closed batch is non-empty and at most max(bsize,1) long; channel and sender
   pool never exceed their capacity; retry sleeps never exceed max(1,maxbo) seconds *)
Theorem bounds_lemma : forall (c : cfg) (ls : list label) (s : st),
  run c init ls = Some s ->
  Forall (fun b => b <> [] /\ length b <= Nat.max (bsize c) 1) (made s)
  /\ length (chan s) <= cap c
  /\ length (snds s) <= nsend c
  /\ Forall (fun sd => (s_backoff sd <= N.max 1 (maxbo c))%N) (snds s).
Proof.
  intros c ls s H. pose proof (inv_run c ls s H) as HI.
  destruct HI. repeat split; auto.
Qed.

(* ---------- progress ---------- *)

Lemma productive_decreases : forall c (s s' : st) l,
  productive s l = true -> step c s l = Some s' -> S (mu c s') = mu c s.
Proof.
  intros c s s' l Hp Hs. destruct s as [p r ch d sn al m stp].
  unfold step in Hs. destruct stp; [discriminate|].
  destruct l as [x| | | | |i o|o|]; simpl in Hp; try discriminate.
  - (* Tick *)
    destruct r; [|discriminate]. destruct p; [discriminate|].
    inversion Hs; subst. unfold mu; simpl. lia.
  - (* Push *)
    destruct r; [discriminate|].
    destruct (length ch <? cap c); [|discriminate]. inversion Hs; subst.
    unfold mu; simpl. rewrite app_length; simpl. lia.
  - (* Dispatch *)
    destruct (sync c) eqn:E; [discriminate|].
    destruct d; [discriminate|]. destruct ch; [discriminate|]. inversion Hs; subst.
    unfold mu, wch; simpl. rewrite ?E. destruct r; destruct p; simpl; lia.
  - (* Spawn *)
    destruct (sync c) eqn:E; [discriminate|].
    destruct d; [|discriminate]. destruct (length sn <? nsend c); [|discriminate].
    inversion Hs; subst. unfold mu; simpl. rewrite app_length; simpl. lia.
  - (* Attempt Ok *)
    destruct o; try discriminate.
    destruct (sync c) eqn:E; [discriminate|].
    destruct (nth_error sn i) as [sd|] eqn:En; [|discriminate]. inversion Hs; subst.
    unfold mu; simpl. pose proof (length_remove_nth sn i sd En). lia.
  - (* SyncSend Ok *)
    destruct o; try discriminate.
    destruct (sync c) eqn:E; [|discriminate].
    destruct ch; [discriminate|]. inversion Hs; subst.
    unfold mu, wch; simpl. rewrite ?E. destruct r; destruct p; simpl; lia.
Qed.

Lemma prun_length : forall c ls (s s' : st),
  prun c s ls = Some s' -> length ls + mu c s' = mu c s.
Proof.
  intros c ls; induction ls as [|l ls IH]; intros s s' H; simpl in *.
  - inversion H; reflexivity.
  - destruct (productive s l) eqn:Ep; [|discriminate].
    destruct (step c s l) as [s1|] eqn:Es; [|discriminate].
    pose proof (productive_decreases c s s1 l Ep Es). specialize (IH s1 s' H). lia.
Qed.

Lemma progress_enabled : forall c (s : st),
  cfg_ok c = true -> stopped s = false ->
  (sync c = true -> disp s = None /\ snds s = []) ->
  mu c s > 0 -> exists l, productive s l = true /\ step c s l <> None.
Proof.
  intros c s Hc Hst Hsy Hmu. destruct s as [p r ch d sn al m stp]. simpl in *. subst stp.
  unfold cfg_ok in Hc. apply andb_prop in Hc as [Hcap Hns]. apply Nat.leb_le in Hcap.
  destruct (sync c) eqn:Esync.
  - destruct (Hsy eq_refl) as [-> ->].
    destruct ch as [|b ch'].
    + destruct r.
      * destruct p as [|x p]; [unfold mu in Hmu; simpl in Hmu; lia|].
        exists Tick. split; [reflexivity|]. unfold step; simpl. discriminate.
      * exists Push. split; [reflexivity|]. unfold step; simpl.
        destruct (0 <? cap c) eqn:E; [discriminate|]. apply Nat.ltb_ge in E; lia.
    + exists (SyncSend Ok). split; [reflexivity|]. unfold step; simpl. rewrite ?Esync. discriminate.
  - rewrite orb_false_r in Hns. apply Nat.leb_le in Hns.
    destruct sn as [|sd sn'].
    + destruct d as [b|].
      * exists Spawn. split; [reflexivity|]. unfold step; simpl. rewrite ?Esync.
        destruct (0 <? nsend c) eqn:E; [discriminate|]. apply Nat.ltb_ge in E; lia.
      * destruct ch as [|b ch'].
        -- destruct r.
           ++ destruct p as [|x p]; [unfold mu in Hmu; simpl in Hmu; lia|].
              exists Tick. split; [reflexivity|]. unfold step; simpl. discriminate.
           ++ exists Push. split; [reflexivity|]. unfold step; simpl.
              destruct (0 <? cap c) eqn:E; [discriminate|]. apply Nat.ltb_ge in E; lia.
        -- exists Dispatch. split; [reflexivity|]. unfold step; simpl. rewrite ?Esync. discriminate.
    + exists (Attempt 0 Ok). split; [reflexivity|]. unfold step; simpl. rewrite ?Esync. discriminate.
Qed.

Lemma mu_zero_quiet : forall c (s : st), mu c s = 0 -> quiet s = true.
Proof.
  intros c s H. destruct s as [p r ch d sn al m stp]. unfold mu, wch in H; simpl in H.
  unfold quiet; simpl.
  destruct p; destruct r; destruct ch; destruct d; destruct sn; simpl in *;
    try reflexivity; destruct (sync c); simpl in *; lia.
Qed.

Lemma mu_reach_bound : forall c ls (s : st), run c init ls = Some s -> mu c s <= mu_bound c.
Proof.
  intros c ls s H. pose proof (inv_run c ls s H) as HI. destruct HI.
  unfold mu, mu_bound.
  assert (wch c * length (chan s) <= wch c * cap c) by (apply Nat.mul_le_mono_l; assumption).
  destruct (rstate s); destruct (pending s); destruct (disp s); lia.
Qed.

(* Faults delay, they never drop: in every reachable state of a running machine exactly [mu]
   further productive moves (timer tick, hand-overs, one successful request per batch) get
   everything that was received acknowledged; such a move is always enabled while something is
   outstanding; a failed or lost request does not change [mu]; [mu] never exceeds [mu_bound]. *)
Theorem eventually_delivered_lemma : forall (c : cfg) (ls : list label) (s : st),
  cfg_ok c = true -> run c init ls = Some s -> stopped s = false ->
  mu c s <= mu_bound c
  /\ (mu c s > 0 -> exists l, productive s l = true /\ step c s l <> None)
  /\ (forall ls' s', prun c s ls' = Some s' -> length ls' + mu c s' = mu c s)
  /\ (forall i o s', is_ok o = false -> step c s (Attempt i o) = Some s' -> mu c s' = mu c s)
  /\ (mu c s = 0 ->
        quiet s = true /\ Permutation (items_of ls) (concat (acked s) ++ concat (dropped c s))).
Proof.
  intros c ls s Hc Hr Hst. pose proof (inv_run c ls s Hr) as HI.
  split; [eapply mu_reach_bound; eassumption|].
  split; [intros Hmu; apply progress_enabled; auto; apply (inv_sync _ _ _ HI)|].
  split; [intros ls' s' Hp; eapply prun_length; eassumption|].
  split.
  - intros i o s' Ho Hs. destruct s as [p r ch d sn al m stp]. unfold step in Hs.
    destruct stp; [discriminate|]. destruct (sync c); [discriminate|].
    destruct (nth_error sn i) as [sd|] eqn:En; [|discriminate].
    destruct o; try discriminate; inversion Hs; subst; unfold mu; simpl;
      rewrite (length_set_nth sn i sd _ En); reflexivity.
  - intros Hmu. pose proof (mu_zero_quiet c s Hmu) as Hq. split; [exact Hq|].
    destruct (no_drop_lemma c ls s Hr) as (_ & _ & Hp & _).
    destruct s as [p r ch d sn al m stp]. unfold quiet in Hq; simpl in Hq.
    destruct p; [|discriminate]. destruct r; [|discriminate]. destruct ch; [|discriminate].
    destruct d; [discriminate|]. destruct sn; [|discriminate].
    unfold inflight in Hp; simpl in Hp. rewrite !app_nil_r in Hp. exact Hp.
Qed.

(* after Stop nothing moves: what is still on its way then is not delivered by this machine
   (the property speaks about the running crawler; shutdown is C03/C04) *)
Lemma stopped_stuck : forall c (s : st) l, stopped s = true -> step c s l = None.
Proof. intros c s l H. destruct s; simpl in *; subst. reflexivity. Qed.

End Proofs.

(* ---------- non-vacuity ---------- *)

(* 3 items, batch size 2, one sender: a full batch fails once, is lost once, succeeds; the rest
   leaves on a timer tick *)
Definition ex_cfg : cfg := Cfg 2 1 1 false 5.
Definition ex_labels : list (label nat) :=
  [Recv 7; Recv 8; Push; Dispatch; Spawn; Attempt 0 Fail; Recv 9; Attempt 0 Lost; Tick; Push;
   Attempt 0 Ok; Dispatch; Spawn; Attempt 0 Ok].

Example ex_run_delivers :
  match run ex_cfg init ex_labels with
  | Some s => acked s = [[7; 8]; [9]] /\ accepted s = [[7; 8]; [7; 8]; [9]] /\ quiet s = true
              /\ mu ex_cfg s = 0
  | None => False
  end.
Proof. vm_compute. repeat split. Qed.

Example ex_mid_state :
  match run ex_cfg init (firstn 7 ex_labels) with
  | Some s => mu ex_cfg s = 6 /\ stopped s = false /\ cfg_ok ex_cfg = true
              /\ prun ex_cfg s [Tick; Push; Attempt 0 Ok; Dispatch; Spawn; Attempt 0 Ok] <> None
  | None => False
  end.
Proof. vm_compute. repeat split; try discriminate. Qed.

(* lq producer: a database error gives the batch up *)
Example ex_sync_drop :
  match run (Cfg 1 2 0 true 1) init [Recv 1; Push; SyncSend Fail; Recv 2; Push; SyncSend Ok] with
  | Some s => acked s = [[2]] /\ dropped (Cfg 1 2 0 true 1) s = [[1]]
  | None => False
  end.
Proof. vm_compute. repeat split. Qed.

(* Stop with a batch on its way: it stays undelivered *)
Example ex_stop_strands :
  match run ex_cfg init [Recv 7; Recv 8; Push; Stop] with
  | Some s => acked s = [] /\ inflight s = [[7; 8]] /\ forall l, step ex_cfg s l = None
  | None => False
  end.
Proof. vm_compute. repeat split. Qed.
