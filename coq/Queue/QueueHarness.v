(* C15 - what the generated case files evaluate: model-vs-implementation differences ([*diffs])
   and the property's monitors on the implementation's own observations ([*mons]).

   Monitors never call [step]/[add]/...: they are the theorems' conclusions (multiset of delivered
   = multiset produced, acknowledged ids = finished ids, no value twice, fields kept) evaluated on
   what the implementation was seen to do. *)
From Coq Require Import List Bool Arith ZArith NArith Ascii.
From ZenoV Require Import Lib.Harness Lib.Hex Queue.HopsPath Queue.Json Queue.Batcher Queue.LqDb Queue.Fields.
Import ListNotations.

(* ------------------------------------------------------------------ generic helpers *)

Section Gen.
Context {A : Type} (eqA : A -> A -> bool).

Fixpoint list_eqb (a c : list A) : bool :=
  match a, c with
  | [], [] => true
  | x :: a', y :: c' => eqA x y && list_eqb a' c'
  | _, _ => false
  end.

Fixpoint is_prefix (a c : list A) : bool :=
  match a, c with
  | [], _ => true
  | x :: a', y :: c' => eqA x y && is_prefix a' c'
  | _ :: _, [] => false
  end.

Definition count (x : A) (l : list A) : nat := List.length (filter (eqA x) l).
Definition mem (x : A) (l : list A) : bool := existsb (eqA x) l.

(* equal as multisets *)
Definition ms_eqb (a c : list A) : bool :=
  Nat.eqb (List.length a) (List.length c) && forallb (fun x => Nat.eqb (count x a) (count x c)) a.

Fixpoint nodupb (l : list A) : bool :=
  match l with [] => true | x :: r => negb (mem x r) && nodupb r end.

(* ---- replaying an observed history of one receiver/dispatcher/sender machine ---- *)

Inductive oev := ORecv (x : A) | OAtt (b : list A) (r : res).

Definition sl := (st A * list (label A))%type.   (* state, labels used so far (reversed) *)

Definition try_step (c : cfg) (sa : sl) (l : label A) : option sl :=
  match step c (fst sa) l with Some s' => Some (s', l :: snd sa) | None => None end.

(* internal hand-overs are taken as early as possible *)
Fixpoint saturate (fuel : nat) (c : cfg) (sa : sl) : sl :=
  match fuel with
  | O => sa
  | S f =>
      match try_step c sa Push with
      | Some sa' => saturate f c sa'
      | None =>
          match try_step c sa Dispatch with
          | Some sa' => saturate f c sa'
          | None => match try_step c sa Spawn with Some sa' => saturate f c sa' | None => sa end
          end
      end
  end.
Definition sat (c : cfg) (sa : sl) : sl := saturate (S (mu c (fst sa))) c sa.

Fixpoint find_sender (b : list A) (i : nat) (sn : list (sender A)) : option nat :=
  match sn with
  | [] => None
  | sd :: r => if list_eqb (s_batch sd) b then Some i else find_sender b (S i) r
  end.

(* the label by which a request carrying batch [b] can happen now *)
Definition att_label (c : cfg) (s : st A) (b : list A) (o : res) : option (label A) :=
  if sync c then
    match chan s with
    | b' :: _ => if list_eqb b' b then Some (SyncSend o) else None
    | [] => None
    end
  else match find_sender b 0 (snds s) with Some i => Some (Attempt i o) | None => None end.

(* make the machine hold batch [b]: receive further items while the open batch is a proper prefix
   of [b]; close it by a timer tick when it equals [b]; when it cannot become [b] (an earlier
   batch whose request was seen later, possible with several senders) keep receiving until it
   equals one of the batches seen anywhere in the history [fut], then close it *)
Fixpoint build (fuel : nat) (c : cfg) (fut : list (list A)) (sa : sl) (defer : list A) (b : list A)
  : option (sl * list A) :=
  match fuel with
  | O => None
  | S f =>
      match att_label c (fst sa) b Ok with
      | Some _ => Some (sa, defer)
      | None =>
          let p := pending (fst sa) in
          let recv_next :=
            match defer with
            | [] => None
            | x :: d => match try_step c sa (Recv x) with
                        | Some sa' => build f c fut (sat c sa') d b
                        | None => None
                        end
            end in
          let tick :=
            match try_step c sa Tick with
            | Some sa' => build f c fut (sat c sa') defer b
            | None => None
            end in
          if list_eqb p b then tick
          else if is_prefix p b then recv_next
          else if existsb (list_eqb p) fut then tick
          else recv_next
      end
  end.

Fixpoint infer_go (c : cfg) (fut : list (list A)) (sa : sl) (defer : list A) (evs : list oev)
  : option (sl * list A) :=
  match evs with
  | [] => Some (sa, defer)
  | ORecv x :: r => infer_go c fut sa (defer ++ [x]) r
  | OAtt b o :: r =>
      match build (2 * List.length defer + 4) c fut sa defer b with
      | None => None
      | Some (sa', defer') =>
          match att_label c (fst sa') b o with
          | None => None
          | Some l => match try_step c sa' l with
                      | Some sa'' => infer_go c fut (sat c sa'') defer' r
                      | None => None
                      end
          end
      end
  end.

Fixpoint flush (c : cfg) (sa : sl) (defer : list A) : sl * list A :=
  match defer with
  | [] => (sa, [])
  | x :: d => match try_step c sa (Recv x) with
              | Some sa' => flush c (sat c sa') d
              | None => (sa, defer)
              end
  end.

(* a label sequence of the model that shows the observed events, if one is found (untrusted:
   [trace_ok] re-runs it through [run]) *)
Definition att_batches (evs : list oev) : list (list A) :=
  flat_map (fun e => match e with OAtt b _ => [b] | ORecv _ => [] end) evs.

Definition infer (c : cfg) (evs : list oev) : option (list (label A)) :=
  match infer_go c (att_batches evs) (init, []) [] evs with
  | None => None
  | Some (sa, defer) =>
      match flush c sa defer with
      | (sa', []) => Some (rev (snd sa'))
      | (_, _ :: _) => None
      end
  end.

Fixpoint recvs (evs : list oev) : list A :=
  match evs with [] => [] | ORecv x :: r => x :: recvs r | _ :: r => recvs r end.
Fixpoint atts (evs : list oev) : list (list A * res) :=
  match evs with [] => [] | OAtt b o :: r => (b, o) :: atts r | _ :: r => atts r end.

Definition res_eqb (a c : res) : bool :=
  match a, c with Ok, Ok | Fail, Fail | Lost, Lost => true | _, _ => false end.

Fixpoint attlog_eqb (a c : list (list A * res)) : bool :=
  match a, c with
  | [], [] => true
  | (b, o) :: a', (b', o') :: c' => list_eqb b b' && res_eqb o o' && attlog_eqb a' c'
  | _, _ => false
  end.

(* the observed history is a history of the model: same items received in the same order, same
   requests with the same contents and outcomes in the same order; when the run was complete
   nothing is left on its way *)
Definition trace_ok (c : cfg) (evs : list oev) (complete : bool) : bool :=
  match infer c evs with
  | None => false
  | Some ls =>
      match Batcher.run c Batcher.init ls with
      | None => false
      | Some s => list_eqb (items_of ls) (recvs evs) && attlog_eqb (attlog s) (atts evs)
                  && (negb complete || quiet s)
      end
  end.

(* ---- monitors on the observed events alone ---- *)

Definition ok_items (evs : list oev) : list A :=
  flat_map (fun e => if is_ok (snd e) then fst e else []) (atts evs).

(* everything received was delivered exactly once with an acknowledged request, nothing else was *)
Definition mon_delivered (evs : list oev) : bool := ms_eqb (recvs evs) (ok_items evs).

(* whatever reached the queue, acknowledged or not, is a batch that was also acknowledged
   (a retry sends the same batch again; nothing invented) - only meaningful on complete runs *)
Definition mon_retry_same (evs : list oev) (complete : bool) : bool :=
  negb complete ||
  forallb (fun e => existsb (fun e' => is_ok (snd e') && list_eqb (fst e) (fst e')) (atts evs)) (atts evs).

Definition mon_batch_sizes (bmax : nat) (evs : list oev) : bool :=
  forallb (fun e => match fst e with [] => false | _ :: _ => List.length (fst e) <=? bmax end) (atts evs).

End Gen.

Arguments ORecv {A} x.
Arguments OAtt {A} b r.

Definition b3 := (bytes * bytes * bytes)%type.
Definition b3_eqb (a c : b3) : bool :=
  let '(a1, a2, a3) := a in let '(c1, c2, c3) := c in bytes_eqb a1 c1 && bytes_eqb a2 c2 && bytes_eqb a3 c3.
Definition idn := (bytes * N)%type.
Definition idn_eqb (a c : idn) : bool := bytes_eqb (fst a) (fst c) && N.eqb (snd a) (snd c).
Definition tvh := (bytes * bytes * N)%type.   (* text, via, hops *)
Definition tvh_eqb (a c : tvh) : bool :=
  let '(a1, a2, a3) := a in let '(c1, c2, c3) := c in bytes_eqb a1 c1 && bytes_eqb a2 c2 && N.eqb a3 c3.

(* number of 'L' in a path, written out here so that monitors do not depend on the model file *)
Fixpoint nL (p : bytes) : N :=
  match p with [] => 0%N | c :: r => if Ascii.eqb c "L"%char then N.succ (nL r) else nL r end.

(* ------------------------------------------------------------------ hqpath *)

(* hopsToPath(h) = path, pathToHops(path) = back; pathToHops(p) = cnt for an arbitrary string p *)
Record pcase := PC { p_h : N; p_path : bytes; p_back : N; p_p : bytes; p_cnt : N }.

Definition pdiff (c : pcase) : bool :=
  negb (bytes_eqb (hops_to_path (p_h c)) (p_path c) && N.eqb (path_to_hops (p_path c)) (p_back c)
        && N.eqb (path_to_hops (p_p c)) (p_cnt c)).
Definition pmon_roundtrip (c : pcase) : bool := N.eqb (p_back c) (p_h c).
Definition pmon_only_L (c : pcase) : bool :=
  forallb (fun ch => Ascii.eqb ch "L"%char) (p_path c) && N.eqb (N.of_nat (List.length (p_path c))) (p_h c)
  && N.eqb (p_cnt c) (nL (p_p c)).
Definition pdiffs (l : list pcase) := bad_idx pdiff l.
Definition pmons (l : list pcase) := mon_idx [pmon_roundtrip; pmon_only_L] l.

(* ------------------------------------------------------------------ lqdb *)

(* one LQClient call: the operation (for Get with the ids that came back), whether it returned an
   error, the rows it returned (Get), and the whole table read back afterwards *)
Record lstep := LS { ls_op : op; ls_err : bool; ls_rows : list row; ls_table : list row }.
Record lcase := LC { l_steps : list lstep }.

Definition lstep_ok (d : db) (s : lstep) : option db :=
  match ls_op s with
  | OAdd us =>
      let '(d', e) := add d us in
      if Bool.eqb e (ls_err s) && rows_eqb d' (ls_table s) then Some d' else None
  | OGet limit ids =>
      match get d limit ids with
      | Some (d', rows) => if negb (ls_err s) && rows_eqb rows (ls_rows s) && rows_eqb d' (ls_table s) then Some d' else None
      | None => None
      end
  | o => match apply d o with
         | Some d' => if negb (ls_err s) && rows_eqb d' (ls_table s) then Some d' else None
         | None => None
         end
  end.

Fixpoint lsteps_ok (d : db) (l : list lstep) : bool :=
  match l with
  | [] => true
  | s :: r => match lstep_ok d s with Some d' => lsteps_ok d' r | None => false end
  end.

Definition ldiff (c : lcase) : bool := negb (lsteps_ok [] (l_steps c)).

Definition table_nodup (t : list row) : bool :=
  nodupb bytes_eqb (map r_value t) && nodupb bytes_eqb (map r_id t).

Definition fields_eqb (a c : row) : bool :=
  bytes_eqb (r_id a) (r_id c) && bytes_eqb (r_value a) (r_value c) && bytes_eqb (r_via a) (r_via c)
  && Z.eqb (r_hops a) (r_hops c).

(* pairs (table before, step) *)
Fixpoint with_prev (prev : list row) (l : list lstep) : list (list row * lstep) :=
  match l with [] => [] | s :: r => (prev, s) :: with_prev (ls_table s) r end.

(* monitor 0: no value and no id twice in the table, ever *)
Definition lmon_nodup (c : lcase) : bool := forallb (fun s => table_nodup (ls_table s)) (l_steps c).

(* monitor 1: a value already present is not queued again - Add leaves every existing row as it
   was, and adds at most one row per new value, FRESH, with the fields it was given *)
Definition lmon_add (c : lcase) : bool :=
  forallb (fun '(prev, s) =>
    match ls_op s with
    | OAdd us =>
        is_prefix row_eqb prev (ls_table s)
        && forallb (fun r => mem row_eqb r prev
                             || (status_eqb (r_status r) FRESH
                                 && existsb (fun u => fields_eqb r (row_of_url u)) us
                                 && negb (mem bytes_eqb (r_value r) (map r_value prev))))
                   (ls_table s)
        && (ls_err s || forallb (fun u => mem bytes_eqb (u_value u) (map r_value (ls_table s))) us)
    | _ => true
    end) (with_prev [] (l_steps c)).

(* monitor 2: acknowledgement by id - Delete removes exactly the listed ids *)
Definition lmon_delete (c : lcase) : bool :=
  forallb (fun '(prev, s) =>
    match ls_op s with
    | ODelete ids =>
        list_eqb row_eqb (filter (fun r => negb (mem bytes_eqb (r_id r) ids)) prev) (ls_table s)
    | _ => true
    end) (with_prev [] (l_steps c)).

(* monitor 3: what Get hands out are FRESH rows of the table with their fields; afterwards they
   are CLAIMED, nothing else changed; Reset only changes the status of that id; opening the
   queue again makes exactly the CLAIMED rows FRESH *)
Definition lmon_get (c : lcase) : bool :=
  forallb (fun '(prev, s) =>
    match ls_op s with
    | OGet _ ids =>
        list_eqb bytes_eqb (map r_id (ls_rows s)) ids
        && forallb (fun r => mem row_eqb r prev && status_eqb (r_status r) FRESH) (ls_rows s)
        && nodupb bytes_eqb ids
        && list_eqb row_eqb
             (map (fun r => if mem bytes_eqb (r_id r) ids then Row (r_id r) (r_value r) (r_via r) (r_hops r) CLAIMED else r) prev)
             (ls_table s)
    | OReset i =>
        list_eqb row_eqb
             (map (fun r => if bytes_eqb (r_id r) i then Row (r_id r) (r_value r) (r_via r) (r_hops r) FRESH else r) prev)
             (ls_table s)
    | OReopen =>
        list_eqb row_eqb
             (map (fun r => if status_eqb (r_status r) CLAIMED then Row (r_id r) (r_value r) (r_via r) (r_hops r) FRESH else r) prev)
             (ls_table s)
    | _ => true
    end) (with_prev [] (l_steps c)).

Definition ldiffs (l : list lcase) := bad_idx ldiff l.
Definition lmons (l : list lcase) := mon_idx [lmon_nodup; lmon_add; lmon_delete; lmon_get] l.

(* ------------------------------------------------------------------ hqflow *)

Inductive pev := PR (o : outlink) | PA (b : list b3) (r : res) (conc : nat).   (* produce | add request *)
Inductive fev := FR (id : bytes) (n : N) | FA (b : list idn) (r : res) (crawls : N) (conc : nat).

Record hcase := HC {
  h_bsize : nat;                         (* HQBatchSize *)
  h_workers : nat;                       (* WorkersCount *)
  h_complete : bool;                     (* the child reached quiescence before its watchdog *)
  h_pev : list pev;
  h_gets : list (option (list (hqurl * bool)));
                                         (* every get that found the feed non-empty, in arrival order: what the
                                            HQ handed out (with "ParseRequestURI accepts it"), None = it failed *)
  h_seeds : list seed;                   (* seeds that left the reactor *)
  h_fev : list fev
}.

(* everything the HQ handed out (and holds as claimed by this crawler) - observed, no model call *)
Definition h_handed (c : hcase) : list (hqurl * bool) :=
  flat_map (fun g => match g with Some us => us | None => [] end) (h_gets c).

Definition hq_triple (u : hqurl) : b3 := (hu_value u, hu_via u, hu_path u).

Definition pev_oev (e : pev) : oev (A := b3) :=
  match e with PR o => ORecv (hq_triple (hq_wire (hq_of_outlink o))) | PA b r _ => OAtt b r end.
Definition fev_oev (e : fev) : oev (A := idn) :=
  match e with FR id n => ORecv (id, n) | FA b r _ _ => OAtt b r end.

Definition seeds_ms_eqb := ms_eqb seed_eqb.

Definition sumN (l : list idn) : N := fold_left (fun a x => (a + snd x)%N) l 0%N.

Definition hdiff (c : hcase) : bool :=
  negb (
    trace_ok b3_eqb (hq_producer_cfg (h_bsize c) (h_workers c)) (map pev_oev (h_pev c)) (h_complete c)
    && trace_ok idn_eqb (hq_finisher_cfg (h_workers c)) (map fev_oev (h_fev c)) (h_complete c)
    && (negb (h_complete c) ||
        seeds_ms_eqb (map seed_of_hq (map fst (filter snd (round_urls (h_gets c))))) (h_seeds c))
    && forallb (fun e => match e with FA b _ crawls _ => N.eqb (sumN b) crawls | _ => true end) (h_fev c)).

(* monitor 0: every produced outlink was delivered exactly once by an acknowledged add, with its
   text and via (as the JSON wire carries them, Queue/Json.v) and its hop count *)
Definition delivered_tvh (c : hcase) : list tvh :=
  flat_map (fun e => match e with
                     | PA b Ok _ => map (fun '(v, via, p) => (v, via, nL p)) b
                     | _ => [] end) (h_pev c).

Definition hmon_outlinks (c : hcase) : bool :=
  ms_eqb tvh_eqb
    (flat_map (fun e => match e with PR o => [(json_wire (o_text o), json_wire (o_via o), o_hops o)] | _ => [] end) (h_pev c))
    (delivered_tvh c).

(* monitor 4: ... and text and via arrive byte for byte as produced *)
Definition hmon_text_exact (c : hcase) : bool :=
  ms_eqb tvh_eqb
    (flat_map (fun e => match e with PR o => [(o_text o, o_via o, o_hops o)] | _ => [] end) (h_pev c))
    (delivered_tvh c).

(* monitor 1: retries repeat the batch, batches are non-empty and within the configured size,
   never more requests in flight than senders *)
Definition hmon_batches (c : hcase) : bool :=
  let pc := hq_producer_cfg (h_bsize c) (h_workers c) in
  let fc := hq_finisher_cfg (h_workers c) in
  mon_retry_same b3_eqb (map pev_oev (h_pev c)) (h_complete c)
  && mon_retry_same idn_eqb (map fev_oev (h_fev c)) (h_complete c)
  && mon_batch_sizes (Nat.max (bsize pc) 1) (map pev_oev (h_pev c))
  && mon_batch_sizes (Nat.max (bsize fc) 1) (map fev_oev (h_fev c))
  && forallb (fun e => match e with PA _ _ k => k <=? nsend pc | _ => true end) (h_pev c)
  && forallb (fun e => match e with FA _ _ _ k => k <=? nsend fc | _ => true end) (h_fev c).

(* monitor 2: the round trip back into a seed - every parsable URL the HQ handed out (by any get,
   whatever happened to the gets around it) left the reactor as a seed, exactly once, with the same id, text, via and the hop count its path encodes *)
Definition hmon_seeds (c : hcase) : bool :=
  seeds_ms_eqb
    (map (fun u => SD (hu_id u) (hu_value u) (hu_via u) (nL (hu_path u))) (map fst (filter snd (h_handed c))))
    (h_seeds c).

(* monitor 3: acknowledgement by id - the ids of the acknowledged deletes are exactly the ids of
   the finished seeds (each once) *)
Definition hmon_acks (c : hcase) : bool :=
  ms_eqb bytes_eqb
    (flat_map (fun e => match e with FR id _ => [id] | _ => [] end) (h_fev c))
    (flat_map (fun e => match e with FA b Ok _ _ => map fst b | _ => [] end) (h_fev c)).

Definition hdiffs (l : list hcase) := bad_idx hdiff l.
Definition hmons (l : list hcase) := mon_idx [hmon_outlinks; hmon_batches; hmon_seeds; hmon_acks; hmon_text_exact] l.

(* ------------------------------------------------------------------ lqflow *)

Record qcase := QC {
  q_workers : nat;
  q_complete : bool;
  q_pev : list (oev (A := tvh));          (* produce / lq.added hook (always Ok) *)
  q_ops : list op;                        (* Add / Get / Delete in database order, ids resolved *)
  q_claimed : list (row * bool);          (* rows handed out by Get, with "ParseRequestURI accepts the value" *)
  q_seeds : list seed;
  q_fev : list (oev (A := bytes));        (* finish / lq.deleted hook *)
  q_final : list row                      (* lq.db read back at the end *)
}.

Definition tvh_of_url (u : url) : tvh := (u_value u, u_via u, Z.to_N (u_hops u)).

Definition qdiff (c : qcase) : bool :=
  negb (
    trace_ok tvh_eqb lq_producer_cfg (q_pev c) (q_complete c)
    && trace_ok bytes_eqb (lq_finisher_cfg (q_workers c)) (q_fev c) (q_complete c)
    && match LqDb.run [] (q_ops c) with
       | Some d => ms_eqb row_eqb d (q_final c)
       | None => false
       end
    && (negb (q_complete c) ||
        seeds_ms_eqb (map seed_of_row (map fst (filter snd (q_claimed c)))) (q_seeds c))).

(* monitor 0: no value twice in lq.db *)
Definition qmon_nodup (c : qcase) : bool := table_nodup (q_final c).

(* monitor 1: every produced outlink is in the queue - a row (still there, or handed out) carries
   its text, and that row's via/hops are those of an outlink produced with this text *)
Definition qmon_outlinks (c : qcase) : bool :=
  negb (q_complete c) ||
  let produced := recvs (q_pev c) in
  let rows := q_final c ++ map fst (q_claimed c) in
  forallb (fun '(t, _, _) => existsb (fun r => bytes_eqb (r_value r) t) rows) produced
  && forallb (fun r => mem tvh_eqb (r_value r, r_via r, Z.to_N (r_hops r)) produced) rows.

(* monitor 2: claimed rows come back as seeds with id, text, via, hops *)
Definition qmon_seeds (c : qcase) : bool :=
  negb (q_complete c) ||
  seeds_ms_eqb
    (map (fun r => SD (r_id r) (r_value r) (r_via r) (Z.to_N (r_hops r))) (map fst (filter snd (q_claimed c))))
    (q_seeds c).

(* monitor 3: finished ids = deleted ids, and none of them is left in the table *)
Definition qmon_acks (c : qcase) : bool :=
  mon_delivered bytes_eqb (q_fev c)
  && (negb (q_complete c)
      || forallb (fun i => negb (mem bytes_eqb i (map r_id (q_final c)))) (recvs (q_fev c))).

Definition qdiffs (l : list qcase) := bad_idx qdiff l.
Definition qmons (l : list qcase) := mon_idx [qmon_nodup; qmon_outlinks; qmon_seeds; qmon_acks] l.
