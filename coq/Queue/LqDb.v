(* The local queue database (lq.db, table urls) and the LQClient operations on it.

   Go: internal/pkg/source/lq/schema.sql   urls(id TEXT PRIMARY KEY, value TEXT, via, hops, status
                                           CHECK IN ('FRESH','CLAIMED','DONE'), timestamp);
                                           UNIQUE INDEX urls_value ON urls(value)
       internal/pkg/source/lq/query.sql    GetFreshURLs / ClaimThisURL / ResetURL / AddURL / DoneURL / DeleteURL
       internal/pkg/source/lq/client.go    LQClient.Add / Get / Delete / ResetURL (one transaction each)

   Used by C15 (no double queueing, acknowledgement by id, fields kept) and meant to be reused by
   C04 (crash / resume): the table is durable state, a crash keeps it, [reopen] (lq.Init) hands
   the rows a previous run had claimed out again.

   SQLite is not modelled beyond what these statements need:
   * rows are kept in insertion order (only used to print them; no result depends on it);
   * which FRESH rows a LIMITed SELECT without ORDER BY returns is SQLite's choice: the [Get]
     operation carries the ids that were returned (an oracle), the model checks that the choice
     was legal (FRESH rows, no repetition, min(limit, #FRESH) of them; a negative LIMIT means
     no limit);
   * on INSERT the UNIQUE(value) violation is reported in preference to the PRIMARY KEY one
     (observed, and checked on every run by the correspondence driver). *)
From Coq Require Import List Bool ZArith NArith.
From ZenoV Require Import Lib.Hex.
Import ListNotations.
Local Open Scope Z_scope.

Inductive status := FRESH | CLAIMED | DONE.   (* DONE: in the schema (DoneURL); no client call sets it *)

Definition status_eqb (a c : status) : bool :=
  match a, c with FRESH, FRESH | CLAIMED, CLAIMED | DONE, DONE => true | _, _ => false end.

Record row := Row { r_id : bytes; r_value : bytes; r_via : bytes; r_hops : Z; r_status : status }.

Definition db := list row.

(* what Add is given (sqlc_model.Url: ID, Value, Via, Hops) *)
Record url := Url { u_id : bytes; u_value : bytes; u_via : bytes; u_hops : Z }.

Definition has_value (d : db) (v : bytes) : bool := existsb (fun r => bytes_eqb (r_value r) v) d.
Definition has_id (d : db) (i : bytes) : bool := existsb (fun r => bytes_eqb (r_id r) i) d.
Definition mem_id (i : bytes) (ids : list bytes) : bool := existsb (bytes_eqb i) ids.

Definition row_of_url (u : url) : row := Row (u_id u) (u_value u) (u_via u) (u_hops u) FRESH.

(* one INSERT inside Add's transaction: None = an error other than UNIQUE(value) (here: id
   already present), which makes Add return it and roll the whole transaction back *)
Definition add_one (d : db) (u : url) : option db :=
  if has_value d (u_value u) then Some d                   (* constraint error on value: skipped *)
  else if has_id d (u_id u) then None
  else Some (d ++ [row_of_url u]).

Fixpoint add_all (d : db) (us : list url) : option db :=
  match us with
  | [] => Some d
  | u :: r => match add_one d u with Some d' => add_all d' r | None => None end
  end.

(* LQClient.Add: (table afterwards, error?) *)
Definition add (d : db) (us : list url) : db * bool :=
  match add_all d us with Some d' => (d', false) | None => (d, true) end.

Definition is_fresh (r : row) : bool := status_eqb (r_status r) FRESH.
Definition count_fresh (d : db) : nat := List.length (filter is_fresh d).

Definition set_status (st : status) (i : bytes) (d : db) : db :=
  map (fun r => if bytes_eqb (r_id r) i then Row (r_id r) (r_value r) (r_via r) (r_hops r) st else r) d.

Definition find_id (d : db) (i : bytes) : option row := find (fun r => bytes_eqb (r_id r) i) d.

Fixpoint nodup_ids (ids : list bytes) : bool :=
  match ids with
  | [] => true
  | i :: r => negb (mem_id i r) && nodup_ids r
  end.

Definition want (limit : Z) (d : db) : nat :=
  if limit <? 0 then count_fresh d else Nat.min (Z.to_nat limit) (count_fresh d).

(* LQClient.Get(limit) returned the rows with these ids: legal? *)
Definition get_legal (d : db) (limit : Z) (ids : list bytes) : bool :=
  nodup_ids ids
  && forallb (fun i => match find_id d i with Some r => is_fresh r | None => false end) ids
  && Nat.eqb (List.length ids) (want limit d).

(* ... and then they are CLAIMED; the rows handed to the consumer are the rows as read *)
Definition claim (d : db) (ids : list bytes) : db := fold_left (fun d i => set_status CLAIMED i d) ids d.

Definition get (d : db) (limit : Z) (ids : list bytes) : option (db * list row) :=
  if get_legal d limit ids
  then Some (claim d ids, flat_map (fun i => match find_id d i with Some r => [r] | None => [] end) ids)
  else None.

(* LQClient.Delete: DELETE WHERE id = ? for each id; an absent id is not an error *)
Definition delete (d : db) (ids : list bytes) : db := filter (fun r => negb (mem_id (r_id r) ids)) d.

(* LQClient.ResetURL: back to FRESH whatever the status was *)
Definition reset (d : db) (i : bytes) : db := set_status FRESH i d.
Definition reset_all (d : db) (ids : list bytes) : db := fold_left reset ids d.

(* closing and opening the file again (lq.Init): CREATE TABLE IF NOT EXISTS keeps the rows - they
   are the durable state - and every row a previous run left CLAIMED is made FRESH again
   (UPDATE urls SET status = 'FRESH' WHERE status = 'CLAIMED') *)
Definition unclaim (r : row) : row :=
  match r_status r with
  | CLAIMED => Row (r_id r) (r_value r) (r_via r) (r_hops r) FRESH
  | _ => r
  end.
Definition reopen (d : db) : db := map unclaim d.

Inductive op :=
| OAdd (us : list url)
| OGet (limit : Z) (ids : list bytes)
| ODelete (ids : list bytes)
| OReset (i : bytes)
| OReopen.

Definition apply (d : db) (o : op) : option db :=
  match o with
  | OAdd us => Some (fst (add d us))
  | OGet limit ids => match get d limit ids with Some (d', _) => Some d' | None => None end
  | ODelete ids => Some (delete d ids)
  | OReset i => Some (reset d i)
  | OReopen => Some (reopen d)
  end.

Fixpoint run (d : db) (os : list op) : option db :=
  match os with
  | [] => Some d
  | o :: r => match apply d o with Some d' => run d' r | None => None end
  end.

Fixpoint added_urls (os : list op) : list url :=
  match os with
  | [] => []
  | OAdd us :: r => us ++ added_urls r
  | _ :: r => added_urls r
  end.

(* the seed the consumer builds from a claimed row (lq/consumer.go consumerSender) *)
Definition row_fields (r : row) : bytes * bytes * bytes * Z := (r_id r, r_value r, r_via r, r_hops r).
Definition url_fields (u : url) : bytes * bytes * bytes * Z := (u_id u, u_value u, u_via u, u_hops u).

Definition row_eqb (a c : row) : bool :=
  bytes_eqb (r_id a) (r_id c) && bytes_eqb (r_value a) (r_value c) && bytes_eqb (r_via a) (r_via c)
  && Z.eqb (r_hops a) (r_hops c) && status_eqb (r_status a) (r_status c).

Fixpoint rows_eqb (a c : list row) : bool :=
  match a, c with
  | [], [] => true
  | x :: a', y :: c' => row_eqb x y && rows_eqb a' c'
  | _, _ => false
  end.
