(* Proofs about the local queue table (Queue/LqDb.v). *)
From Coq Require Import List Bool ZArith NArith Lia.
From ZenoV Require Import Lib.Hex Queue.LqDb.
Import ListNotations.
Local Open Scope Z_scope.

Definition wf (d : db) : Prop := NoDup (map r_value d) /\ NoDup (map r_id d).

Lemma has_value_false : forall d v, has_value d v = false -> ~ In v (map r_value d).
Proof.
  induction d as [|r d IH]; intros v H; simpl in *; [tauto|].
  apply orb_false_elim in H as [H1 H2]. intros [E|E].
  - subst v. rewrite bytes_eqb_refl in H1. discriminate.
  - exact (IH v H2 E).
Qed.

Lemma has_id_false : forall d i, has_id d i = false -> ~ In i (map r_id d).
Proof.
  induction d as [|r d IH]; intros v H; simpl in *; [tauto|].
  apply orb_false_elim in H as [H1 H2]. intros [E|E].
  - subst v. rewrite bytes_eqb_refl in H1. discriminate.
  - exact (IH v H2 E).
Qed.

Lemma has_value_true : forall d v, has_value d v = true -> In v (map r_value d).
Proof.
  induction d as [|r d IH]; intros v H; simpl in *; [discriminate|].
  apply orb_prop in H as [H|H].
  - left. apply bytes_eqb_eq; exact H.
  - right. apply IH; exact H.
Qed.

Lemma NoDup_snoc {B} : forall (l : list B) x, NoDup l -> ~ In x l -> NoDup (l ++ [x]).
Proof.
  induction l as [|a l IH]; intros x Hn Hx; simpl.
  - constructor; [tauto|constructor].
  - inversion Hn; subst. constructor.
    + intros Hin. apply in_app_or in Hin as [Hin|[E|[]]]; [tauto|]. subst. apply Hx; left; reflexivity.
    + apply IH; [assumption|]. intros Hin; apply Hx; right; exact Hin.
Qed.

Lemma wf_add_one : forall d u d', wf d -> add_one d u = Some d' -> wf d'.
Proof.
  intros d u d' [Hv Hi] H. unfold add_one in H.
  destruct (has_value d (u_value u)) eqn:Ev; [inversion H; subst; split; assumption|].
  destruct (has_id d (u_id u)) eqn:Ei; [discriminate|]. inversion H; subst.
  split; rewrite map_app; simpl; apply NoDup_snoc; auto using has_value_false, has_id_false.
Qed.

Lemma wf_add_all : forall us d d', wf d -> add_all d us = Some d' -> wf d'.
Proof.
  induction us as [|u us IH]; intros d d' Hw H; simpl in H.
  - inversion H; subst; exact Hw.
  - destruct (add_one d u) as [d1|] eqn:E; [|discriminate].
    eapply IH; [eapply wf_add_one; eassumption | exact H].
Qed.

Lemma wf_add : forall d us, wf d -> wf (fst (add d us)).
Proof.
  intros d us Hw. unfold add. destruct (add_all d us) as [d'|] eqn:E; simpl; [|exact Hw].
  eapply wf_add_all; eassumption.
Qed.

Lemma set_status_values : forall st i d, map r_value (set_status st i d) = map r_value d.
Proof.
  intros st i d. unfold set_status. rewrite map_map. apply map_ext.
  intros r. destruct (bytes_eqb (r_id r) i); reflexivity.
Qed.

Lemma set_status_ids : forall st i d, map r_id (set_status st i d) = map r_id d.
Proof.
  intros st i d. unfold set_status. rewrite map_map. apply map_ext.
  intros r. destruct (bytes_eqb (r_id r) i); reflexivity.
Qed.

Lemma wf_set_status : forall st i d, wf d -> wf (set_status st i d).
Proof. intros st i d [Hv Hi]. split; [rewrite set_status_values|rewrite set_status_ids]; assumption. Qed.

Lemma wf_fold_status : forall st ids d, wf d -> wf (fold_left (fun d i => set_status st i d) ids d).
Proof.
  intros st ids; induction ids as [|i ids IH]; intros d Hw; simpl; [exact Hw|].
  apply IH. apply wf_set_status; exact Hw.
Qed.

Lemma NoDup_map_filter {B C} (f : B -> C) (p : B -> bool) : forall l,
  NoDup (map f l) -> NoDup (map f (filter p l)).
Proof.
  induction l as [|a l IH]; intros H; simpl in *; [constructor|].
  inversion H; subst. destruct (p a); simpl.
  - constructor; [|apply IH; assumption].
    intros Hin. apply H2. apply in_map_iff in Hin as (x & Ex & Hx).
    apply filter_In in Hx as [Hx _]. apply in_map_iff. exists x; split; assumption.
  - apply IH; assumption.
Qed.

Lemma wf_delete : forall d ids, wf d -> wf (delete d ids).
Proof. intros d ids [Hv Hi]. split; apply NoDup_map_filter; assumption. Qed.

Lemma wf_reopen : forall d, wf d -> wf (reopen d).
Proof.
  intros d [Hv Hi]. unfold reopen. split; rewrite map_map.
  - erewrite map_ext; [exact Hv|]. intros r. unfold unclaim. destruct (r_status r); reflexivity.
  - erewrite map_ext; [exact Hi|]. intros r. unfold unclaim. destruct (r_status r); reflexivity.
Qed.

Lemma wf_apply : forall d o d', wf d -> apply d o = Some d' -> wf d'.
Proof.
  intros d o d' Hw H. destruct o as [us|limit ids|ids|i|]; simpl in H.
  - inversion H; subst. apply wf_add; exact Hw.
  - unfold get in H. destruct (get_legal d limit ids); [|discriminate]. inversion H; subst.
    unfold claim. apply wf_fold_status; exact Hw.
  - inversion H; subst. apply wf_delete; exact Hw.
  - inversion H; subst. unfold reset. apply wf_set_status; exact Hw.
  - inversion H; subst. apply wf_reopen; exact Hw.
Qed.

Lemma wf_run : forall os d d', wf d -> run d os = Some d' -> wf d'.
Proof.
  induction os as [|o os IH]; intros d d' Hw H; simpl in H.
  - inversion H; subst; exact Hw.
  - destruct (apply d o) as [d1|] eqn:E; [|discriminate].
    eapply IH; [eapply wf_apply; eassumption | exact H].
Qed.

(* A URL already in the table (whatever its status) is not queued a second time: for every
   sequence of Add / Get / Delete / Reset / re-open operations on an initially empty table no
   value and no id occurs in two rows; adding a present value changes nothing; adding an absent
   one appends exactly one FRESH row carrying the given fields. *)
Theorem lq_no_double_queue_lemma :
  (forall os d, run [] os = Some d -> NoDup (map r_value d) /\ NoDup (map r_id d))
  /\ (forall d u, has_value d (u_value u) = true -> add_one d u = Some d)
  /\ (forall d u, has_value d (u_value u) = false -> has_id d (u_id u) = false ->
        add_one d u = Some (d ++ [row_of_url u])).
Proof.
  split; [|split].
  - intros os d H. apply (wf_run os [] d); [split; constructor | exact H].
  - intros d u H. unfold add_one. rewrite H. reflexivity.
  - intros d u H1 H2. unfold add_one. rewrite H1, H2. reflexivity.
Qed.

Example no_double_queue_nonvacuous :
  run [] [OAdd [Url (bs "1") (bs "a") (bs "p") 2; Url (bs "2") (bs "b") [] 0];
          OAdd [Url (bs "3") (bs "a") (bs "q") 7];
          OGet 1 [bs "1"]; OAdd [Url (bs "4") (bs "a") [] 0]]
  = Some [Row (bs "1") (bs "a") (bs "p") 2 CLAIMED; Row (bs "2") (bs "b") [] 0 FRESH].
Proof. vm_compute. reflexivity. Qed.

(* Acknowledgement is by id: Delete removes exactly the rows whose id is listed, touches no
   other row (fields, status, order), and an unknown id is not an error. *)
Theorem ack_by_id_lemma : forall d ids,
  (forall r, In r (delete d ids) <-> In r d /\ mem_id (r_id r) ids = false)
  /\ (forall i, mem_id i ids = true -> has_id (delete d ids) i = false)
  /\ delete d [] = d.
Proof.
  intros d ids. split; [|split].
  - intros r. unfold delete. rewrite filter_In. rewrite negb_true_iff. tauto.
  - intros i Hi. unfold has_id, delete.
    destruct (existsb _ _) eqn:E; [|reflexivity].
    apply existsb_exists in E as (r & Hr & Er). apply filter_In in Hr as [_ Hr].
    apply bytes_eqb_eq in Er. subst i. rewrite Hi in Hr. discriminate.
  - unfold delete. induction d as [|r d IH]; simpl; [reflexivity|]. f_equal. exact IH.
Qed.

Example ack_by_id_nonvacuous :
  delete [Row (bs "1") (bs "a") [] 0 CLAIMED; Row (bs "2") (bs "b") [] 0 FRESH; Row (bs "3") (bs "c") [] 1 CLAIMED]
         [bs "3"; bs "zz"; bs "1"]
  = [Row (bs "2") (bs "b") [] 0 FRESH].
Proof. vm_compute. reflexivity. Qed.

(* ---------- fields are kept ---------- *)

Definition from_added (us : list url) (d : db) : Prop :=
  forall r, In r d -> exists u, In u us /\ row_fields r = url_fields u.

Lemma from_added_mono : forall us us' d, incl us us' -> from_added us d -> from_added us' d.
Proof. intros us us' d Hi H r Hr. destruct (H r Hr) as (u & Hu & E). exists u; split; auto. Qed.

Lemma from_added_add_all : forall us0 us d d', from_added us0 d -> add_all d us = Some d' ->
  from_added (us0 ++ us) d'.
Proof.
  intros us0 us; revert us0; induction us as [|u us IH]; intros us0 d d' H Ha; simpl in Ha.
  - inversion Ha; subst. rewrite app_nil_r. exact H.
  - destruct (add_one d u) as [d1|] eqn:E; [|discriminate].
    replace (us0 ++ u :: us) with ((us0 ++ [u]) ++ us) by (rewrite <- app_assoc; reflexivity).
    eapply IH; [|exact Ha].
    unfold add_one in E. destruct (has_value d (u_value u)).
    + inversion E; subst. eapply from_added_mono; [|exact H]. apply incl_appl, incl_refl.
    + destruct (has_id d (u_id u)); [discriminate|]. inversion E; subst.
      intros r Hr. apply in_app_or in Hr as [Hr|[Hr|[]]].
      * destruct (H r Hr) as (u' & Hu' & E'). exists u'; split; [apply in_or_app; left|]; assumption.
      * subst r. exists u; split; [apply in_or_app; right; left; reflexivity | reflexivity].
Qed.

Lemma from_added_set_status : forall us st i d, from_added us d -> from_added us (set_status st i d).
Proof.
  intros us st i d H r Hr. unfold set_status in Hr. apply in_map_iff in Hr as (r0 & E & Hr0).
  destruct (H r0 Hr0) as (u & Hu & Eu). exists u; split; [assumption|].
  destruct (bytes_eqb (r_id r0) i); subst r; exact Eu.
Qed.

Lemma from_added_fold : forall us st ids d, from_added us d ->
  from_added us (fold_left (fun d i => set_status st i d) ids d).
Proof.
  intros us st ids; induction ids as [|i ids IH]; intros d H; simpl; [exact H|].
  apply IH. apply from_added_set_status; exact H.
Qed.

Lemma fields_run : forall os us0 d d', from_added us0 d -> run d os = Some d' ->
  from_added (us0 ++ added_urls os) d'.
Proof.
  induction os as [|o os IH]; intros us0 d d' H Hr; simpl in Hr.
  - inversion Hr; subst. simpl. rewrite app_nil_r. exact H.
  - destruct (apply d o) as [d1|] eqn:E; [|discriminate].
    destruct o as [us|limit ids|ids|i|]; simpl in E |- *.
    + inversion E; subst. rewrite app_assoc. eapply IH; [|exact Hr].
      unfold add. destruct (add_all d us) as [d2|] eqn:Ea; simpl.
      * eapply from_added_add_all; eassumption.
      * eapply from_added_mono; [|exact H]. apply incl_appl, incl_refl.
    + unfold get in E. destruct (get_legal d limit ids); [|discriminate]. inversion E; subst.
      eapply IH; [|exact Hr]. unfold claim. apply from_added_fold; exact H.
    + inversion E; subst. eapply IH; [|exact Hr].
      intros r Hr'. unfold delete in Hr'. apply filter_In in Hr' as [Hr' _]. exact (H r Hr').
    + inversion E; subst. eapply IH; [|exact Hr]. unfold reset. apply from_added_set_status; exact H.
    + inversion E; subst. eapply IH; [|exact Hr].
      intros r Hr'. unfold reopen in Hr'. apply in_map_iff in Hr' as (r0 & E0 & Hr0).
      destruct (H r0 Hr0) as (u & Hu & Eu). exists u; split; [assumption|].
      subst r. unfold unclaim. destruct (r_status r0); exact Eu.
Qed.

Lemma find_id_In : forall d i r, find_id d i = Some r -> In r d /\ r_id r = i.
Proof.
  intros d i r H. unfold find_id in H. apply find_some in H as [H1 H2].
  split; [exact H1 | apply bytes_eqb_eq; exact H2].
Qed.

(* Every row ever in the table, and every row Get hands to the consumer, carries id, value, via
   and hops of a URL that was given to Add: no operation rewrites these fields.  What Get hands
   out are FRESH rows of the table, one per returned id. *)
Theorem lq_fields_kept_lemma : forall os d,
  run [] os = Some d ->
  (forall r, In r d -> exists u, In u (added_urls os) /\ row_fields r = url_fields u)
  /\ (forall limit ids d' rows, get d limit ids = Some (d', rows) ->
        map r_id rows = ids
        /\ forall r, In r rows ->
             In r d /\ r_status r = FRESH
             /\ exists u, In u (added_urls os) /\ row_fields r = url_fields u).
Proof.
  intros os d H.
  assert (HF : from_added (added_urls os) d).
  { apply (fields_run os [] [] d); [intros r []|exact H]. }
  split; [exact HF|].
  intros limit ids d' rows Hg. unfold get in Hg.
  destruct (get_legal d limit ids) eqn:El; [|discriminate]. inversion Hg; subst; clear Hg.
  unfold get_legal in El. apply andb_prop in El as [El _]. apply andb_prop in El as [_ El].
  rewrite forallb_forall in El.
  split.
  - clear HF. induction ids as [|i ids IH]; simpl; [reflexivity|].
    assert (Hi := El i (or_introl eq_refl)).
    destruct (find_id d i) as [r|] eqn:Ef; [|discriminate]. simpl.
    destruct (find_id_In d i r Ef) as [_ ->]. f_equal.
    apply IH. intros x Hx. apply El. right; exact Hx.
  - intros r Hr. apply in_flat_map in Hr as (i & Hi & Hr).
    specialize (El i Hi). destruct (find_id d i) as [r0|] eqn:Ef; [|discriminate].
    destruct Hr as [Hr|[]]. subst r0.
    destruct (find_id_In d i r Ef) as [Hin _].
    split; [exact Hin|]. split.
    + unfold is_fresh in El. destruct (r_status r); simpl in El; try discriminate; reflexivity.
    + exact (HF r Hin).
Qed.

Example fields_kept_nonvacuous :
  match run [] [OAdd [Url (bs "1") (bs "http://a/") (bs "http://p/") 3]] with
  | Some d => get d 5 [bs "1"] = Some ([Row (bs "1") (bs "http://a/") (bs "http://p/") 3 CLAIMED],
                                       [Row (bs "1") (bs "http://a/") (bs "http://p/") 3 FRESH])
  | None => False
  end.
Proof. vm_compute. reflexivity. Qed.

(* opening the queue again hands the claimed rows out once more *)
Example reopen_unclaims :
  reopen [Row (bs "1") (bs "a") [] 0 CLAIMED; Row (bs "2") (bs "b") [] 0 FRESH; Row (bs "3") (bs "c") [] 1 DONE]
  = [Row (bs "1") (bs "a") [] 0 FRESH; Row (bs "2") (bs "b") [] 0 FRESH; Row (bs "3") (bs "c") [] 1 DONE].
Proof. vm_compute. reflexivity. Qed.

(* an id collision with a different value makes Add fail as a whole: nothing of the batch stays *)
Example add_rolls_back :
  add [Row (bs "1") (bs "a") [] 0 FRESH] [Url (bs "4") (bs "d") [] 0; Url (bs "1") (bs "c") [] 0]
  = ([Row (bs "1") (bs "a") [] 0 FRESH], true).
Proof. vm_compute. reflexivity. Qed.
