(* C15 - the receiver / dispatcher / sender machinery that carries outlinks and finish
   acknowledgements to the queue, as a deterministic labelled transition system.

   One instance of this machine models each of
     hq/producer.go  producerReceiver + producerDispatcher + producerSender   (Add to crawl HQ)
     hq/finisher.go  finisherReceiver + finisherDispatcher + finisherSender   (Delete at crawl HQ)
     lq/finisher.go  finisherReceiver + finisherDispatcher + finisherSender   (Delete in lq.db)
     lq/producer.go  producerReceiver + producerDispatcher                    (Add to lq.db, [sync])

   receiver:    for { select { item := <-in: batch = append(batch, item); if len(batch) >= size { batchCh <- copy; batch = new }
                               <-ticker.C:   if len(batch) > 0 { batchCh <- copy; batch = new } } }
   dispatcher:  for { batch := <-batchCh; sem <- token (blocks at maxSenders); go sender(batch) }
   sender:      for { err := client.Add/Delete(batch); if err != nil { sleep(backoff); backoff = min(2*backoff, max); continue }; return }
   lq producer: the dispatcher calls Add itself, once; on an error the batch is logged and dropped.

   The label carries every nondeterministic choice: which goroutine moves, what the timer does,
   what the queue answers to which sender.  [Stop] is the cancellation of the context; nothing
   moves afterwards (the goroutines return, whatever they hold is not delivered). *)
From Coq Require Import List Arith Bool NArith.
Import ListNotations.

Section Batcher.
Context {A : Type}.

Record cfg := Cfg {
  bsize : nat;      (* flush when len(batch) >= bsize *)
  cap : nat;        (* capacity of batchCh *)
  nsend : nat;      (* size of the sender semaphore *)
  sync : bool;      (* lq producer: dispatcher sends itself, no retry *)
  maxbo : N         (* cap of the retry sleep, seconds *)
}.

Inductive rst := Filling | Sending.       (* receiver: in its select / blocked on batchCh <- *)
Inductive res := Ok | Fail | Lost.        (* answered 2xx | error, not accepted | accepted but the answer was lost *)

Record sender := Snd { s_batch : list A; s_backoff : N }.

Record st := St {
  pending : list A;                 (* the receiver's current batch *)
  rstate : rst;
  chan : list (list A);             (* batchCh, oldest first *)
  disp : option (list A);           (* batch held by the dispatcher while it waits for a sender slot *)
  snds : list sender;               (* running sender goroutines *)
  attlog : list (list A * res);     (* every request that reached the queue, with its outcome *)
  made : list (list A);             (* history: batches in the order the receiver closed them *)
  stopped : bool
}.

Inductive label :=
| Recv (x : A)                 (* the receiver takes an item from its input channel *)
| Tick                         (* the receiver takes a timer tick *)
| Push                         (* the blocked receiver gets its batch into batchCh *)
| Dispatch                     (* the dispatcher takes a batch from batchCh *)
| Spawn                        (* the dispatcher gets a sender slot and starts a sender *)
| Attempt (i : nat) (r : res)  (* sender i performs one request *)
| SyncSend (r : res)           (* lq producer: dispatcher takes a batch and adds it *)
| Stop.

Definition init : st := St [] Filling [] None [] [] [] false.

Definition next_backoff (c : cfg) (b : N) : N := N.min (2 * b) (maxbo c).

Definition remove_nth (i : nat) (l : list sender) : list sender := firstn i l ++ skipn (S i) l.
Definition set_nth (i : nat) (x : sender) (l : list sender) : list sender := firstn i l ++ x :: skipn (S i) l.

Definition step (c : cfg) (s : st) (l : label) : option st :=
  let '(St p r ch d sn al m stp) := s in
  if stp then None else
  match l with
  | Recv x =>
      match r with
      | Filling => let p' := p ++ [x] in
                   Some (St p' (if bsize c <=? length p' then Sending else Filling) ch d sn al m stp)
      | Sending => None
      end
  | Tick =>
      match r with
      | Filling => Some (St p (match p with [] => Filling | _ :: _ => Sending end) ch d sn al m stp)
      | Sending => None
      end
  | Push =>
      match r with
      | Sending => if length ch <? cap c then Some (St [] Filling (ch ++ [p]) d sn al (m ++ [p]) stp) else None
      | Filling => None
      end
  | Dispatch =>
      if sync c then None else
      match d, ch with
      | None, b :: ch' => Some (St p r ch' (Some b) sn al m stp)
      | _, _ => None
      end
  | Spawn =>
      if sync c then None else
      match d with
      | Some b => if length sn <? nsend c then Some (St p r ch None (sn ++ [Snd b 1]) al m stp) else None
      | None => None
      end
  | Attempt i o =>
      if sync c then None else
      match nth_error sn i with
      | None => None
      | Some sd =>
          let al' := al ++ [(s_batch sd, o)] in
          match o with
          | Ok => Some (St p r ch d (remove_nth i sn) al' m stp)
          | Fail | Lost => Some (St p r ch d (set_nth i (Snd (s_batch sd) (next_backoff c (s_backoff sd))) sn) al' m stp)
          end
      end
  | SyncSend o =>
      if sync c then
        match ch, o with
        | _, Lost => None
        | b :: ch', _ => Some (St p r ch' d sn (al ++ [(b, o)]) m stp)
        | [], _ => None
        end
      else None
  | Stop => Some (St p r ch d sn al m true)
  end.

Fixpoint run (c : cfg) (s : st) (ls : list label) : option st :=
  match ls with
  | [] => Some s
  | l :: r => match step c s l with Some s' => run c s' r | None => None end
  end.

(* ---- derived observables ---- *)

Definition is_ok (o : res) : bool := match o with Ok => true | _ => false end.
Definition is_fail (o : res) : bool := match o with Fail => true | _ => false end.
Definition is_lost (o : res) : bool := match o with Lost => true | _ => false end.

(* batches acknowledged to the sending goroutine *)
Definition acked (s : st) : list (list A) := map fst (filter (fun e => is_ok (snd e)) (attlog s)).
(* batches the queue accepted (an answer may have been lost: those are sent again) *)
Definition accepted (s : st) : list (list A) := map fst (filter (fun e => negb (is_fail (snd e))) (attlog s)).
(* batches given up: only the lq producer does that, on a database error *)
Definition dropped (c : cfg) (s : st) : list (list A) :=
  if sync c then map fst (filter (fun e => is_fail (snd e)) (attlog s)) else [].

Definition olist (d : option (list A)) : list (list A) := match d with Some b => [b] | None => [] end.

(* batches closed by the receiver and not yet acknowledged *)
Definition inflight (s : st) : list (list A) := map s_batch (snds s) ++ olist (disp s) ++ chan s.

Fixpoint items_of (ls : list label) : list A :=
  match ls with
  | [] => []
  | Recv x :: r => x :: items_of r
  | _ :: r => items_of r
  end.

Definition is_stop (l : label) : bool := match l with Stop => true | _ => false end.
Definition is_lost_label (l : label) : bool :=
  match l with Attempt _ Lost => true | _ => false end.
Definition is_syncfail_label (l : label) : bool :=
  match l with SyncSend Fail => true | _ => false end.

(* ---- progress: labels that move work towards the queue when nothing fails ---- *)

Definition productive (s : st) (l : label) : bool :=
  match l with
  | Tick => match pending s with [] => false | _ :: _ => true end
  | Push | Dispatch | Spawn => true
  | Attempt _ Ok => true
  | SyncSend Ok => true
  | _ => false
  end.

Fixpoint prun (c : cfg) (s : st) (ls : list label) : option st :=
  match ls with
  | [] => Some s
  | l :: r => if productive s l
              then match step c s l with Some s' => prun c s' r | None => None end
              else None
  end.

Definition wch (c : cfg) : nat := if sync c then 1 else 3.

(* number of productive steps still needed to get everything that was received acknowledged *)
Definition mu (c : cfg) (s : st) : nat :=
  (match rstate s, pending s with
   | Filling, [] => 0
   | Filling, _ :: _ => wch c + 2
   | Sending, _ => wch c + 1
   end)
  + wch c * length (chan s)
  + (match disp s with Some _ => 2 | None => 0 end)
  + length (snds s).

Definition mu_bound (c : cfg) : nat := (wch c + 2) + wch c * cap c + 2 + nsend c.

Definition cfg_ok (c : cfg) : bool := (1 <=? cap c) && ((1 <=? nsend c) || sync c).

Definition quiet (s : st) : bool :=
  match pending s, rstate s, chan s, disp s, snds s with
  | [], Filling, [], None, [] => true
  | _, _, _, _, _ => false
  end.

(* the configurations the code uses *)
Definition hq_senders (workers : nat) : nat := if workers <? 10 then 1 else workers / 10.
Definition hq_producer_cfg (hq_batch_size workers : nat) : cfg :=
  Cfg (if hq_batch_size =? 0 then 100 else hq_batch_size) (hq_senders workers) (hq_senders workers) false 5.
Definition hq_finisher_cfg (workers : nat) : cfg :=
  Cfg (if workers =? 0 then 100 else workers) (hq_senders workers) (hq_senders workers) false 5.
Definition lq_producer_cfg : cfg := Cfg 100 2 0 true 1.
Definition lq_finisher_cfg (workers : nat) : cfg := Cfg workers 2 2 false 1.

End Batcher.

Arguments cfg : clear implicits.
Arguments st : clear implicits.
Arguments label : clear implicits.
Arguments sender : clear implicits.
