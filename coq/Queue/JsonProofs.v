From Coq Require Import List Ascii NArith Bool Lia.
From ZenoV Require Import Lib.Hex Queue.Json.
Import ListNotations.

Lemma wire_valid_go : forall f s, valid_go f s = true -> wire_go f s = s.
Proof.
  induction f as [|f IH]; intros s H; simpl in *.
  - destruct s; [reflexivity | discriminate].
  - destruct s as [|b r]; [reflexivity|].
    destruct (rune_len (b :: r)) as [|k] eqn:E; [discriminate|].
    rewrite (IH _ H). simpl. f_equal. apply firstn_skipn.
Qed.

(* well-formed UTF-8 crosses the wire unchanged *)
Lemma json_wire_valid : forall s, valid_utf8 s = true -> json_wire s = s.
Proof. intros s H. apply wire_valid_go. exact H. Qed.

Lemma valid_go_repeat_ascii : forall c n f, (N_of_ascii c <? 128)%N = true -> n <= f ->
  valid_go f (repeat c n) = true.
Proof.
  intros c n f Hc. revert n. induction f as [|f IH]; intros n Hn.
  - assert (n = 0) by lia. subst. reflexivity.
  - destruct n as [|n]; [reflexivity|]. simpl repeat.
    unfold valid_go; fold valid_go. unfold rune_len, bn. rewrite Hc. simpl skipn.
    apply IH. lia.
Qed.

Lemma valid_repeat_ascii : forall c n, (N_of_ascii c <? 128)%N = true -> valid_utf8 (repeat c n) = true.
Proof. intros c n Hc. unfold valid_utf8. apply valid_go_repeat_ascii; [exact Hc|]. rewrite repeat_length. lia. Qed.

Example wire_examples :
  json_wire (bs "http://a/<>&") = bs "http://a/<>&"
  /\ json_wire (hx "c3a9e282acf09f9880") = hx "c3a9e282acf09f9880"      (* é € U+1F600 *)
  /\ json_wire (hx "61e962") = hx "61efbfbd62"                            (* a \xe9 b *)
  /\ json_wire (hx "fffe") = hx "efbfbdefbfbd"
  /\ json_wire (hx "eda080") = hx "efbfbdefbfbdefbfbd"                    (* surrogate *)
  /\ json_wire (hx "c0af") = hx "efbfbdefbfbd"                            (* overlong *)
  /\ json_wire (hx "e282") = hx "efbfbdefbfbd"                            (* truncated *)
  /\ json_wire (hx "efbfbd") = hx "efbfbd"
  /\ valid_utf8 (hx "61e962") = false /\ valid_utf8 (hx "c3a9") = true.
Proof. vm_compute. repeat split. Qed.
