(* C15 - what a Go string looks like after encoding/json Marshal + Unmarshal (the wire between the
   gocrawlhq client and crawl HQ).

   Go: encoding/json encodeState.string:   for each position: byte < 0x80 -> itself (possibly as an
         escape, which decodes back to the same byte); otherwise c, size := utf8.DecodeRuneInString(s[i:]);
         c == RuneError && size == 1  ->  writes � and advances ONE byte; else copies the
         size bytes (U+2028/U+2029 as escapes that decode back to themselves).
       unicode/utf8 DecodeRune: first byte / second byte ranges of well-formed UTF-8 (Unicode
         table 3-7), continuation bytes 80..BF; anything else, or a truncated sequence, is
         (RuneError, 1).

   So the wire keeps every well-formed sequence and turns every byte that does not start one
   into EF BF BD.  Not verified here (third-party): that escapes decode to what was escaped. *)
From Coq Require Import List Ascii NArith Bool.
From ZenoV Require Import Lib.Hex.
Import ListNotations.
Local Open Scope N_scope.

Definition bn (c : ascii) : N := N_of_ascii c.
Definition in_range (c : ascii) (lo hi : N) : bool := (lo <=? bn c) && (bn c <=? hi).
Definition cont (c : ascii) : bool := in_range c 128 191.

(* number of bytes of the well-formed UTF-8 sequence at the head of [s]; 0 = none (RuneError, 1) *)
Definition rune_len (s : bytes) : nat :=
  match s with
  | [] => 0%nat
  | b0 :: r =>
      let n := bn b0 in
      if n <? 128 then 1%nat
      else if in_range b0 194 223 then
        match r with b1 :: _ => if cont b1 then 2%nat else 0%nat | _ => 0%nat end
      else if in_range b0 224 239 then
        match r with
        | b1 :: b2 :: _ =>
            let lo := if n =? 224 then 160 else 128 in
            let hi := if n =? 237 then 159 else 191 in
            if in_range b1 lo hi && cont b2 then 3%nat else 0%nat
        | _ => 0%nat
        end
      else if in_range b0 240 244 then
        match r with
        | b1 :: b2 :: b3 :: _ =>
            let lo := if n =? 240 then 144 else 128 in
            let hi := if n =? 244 then 143 else 191 in
            if in_range b1 lo hi && cont b2 && cont b3 then 4%nat else 0%nat
        | _ => 0%nat
        end
      else 0%nat
  end.

Definition replacement : bytes := [ascii_of_N 239; ascii_of_N 191; ascii_of_N 189].   (* U+FFFD *)

Fixpoint wire_go (fuel : nat) (s : bytes) : bytes :=
  match fuel with
  | O => []
  | S f =>
      match s with
      | [] => []
      | _ :: r =>
          match rune_len s with
          | O => replacement ++ wire_go f r
          | k => firstn k s ++ wire_go f (skipn k s)
          end
      end
  end.

(* Marshal then Unmarshal of a string *)
Definition json_wire (s : bytes) : bytes := wire_go (List.length s) s.

Fixpoint valid_go (fuel : nat) (s : bytes) : bool :=
  match fuel with
  | O => match s with [] => true | _ => false end
  | S f =>
      match s with
      | [] => true
      | _ :: _ =>
          match rune_len s with
          | O => false
          | k => valid_go f (skipn k s)
          end
      end
  end.

(* utf8.ValidString *)
Definition valid_utf8 (s : bytes) : bool := valid_go (List.length s) s.
