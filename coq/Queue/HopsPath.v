(* C15 - hop count <-> crawl-HQ "path" encoding, and the field mappings between an outlink item,
   the queue payload (crawl-HQ URL / local-queue row) and the seed built from it again.

   Go: internal/pkg/source/hq/utils.go
         hopsToPath(hops) = strings.Repeat("L", hops)
         pathToHops(path) = strings.Count(path, "L")
       hq/producer.go producerReceiver   (item -> gocrawlhq.URL{Value, Via, Path})
       hq/consumer.go consumerSender     (gocrawlhq.URL -> models.URL{Raw, Hops} + NewItem(ID, url, Via))
       lq/producer.go producerReceiver   (item -> sqlc_model.Url{Value, Via, Hops})
       lq/consumer.go consumerSender     (row -> models.URL{Raw, Hops} + NewItem(ID, url, Via))
       postprocessor/item.go             (outlink item: seedVia = parent URL text, hops = parent + 1)

   Hop counts are naturals: in the crawler they start at 0 and are only incremented or reset to 0
   (strings.Repeat panics on a negative count; no caller produces one). *)
From Coq Require Import List Ascii NArith.
From ZenoV Require Import Lib.Hex.
Import ListNotations.

Definition chL : ascii := "L"%char.

Definition hops_to_path (h : N) : bytes := repeat chL (N.to_nat h).

Fixpoint count_L (p : bytes) : nat :=
  match p with
  | [] => 0
  | c :: r => if Ascii.eqb c chL then S (count_L r) else count_L r
  end.

Definition path_to_hops (p : bytes) : N := N.of_nat (count_L p).

(* an outlink as the pipeline hands it to the source: text, via (parent page), hops *)
Record outlink := OL { o_text : bytes; o_via : bytes; o_hops : N }.

(* postprocessor/item.go + outlinks.go: an outlink found on a page *)
Definition mk_outlink (parent_url : bytes) (parent_hops : N) (text : bytes) : outlink :=
  OL text parent_url (parent_hops + 1).

(* a seed as the consumer hands it to the reactor: id, raw text, via, hops *)
Record seed := SD { sd_id : bytes; sd_raw : bytes; sd_via : bytes; sd_hops : N }.

(* crawl HQ payload (the fields Zeno sets / reads) *)
Record hqurl := HU { hu_id : bytes; hu_value : bytes; hu_via : bytes; hu_path : bytes }.

Definition hq_of_outlink (o : outlink) : hqurl :=
  HU [] (o_text o) (o_via o) (hops_to_path (o_hops o)).

(* what the HQ does with an accepted URL: it gives it an id, the rest is kept *)
Definition hq_assign (id : bytes) (u : hqurl) : hqurl := HU id (hu_value u) (hu_via u) (hu_path u).

Definition seed_of_hq (u : hqurl) : seed :=
  SD (hu_id u) (hu_value u) (hu_via u) (path_to_hops (hu_path u)).

(* local queue payload *)
Record lqurl := LU { lu_id : bytes; lu_value : bytes; lu_via : bytes; lu_hops : N }.

Definition lq_of_outlink (o : outlink) : lqurl := LU [] (o_text o) (o_via o) (o_hops o).
Definition seed_of_lq (u : lqurl) : seed := SD (lu_id u) (lu_value u) (lu_via u) (lu_hops u).

Definition seed_eqb (a c : seed) : bool :=
  bytes_eqb (sd_id a) (sd_id c) && bytes_eqb (sd_raw a) (sd_raw c)
  && bytes_eqb (sd_via a) (sd_via c) && N.eqb (sd_hops a) (sd_hops c).

Definition outlink_eqb (a c : outlink) : bool :=
  bytes_eqb (o_text a) (o_text c) && bytes_eqb (o_via a) (o_via c) && N.eqb (o_hops a) (o_hops c).
