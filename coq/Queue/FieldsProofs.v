(* C15 - hop/path round trip and "the fields survive the way through the queue". *)
From Coq Require Import List Ascii ZArith NArith Lia.
From ZenoV Require Import Lib.Hex Queue.HopsPath Queue.LqDb Queue.Json Queue.JsonProofs Queue.Fields.
Import ListNotations.

Lemma count_L_repeat : forall n, count_L (repeat chL n) = n.
Proof. induction n as [|n IH]; simpl; [reflexivity|]. rewrite IH. reflexivity. Qed.

Lemma count_L_app : forall p q, count_L (p ++ q) = count_L p + count_L q.
Proof.
  induction p as [|c p IH]; intros q; simpl; [reflexivity|].
  destruct (Ascii.eqb c chL); simpl; rewrite IH; reflexivity.
Qed.

(* hops -> "LL...L" -> hops is the identity for every hop count; the other direction holds
   exactly for paths made of L only (an HQ path may carry other letters: they are not counted) *)
Theorem hops_roundtrip_lemma :
  (forall h, path_to_hops (hops_to_path h) = h)
  /\ (forall p q, path_to_hops (p ++ q) = (path_to_hops p + path_to_hops q)%N)
  /\ (forall p, hops_to_path (path_to_hops p) = p <-> Forall (fun c => c = chL) p).
Proof.
  split; [|split].
  - intros h. unfold path_to_hops, hops_to_path. rewrite count_L_repeat. apply N2Nat.id.
  - intros p q. unfold path_to_hops. rewrite count_L_app. lia.
  - intros p. unfold path_to_hops, hops_to_path. rewrite Nat2N.id. split.
    + intros H. rewrite <- H. clear H. induction (count_L p); simpl; constructor; auto.
    + induction p as [|c p IH]; intros H; simpl; [reflexivity|].
      inversion H; subst. simpl. f_equal. apply IH; assumption.
Qed.

Example hops_roundtrip_nonvacuous :
  hops_to_path 3 = bs "LLL" /\ path_to_hops (bs "LRLEL") = 3%N /\ path_to_hops [] = 0%N.
Proof. vm_compute. repeat split. Qed.

(* An outlink found on page [parent] at hop count [h] reaches the queue and comes back as a seed
   with its text unchanged, the parent page as via, hop count h+1 and the id the queue gave it -
   through crawl HQ (JSON wire, hops encoded as a path) for every well-formed UTF-8 text and
   parent, and through the local queue (a row that is added, possibly claimed/reset any number
   of times, and read back) for EVERY byte string. *)
Theorem outlink_fields_kept_lemma : forall parent h text id,
  let o := mk_outlink parent h text in
  (valid_utf8 text = true -> valid_utf8 parent = true ->
     seed_of_hq (hq_assign id (hq_wire (hq_of_outlink o))) = SD id text parent (h + 1))
  /\ seed_of_row (row_of_url (url_of_outlink id o)) = SD id text parent (h + 1)
  /\ (forall st, seed_of_row (Row id text parent (Z.of_N (h + 1)) st) = SD id text parent (h + 1)).
Proof.
  intros parent h text id o. unfold o, mk_outlink.
  split; [|split].
  - intros Ht Hp. unfold seed_of_hq, hq_assign, hq_wire, hq_of_outlink. simpl.
    rewrite (json_wire_valid _ Ht), (json_wire_valid _ Hp).
    rewrite json_wire_valid by (apply valid_repeat_ascii; reflexivity).
    destruct hops_roundtrip_lemma as [H _]. rewrite H. reflexivity.
  - unfold seed_of_row, row_of_url, url_of_outlink. simpl. rewrite N2Z.id. reflexivity.
  - intros st. unfold seed_of_row. simpl. rewrite N2Z.id. reflexivity.
Qed.

Example outlink_fields_nonvacuous :
  valid_utf8 (bs "http://a/x") = true /\ valid_utf8 (bs "http://p/") = true /\
  seed_of_hq (hq_assign (bs "id7") (hq_wire (hq_of_outlink (mk_outlink (bs "http://p/") 2 (bs "http://a/x")))))
  = SD (bs "id7") (bs "http://a/x") (bs "http://p/") 3.
Proof. vm_compute. repeat split. Qed.

(* The full statement - text unchanged through crawl HQ for ALL texts - is false for the code as
   it is: a text (or parent URL) that is not well-formed UTF-8 reaches the HQ with every
   offending byte replaced by U+FFFD (json.Marshal in the gocrawlhq client).  Known finding. *)
Definition outlink_fields_kept_hq_stmt : Prop := forall parent h text id,
  seed_of_hq (hq_assign id (hq_wire (hq_of_outlink (mk_outlink parent h text)))) = SD id text parent (h + 1).

Lemma outlink_fields_kept_hq_refuted : ~ outlink_fields_kept_hq_stmt.
Proof.
  intros H. specialize (H (bs "http://p.test/") 0%N (hx "687474703a2f2f6a2e746573742f636166e9") (bs "hq-0000")).
  vm_compute in H. discriminate H.
Qed.

(* every handed-out URL is either a seed or acknowledged at once, never both, never neither *)
Lemma consumer_partition : forall parses handed s, In s handed ->
  (In s (seeds_of parses handed) /\ ~ In s (filter (fun s => negb (parses (sd_raw s))) handed))
  \/ (~ In s (seeds_of parses handed) /\ In (sd_id s) (auto_finished parses handed)).
Proof.
  intros parses handed s Hin. unfold seeds_of, auto_finished.
  destruct (parses (sd_raw s)) eqn:E.
  - left. split; [apply filter_In; split; assumption|].
    intros H. apply filter_In in H as [_ H]. rewrite E in H. discriminate.
  - right. split.
    + intros H. apply filter_In in H as [_ H]. rewrite E in H. discriminate.
    + apply in_map. apply filter_In. split; [assumption|]. rewrite E. reflexivity.
Qed.

(* ---------- a fetch round of k sub-fetches ---------- *)

Lemma round_urls_app {U} : forall (a b : list (option (list U))),
  round_urls (a ++ b) = round_urls a ++ round_urls b.
Proof. intros a b. unfold round_urls. apply flat_map_app. Qed.

(* For every number of sub-fetches, every completion order and every pattern of failed sub-fetches:
   a URL is passed on by the round exactly when some successful sub-fetch received it (a failed
   sibling loses nothing, nothing is invented); it then becomes a seed when it parses and is
   acknowledged at once when it does not. *)
Theorem feed_round_keeps_all_lemma : forall (parses : bytes -> bool) (results : list (option (list seed))),
  (forall u, In u (round_urls results) <-> exists us, In (Some us) results /\ In u us)
  /\ (forall us u, In (Some us) results -> In u us ->
        (parses (sd_raw u) = true -> In u (seeds_of parses (round_urls results)))
        /\ (parses (sd_raw u) = false -> In (sd_id u) (auto_finished parses (round_urls results))))
  /\ (forall a b : list (option (list seed)), round_urls (a ++ b) = round_urls a ++ round_urls b)
  /\ List.length (round_urls results)
     = fold_right (fun r n => match r with Some us => List.length us + n | None => n end) 0 results.
Proof.
  intros parses results.
  assert (H1 : forall u, In u (round_urls results) <-> exists us, In (Some us) results /\ In u us).
  { intros u. unfold round_urls. rewrite in_flat_map. split.
    - intros (r & Hr & Hu). destruct r as [us|]; [exists us; split; assumption | destruct Hu].
    - intros (us & Hr & Hu). exists (Some us). split; assumption. }
  split; [exact H1|]. split; [|split].
  - intros us u Hr Hu. assert (Hin : In u (round_urls results)) by (apply H1; exists us; split; assumption).
    split; intros Hp.
    + unfold seeds_of. apply filter_In. split; assumption.
    + unfold auto_finished. apply in_map. apply filter_In. split; [assumption|]. rewrite Hp. reflexivity.
  - intros a b. apply round_urls_app.
  - clear H1. unfold round_urls. induction results as [|r rs IH]; simpl; [reflexivity|].
    rewrite app_length, IH. destruct r; simpl; reflexivity.
Qed.

Example feed_round_nonvacuous :
  let a := SD (bs "1") (bs "http://a/") [] 0 in
  let b := SD (bs "2") (bs "not a url") [] 1 in
  let c := SD (bs "3") (bs "http://c/") [] 2 in
  round_urls [Some [a; b]; None; Some [c]] = [a; b; c]
  /\ seeds_of (fun t => match t with "h"%char :: _ => true | _ => false end) (round_urls [None; Some [a; b]; Some [c]]) = [a; c].
Proof. vm_compute. split; reflexivity. Qed.
