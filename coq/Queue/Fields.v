(* C15 - the local-queue leg of the field mappings (outlink -> Add argument -> row -> seed) and the
   consumers' decision what to do with a URL handed out by the queue.

   Go: lq/producer.go producerReceiver:  sqlc_model.Url{Value: item.GetURL().Raw, Via: item.GetSeedVia(),
                                                         Hops: int64(item.GetURL().GetHops())}
       lq/client.go Add:                 url.ID == "" -> uuid.New()   (the id is the [id] argument here)
       lq/consumer.go consumerSender:    models.URL{Raw: URL.Value, Hops: int(URL.Hops)}; NewItem(URL.ID, &parsedURL, URL.Via)
       hq/consumer.go, lq/consumer.go:   parsedURL.Parse() fails -> the item goes straight to finishCh
                                         (it is acknowledged by id without ever being a seed) *)
From Coq Require Import List ZArith NArith.
From ZenoV Require Import Lib.Hex Queue.HopsPath Queue.LqDb Queue.Json.
Import ListNotations.

(* hq/producer.go -> gocrawlhq.Client.Add -> HTTP body (JSON) -> crawl HQ: every string field
   crosses the JSON wire (Queue/Json.v) *)
Definition hq_wire (u : hqurl) : hqurl :=
  HU (json_wire (hu_id u)) (json_wire (hu_value u)) (json_wire (hu_via u)) (json_wire (hu_path u)).

Definition url_of_outlink (id : bytes) (o : outlink) : url :=
  Url id (o_text o) (o_via o) (Z.of_N (o_hops o)).

Definition seed_of_row (r : row) : seed := SD (r_id r) (r_value r) (r_via r) (Z.to_N (r_hops r)).

(* what a consumer does with the URLs of one Get: [parses] is url.ParseRequestURI (an oracle);
   a URL that parses becomes a seed for the reactor, one that does not is finished at once *)
Section Consumer.
Variable parses : bytes -> bool.

Definition seeds_of (handed : list seed) : list seed := filter (fun s => parses (sd_raw s)) handed.
Definition auto_finished (handed : list seed) : list bytes :=
  map sd_id (filter (fun s => negb (parses (sd_raw s))) handed).
End Consumer.

(* hq/consumer.go getURLs: one fetch round is ONE Get (--hq-batch-concurrency 1) or k concurrent
   Gets of batchSize/k URLs each.  A sub-fetch either returns the URLs the HQ handed out (and has
   marked as claimed by this crawler) or fails (5xx, reset, timeout, empty feed): [None].  The
   results are listed in the order the sub-fetches completed (a scheduling choice carried by the
   list).  What the round passes on is everything every successful sub-fetch received. *)
Definition round_urls {U : Type} (results : list (option (list U))) : list U :=
  flat_map (fun r => match r with Some us => us | None => [] end) results.
