(* C17 - what the generated case files evaluate: model-vs-implementation differences and the
   property's monitors on the implementation's own snapshots. *)
From ZenoV Require Import Lib.Harness Stats.Atomics.
Open Scope N_scope.

(* what the package reports at quiescence *)
Record snap := Snap {
  s_urls : N; s_seeds : N;              (* rate.getTotal() *)
  s_tui_urls : N; s_tui_seeds : N;      (* GetMapTUI()["Total URL crawled"], ["Finished seeds"] *)
  s_cnt : list N;                       (* the four XRoutinesGet() *)
  s_tui_cnt : list N;                   (* the same through GetMapTUI() *)
  s_mean : list (N * N);                (* raw (count, sum) of the three means *)
  s_mean_ok : bool;                     (* each Mean*Get() == float64(sum)/float64(count), 0 if count == 0 *)
  s_keys : list (N * N);                (* rateBucket.getAllTotal(): (key id, total), sorted *)
  s_paused : bool; s_warc : N;
  s_misc_ok : bool }.                   (* TUI paused/warc/mean agree with the getters; getTotal(k) agrees with getAllTotal *)

Record phase := Ph {
  p_conc : bool;                        (* one goroutine per script / a single sequential script *)
  p_scripts : list (list (op * N));     (* run-length encoded calls *)
  p_post : snap;
  p_raced : bool }.                     (* the race detector reported during this phase *)

Record scase := SC { sc_init : snap; sc_phases : list phase }.

Definition rs_mem' (x : val * mem * list N * list action) : mem := snd (fst (fst x)).
Definition cids : list cid := [CPre; CArch; CPost; CFin].
Definition mids : list mid := [MResp; MBody; MFeed].
Definition b2n (b : bool) : N := if b then 1 else 0.

(* ---- the snapshot as a list of (word, value) *)
Fixpoint zipc {A B} (a : list A) (b : list B) : list (A * B) :=
  match a, b with x :: a', y :: b' => (x, y) :: zipc a' b' | _, _ => [] end.
Definition cells (s : snap) : list (loc * N) :=
  [(LTotal RUrls, s_urls s); (LTotal RSeeds, s_seeds s); (LPaused, b2n (s_paused s)); (LWarcQ, s_warc s)]
  ++ map (fun cv => (LCnt (fst cv), snd cv)) (zipc cids (s_cnt s))
  ++ flat_map (fun mv => [(LMCount (fst mv), fst (snd mv)); (LMSum (fst mv), snd (snd mv))]) (zipc mids (s_mean s))
  ++ flat_map (fun kv => [(LTotal (RKey (fst kv)), snd kv); (LPresent (fst kv), 1)]) (s_keys s).
Definition mem_of (s : snap) : mem := fold_left (fun m lv => set m (fst lv) (snd lv)) (cells s) [].

(* ---- run-length encoded scripts *)
Definition expand (segs : list (op * N)) : list op :=
  flat_map (fun on => N.iter (snd on) (cons (fst on)) []) segs.
Definition all_segs (ph : phase) : list (op * N) := concat (p_scripts ph).
Definition sigma_segs (l : loc) (segs : list (op * N)) : N :=
  fold_right (fun on a => delta l (fst on) * snd on + a) 0 segs.
Definition additive_segs (l : loc) (segs : list (op * N)) : bool :=
  forallb (fun on => negb (clobbers l (fst on))) segs.
Definition key_incremented (k : N) (segs : list (op * N)) : bool :=
  existsb (fun on => incr_of_key k (fst on) && negb (snd on =? 0)) segs.
Definition incremented_keys (segs : list (op * N)) : list N :=
  flat_map (fun on => match fst on with ORateIncr (RKey k) _ => if snd on =? 0 then [] else [k] | _ => [] end) segs.

Definition lookup (kvs : list (N * N)) (k : N) : option N :=
  match filter (fun kv => fst kv =? k) kvs with kv :: _ => Some (snd kv) | [] => None end.
Definition has_key (kvs : list (N * N)) (k : N) : bool := match lookup kvs k with Some _ => true | None => false end.
Definition key_total (kvs : list (N * N)) (k : N) : N := match lookup kvs k with Some v => v | None => 0 end.
Fixpoint listN_eqb (a b : list N) : bool :=
  match a, b with [] , [] => true | x :: a', y :: b' => (x =? y) && listN_eqb a' b' | _, _ => false end.

(* ---- correspondence: the model's prediction of the next snapshot *)
Definition pred_conc (pre : mem) (segs : list (op * N)) (l : loc) : option N :=
  match l with
  | LPresent k => Some (if key_incremented k segs then 1 else get pre l)
  | _ => if additive_segs l segs then Some (wrap (get pre l + sigma_segs l segs)) else None
  end.

Definition phase_diff (pre : snap) (ph : phase) : bool :=
  let m0 := mem_of pre in
  let segs := all_segs ph in
  let post := p_post ph in
  if p_conc ph then
    existsb (fun lv => match pred_conc m0 segs (fst lv) with Some v => negb (v =? snd lv) | None => false end) (cells post)
    || negb (forallb (has_key (s_keys post)) (map fst (s_keys pre) ++ incremented_keys segs))
  else
    let m1 := rs_mem' (runseq (compile (expand segs)) [] m0) in
    existsb (fun lv => negb (get m1 (fst lv) =? snd lv)) (cells post)
    || negb (forallb (has_key (s_keys post)) (keys m1)).

Fixpoint phases_diff (pre : snap) (phs : list phase) : bool :=
  match phs with
  | [] => false
  | ph :: r => phase_diff pre ph || phases_diff (p_post ph) r
  end.
Definition diff_case (c : scase) : bool := phases_diff (sc_init c) (sc_phases c).

(* ---- monitors: the theorems' predicates on the snapshots *)
Fixpoint all_phases (f : snap -> phase -> bool) (pre : snap) (phs : list phase) : bool :=
  match phs with
  | [] => true
  | ph :: r => f pre ph && all_phases f (p_post ph) r
  end.
Definition mon_of (f : snap -> phase -> bool) (c : scase) : bool := all_phases f (sc_init c) (sc_phases c).

(* 0: totals = initial + everything issued, resets and getters notwithstanding (C17_totals_exact) *)
Definition ph_totals (pre : snap) (ph : phase) : bool :=
  let segs := all_segs ph in
  let post := p_post ph in
  (s_urls post =? wrap (s_urls pre + sigma_segs (LTotal RUrls) segs))
  && (s_seeds post =? wrap (s_seeds pre + sigma_segs (LTotal RSeeds) segs))
  && forallb (fun k => key_total (s_keys post) k =? wrap (key_total (s_keys pre) k + sigma_segs (LTotal (RKey k)) segs))
             (map fst (s_keys pre) ++ map fst (s_keys post) ++ incremented_keys segs)
  && forallb (has_key (s_keys post)) (map fst (s_keys pre) ++ incremented_keys segs)
  && forallb (fun k => has_key (s_keys pre) k || key_incremented k segs) (map fst (s_keys post))
  && (s_tui_urls post =? s_urls post) && (s_tui_seeds post =? s_seeds post).

(* 1: means without reset: count = number of adds, sum = sum of values (C17_mean_exact) *)
Definition ph_means (pre : snap) (ph : phase) : bool :=
  let segs := all_segs ph in
  s_mean_ok (p_post ph)
  && forallb (fun x => let '(m, (pc, ps), (qc, qs)) := x in
       if additive_segs (LMCount m) segs && additive_segs (LMSum m) segs
       then (qc =? wrap (pc + sigma_segs (LMCount m) segs)) && (qs =? wrap (ps + sigma_segs (LMSum m) segs))
       else true)
     (zipc (zipc mids (s_mean pre)) (s_mean (p_post ph))).

(* 2: gauges without reset = initial + incr - decr (C17_additive_exact / C17_gauge_exact) *)
Definition ph_gauges (pre : snap) (ph : phase) : bool :=
  let segs := all_segs ph in
  listN_eqb (s_tui_cnt (p_post ph)) (s_cnt (p_post ph))
  && forallb (fun x => let '(c, p, q) := x in
       if additive_segs (LCnt c) segs then q =? wrap (p + sigma_segs (LCnt c) segs) else true)
     (zipc (zipc cids (s_cnt pre)) (s_cnt (p_post ph))).

(* 3: means under concurrent reset stay consistent (C17_mean_consistent_under_reset) *)
Definition values_added (m : mid) (segs : list (op * N)) : list N :=
  flat_map (fun on => match fst on with OMeanAdd m' v => if mid_eqb m' m && negb (snd on =? 0) then [v] else [] | _ => [] end) segs.
Definition ph_mean_consistent (pre : snap) (ph : phase) : bool :=
  let segs := all_segs ph in
  forallb (fun x => let '(m, (pc, ps), (qc, qs)) := x in
       match values_added m segs with
       | v :: r => if forallb (N.eqb v) r && (ps =? wrap (pc * v)) then qs =? wrap (qc * v) else true
       | [] => true
       end)
     (zipc (zipc mids (s_mean pre)) (s_mean (p_post ph))).

(* 4: no data race reported (the model's atomicity) *)
Definition ph_norace (_ : snap) (ph : phase) : bool := negb (p_raced ph).
(* 5: the reporting paths agree with each other *)
Definition ph_misc (_ : snap) (ph : phase) : bool := s_misc_ok (p_post ph).

Definition diffs (l : list scase) := bad_idx diff_case l.
Definition mons (l : list scase) :=
  mon_idx [mon_of ph_totals; mon_of ph_means; mon_of ph_gauges; mon_of ph_mean_consistent; mon_of ph_norace; mon_of ph_misc] l.
