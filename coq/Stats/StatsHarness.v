(* C17 - what the generated case files evaluate: model-vs-implementation differences and the
   property's monitors on the implementation's own snapshots. *)
From ZenoV Require Import Lib.Harness Stats.Atomics.
Open Scope N_scope.

(* what the package reports at quiescence *)
Record snap := Snap {
  s_urls : N; s_seeds : N;              (* rate.getTotal() *)
  s_tui_urls : N; s_tui_seeds : N;      (* GetMapTUI()["Total URL crawled"], ["Finished seeds"] *)
  s_cnt : list N;                       (* the four XRoutinesGet() *)
  s_tui_cnt : list N;                   (* the same through GetMapTUI() *)
  s_mean : list (N * N);                (* raw (count, sum) of the three means *)
  s_mean_ok : bool;                     (* each Mean*Get() == float64(sum)/float64(count), 0 if count == 0 *)
  s_keys : list (N * N);                (* rateBucket.getAllTotal(): (key id, total), sorted *)
  s_paused : bool; s_warc : N;
  s_misc_ok : bool }.                   (* TUI paused/warc/mean agree with the getters; getTotal(k) agrees with getAllTotal *)

Record phase := Ph {
  p_conc : bool;                        (* one goroutine per script / a single sequential script *)
  p_scripts : list (list (op * N));     (* run-length encoded calls *)
  p_post : snap;
  p_raced : bool }.                     (* the race detector reported during this phase *)

Record scase := SC { sc_init : snap; sc_phases : list phase }.

Definition rs_mem' (x : val * mem * list N * list action) : mem := snd (fst (fst x)).
Definition cids : list cid := [CPre; CArch; CPost; CFin].
Definition mids : list mid := [MResp; MBody; MFeed].
Definition b2n (b : bool) : N := if b then 1 else 0.

(* ---- the snapshot as a list of (word, value) *)
Fixpoint zipc {A B} (a : list A) (b : list B) : list (A * B) :=
  match a, b with x :: a', y :: b' => (x, y) :: zipc a' b' | _, _ => [] end.
Definition cells (s : snap) : list (loc * N) :=
  [(LTotal RUrls, s_urls s); (LTotal RSeeds, s_seeds s); (LPaused, b2n (s_paused s)); (LWarcQ, s_warc s)]
  ++ map (fun cv => (LCnt (fst cv), snd cv)) (zipc cids (s_cnt s))
  ++ flat_map (fun mv => [(LMCount (fst mv), fst (snd mv)); (LMSum (fst mv), snd (snd mv))]) (zipc mids (s_mean s))
  ++ flat_map (fun kv => [(LTotal (RKey (fst kv)), snd kv); (LPresent (fst kv), 1)]) (s_keys s).
Definition mem_of (s : snap) : mem := fold_left (fun m lv => set m (fst lv) (snd lv)) (cells s) [].

(* ---- run-length encoded scripts: expand, sigma_segs, additive_segs, key_incremented are in Atomics.v *)
Definition all_segs (ph : phase) : list (op * N) := concat (p_scripts ph).
Definition incremented_keys (segs : list (op * N)) : list N :=
  flat_map (fun on => match fst on with ORateIncr (RKey k) _ => if snd on =? 0 then [] else [k] | _ => [] end) segs.

Definition lookup (kvs : list (N * N)) (k : N) : option N :=
  match filter (fun kv => fst kv =? k) kvs with kv :: _ => Some (snd kv) | [] => None end.
Definition has_key (kvs : list (N * N)) (k : N) : bool := match lookup kvs k with Some _ => true | None => false end.
Definition key_total (kvs : list (N * N)) (k : N) : N := match lookup kvs k with Some v => v | None => 0 end.
Fixpoint listN_eqb (a b : list N) : bool :=
  match a, b with [] , [] => true | x :: a', y :: b' => (x =? y) && listN_eqb a' b' | _, _ => false end.

(* ---- correspondence: the model's prediction of the next snapshot *)
Definition pred_conc (pre : mem) (segs : list (op * N)) (l : loc) : option N :=
  match l with
  | LPresent k => Some (if key_incremented k segs then 1 else get pre l)
  | _ => if additive_segs l segs then Some (wrap (get pre l + sigma_segs l segs)) else None
  end.

Definition phase_diff (pre : snap) (ph : phase) : bool :=
  let m0 := mem_of pre in
  let segs := all_segs ph in
  let post := p_post ph in
  if p_conc ph then
    existsb (fun lv => match pred_conc m0 segs (fst lv) with Some v => negb (v =? snd lv) | None => false end) (cells post)
    || negb (forallb (has_key (s_keys post)) (map fst (s_keys pre) ++ incremented_keys segs))
  else
    let m1 := rs_mem' (runseq (compile (expand segs)) [] m0) in
    existsb (fun lv => negb (get m1 (fst lv) =? snd lv)) (cells post)
    || negb (forallb (has_key (s_keys post)) (keys m1)).

Fixpoint phases_diff (pre : snap) (phs : list phase) : bool :=
  match phs with
  | [] => false
  | ph :: r => phase_diff pre ph || phases_diff (p_post ph) r
  end.
Definition diff_case (c : scase) : bool := phases_diff (sc_init c) (sc_phases c).

(* ---- monitors: the theorems' predicates on the snapshots *)
Fixpoint all_phases (f : snap -> phase -> bool) (pre : snap) (phs : list phase) : bool :=
  match phs with
  | [] => true
  | ph :: r => f pre ph && all_phases f (p_post ph) r
  end.
Definition mon_of (f : snap -> phase -> bool) (c : scase) : bool := all_phases f (sc_init c) (sc_phases c).

(* 0: totals = initial + everything issued, resets and getters notwithstanding (C17_totals_exact) *)
Definition ph_totals (pre : snap) (ph : phase) : bool :=
  let segs := all_segs ph in
  let post := p_post ph in
  (s_urls post =? wrap (s_urls pre + sigma_segs (LTotal RUrls) segs))
  && (s_seeds post =? wrap (s_seeds pre + sigma_segs (LTotal RSeeds) segs))
  && forallb (fun k => key_total (s_keys post) k =? wrap (key_total (s_keys pre) k + sigma_segs (LTotal (RKey k)) segs))
             (map fst (s_keys pre) ++ map fst (s_keys post) ++ incremented_keys segs)
  && forallb (has_key (s_keys post)) (map fst (s_keys pre) ++ incremented_keys segs)
  && forallb (fun k => has_key (s_keys pre) k || key_incremented k segs) (map fst (s_keys post))
  && (s_tui_urls post =? s_urls post) && (s_tui_seeds post =? s_seeds post).

(* 1: means without reset: count = number of adds, sum = sum of values (C17_mean_exact) *)
Definition ph_means (pre : snap) (ph : phase) : bool :=
  let segs := all_segs ph in
  s_mean_ok (p_post ph)
  && forallb (fun x => let '(m, (pc, ps), (qc, qs)) := x in
       if additive_segs (LMCount m) segs && additive_segs (LMSum m) segs
       then (qc =? wrap (pc + sigma_segs (LMCount m) segs)) && (qs =? wrap (ps + sigma_segs (LMSum m) segs))
       else true)
     (zipc (zipc mids (s_mean pre)) (s_mean (p_post ph))).

(* 2: gauges without reset = initial + incr - decr (C17_additive_exact / C17_gauge_exact) *)
Definition ph_gauges (pre : snap) (ph : phase) : bool :=
  let segs := all_segs ph in
  listN_eqb (s_tui_cnt (p_post ph)) (s_cnt (p_post ph))
  && forallb (fun x => let '(c, p, q) := x in
       if additive_segs (LCnt c) segs then q =? wrap (p + sigma_segs (LCnt c) segs) else true)
     (zipc (zipc cids (s_cnt pre)) (s_cnt (p_post ph))).

(* 3: means under concurrent reset stay consistent (C17_mean_consistent_under_reset) *)
Definition values_added (m : mid) (segs : list (op * N)) : list N :=
  flat_map (fun on => match fst on with OMeanAdd m' v => if mid_eqb m' m && negb (snd on =? 0) then [v] else [] | _ => [] end) segs.
Definition ph_mean_consistent (pre : snap) (ph : phase) : bool :=
  let segs := all_segs ph in
  forallb (fun x => let '(m, (pc, ps), (qc, qs)) := x in
       match values_added m segs with
       | v :: r => if forallb (N.eqb v) r && (ps =? wrap (pc * v)) then qs =? wrap (qc * v) else true
       | [] => true
       end)
     (zipc (zipc mids (s_mean pre)) (s_mean (p_post ph))).

(* 4: no data race reported (the model's atomicity) *)
Definition ph_norace (_ : snap) (ph : phase) : bool := negb (p_raced ph).
(* 5: the reporting paths agree with each other *)
Definition ph_misc (_ : snap) (ph : phase) : bool := s_misc_ok (p_post ph).

Definition diffs (l : list scase) := bad_idx diff_case l.
Definition mons (l : list scase) :=
  mon_idx [mon_of ph_totals; mon_of ph_means; mon_of ph_gauges; mon_of ph_mean_consistent; mon_of ph_norace; mon_of ph_misc] l.

(* ================================================================ real stage workers *)
Record gread := GR { gr_get : list N; gr_tui : list N; gr_prom : list N }.   (* pre, arch, post, fin *)
Record gcase := GC {
  g_n : N;                              (* config.WorkersCount *)
  g_started : list cid; g_stops : list cid;
  g_ok : bool;                          (* the child ran to the end *)
  g_reached : bool;                     (* ... and saw every started stage report n workers *)
  g_burst : list (list (op * N));       (* calls made by other goroutines while the workers are live *)
  g_classes : list (N * N);             (* key id -> first digit 2..5 of the key, else 0 *)
  g_urls : N; g_seeds : N; g_keys : list (N * N);
  g_promtot : list N;                   (* /metrics: url_crawled, finished_seeds, http_2xx .. http_5xx *)
  g_live : gread; g_steps : list gread; g_raced : bool }.

Definition stages3 : list cid := [CPre; CArch; CPost].
Definition memc (l : list cid) (c : cid) : bool := existsb (cid_eqb c) l.
Definition Lb (i : nat) : label := (i, []).

(* ---- correspondence: the transition system itself is run on the case.
   goroutines: n workers per started stage (idle body), then the burst goroutines *)
Definition op_steps (o : op) : N :=
  match o with
  | ORateIncr (RKey _) _ | OCntIncr _ _ | OCntDecr _ _ | OMeanAdd _ _ | OMeanGet _ | OCntGet _ => 1
  | ORateIncr _ _ => 2
  | OTui _ _ _ _ => 40
  | _ => 8
  end.
Definition script_steps (segs : list (op * N)) : N :=
  fold_right (fun on a => op_steps (fst on) * snd on + a) 1 segs.
Definition gthreads (c : gcase) : list prog :=
  flat_map (fun s => if memc (g_started c) s then repeat (worker s []) (N.to_nat (g_n c)) else []) stages3
  ++ map (fun segs => compile (expand segs)) (g_burst c).
Definition nworkers (c : gcase) : nat :=
  length (flat_map (fun s => if memc (g_started c) s then repeat tt (N.to_nat (g_n c)) else []) stages3).
(* index of the first worker of stage s *)
Definition stage_off (c : gcase) (s : cid) : nat :=
  length (flat_map (fun s' => if memc (g_started c) s' then repeat tt (N.to_nat (g_n c)) else [])
            (match s with CPre => [] | CArch => [CPre] | _ => [CPre; CArch] end)).
Definition sched_start (c : gcase) : list label := map Lb (List.seq 0 (nworkers c)).
Definition sched_burst (c : gcase) : list label :=
  let ids := List.seq (nworkers c) (length (g_burst c)) in
  let rounds := fold_right N.max 0 (map script_steps (g_burst c)) in
  N.iter rounds (fun acc => map Lb ids ++ acc) [].
Definition sched_stop (c : gcase) (s : cid) : list label :=
  if memc (g_started c) s then map Lb (List.seq (stage_off c s) (N.to_nat (g_n c))) else [].

Definition gauges_of (m : mem) : list N := map (fun s => get m (LCnt s)) stages3.


Fixpoint stops_diff (c : gcase) (cf : cfg) (stops : list cid) (obs : list gread) : bool :=
  match stops, obs with
  | s :: stops', o :: obs' =>
      let cf' := run cf (sched_stop c s) in
      negb (listN_eqb (gauges_of (c_mem cf')) (firstn 3 (gr_get o))) || stops_diff c cf' stops' obs'
  | [], [] => false
  | _, _ => true
  end.

Definition gdiff_case (c : gcase) : bool :=
  if negb (g_ok c && g_reached c) then true else
  let cf1 := run (start (gthreads c) []) (sched_start c) in
  let cf2 := run cf1 (sched_burst c) in
  let m := c_mem cf2 in
  negb (forallb is_ret (skipn (nworkers c) (c_threads cf2)))       (* the burst ran to completion *)
  || negb (listN_eqb (gauges_of m) (firstn 3 (gr_get (g_live c))))
  || negb (get m (LTotal RUrls) =? g_urls c) || negb (get m (LTotal RSeeds) =? g_seeds c)
  || negb (forallb (fun kv => get m (LTotal (RKey (fst kv))) =? snd kv) (g_keys c))
  || negb (forallb (has_key (g_keys c)) (keys m))
  || stops_diff c cf2 (g_stops c) (g_steps c)
  || (let cfend := fold_left (fun cf s => run cf (sched_stop c s)) (g_stops c) cf2 in
      if forallb (memc (g_stops c)) (g_started c) then negb (finished cfend) else false).
Definition gdiffs (l : list gcase) := bad_idx gdiff_case l.

(* ---- monitors on the child's readings *)
Definition expect_gauges (c : gcase) (stopped : list cid) : list N :=
  map (fun s => if memc (g_started c) s && negb (memc stopped s) then g_n c else 0) stages3.
Definition read_ok (exp : list N) (r : gread) : bool :=
  listN_eqb exp (firstn 3 (gr_get r)) && listN_eqb exp (firstn 3 (gr_tui r))
  && (match gr_prom r with [] => true | p => listN_eqb exp (firstn 3 p) end).

(* 0: with the workers up (and other goroutines hammering the package) every gauge = live workers *)
Definition gmon_live (c : gcase) : bool := g_ok c && g_reached c && read_ok (expect_gauges c []) (g_live c).
(* 1: after each Stop the stopped stages read 0 and the others are unchanged; all 0 at the end *)
Fixpoint steps_ok (c : gcase) (stopped : list cid) (stops : list cid) (obs : list gread) : bool :=
  match stops, obs with
  | s :: stops', o :: obs' => read_ok (expect_gauges c (s :: stopped)) o && steps_ok c (s :: stopped) stops' obs'
  | [], [] => true
  | _, _ => false
  end.
Definition gmon_stop (c : gcase) : bool := g_ok c && steps_ok c [] (g_stops c) (g_steps c).
(* 2: totals after the burst = number of events, on every reporting path *)
Definition class_sum (c : gcase) (cl : N) : N :=
  fold_right (fun kc a => if snd kc =? cl then sigma_segs (LTotal (RKey (fst kc))) (concat (g_burst c)) + a else a) 0 (g_classes c).
Definition gmon_totals (c : gcase) : bool :=
  let segs := concat (g_burst c) in
  g_ok c
  && (g_urls c =? sigma_segs (LTotal RUrls) segs) && (g_seeds c =? sigma_segs (LTotal RSeeds) segs)
  && forallb (fun k => key_total (g_keys c) k =? sigma_segs (LTotal (RKey k)) segs)
             (map fst (g_keys c) ++ incremented_keys segs)
  && forallb (has_key (g_keys c)) (incremented_keys segs)
  && (match g_promtot c with
      | [] => true
      | p => listN_eqb p [sigma_segs (LTotal RUrls) segs; sigma_segs (LTotal RSeeds) segs;
                          class_sum c 2; class_sum c 3; class_sum c 4; class_sum c 5]
      end).
Definition gmon_norace (c : gcase) : bool := negb (g_raced c).
Definition gmons (l : list gcase) := mon_idx [gmon_live; gmon_stop; gmon_totals; gmon_norace] l.

(* ================================================================ Start/Stop cycles of a real stage *)
Record ycase := YC {
  y_stage : cid; y_n : N; y_cycles : N; y_done : N;
  y_reached : bool;                     (* in every cycle all workers came up *)
  y_live : list (N * N);                (* (gauge reading with the workers up, number of cycles) *)
  y_after : list (N * N);               (* (gauge reading right after Stop() returned, number of cycles) *)
  y_plive : list (N * N);               (* the same two readings of the EXPORTED (Prometheus) gauge *)
  y_pafter : list (N * N) }.

(* correspondence: the transition system on n workers  Incr; Decr; wg.Done()  with the counter at n *)
Definition ydiff_case (c : ycase) : bool :=
  let n := N.to_nat (y_n c) in
  let s := y_stage c in
  let ids := List.seq 0 n in
  let cf0 := start (repeat (stage_worker s []) n) [(LWg s, y_n c)] in
  let cf1 := run cf0 (map Lb ids) in                           (* every worker did its Incr *)
  let cf2 := run cf1 (map Lb ids ++ map Lb ids) in             (* ... its Decr and its wg.Done() *)
  negb (y_reached c) || negb (y_done c =? y_cycles c)
  || stop_returned s (c_mem cf1) || negb (stop_returned s (c_mem cf2)) || negb (finished cf2)
  || negb (forallb (fun rc => fst rc =? get (c_mem cf1) (LCnt s)) (y_live c))
  || negb (forallb (fun rc => fst rc =? get (c_mem cf2) (LCnt s)) (y_after c))
  || negb (forallb (fun rc => fst rc =? get (c_mem cf1) (LCnt s)) (y_plive c))
  || negb (forallb (fun rc => fst rc =? get (c_mem cf2) (LCnt s)) (y_pafter c)).
Definition ydiffs (l : list ycase) := bad_idx ydiff_case l.

(* 0: workers up => gauge = number of workers, in every cycle *)
Definition ymon_live (c : ycase) : bool := y_reached c && forallb (fun rc => fst rc =? y_n c) (y_live c).
(* 1: Stop() returned => gauge = 0, in every cycle (C17_stop_returned_gauge_zero) *)
Definition ymon_stop (c : ycase) : bool :=
  forallb (fun rc => fst rc =? 0) (y_after c)
  && (fold_right (fun rc a => snd rc + a) 0 (y_after c) =? y_cycles c).
(* 2, 3: the same for the gauge as exported on /metrics (exported = internal = live workers) *)
Definition ymon_plive (c : ycase) : bool := forallb (fun rc => fst rc =? y_n c) (y_plive c).
Definition ymon_pstop (c : ycase) : bool :=
  forallb (fun rc => fst rc =? 0) (y_pafter c)
  && (fold_right (fun rc a => snd rc + a) 0 (y_pafter c) =? y_cycles c).
Definition ymons (l : list ycase) := mon_idx [ymon_live; ymon_stop; ymon_plive; ymon_pstop] l.

(* ================================================================ the counters as the archiver feeds them *)
Record hcase := HC {
  h_async : bool; h_retry : N;
  h_ok : bool;                               (* every seed came back from the archiver *)
  h_items : list (list N * list N);          (* per item: (status script, statuses the origin served) *)
  h_urls : N;                                (* URLs crawled total *)
  h_keys : list (N * N);                     (* (status, per-status total) *)
  h_extra : N }.                             (* requests for paths that were not planned (followed redirects) *)

(* retry_class, attempts, arch_calls: Atomics.v *)
Definition hdiff_case (c : hcase) : bool :=
  negb (h_ok c) || negb (h_extra c =? 0)
  || negb (forallb (fun it => listN_eqb (attempts (S (N.to_nat (h_retry c))) (fst it)) (snd it)) (h_items c))
  || (let segs := arch_calls (map (fun it => attempts (S (N.to_nat (h_retry c))) (fst it)) (h_items c)) in
      negb (h_urls c =? sigma_segs (LTotal RUrls) segs)
      || negb (forallb (fun k => key_total (h_keys c) k =? sigma_segs (LTotal (RKey k)) segs)
                       (map fst (h_keys c) ++ incremented_keys segs))).
Definition hdiffs (l : list hcase) := bad_idx hdiff_case l.

(* monitors: the reported counts against what the origin served to completion *)
Definition served_count (c : hcase) (s : N) : N :=
  fold_right (fun it a => N.of_nat (length (filter (N.eqb s) (snd it))) + a) 0 (h_items c).
Definition served_statuses (c : hcase) : list N := flat_map snd (h_items c).
(* 0: statuses archive() accepts (2xx, 3xx, 4xx but 408/425/429) *)
Definition hmon_accepted (c : hcase) : bool :=
  forallb (fun s => retry_class s || (key_total (h_keys c) s =? served_count c s))
          (served_statuses c ++ map fst (h_keys c)).
(* 1: statuses archive() retries on or gives up on (5xx, 408, 425, 429) *)
Definition hmon_retried (c : hcase) : bool :=
  forallb (fun s => negb (retry_class s) || (key_total (h_keys c) s =? served_count c s))
          (served_statuses c ++ map fst (h_keys c)).
(* 2: URLs crawled = items that left the archiver *)
Definition hmon_urls (c : hcase) : bool := h_ok c && (h_urls c =? N.of_nat (length (h_items c))).
Definition hmons (l : list hcase) := mon_idx [hmon_accepted; hmon_retried; hmon_urls] l.

(* ================================================================ the seeds-finished total as the finisher feeds it *)
Record fcase := FC {
  f_n : N; f_k : N; f_buf : N; f_drained : N;
  f_stop_ok : bool;                     (* finisher.Stop() returned *)
  f_marked : N;                         (* seeds for which reactor.MarkAsFinished succeeded (state table shrunk) *)
  f_counted : N;                        (* growth of the Seeds-finished total *)
  f_tui_ok : bool }.                    (* GetMapTUI()["Finished seeds"] = getTotal() *)
(* the finisher makes one SeedsFinishedIncr call per seed it marked as finished: there is no exit
   between the two in the worker *)
Definition fdiff_case (c : fcase) : bool :=
  negb (f_stop_ok c)
  || negb (f_counted c =? sigma_segs (LTotal RSeeds) [(ORateIncr RSeeds 1, f_marked c)])
  || negb (f_marked c <=? f_k c) || negb (N.min (f_k c) (f_buf c) <=? f_marked c).
Definition fdiffs (l : list fcase) := bad_idx fdiff_case l.
(* 0: finished in the reactor = counted *)
Definition fmon_exact (c : fcase) : bool := (f_counted c =? f_marked c) && f_tui_ok c.
(* 1: Stop() returned *)
Definition fmon_stop (c : fcase) : bool := f_stop_ok c.
Definition fmons (l : list fcase) := mon_idx [fmon_exact; fmon_stop] l.
