(* C17 - basic facts about Stats/Atomics.v: memory, runseq/bind, write sets *)
From Coq Require Import Lia Permutation.
From ZenoV Require Import Stats.Atomics.
Open Scope N_scope.

(* ================================================================ basics *)
Lemma W_pos : 0 < W. Proof. reflexivity. Qed.
Lemma W_neq0 : W <> 0. Proof. discriminate. Qed.
Lemma wrap_lt x : wrap x < W. Proof. apply N.mod_lt, W_neq0. Qed.
Lemma wrap_small x : x < W -> wrap x = x. Proof. apply N.mod_small. Qed.
Lemma wrap_wrap x : wrap (wrap x) = wrap x. Proof. apply N.mod_mod, W_neq0. Qed.
Lemma wrap_add_l x y : wrap (wrap x + y) = wrap (x + y).
Proof. apply N.add_mod_idemp_l, W_neq0. Qed.
Lemma wrap_add_r x y : wrap (x + wrap y) = wrap (x + y).
Proof. apply N.add_mod_idemp_r, W_neq0. Qed.

Lemma rid_eqb_spec a b : reflect (a = b) (rid_eqb a b).
Proof.
  destruct a, b; simpl; try (constructor; congruence).
  destruct (N.eqb_spec k k0); constructor; congruence.
Qed.
Lemma cid_eqb_spec a b : reflect (a = b) (cid_eqb a b).
Proof. destruct a, b; simpl; constructor; congruence. Qed.
Lemma mid_eqb_spec a b : reflect (a = b) (mid_eqb a b).
Proof. destruct a, b; simpl; constructor; congruence. Qed.
Lemma loc_eqb_spec a b : reflect (a = b) (loc_eqb a b).
Proof.
  destruct a, b; simpl; try (constructor; congruence);
    try (destruct (rid_eqb_spec r r0); constructor; congruence);
    try (destruct (cid_eqb_spec c c0); constructor; congruence);
    try (destruct (mid_eqb_spec m m0); constructor; congruence).
  destruct (N.eqb_spec k k0); constructor; congruence.
Qed.
Lemma loc_eqb_refl a : loc_eqb a a = true.
Proof. destruct (loc_eqb_spec a a); congruence. Qed.
Lemma loc_eqb_sym a b : loc_eqb a b = loc_eqb b a.
Proof. destruct (loc_eqb_spec a b), (loc_eqb_spec b a); congruence. Qed.

Lemma get_set m l v q : get (set m l v) q = if loc_eqb l q then v else get m q.
Proof.
  induction m as [|[l' v'] r IH]; simpl.
  - rewrite (loc_eqb_sym q l). reflexivity.
  - destruct (loc_eqb_spec l l') as [->|Hne]; simpl.
    + destruct (loc_eqb_spec q l') as [->|Hq].
      * rewrite loc_eqb_refl. reflexivity.
      * destruct (loc_eqb_spec l' q); congruence.
    + destruct (loc_eqb_spec q l') as [->|Hq].
      * destruct (loc_eqb_spec l l'); congruence.
      * exact IH.
Qed.
Lemma get_set_same m l v : get (set m l v) l = v.
Proof. rewrite get_set, loc_eqb_refl. reflexivity. Qed.
Lemma get_set_other m l v q : l <> q -> get (set m l v) q = get m q.
Proof. intros H. rewrite get_set. destruct (loc_eqb_spec l q); congruence. Qed.

(* memories of 64-bit words *)
Definition wfm (m : mem) : Prop := forall l, get m l < W.
Lemma wfm_nil : wfm []. Proof. intros l. reflexivity. Qed.
Lemma wfm_set m l v : wfm m -> v < W -> wfm (set m l v).
Proof. intros Hm Hv q. rewrite get_set. destruct (loc_eqb l q); auto. Qed.
Lemma wfm_exec a m : wfm m -> wfm (fst (exec a m)).
Proof.
  intros Hm. destruct a; simpl; try (apply wfm_set; auto using wrap_lt); auto.
  destruct (get m l =? old); simpl; auto. apply wfm_set; auto using wrap_lt.
Qed.

Definition is_load (a : action) : bool := match a with Load _ => true | _ => false end.
Lemma exec_other a m q : (is_load a = true \/ aloc a <> q) -> get (fst (exec a m)) q = get m q.
Proof.
  intros [H|H]; destruct a; simpl in *; try discriminate; auto;
    try (apply get_set_other; assumption).
  destruct (get m l =? old); simpl; auto. apply get_set_other; assumption.
Qed.

(* projections of runseq / step1 results *)
Definition rs_val (x : val * mem * list N * list action) : val := fst (fst (fst x)).
Definition rs_mem (x : val * mem * list N * list action) : mem := snd (fst (fst x)).
Definition rs_clk (x : val * mem * list N * list action) : list N := snd (fst x).
Definition rs_tr (x : val * mem * list N * list action) : list action := snd x.
Definition s1_prog (x : prog * mem * list action) : prog := fst (fst x).
Definition s1_mem (x : prog * mem * list action) : mem := snd (fst x).
Definition s1_tr (x : prog * mem * list action) : list action := snd x.

Lemma runseq_Do a k clk m :
  runseq (Do a k) clk m =
  let r := runseq (k (snd (exec a m))) clk (fst (exec a m)) in (rs_val r, rs_mem r, rs_clk r, a :: rs_tr r).
Proof. simpl. destruct (exec a m) as [m1 r]. simpl. destruct (runseq (k r) clk m1) as [[[v m2] c2] tr]. reflexivity. Qed.
Lemma runseq_Crit b k clk m :
  runseq (Crit b k) clk m =
  let r1 := runseq b clk m in let r2 := runseq (k (rs_val r1)) (rs_clk r1) (rs_mem r1) in
  (rs_val r2, rs_mem r2, rs_clk r2, rs_tr r1 ++ rs_tr r2).
Proof.
  simpl. destruct (runseq b clk m) as [[[r m1] c1] t1]. unfold rs_val, rs_clk, rs_mem, rs_tr; simpl.
  destruct (runseq (k r) c1 m1) as [[[v m2] c2] t2]. reflexivity.
Qed.
Lemma runseq_bind p f : forall clk m,
  runseq (bind p f) clk m =
  let r1 := runseq p clk m in let r2 := runseq (f (rs_val r1)) (rs_clk r1) (rs_mem r1) in
  (rs_val r2, rs_mem r2, rs_clk r2, rs_tr r1 ++ rs_tr r2).
Proof.
  induction p as [v|a k IH|k IH|k IH|b IHb k IH]; intros clk m.
  - cbn [bind runseq]. unfold rs_val, rs_mem, rs_clk, rs_tr. cbn [fst snd app].
    destruct (runseq (f v) clk m) as [[[? ?] ?] ?]; reflexivity.
  - change (bind (Do a k) f) with (Do a (fun r => bind (k r) f)).
    rewrite !runseq_Do. cbv zeta. rewrite IH. reflexivity.
  - simpl. apply IH.
  - simpl. apply IH.
  - change (bind (Crit b k) f) with (Crit b (fun r => bind (k r) f)).
    rewrite !runseq_Crit. cbv zeta. rewrite IH. cbv zeta. unfold rs_val, rs_mem, rs_clk, rs_tr; simpl.
    rewrite app_assoc. reflexivity.
Qed.

Lemma rs_mem_Do a k clk m :
  rs_mem (runseq (Do a k) clk m) = rs_mem (runseq (k (snd (exec a m))) clk (fst (exec a m))).
Proof. rewrite runseq_Do. reflexivity. Qed.
Lemma rs_val_Do a k clk m :
  rs_val (runseq (Do a k) clk m) = rs_val (runseq (k (snd (exec a m))) clk (fst (exec a m))).
Proof. rewrite runseq_Do. reflexivity. Qed.
Lemma rs_mem_Crit b k clk m :
  rs_mem (runseq (Crit b k) clk m) =
  rs_mem (runseq (k (rs_val (runseq b clk m))) (rs_clk (runseq b clk m)) (rs_mem (runseq b clk m))).
Proof. rewrite runseq_Crit. reflexivity. Qed.
Lemma rs_val_Crit b k clk m :
  rs_val (runseq (Crit b k) clk m) =
  rs_val (runseq (k (rs_val (runseq b clk m))) (rs_clk (runseq b clk m)) (rs_mem (runseq b clk m))).
Proof. rewrite runseq_Crit. reflexivity. Qed.
Lemma rs_mem_bind p f clk m :
  rs_mem (runseq (bind p f) clk m) =
  rs_mem (runseq (f (rs_val (runseq p clk m))) (rs_clk (runseq p clk m)) (rs_mem (runseq p clk m))).
Proof. rewrite runseq_bind. reflexivity. Qed.
Lemma rs_val_bind p f clk m :
  rs_val (runseq (bind p f) clk m) =
  rs_val (runseq (f (rs_val (runseq p clk m))) (rs_clk (runseq p clk m)) (rs_mem (runseq p clk m))).
Proof. rewrite runseq_bind. reflexivity. Qed.

(* ================================================================ write sets *)
(* [writes_in P p]: every action of p other than a Load is on a location satisfying P *)
Inductive writes_in (P : loc -> bool) : prog -> Prop :=
| WI_Ret v : writes_in P (Ret v)
| WI_Do a k : (is_load a = true \/ P (aloc a) = true) -> (forall r, writes_in P (k r)) -> writes_in P (Do a k)
| WI_Now k : (forall r, writes_in P (k r)) -> writes_in P (Now k)
| WI_Keys k : (forall ks, writes_in P (k ks)) -> writes_in P (Keys k)
| WI_Crit b k : writes_in P b -> (forall r, writes_in P (k r)) -> writes_in P (Crit b k).

Lemma writes_in_bind P p f : writes_in P p -> (forall v, writes_in P (f v)) -> writes_in P (bind p f).
Proof. induction 1; intros Hf; simpl; try constructor; auto. Qed.
Lemma writes_in_weaken (P Q : loc -> bool) p :
  (forall l, P l = true -> Q l = true) -> writes_in P p -> writes_in Q p.
Proof. intros HPQ. induction 1; constructor; auto. destruct H; auto. Qed.
Lemma writes_in_for_keys P f : (forall k, writes_in P (f k)) -> forall ks acc, writes_in P (for_keys ks f acc).
Proof.
  intros Hf. induction ks as [|k r IH]; intros acc; simpl.
  - constructor.
  - apply writes_in_bind; auto.
Qed.

Lemma writes_in_runseq P p : writes_in P p -> forall clk m,
  (forall l, P l = false -> get (rs_mem (runseq p clk m)) l = get m l)
  /\ (wfm m -> wfm (rs_mem (runseq p clk m))).
Proof.
  induction 1 as [v|a k Ha Hk IH|k Hk IH|k Hk IH|b k Hb IHb Hk IH]; intros clk m.
  - split; auto.
  - rewrite runseq_Do. cbv zeta. unfold rs_mem at 1 3. simpl.
    destruct (IH (snd (exec a m)) clk (fst (exec a m))) as [I1 I2]. split.
    + intros l Hl. rewrite I1 by assumption. apply exec_other.
      destruct Ha as [Ha|Ha]; [left; assumption|right; congruence].
    + intros Hw. apply I2, wfm_exec, Hw.
  - simpl. apply IH.
  - simpl. apply IH.
  - rewrite runseq_Crit. cbv zeta. unfold rs_mem at 1 4. simpl.
    destruct (IHb clk m) as [B1 B2].
    destruct (IH (rs_val (runseq b clk m)) (rs_clk (runseq b clk m)) (rs_mem (runseq b clk m))) as [I1 I2].
    split.
    + intros l Hl. rewrite I1 by assumption. apply B1; assumption.
    + intros Hw. apply I2, B2, Hw.
Qed.

Lemma writes_in_runseq_tr P p : writes_in P p -> forall clk m a,
  In a (rs_tr (runseq p clk m)) -> is_load a = true \/ P (aloc a) = true.
Proof.
  induction 1 as [v|a0 k0 Ha Hk0 IH|k0 Hk0 IH|k0 Hk0 IH|b0 k0 Hb0 IHb Hk0 IH]; intros clk m a Hin.
  - destruct Hin.
  - rewrite runseq_Do in Hin. cbv zeta in Hin. unfold rs_tr at 1 in Hin. simpl in Hin.
    destruct Hin as [<-|Hin]; [assumption|]. eapply IH; eassumption.
  - simpl in Hin. eapply IH; eassumption.
  - simpl in Hin. eapply IH; eassumption.
  - rewrite runseq_Crit in Hin. cbv zeta in Hin. unfold rs_tr at 1 in Hin. simpl in Hin.
    apply in_app_or in Hin. destruct Hin as [Hin|Hin]; [eapply IHb|eapply IH]; eassumption.
Qed.

Lemma writes_in_step1 P p : writes_in P p -> forall clk m,
  writes_in P (s1_prog (step1 p clk m))
  /\ (forall l, P l = false -> get (s1_mem (step1 p clk m)) l = get m l)
  /\ (wfm m -> wfm (s1_mem (step1 p clk m)))
  /\ (forall a, In a (s1_tr (step1 p clk m)) -> is_load a = true \/ P (aloc a) = true).
Proof.
  destruct 1 as [v|a k Ha Hk|k Hk|k Hk|b k Hb Hk]; intros clk m; simpl.
  - split; [constructor|]. split; [auto|]. split; [auto|]. intros a [].
  - destruct (exec a m) as [m1 r] eqn:E. unfold s1_prog, s1_mem, s1_tr; simpl.
    assert (m1 = fst (exec a m)) as -> by (rewrite E; reflexivity).
    split; [apply Hk|]. split; [|split].
    + intros l Hl. apply exec_other. destruct Ha as [Ha|Ha]; [left; assumption|right; congruence].
    + intros Hw. apply wfm_exec, Hw.
    + intros a' [<-|[]]. assumption.
  - unfold s1_prog, s1_mem, s1_tr; simpl. split; [apply Hk|]. split; [auto|]. split; [auto|]. intros a [].
  - unfold s1_prog, s1_mem, s1_tr; simpl. split; [apply Hk|]. split; [auto|]. split; [auto|]. intros a [].
  - destruct (runseq b clk m) as [[[r m1] c1] t1] eqn:E. unfold s1_prog, s1_mem, s1_tr; simpl.
    assert (m1 = rs_mem (runseq b clk m)) as -> by (rewrite E; reflexivity).
    destruct (writes_in_runseq P b Hb clk m) as [B1 B2].
    split; [apply Hk|]. split; [exact B1|]. split; [exact B2|].
    intros a Hin. assert (Ht : t1 = rs_tr (runseq b clk m)) by (rewrite E; reflexivity). subst t1.
    eapply writes_in_runseq_tr; eassumption.
Qed.
