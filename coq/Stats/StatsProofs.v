(* C17 - proofs about the stats model: what each API call does to each word, and the theorems
   over all schedules. *)
From Coq Require Import Lia Permutation.
From ZenoV Require Import Stats.Atomics Stats.AtomicsBase Stats.Effects.
Open Scope N_scope.

(* ================================================================ write sets of the API calls *)
Ltac wi_side :=
  first [ left; reflexivity
        | right; cbn [aloc wr]; unfold rate_cells, is_key_rate_cell; rewrite ?loc_eqb_refl; simpl;
          rewrite ?orb_true_r; reflexivity ].
Ltac wi :=
  repeat first
    [ apply WI_Ret
    | apply WI_Now; intros ?
    | apply WI_Keys; intros ?
    | apply WI_Crit; [|intros ?]
    | apply WI_Do; [wi_side|intros ?]
    | apply writes_in_bind; [|intros ?]
    | apply writes_in_for_keys; intros ?
    | match goal with |- writes_in _ (if ?c then _ else _) => destruct c end ].

Lemma wr_ok o : writes_in (wr o) (compile_op o).
Proof.
  destruct o; try destruct r; cbn [compile_op];
    unfold bucket_incr, bucket_get, bucket_get_total, bucket_reset, bucket_get_all, bucket_get_all_total,
      bucket_get_filtered, bucket_reset_all, bucket_incr_body, bucket_get_body, bucket_get_total_body,
      bucket_reset_body, new_rate, rate_incr, rate_get, rate_get_total, rate_reset,
      counter_incr, counter_decr, counter_get, counter_reset, mean_add, mean_get, mean_reset,
      mean_add_orig, mean_get_orig, mean_reset_orig, seq, act; wi.
Qed.

Lemma compile_writes_in P s :
  (forall o, In o s -> forall q, wr o q = true -> P q = true) -> writes_in P (compile s).
Proof.
  induction s as [|o r IH]; intros H; simpl.
  - constructor.
  - unfold seq. apply writes_in_bind.
    + apply (writes_in_weaken (wr o)); [apply H; left; reflexivity|apply wr_ok].
    + intros _. apply IH. intros o' Ho'. apply H. right. assumption.
Qed.

(* ================================================================ rateBucket.incr under the lock *)
Ltac rsm := repeat (rewrite ?rs_mem_Do, ?rs_mem_bind, ?rs_mem_Crit, ?rs_val_Do, ?rs_val_bind, ?rs_val_Crit;
                    cbn [exec fst snd rs_mem rs_val rs_clk runseq]).

Lemma N_eqb_1_neq x : (x =? 1) = false -> x <> 1.
Proof. intros H. apply N.eqb_neq, H. Qed.

Lemma bucket_incr_body_spec k s m clk :
  Inv m ->
  Inv (rs_mem (runseq (bucket_incr_body k s) clk m))
  /\ get (rs_mem (runseq (bucket_incr_body k s) clk m)) (LTotal (RKey k)) = wrap (get m (LTotal (RKey k)) + s)
  /\ get (rs_mem (runseq (bucket_incr_body k s) clk m)) (LPresent k) = 1
  /\ (forall q, wr (ORateIncr (RKey k) s) q = false ->
        get (rs_mem (runseq (bucket_incr_body k s) clk m)) q = get m q).
Proof.
  intros [Hw Hb].
  assert (Hwi : writes_in (wr (ORateIncr (RKey k) s)) (bucket_incr_body k s)).
  { pose proof (wr_ok (ORateIncr (RKey k) s)) as H. cbn [compile_op] in H. unfold bucket_incr in H.
    inversion H; subst. assumption. }
  destruct (writes_in_runseq _ _ Hwi clk m) as [Hother Hwf].
  assert (Hrest : forall q, wr (ORateIncr (RKey k) s) q = false ->
            get (rs_mem (runseq (bucket_incr_body k s) clk m)) q = get m q) by exact Hother.
  revert Hother Hrest Hwf. unfold bucket_incr_body. rsm.
  destruct (get m (LPresent k) =? 1) eqn:Ep.
  - (* the key is in the map: rps.incr(step) *)
    unfold rate_incr. rsm. intros Hother Hrest Hwf.
    assert (HT : get (set (set m (LCount (RKey k)) (wrap (get m (LCount (RKey k)) + s))) (LTotal (RKey k))
                   (wrap (get (set m (LCount (RKey k)) (wrap (get m (LCount (RKey k)) + s))) (LTotal (RKey k)) + s)))
                   (LTotal (RKey k)) = wrap (get m (LTotal (RKey k)) + s)).
    { rewrite get_set_same. rewrite get_set_other by discriminate. reflexivity. }
    assert (HP : forall k', get (set (set m (LCount (RKey k)) (wrap (get m (LCount (RKey k)) + s))) (LTotal (RKey k))
                   (wrap (get (set m (LCount (RKey k)) (wrap (get m (LCount (RKey k)) + s))) (LTotal (RKey k)) + s)))
                   (LPresent k') = get m (LPresent k')).
    { intros k'. rewrite !get_set_other by discriminate. reflexivity. }
    split; [|split; [exact HT|split; [|exact Hrest]]].
    + split; [apply Hwf, Hw|]. intros k' Hk'. rewrite HP in Hk'.
      destruct (N.eqb_spec k k') as [<-|Hne].
      * apply N.eqb_eq in Ep. congruence.
      * rewrite Hother; [apply Hb, Hk'|]. cbn [wr]. unfold rate_cells. simpl.
        destruct (N.eqb_spec k' k); [congruence|reflexivity].
    + rewrite HP. apply N.eqb_eq, Ep.
  - (* new key: rps := &rate{}; rps.incr(step); rb.data[key] = rps *)
    unfold seq, new_rate, rate_incr, act. rsm. intros Hother Hrest Hwf.
    assert (H0 : get m (LTotal (RKey k)) = 0) by (apply Hb, N_eqb_1_neq, Ep).
    match goal with |- Inv ?M /\ _ => set (m' := M) in * end.
    assert (HT : get m' (LTotal (RKey k)) = wrap (get m (LTotal (RKey k)) + s)).
    { unfold m'. rewrite get_set_other by discriminate. rewrite get_set_same.
      rewrite get_set_other by discriminate. rewrite !get_set_other by discriminate.
      rewrite get_set_same. rewrite H0. reflexivity. }
    assert (HP : get m' (LPresent k) = 1).
    { unfold m'. rewrite get_set_same. reflexivity. }
    split; [|split; [exact HT|split; [exact HP|exact Hrest]]].
    split; [apply Hwf, Hw|]. intros k' Hk'.
    destruct (N.eqb_spec k k') as [<-|Hne]; [congruence|].
    assert (HP' : get m' (LPresent k') = get m (LPresent k')).
    { apply Hother. cbn [wr]. unfold rate_cells. simpl. destruct (N.eqb_spec k' k); [congruence|reflexivity]. }
    rewrite Hother; [apply Hb; congruence|]. cbn [wr]. unfold rate_cells. simpl.
    destruct (N.eqb_spec k' k); [congruence|reflexivity].
Qed.

(* ================================================================ instance 1: additions to one word *)
Definition addapp (a n : N) : N := wrap (n + a).
Definition goodw (n : N) : Prop := n < W.
Definition aeff_add (l : loc) (a : action) : option N :=
  match a with
  | Load _ => Some 0
  | Add q v => if binv_loc q then None else Some (if loc_eqb q l then v else 0)
  | Store q _ | Swap q _ | CAS q _ _ => if binv_loc q || loc_eqb q l then None else Some 0
  end.
Definition obs_at (l : loc) (m : mem) : N := get m l.
Definition eff_add (l : loc) : prog -> N -> Prop := eff N 0 N.add addapp goodw Inv (obs_at l) (aeff_add l).

Lemma addapp_zero n : goodw n -> addapp 0 n = n.
Proof. intros H. unfold addapp. rewrite N.add_0_r. apply wrap_small, H. Qed.
Lemma addapp_plus a b n : addapp (a + b) n = addapp b (addapp a n).
Proof. unfold addapp. rewrite wrap_add_l. f_equal. lia. Qed.
Lemma addapp_comm a b n : addapp a (addapp b n) = addapp b (addapp a n).
Proof. unfold addapp. rewrite !wrap_add_l. f_equal. lia. Qed.
Lemma addapp_good a n : goodw n -> goodw (addapp a n).
Proof. intros _. apply wrap_lt. Qed.
Lemma Inv_wf m : Inv m -> wfm m. Proof. intros [H _]. exact H. Qed.
Lemma obs_at_same l m m' : (forall q, loc_eqb q l = true -> get m' q = get m q) -> obs_at l m' = obs_at l m.
Proof. intros H. apply H, loc_eqb_refl. Qed.
Lemma obs_at_good l m : Inv m -> goodw (obs_at l m).
Proof. intros [H _]. apply H. Qed.

Lemma aeff_add_ok l a x m : Inv m -> aeff_add l a = Some x ->
  obs_at l (fst (exec a m)) = addapp x (obs_at l m) /\ Inv (fst (exec a m)).
Proof.
  intros HI Ha. unfold obs_at, addapp.
  assert (Hg : get m l < W) by apply HI.
  destruct a as [q v|q|q v|q v|q o n]; cbn [aeff_add] in Ha.
  - destruct (binv_loc q) eqn:Eb; [discriminate|]. split; [|apply Inv_exec; [assumption|right; exact Eb]].
    inversion Ha; subst. destruct (loc_eqb_spec q l) as [->|Hne]; cbn [exec fst].
    + apply get_set_same.
    + rewrite get_set_other by assumption. rewrite N.add_0_r. symmetry. apply wrap_small, Hg.
  - inversion Ha; subst. split; [|apply Inv_exec; [assumption|left; reflexivity]].
    cbn [exec fst]. rewrite N.add_0_r. symmetry. apply wrap_small, Hg.
  - destruct (binv_loc q) eqn:Eb; [discriminate|]. destruct (loc_eqb_spec q l) as [->|Hne]; [discriminate|].
    inversion Ha; subst. split; [|apply Inv_exec; [assumption|right; exact Eb]].
    cbn [exec fst]. rewrite get_set_other by assumption. rewrite N.add_0_r. symmetry. apply wrap_small, Hg.
  - destruct (binv_loc q) eqn:Eb; [discriminate|]. destruct (loc_eqb_spec q l) as [->|Hne]; [discriminate|].
    inversion Ha; subst. split; [|apply Inv_exec; [assumption|right; exact Eb]].
    cbn [exec fst]. rewrite get_set_other by assumption. rewrite N.add_0_r. symmetry. apply wrap_small, Hg.
  - destruct (binv_loc q) eqn:Eb; [discriminate|]. destruct (loc_eqb_spec q l) as [->|Hne]; [discriminate|].
    inversion Ha; subst. split; [|apply Inv_exec; [assumption|right; exact Eb]].
    rewrite exec_other by (right; exact Hne). rewrite N.add_0_r. symmetry. apply wrap_small, Hg.
Qed.
Lemma aeff_add_free l a :
  (is_load a = true \/ (binv_loc (aloc a) = false /\ loc_eqb (aloc a) l = false)) -> aeff_add l a = Some 0.
Proof.
  intros [H|[H1 H2]]; destruct a; simpl in *; try discriminate; try reflexivity; rewrite H1, H2; reflexivity.
Qed.

(* specialised rules *)
Lemma A_eq l p x y : eff_add l p x -> (forall n, n < W -> wrap (n + x) = wrap (n + y)) -> eff_add l p y.
Proof. intros H E. eapply E_eq; [exact H|]. intros n Hn. apply E, Hn. Qed.
Lemma A_bind l p x f y : eff_add l p x -> (forall v, eff_add l (f v) y) -> eff_add l (bind p f) (x + y).
Proof. apply eff_bind; [apply addapp_zero|apply addapp_plus]. Qed.
Lemma A_crit l b k x y : eff_add l b x -> (forall r, eff_add l (k r) y) -> eff_add l (Crit b k) (x + y).
Proof.
  apply E_Crit'; [apply addapp_zero|apply addapp_plus|apply obs_at_good|apply aeff_add_ok].
Qed.
Lemma A_quiet l P p :
  writes_in P p -> (forall q, P q = true -> binv_loc q = false /\ loc_eqb q l = false) -> eff_add l p 0.
Proof.
  apply (writes_in_eff N 0 N.add addapp goodw addapp_zero addapp_plus addapp_good Inv binv_loc (obs_at l)
           (fun q => loc_eqb q l) Inv_wf Inv_same (obs_at_same l) (obs_at_good l) (aeff_add l) (aeff_add_free l)).
Qed.

Lemma app_all_add xs n : n < W -> app_all N addapp xs n = wrap (n + sumN xs).
Proof.
  intros Hn. induction xs as [|x r IH]; simpl.
  - rewrite N.add_0_r. symmetry. apply wrap_small, Hn.
  - rewrite IH. unfold addapp. rewrite wrap_add_l. f_equal. lia.
Qed.

Theorem add_run_finished l sched ts xs m tr :
  Forall2 (eff_add l) ts xs -> Inv m -> finished (run (Cfg ts m tr) sched) = true ->
  get (c_mem (run (Cfg ts m tr) sched)) l = wrap (get m l + sumN xs) /\ Inv (c_mem (run (Cfg ts m tr) sched)).
Proof.
  intros HF HI Hfin.
  destruct (run_finished N 0 N.add addapp goodw addapp_zero addapp_plus addapp_comm addapp_good Inv (obs_at l)
              (obs_at_good l) (aeff_add l) (aeff_add_ok l) sched ts xs m tr HF HI Hfin) as [H1 H2].
  split; [|exact H2]. unfold obs_at in H1. rewrite H1. apply app_all_add. apply HI.
Qed.

(* ================================================================ what each API call adds to each word *)
Lemma wr_nobinv o q : wr o q = true -> (forall k s, o <> ORateIncr (RKey k) s) -> binv_loc q = false.
Proof.
  intros H Hn. destruct q as [r0|r0|r0|r0|c0|m0|m0| | |k0|c1]; try reflexivity.
  - destruct r0; try reflexivity. exfalso.
    destruct o; try destruct r; cbn [wr] in H; unfold rate_cells, is_key_rate_cell in H; simpl in H;
      try discriminate; try (eapply Hn; reflexivity).
  - exfalso.
    destruct o; try destruct r; cbn [wr] in H; unfold rate_cells, is_key_rate_cell in H; simpl in H;
      try discriminate; try (eapply Hn; reflexivity).
Qed.

Lemma wr_false_delta o l : wr o l = false -> delta l o = 0.
Proof.
  intros H.
  destruct o; try reflexivity; destruct l; try reflexivity; cbn [delta];
    try destruct r; cbn [wr] in H; unfold rate_cells in H;
    repeat match goal with
    | H : (_ || _) = false |- _ => apply orb_false_elim in H; destruct H
    end;
    cbn [loc_eqb] in *;
    repeat match goal with
    | H : rid_eqb ?a ?b = false |- context [rid_eqb ?b ?a] =>
        replace (rid_eqb b a) with false by (destruct (rid_eqb_spec a b), (rid_eqb_spec b a); congruence)
    | H : cid_eqb ?a ?b = false |- context [cid_eqb ?b ?a] =>
        replace (cid_eqb b a) with false by (destruct (cid_eqb_spec a b), (cid_eqb_spec b a); congruence)
    | H : mid_eqb ?a ?b = false |- context [mid_eqb ?b ?a] =>
        replace (mid_eqb b a) with false by (destruct (mid_eqb_spec a b), (mid_eqb_spec b a); congruence)
    end; try reflexivity.
Qed.

Ltac a_do := eapply E_Do; [reflexivity|intros ?].

Lemma op_eff_add l o : clobbers l o = false -> eff_add l (compile_op o) (delta l o).
Proof.
  intros Hc.
  assert (Hgen : (forall k s, o <> ORateIncr (RKey k) s) -> adds_to o l = false ->
                 eff_add l (compile_op o) (delta l o)).
  { intros Hn Ha. unfold clobbers in Hc. rewrite Ha in Hc. rewrite andb_true_r in Hc.
    rewrite (wr_false_delta _ _ Hc). apply (A_quiet l (wr o)); [apply wr_ok|].
    intros q Hq. split; [eapply wr_nobinv; eassumption|].
    destruct (loc_eqb_spec q l) as [->|]; [congruence|reflexivity]. }
  destruct o; try (apply Hgen; [intros ? ?; discriminate|reflexivity]).
  - (* rate.incr / rateBucket.incr *)
    destruct r.
    + cbn [compile_op]. unfold rate_incr. eapply A_eq; [a_do; a_do; apply E_Ret|].
      intros n _. destruct l; try destruct r; simpl; f_equal; lia.
    + cbn [compile_op]. unfold rate_incr. eapply A_eq; [a_do; a_do; apply E_Ret|].
      intros n _. destruct l; try destruct r; simpl; f_equal; lia.
    + cbn [compile_op]. unfold bucket_incr.
      eapply A_eq; [apply (E_Crit _ _ _ _ _ _ _ _ _ _ (if loc_eqb l (LTotal (RKey k)) then step else 0) 0);
                    [|intros ?; apply E_Ret]|].
      * intros m clk HI. destruct (bucket_incr_body_spec k step m clk HI) as (S1 & S2 & S3 & S4).
        split; [exact S1|]. unfold obs_at, addapp.
        destruct (loc_eqb_spec l (LTotal (RKey k))) as [->|Hne]; [exact S2|].
        rewrite S4.
        -- rewrite N.add_0_r. symmetry. apply wrap_small, HI.
        -- unfold clobbers in Hc. cbn [adds_to] in Hc.
           destruct (loc_eqb_spec l (LTotal (RKey k))); [congruence|].
           rewrite andb_true_r in Hc. exact Hc.
      * intros n _. f_equal. f_equal. rewrite N.add_0_r.
        destruct l; try destruct r; simpl; try reflexivity.
        -- rewrite N.eqb_sym. reflexivity.
        -- destruct (N.eqb_spec k k0) as [->|Hne]; [|reflexivity]. exfalso.
           unfold clobbers in Hc. cbn [wr adds_to] in Hc. unfold rate_cells in Hc.
           rewrite (loc_eqb_refl (LCount (RKey k0))) in Hc. simpl in Hc. discriminate.
  - cbn [compile_op]. unfold counter_incr, act. eapply A_eq; [a_do; apply E_Ret|].
    intros n _. destruct l; simpl; f_equal; lia.
  - cbn [compile_op]. unfold counter_decr, act. eapply A_eq; [a_do; apply E_Ret|].
    intros n _. destruct l; simpl; f_equal; lia.
  - cbn [compile_op]. unfold mean_add, mean_add_orig.
    eapply A_eq; [apply A_crit; [a_do; a_do; apply E_Ret|intros ?; apply E_Ret]|].
    intros n _. destruct l; simpl; f_equal; lia.
Qed.

Lemma compile_eff_add l s : additive l s = true -> eff_add l (compile s) (sigma l s).
Proof.
  induction s as [|o r IH]; intros Ha.
  - apply E_Ret.
  - simpl in Ha. apply andb_prop in Ha. destruct Ha as [Ho Hr].
    cbn [compile sigma fold_right]. unfold seq. apply A_bind.
    + apply op_eff_add. destruct (clobbers l o); [discriminate|reflexivity].
    + intros _. apply IH, Hr.
Qed.

Lemma sigma_app l a b : sigma l (a ++ b) = sigma l a + sigma l b.
Proof. unfold sigma. induction a as [|o r IH]; simpl; [reflexivity|]. rewrite IH. lia. Qed.
Lemma sumN_sigma l scripts : sumN (map (sigma l) scripts) = sigma l (concat scripts).
Proof. induction scripts as [|s r IH]; simpl; [reflexivity|]. rewrite sigma_app, IH. reflexivity. Qed.

(* ================================================================ the goroutines of a burst *)
Definition exec_all (scripts : list (list op)) (m0 : mem) (sched : list label) : cfg :=
  run (start (map compile scripts) m0) sched.

(* For every schedule: a word that the scripts only add to ends at the initial word plus everything
   added, mod 2^64. *)
Theorem additive_exact_lemma l scripts sched m0 :
  Inv m0 -> forallb (additive l) scripts = true -> finished (exec_all scripts m0 sched) = true ->
  get (c_mem (exec_all scripts m0 sched)) l = wrap (get m0 l + sigma l (concat scripts))
  /\ Inv (c_mem (exec_all scripts m0 sched)).
Proof.
  intros HI Ha Hfin. unfold exec_all, start in *.
  rewrite <- sumN_sigma. apply add_run_finished; try assumption.
  clear Hfin. induction scripts as [|s r IH]; simpl in *; constructor.
  - apply andb_prop in Ha. apply compile_eff_add, Ha.
  - apply andb_prop in Ha. apply IH, Ha.
Qed.

(* ---- totals: no API call clobbers a total *)
Lemma total_never_clobbered r o : clobbers (LTotal r) o = false.
Proof.
  unfold clobbers. destruct o; try destruct r0; cbn [wr adds_to]; unfold rate_cells, is_key_rate_cell;
    simpl; rewrite ?orb_false_r, ?andb_negb_r; reflexivity.
Qed.
Lemma total_additive r s : additive (LTotal r) s = true.
Proof. induction s; simpl; [reflexivity|]. rewrite total_never_clobbered. assumption. Qed.

(* what the getter reports at quiescence *)
Lemma reported_total r m clk :
  Inv m -> rs_val (runseq (compile_op (ORateGetTotal r)) clk m) = VN (get m (LTotal r)).
Proof.
  intros [_ Hb]. destruct r; cbn [compile_op]; unfold rate_get_total, bucket_get_total, bucket_get_total_body; rsm;
    try reflexivity.
  destruct (get m (LPresent k) =? 1) eqn:E; rsm; [reflexivity|].
  rewrite (Hb k) by (apply N_eqb_1_neq, E). reflexivity.
Qed.


Theorem totals_exact_lemma r scripts sched m0 :
  Inv m0 -> finished (exec_all scripts m0 sched) = true ->
  forall clk, rs_val (runseq (compile_op (ORateGetTotal r)) clk (c_mem (exec_all scripts m0 sched)))
              = VN (wrap (get m0 (LTotal r) + issued r (concat scripts))).
Proof.
  intros HI Hfin clk.
  destruct (additive_exact_lemma (LTotal r) scripts sched m0 HI) as [H1 H2]; [|assumption|].
  - apply forallb_forall. intros s _. apply total_additive.
  - rewrite reported_total by assumption. rewrite H1. reflexivity.
Qed.

(* readable forms of sigma *)
Lemma sumN_app a b : sumN (a ++ b) = sumN a + sumN b.
Proof. induction a; simpl; [reflexivity|]. rewrite IHa. lia. Qed.
Lemma issued_steps r ops : issued r ops = sumN (incr_steps r ops).
Proof.
  unfold issued, sigma. induction ops as [|o rest IH]; simpl; [reflexivity|].
  rewrite sumN_app, <- IH. f_equal.
  destruct o; simpl; try reflexivity. destruct (rid_eqb r0 r); simpl; lia.
Qed.
Lemma sigma_mcount m ops : sigma (LMCount m) ops = N.of_nat (length (added_values m ops)).
Proof.
  unfold sigma. induction ops as [|o rest IH]; simpl; [reflexivity|].
  rewrite app_length, Nat2N.inj_add, <- IH. f_equal.
  destruct o; simpl; try reflexivity. destruct (mid_eqb m0 m); reflexivity.
Qed.
Lemma sigma_msum m ops : sigma (LMSum m) ops = sumN (added_values m ops).
Proof.
  unfold sigma. induction ops as [|o rest IH]; simpl; [reflexivity|].
  rewrite sumN_app, <- IH. f_equal.
  destruct o; simpl; try reflexivity. destruct (mid_eqb m0 m); simpl; lia.
Qed.
(* the exported API increments by 1: the total is the NUMBER of events *)
Lemma sumN_ones xs : (forall x, In x xs -> x = 1) -> sumN xs = N.of_nat (length xs).
Proof.
  induction xs as [|x r IH]; intros H; [reflexivity|].
  cbn [sumN length]. rewrite (H x) by (left; reflexivity). rewrite IH by (intros; apply H; right; assumption). lia.
Qed.

(* ---- means without reset *)
Lemma reported_mean m mm clk :
  rs_val (runseq (compile_op (OMeanGet m)) clk mm) = VPair (get mm (LMCount m)) (get mm (LMSum m)).
Proof. cbn [compile_op]. unfold mean_get, mean_get_orig. rsm. reflexivity. Qed.

Theorem mean_exact_lemma m scripts sched m0 :
  Inv m0 ->
  forallb (additive (LMCount m)) scripts = true -> forallb (additive (LMSum m)) scripts = true ->
  finished (exec_all scripts m0 sched) = true ->
  forall clk, rs_val (runseq (compile_op (OMeanGet m)) clk (c_mem (exec_all scripts m0 sched)))
    = VPair (wrap (get m0 (LMCount m) + N.of_nat (length (added_values m (concat scripts)))))
            (wrap (get m0 (LMSum m) + sumN (added_values m (concat scripts)))).
Proof.
  intros HI H1 H2 Hfin clk. rewrite reported_mean.
  destruct (additive_exact_lemma (LMCount m) scripts sched m0 HI H1 Hfin) as [E1 _].
  destruct (additive_exact_lemma (LMSum m) scripts sched m0 HI H2 Hfin) as [E2 _].
  rewrite E1, E2, sigma_mcount, sigma_msum. reflexivity.
Qed.

(* ================================================================ instance 2: the key set of the bucket *)
Definition stapp (b : bool) (n : N) : N := if b then 1 else n.
Definition aeff_st (a : action) : option bool :=
  if is_load a then Some false else if binv_loc (aloc a) then None else Some false.
Definition eff_st (k : N) : prog -> bool -> Prop :=
  eff bool false orb stapp (fun _ => True) Inv (obs_at (LPresent k)) aeff_st.

Lemma stapp_zero n : True -> stapp false n = n. Proof. reflexivity. Qed.
Lemma stapp_plus a b n : stapp (a || b) n = stapp b (stapp a n).
Proof. destruct a, b; reflexivity. Qed.
Lemma stapp_comm a b n : stapp a (stapp b n) = stapp b (stapp a n).
Proof. destruct a, b; reflexivity. Qed.
Lemma stapp_good (a : bool) (n : N) : True -> True. Proof. auto. Qed.
Lemma obs_good_true l (m : mem) : Inv m -> (fun _ : N => True) (obs_at l m). Proof. intros _. exact I. Qed.
Lemma aeff_st_ok k a x m : Inv m -> aeff_st a = Some x ->
  obs_at (LPresent k) (fst (exec a m)) = stapp x (obs_at (LPresent k) m) /\ Inv (fst (exec a m)).
Proof.
  intros HI Ha. unfold aeff_st in Ha. unfold obs_at.
  destruct (is_load a) eqn:El.
  - inversion Ha; subst. split; [apply exec_other; left; exact El|apply Inv_exec; auto].
  - destruct (binv_loc (aloc a)) eqn:Eb; [discriminate|]. inversion Ha; subst.
    split; [|apply Inv_exec; auto]. apply exec_other. right. intros E. rewrite E in Eb. discriminate.
Qed.
Lemma aeff_st_free k a :
  (is_load a = true \/ (binv_loc (aloc a) = false /\ loc_eqb (aloc a) (LPresent k) = false)) -> aeff_st a = Some false.
Proof. unfold aeff_st. intros [H|[H _]]; rewrite H; [reflexivity|]. destruct (is_load a); reflexivity. Qed.


Lemma op_eff_st k o : eff_st k (compile_op o) (incr_of_key k o).
Proof.
  assert (Hgen : (forall k' s, o <> ORateIncr (RKey k') s) -> eff_st k (compile_op o) false).
  { intros Hn.
    apply (writes_in_eff bool false orb stapp (fun _ => True) stapp_zero stapp_plus stapp_good Inv binv_loc
             (obs_at (LPresent k)) (fun q => loc_eqb q (LPresent k)) Inv_wf Inv_same (obs_at_same (LPresent k))
             (obs_good_true (LPresent k)) aeff_st (aeff_st_free k) (wr o)); [apply wr_ok|].
    intros q Hq. pose proof (wr_nobinv o q Hq Hn) as Hb. split; [exact Hb|].
    destruct (loc_eqb_spec q (LPresent k)) as [->|]; [discriminate|reflexivity]. }
  destruct o; try (apply Hgen; intros ? ?; discriminate).
  destruct r; try (apply Hgen; intros ? ?; discriminate).
  cbn [compile_op incr_of_key]. unfold bucket_incr.
  eapply E_eq; [apply (E_Crit _ _ _ _ _ _ _ _ _ _ (k0 =? k) false); [|intros ?; apply E_Ret]|].
  - intros m clk HI. destruct (bucket_incr_body_spec k0 step m clk HI) as (S1 & S2 & S3 & S4).
    split; [exact S1|]. unfold obs_at, stapp. destruct (N.eqb_spec k0 k) as [->|Hne]; [exact S3|].
    apply S4. cbn [wr]. unfold rate_cells. simpl. destruct (N.eqb_spec k k0); [congruence|reflexivity].
  - intros n _. rewrite orb_false_r. reflexivity.
Qed.

Lemma compile_eff_st k s : eff_st k (compile s) (existsb (incr_of_key k) s).
Proof.
  induction s as [|o r IH]; [apply E_Ret|]. cbn [compile existsb]. unfold seq.
  apply (eff_bind bool false orb stapp (fun _ => True) stapp_zero stapp_plus); [apply op_eff_st|intros _; exact IH].
Qed.

Lemma app_all_st xs n : app_all bool stapp xs n = if existsb (fun b => b) xs then 1 else n.
Proof. induction xs as [|x r IH]; simpl; [reflexivity|]. rewrite IH. destruct x; simpl; [reflexivity|reflexivity]. Qed.
Lemma existsb_concat {A} (f : A -> bool) ls : existsb (fun b => b) (map (existsb f) ls) = existsb f (concat ls).
Proof. induction ls as [|l r IH]; simpl; [reflexivity|]. rewrite existsb_app, IH. reflexivity. Qed.

Theorem keyset_exact_lemma k scripts sched m0 :
  Inv m0 -> finished (exec_all scripts m0 sched) = true ->
  get (c_mem (exec_all scripts m0 sched)) (LPresent k) =
  if existsb (incr_of_key k) (concat scripts) then 1 else get m0 (LPresent k).
Proof.
  intros HI Hfin. unfold exec_all, start in *.
  assert (HF : Forall2 (eff_st k) (map compile scripts) (map (existsb (incr_of_key k)) scripts)).
  { clear. induction scripts; simpl; constructor; [apply compile_eff_st|assumption]. }
  destruct (run_finished bool false orb stapp (fun _ => True) stapp_zero stapp_plus stapp_comm stapp_good Inv
              (obs_at (LPresent k)) (obs_good_true (LPresent k)) aeff_st (aeff_st_ok k) sched _ _ m0 [] HF HI Hfin)
    as [H1 _].
  unfold obs_at in H1. rewrite H1, app_all_st, existsb_concat. reflexivity.
Qed.

(* ================================================================ order is irrelevant *)


Lemma comm_additive l s :
  forallb comm_op s = true -> compared l = true -> (forall k, l <> LPresent k) -> additive l s = true.
Proof.
  intros Hc Hl Hp. induction s as [|o r IH]; [reflexivity|].
  simpl in Hc. apply andb_prop in Hc. destruct Hc as [Ho Hr]. simpl. rewrite IH by assumption.
  rewrite andb_true_r. unfold clobbers.
  destruct o; try discriminate; try destruct r0; cbn [wr adds_to]; unfold rate_cells;
    try (rewrite andb_negb_r; reflexivity); try reflexivity.
  destruct l as [r0|r0|r0|r0|c0|mm|mm| | |k0|c1]; try reflexivity;
    try (destruct r0; try reflexivity; simpl; try discriminate;
         destruct (N.eqb_spec k0 k); reflexivity).
  simpl. destruct (N.eqb_spec k0 k) as [->|]; [|reflexivity]. exfalso. eapply Hp. reflexivity.
Qed.

Theorem quiescent_state_lemma scripts sched m0 :
  Inv m0 -> forallb (forallb comm_op) scripts = true -> finished (exec_all scripts m0 sched) = true ->
  forall l, compared l = true -> get (c_mem (exec_all scripts m0 sched)) l = spec_word l (concat scripts) m0.
Proof.
  intros HI Hc Hfin l Hl.
  assert (Hadd : (forall k, l <> LPresent k) ->
                 get (c_mem (exec_all scripts m0 sched)) l = wrap (get m0 l + sigma l (concat scripts))).
  { intros Hp. apply additive_exact_lemma; try assumption.
    apply forallb_forall. intros s Hs. apply comm_additive; try assumption.
    rewrite forallb_forall in Hc. apply Hc, Hs. }
  destruct l; try (apply Hadd; intros ?; discriminate).
  cbn [spec_word]. apply keyset_exact_lemma; assumption.
Qed.

Lemma sigma_perm l a b : Permutation a b -> sigma l a = sigma l b.
Proof. unfold sigma. induction 1; simpl; try lia. Qed.
Lemma existsb_perm {A} (f : A -> bool) a b : Permutation a b -> existsb f a = existsb f b.
Proof.
  induction 1; simpl; try congruence.
  destruct (f x), (f y); reflexivity.
Qed.
Lemma spec_word_perm l a b m0 : Permutation a b -> spec_word l a m0 = spec_word l b m0.
Proof.
  intros H. destruct l; cbn [spec_word]; try (rewrite (sigma_perm _ a b H); reflexivity).
  rewrite (existsb_perm _ a b H). reflexivity.
Qed.

(* Two bursts issuing the same multiset of calls - distributed over any number of goroutines in
   any way, run under any schedules - end in the same state. *)
Theorem order_irrelevant_lemma scripts1 scripts2 sched1 sched2 m0 :
  Inv m0 ->
  forallb (forallb comm_op) scripts1 = true -> forallb (forallb comm_op) scripts2 = true ->
  Permutation (concat scripts1) (concat scripts2) ->
  finished (exec_all scripts1 m0 sched1) = true -> finished (exec_all scripts2 m0 sched2) = true ->
  forall l, compared l = true ->
    get (c_mem (exec_all scripts1 m0 sched1)) l = get (c_mem (exec_all scripts2 m0 sched2)) l.
Proof.
  intros HI H1 H2 HP F1 F2 l Hl.
  rewrite (quiescent_state_lemma scripts1 sched1 m0 HI H1 F1 l Hl).
  rewrite (quiescent_state_lemma scripts2 sched2 m0 HI H2 F2 l Hl).
  apply spec_word_perm, HP.
Qed.

(* ... and it is the state one goroutine reaches by making all the calls one after the other *)
Theorem sequential_state_lemma ops m0 clk :
  Inv m0 -> forallb comm_op ops = true ->
  forall l, compared l = true -> get (rs_mem (runseq (compile ops) clk m0)) l = spec_word l ops m0.
Proof.
  intros HI Hc l Hl.
  assert (Hadd : (forall k, l <> LPresent k) ->
                 get (rs_mem (runseq (compile ops) clk m0)) l = wrap (get m0 l + sigma l ops)).
  { intros Hp.
    pose proof (eff_crit_ok N 0 N.add addapp goodw addapp_zero addapp_plus Inv (obs_at l) (obs_at_good l)
                  (aeff_add l) (aeff_add_ok l) (compile ops) (sigma l ops)
                  (compile_eff_add l ops (comm_additive l ops Hc Hl Hp)) m0 clk HI) as [_ H].
    exact H. }
  destruct l; try (apply Hadd; intros ?; discriminate).
  cbn [spec_word].
  pose proof (eff_crit_ok bool false orb stapp (fun _ => True) stapp_zero stapp_plus Inv (obs_at (LPresent k))
                (obs_good_true (LPresent k)) aeff_st (aeff_st_ok k) (compile ops) _ (compile_eff_st k ops) m0 clk HI)
    as [_ H].
  exact H.
Qed.

(* ================================================================ instance 3: means under reset *)
(* After the fix every mean operation is one critical section, so count and sum change together.
   If all values added to mean m are v, then  sum = count * v  (mod 2^64) at EVERY point of EVERY
   schedule, resets included - the reported mean is v or 0, never anything else. *)
Section MeanConsistent.
  Variable m : mid.
  Variable v : N.
  Definition MC (mm : mem) : Prop := get mm (LMSum m) = wrap (get mm (LMCount m) * v).
  Definition J2 (mm : mem) : Prop := Inv mm /\ MC mm.
  Definition prot2 (q : loc) : bool := binv_loc q || loc_eqb q (LMCount m) || loc_eqb q (LMSum m).
  Definition aeff2 (a : action) : option unit := if is_load a || negb (prot2 (aloc a)) then Some tt else None.
  Definition uapp (_ : unit) (n : N) : N := n.
  Definition uplus (_ _ : unit) : unit := tt.
  Definition eff2 : prog -> unit -> Prop := eff unit tt uplus uapp (fun _ => True) J2 (fun _ => 0) aeff2.

  Lemma uapp_zero n : True -> uapp tt n = n. Proof. reflexivity. Qed.
  Lemma uapp_plus a b n : uapp (uplus a b) n = uapp b (uapp a n). Proof. reflexivity. Qed.
  Lemma uapp_comm a b n : uapp a (uapp b n) = uapp b (uapp a n). Proof. reflexivity. Qed.
  Lemma uapp_good (a : unit) (n : N) : True -> True. Proof. auto. Qed.
  Lemma J2_wf mm : J2 mm -> wfm mm. Proof. intros [[H _] _]. exact H. Qed.
  Lemma J2_same mm mm' : J2 mm -> wfm mm' -> (forall q, prot2 q = true -> get mm' q = get mm q) -> J2 mm'.
  Proof.
    intros [HI HM] Hw Hs. split.
    - apply (Inv_same mm); try assumption. intros q Hq. apply Hs. unfold prot2. rewrite Hq. reflexivity.
    - unfold MC in *. rewrite !Hs; [exact HM| |]; unfold prot2; rewrite loc_eqb_refl, ?orb_true_r; reflexivity.
  Qed.
  Lemma obs0_same (mm mm' : mem) : (forall q, (fun _ : loc => false) q = true -> get mm' q = get mm q) ->
    (fun _ : mem => 0) mm' = (fun _ : mem => 0) mm.
  Proof. reflexivity. Qed.
  Lemma obs0_good (mm : mem) : J2 mm -> (fun _ : N => True) ((fun _ : mem => 0) mm). Proof. intros _. exact I. Qed.
  Lemma aeff2_ok a x mm : J2 mm -> aeff2 a = Some x ->
    (fun _ : mem => 0) (fst (exec a mm)) = uapp x ((fun _ : mem => 0) mm) /\ J2 (fst (exec a mm)).
  Proof.
    intros HJ Ha. split; [reflexivity|]. apply (J2_same mm); [assumption|apply wfm_exec, J2_wf, HJ|].
    intros q Hq. apply exec_other. unfold aeff2 in Ha.
    destruct (is_load a) eqn:El; [left; reflexivity|right]. simpl in Ha.
    destruct (prot2 (aloc a)) eqn:Ep; [discriminate|]. intros E. rewrite E in Ep. congruence.
  Qed.
  Lemma aeff2_free a :
    (is_load a = true \/ (prot2 (aloc a) = false /\ (fun _ : loc => false) (aloc a) = false)) -> aeff2 a = Some tt.
  Proof. unfold aeff2. intros [H|[H _]]; rewrite H; [reflexivity|]. rewrite orb_true_r. reflexivity. Qed.

  Lemma U_quiet P p : writes_in P p -> (forall q, P q = true -> prot2 q = false) -> eff2 p tt.
  Proof.
    intros Hw HP.
    apply (writes_in_eff unit tt uplus uapp (fun _ => True) uapp_zero uapp_plus uapp_good J2 prot2 (fun _ => 0)
             (fun _ => false) J2_wf J2_same obs0_same obs0_good aeff2 aeff2_free P p Hw).
    intros q Hq. split; [apply HP, Hq|reflexivity].
  Qed.
  Lemma U_bind p f : eff2 p tt -> (forall r, eff2 (f r) tt) -> eff2 (bind p f) tt.
  Proof. intros Hp Hf. apply (eff_bind unit tt uplus uapp (fun _ => True) uapp_zero uapp_plus J2 _ _ p tt f tt Hp Hf). Qed.
  Lemma U_crit b : (forall mm clk, J2 mm -> J2 (rs_mem (runseq b clk mm))) -> eff2 (Crit b Ret) tt.
  Proof.
    intros H. apply (E_Crit unit tt uplus uapp (fun _ => True) J2 (fun _ => 0) aeff2 b Ret tt tt).
    - intros mm clk HJ. split; [apply H, HJ|reflexivity].
    - intros r. apply E_Ret.
  Qed.

  Lemma wr_mean_cell o q :
    wr o q = true -> (exists mm, q = LMCount mm \/ q = LMSum mm) ->
    (exists m' v', o = OMeanAdd m' v') \/ (exists m', o = OMeanReset m') \/ o = OReset.
  Proof.
    intros H [mm [-> | ->]]; destruct o; try destruct r; cbn [wr] in H; unfold rate_cells, is_key_rate_cell in H;
      simpl in H; try discriminate; eauto.
  Qed.

  Lemma eff2_generic o :
    (forall k s, o <> ORateIncr (RKey k) s) -> (forall m' v', o <> OMeanAdd m' v') ->
    (forall m', o <> OMeanReset m') -> o <> OReset -> eff2 (compile_op o) tt.
  Proof.
    intros H1 H2 H3 H4. apply (U_quiet (wr o)); [apply wr_ok|].
    intros q Hq. unfold prot2. rewrite (wr_nobinv o q Hq H1). simpl.
    destruct (loc_eqb_spec q (LMCount m)) as [->|_].
    - destruct (wr_mean_cell o _ Hq (ex_intro _ m (or_introl eq_refl))) as [(m' & v' & E)|[(m' & E)|E]];
        [eapply H2 in E|eapply H3 in E|apply H4 in E]; contradiction.
    - destruct (loc_eqb_spec q (LMSum m)) as [->|_]; [|reflexivity].
      destruct (wr_mean_cell o _ Hq (ex_intro _ m (or_intror eq_refl))) as [(m' & v' & E)|[(m' & E)|E]];
        [eapply H2 in E|eapply H3 in E|apply H4 in E]; contradiction.
  Qed.

  Lemma mul_succ_wrap c : wrap (wrap (c * v) + v) = wrap (wrap (c + 1) * v).
  Proof.
    unfold wrap. rewrite N.add_mod_idemp_l by apply W_neq0. rewrite N.mul_mod_idemp_l by apply W_neq0.
    f_equal. lia.
  Qed.

  Lemma eff2_mean_add m' v' : (mid_eqb m' m = true -> v' = v) -> eff2 (mean_add m' v') tt.
  Proof.
    intros Hv. apply U_crit. intros mm clk [HI HM]. unfold mean_add_orig. rsm.
    set (m1 := set mm (LMCount m') (wrap (get mm (LMCount m') + 1))).
    split.
    - apply (Inv_same mm); [assumption| |].
      + apply wfm_set; [apply wfm_set; [apply HI|apply wrap_lt]|apply wrap_lt].
      + intros q Hq. unfold m1. rewrite !get_set_other; [reflexivity| |]; intros E; subst q; discriminate.
    - unfold MC in *. destruct (mid_eqb_spec m' m) as [->|Hne].
      + rewrite (Hv eq_refl). rewrite get_set_same. rewrite get_set_other by discriminate.
        unfold m1. rewrite get_set_other by discriminate. rewrite get_set_same. rewrite HM. apply mul_succ_wrap.
      + unfold m1. rewrite !get_set_other by congruence. exact HM.
  Qed.
  Lemma eff2_mean_reset m' : eff2 (mean_reset m') tt.
  Proof.
    apply U_crit. intros mm clk [HI HM]. unfold mean_reset_orig. rsm. split.
    - apply (Inv_same mm); [assumption| |].
      + apply wfm_set; [apply wfm_set; [apply HI|apply wrap_lt]|apply wrap_lt].
      + intros q Hq. rewrite !get_set_other; [reflexivity| |]; intros E; subst q; discriminate.
    - unfold MC in *. destruct (mid_eqb_spec m' m) as [->|Hne].
      + rewrite get_set_same. rewrite get_set_other by discriminate. rewrite get_set_same. reflexivity.
      + rewrite !get_set_other by congruence. exact HM.
  Qed.
  Lemma eff2_bucket_incr k s : eff2 (bucket_incr k s) tt.
  Proof.
    apply U_crit. intros mm clk [HI HM]. destruct (bucket_incr_body_spec k s mm clk HI) as (S1 & _ & _ & S4).
    split; [exact S1|]. unfold MC in *. rewrite !S4; [exact HM| |]; cbn [wr]; unfold rate_cells; reflexivity.
  Qed.

  Definition value_ok (o : op) : bool :=
    match o with OMeanAdd m' v' => if mid_eqb m' m then v' =? v else true | _ => true end.

  Lemma op_eff2 o : value_ok o = true -> eff2 (compile_op o) tt.
  Proof.
    intros Hv.
    destruct o; try (apply eff2_generic; intros; discriminate).
    - destruct r; try (apply eff2_generic; intros; discriminate). apply eff2_bucket_incr.
    - cbn [compile_op]. apply eff2_mean_add. intros E. cbn [value_ok] in Hv. rewrite E in Hv.
      apply N.eqb_eq, Hv.
    - apply eff2_mean_reset.
    - cbn [compile_op]. unfold seq.
      change (rate_reset RUrls) with (compile_op (ORateReset RUrls)).
      change (rate_reset RSeeds) with (compile_op (ORateReset RSeeds)).
      change (counter_reset CPre) with (compile_op (OCntReset CPre)).
      change (counter_reset CArch) with (compile_op (OCntReset CArch)).
      change (counter_reset CPost) with (compile_op (OCntReset CPost)).
      change (counter_reset CFin) with (compile_op (OCntReset CFin)).
      change bucket_reset_all with (compile_op OBucketResetAll).
      repeat (apply U_bind; [first [apply eff2_mean_reset | apply eff2_generic; intros; discriminate]|intros _]).
      apply eff2_mean_reset.
  Qed.

  Lemma compile_eff2 s : forallb value_ok s = true -> eff2 (compile s) tt.
  Proof.
    induction s as [|o r IH]; intros H; [apply E_Ret|].
    simpl in H. apply andb_prop in H. destruct H as [Ho Hr]. cbn [compile]. unfold seq.
    apply U_bind; [apply op_eff2, Ho|intros _; apply IH, Hr].
  Qed.

  Theorem mean_consistent_lemma scripts sched m0 :
    Inv m0 -> MC m0 -> forallb (forallb value_ok) scripts = true ->
    MC (c_mem (exec_all scripts m0 sched)).
  Proof.
    intros HI HM Hv. unfold exec_all, start.
    assert (HF : Forall2 eff2 (map compile scripts) (map (fun _ => tt) scripts)).
    { induction scripts as [|s r IH]; simpl in *; constructor.
      - apply andb_prop in Hv. apply compile_eff2, Hv.
      - apply andb_prop in Hv. apply IH, Hv. }
    destruct (run_eff unit tt uplus uapp (fun _ => True) uapp_zero uapp_plus uapp_comm uapp_good J2 (fun _ => 0)
                obs0_good aeff2 aeff2_ok sched _ _ m0 [] HF (conj HI HM)) as (xs' & _ & [_ H] & _).
    exact H.
  Qed.
End MeanConsistent.

Lemma forallb_concat {A} (f : A -> bool) ls : forallb (forallb f) ls = true -> forallb f (concat ls) = true.
Proof.
  induction ls as [|l r IH]; simpl; [reflexivity|]. intros H. apply andb_prop in H.
  rewrite forallb_app. destruct H as [H1 H2]. rewrite H1. apply IH, H2.
Qed.

Theorem concurrent_equals_sequential_lemma scripts sched m0 clk :
  Inv m0 -> forallb (forallb comm_op) scripts = true -> finished (exec_all scripts m0 sched) = true ->
  forall l, compared l = true ->
    get (c_mem (exec_all scripts m0 sched)) l = get (rs_mem (runseq (compile (concat scripts)) clk m0)) l.
Proof.
  intros HI Hc Hfin l Hl.
  rewrite (quiescent_state_lemma scripts sched m0 HI Hc Hfin l Hl).
  symmetry. apply sequential_state_lemma; try assumption. apply forallb_concat, Hc.
Qed.

(* ================================================================ run-length encoded scripts *)
(* the correspondence check evaluates the specification on (call, repetitions) pairs; it is the
   specification of the expanded script *)
Lemma iter_cons_sigma l o n : sigma l (N.iter n (cons o) []) = delta l o * n.
Proof.
  induction n using N.peano_ind.
  - simpl. lia.
  - rewrite N.iter_succ. unfold sigma in *. simpl. rewrite IHn. lia.
Qed.
Lemma sigma_expand l segs : sigma l (expand segs) = sigma_segs l segs.
Proof.
  unfold expand, sigma_segs. induction segs as [|[o n] r IH]; [reflexivity|].
  cbn [flat_map fold_right fst snd]. rewrite sigma_app, iter_cons_sigma, IH. reflexivity.
Qed.
Lemma iter_cons_forallb (f : op -> bool) o n : f o = true -> forallb f (N.iter n (cons o) []) = true.
Proof.
  intros H. induction n using N.peano_ind; [reflexivity|]. rewrite N.iter_succ. simpl. rewrite H, IHn. reflexivity.
Qed.
Lemma additive_expand l segs : additive_segs l segs = true -> additive l (expand segs) = true.
Proof.
  unfold additive_segs, additive, expand. induction segs as [|[o n] r IH]; [reflexivity|].
  cbn [forallb flat_map fst snd]. intros H. apply andb_prop in H. destruct H as [H1 H2].
  rewrite forallb_app, IH by assumption. rewrite iter_cons_forallb by assumption. reflexivity.
Qed.
Lemma iter_cons_existsb (f : op -> bool) o n : existsb f (N.iter n (cons o) []) = f o && negb (n =? 0).
Proof.
  induction n using N.peano_ind; [rewrite andb_false_r; reflexivity|].
  rewrite N.iter_succ. simpl. rewrite IHn.
  destruct (f o); simpl; [|reflexivity]. destruct (N.eqb_spec (N.succ n) 0); [lia|reflexivity].
Qed.
Lemma key_incremented_expand k segs : existsb (incr_of_key k) (expand segs) = key_incremented k segs.
Proof.
  unfold expand, key_incremented. induction segs as [|[o n] r IH]; [reflexivity|].
  cbn [flat_map existsb fst snd]. rewrite existsb_app, iter_cons_existsb, IH. reflexivity.
Qed.
Lemma expand_concat rle : concat (map expand rle) = expand (concat rle).
Proof.
  unfold expand. induction rle as [|s r IH]; [reflexivity|]. simpl. rewrite IH, flat_map_app. reflexivity.
Qed.

(* what the correspondence check predicts for a concurrent phase given as run-length encoded scripts *)
Theorem run_length_prediction_lemma l rle sched m0 :
  Inv m0 -> forallb (additive_segs l) rle = true ->
  finished (exec_all (map expand rle) m0 sched) = true ->
  get (c_mem (exec_all (map expand rle) m0 sched)) l = wrap (get m0 l + sigma_segs l (concat rle)).
Proof.
  intros HI Ha Hfin.
  destruct (additive_exact_lemma l (map expand rle) sched m0 HI) as [H _]; [|assumption|].
  - rewrite forallb_forall in *. intros s Hs. apply in_map_iff in Hs. destruct Hs as (x & <- & Hx).
    apply additive_expand, Ha, Hx.
  - rewrite H, expand_concat, sigma_expand. reflexivity.
Qed.

(* counter.decr(step) adds ^uint64(step-1): that is subtraction mod 2^64, for every step incl. 0 *)
Lemma decr_arg_val s : s < W -> decr_arg s = wrap (W - s).
Proof.
  intros Hs. unfold decr_arg, compl. rewrite (wrap_small s Hs). rewrite wrap_wrap.
  destruct (N.eq_dec s 0) as [->|Hne].
  - simpl. reflexivity.
  - assert (E : wrap (s + (W - 1)) = s - 1).
    { unfold wrap. replace (s + (W - 1)) with ((s - 1) + 1 * W) by lia.
      rewrite N.mod_add by apply W_neq0. apply N.mod_small. lia. }
    rewrite E. rewrite (wrap_small (W - s)) by lia. lia.
Qed.
Theorem decr_is_subtraction_lemma x s : s < W -> wrap (wrap (x + s) + decr_arg s) = wrap x.
Proof.
  intros Hs. rewrite decr_arg_val by assumption. rewrite wrap_add_l, wrap_add_r.
  replace (x + s + (W - s)) with (x + W) by lia.
  unfold wrap. replace (x + W) with (x + 1 * W) by lia. apply N.mod_add, W_neq0.
Qed.
