(* C17 - worker gauges: for every schedule and at every point of it, the gauge equals the number
   of live workers (those that executed their Incr and not yet their deferred Decr). *)
From Coq Require Import Lia.
From ZenoV Require Import Stats.Atomics Stats.AtomicsBase Stats.Effects Stats.StatsProofs.
Open Scope N_scope.

Lemma step1_bind p f clk m :
  is_ret p = false ->
  step1 (bind p f) clk m =
  (bind (s1_prog (step1 p clk m)) f, s1_mem (step1 p clk m), s1_tr (step1 p clk m)).
Proof.
  destruct p as [v|a k|k|k|b k]; intros H; try discriminate; simpl.
  - destruct (exec a m); reflexivity.
  - reflexivity.
  - reflexivity.
  - destruct (runseq b clk m) as [[[r m1] c1] t1]. reflexivity.
Qed.

Lemma decr_arg_1 : decr_arg 1 = W - 1. Proof. reflexivity. Qed.
Lemma wrap_plus_W x : wrap (x + W) = wrap x.
Proof. unfold wrap. replace (x + W) with (x + 1 * W) by lia. apply N.mod_add, W_neq0. Qed.

(* ---- list updates *)
Lemma nth_error_set_nth ts i p t :
  nth_error (set_nth ts i p) t =
  if Nat.eqb t i then match nth_error ts i with Some _ => Some p | None => None end else nth_error ts t.
Proof.
  revert i t. induction ts as [|x r IH]; intros i t; simpl.
  - destruct i, t; simpl; try reflexivity; destruct (Nat.eqb t i); reflexivity.
  - destruct i, t; simpl; try reflexivity. apply IH.
Qed.
Lemma nth_error_upd {A} (xs : list A) i y t :
  nth_error (upd A xs i y) t =
  if Nat.eqb t i then match nth_error xs i with Some _ => Some y | None => None end else nth_error xs t.
Proof.
  revert i t. induction xs as [|x r IH]; intros i t; simpl.
  - destruct i, t; simpl; try reflexivity; destruct (Nat.eqb t i); reflexivity.
  - destruct i, t; simpl; try reflexivity. apply IH.
Qed.
Lemma length_set_nth ts i p : length (set_nth ts i p) = length ts.
Proof. revert i. induction ts as [|x r IH]; intros [|i]; simpl; auto. Qed.
Lemma length_upd {A} (xs : list A) i y : length (upd A xs i y) = length xs.
Proof. revert i. induction xs as [|x r IH]; intros [|i]; simpl; auto. Qed.

(* ---- stages *)
Inductive stage := SIdle | SLive | SDone.
Definition is_live (s : stage) : bool := match s with SLive => true | _ => false end.
Definition nlive (sts : list stage) : nat := length (filter is_live sts).

Lemma nlive_upd sts i old new :
  nth_error sts i = Some old ->
  (nlive (upd stage sts i new) + (if is_live old then 1 else 0) = nlive sts + (if is_live new then 1 else 0))%nat.
Proof.
  unfold nlive. revert i. induction sts as [|s r IH]; intros [|i] H; simpl in *; try discriminate.
  - inversion H; subst. destruct old, new; simpl; lia.
  - specialize (IH i H). destruct (is_live s); simpl; lia.
Qed.

Definition Pc (c : cid) (q : loc) : bool := negb (loc_eqb q (LCnt c)).

Definition stage_ok (c : cid) (t : nat) (p : prog) (tr : list event) (st : stage) : Prop :=
  match st with
  | SIdle => (exists body, gauge_free c body = true /\ p = worker c body)
             /\ started c tr t = false /\ exited c tr t = false
  | SLive => (exists rest, writes_in (Pc c) rest /\ p = bind rest (fun _ => counter_decr c 1))
             /\ started c tr t = true /\ exited c tr t = false
  | SDone => (exists v, p = Ret v) /\ started c tr t = true /\ exited c tr t = true
  end.

Record GInv (c : cid) (m0 : mem) (cf : cfg) (sts : list stage) : Prop := {
  g_len : length sts = length (c_threads cf);
  g_ok : forall t p st, nth_error (c_threads cf) t = Some p -> nth_error sts t = Some st ->
                        stage_ok c t p (c_trace cf) st;
  g_wf : wfm (c_mem cf);
  g_val : get (c_mem cf) (LCnt c) = wrap (get m0 (LCnt c) + N.of_nat (nlive sts)) }.

(* ---- events *)
Lemma started_app c tr i evs t :
  started c (tr ++ map (fun a => (i, a)) evs) t =
  started c tr t || (Nat.eqb i t && existsb (is_start c) evs).
Proof.
  unfold started. rewrite existsb_app. f_equal.
  induction evs as [|a r IH]; simpl; [rewrite andb_false_r; reflexivity|].
  rewrite IH. destruct (Nat.eqb i t); simpl; reflexivity.
Qed.
Lemma exited_app c tr i evs t :
  exited c (tr ++ map (fun a => (i, a)) evs) t =
  exited c tr t || (Nat.eqb i t && existsb (is_exit c) evs).
Proof.
  unfold exited. rewrite existsb_app. f_equal.
  induction evs as [|a r IH]; simpl; [rewrite andb_false_r; reflexivity|].
  rewrite IH. destruct (Nat.eqb i t); simpl; reflexivity.
Qed.
Lemma quiet_events c evs :
  (forall a, In a evs -> is_load a = true \/ Pc c (aloc a) = true) ->
  existsb (is_start c) evs = false /\ existsb (is_exit c) evs = false.
Proof.
  induction evs as [|a r IH]; intros H; [split; reflexivity|].
  destruct IH as [I1 I2]; [intros; apply H; right; assumption|].
  simpl. rewrite I1, I2, !orb_false_r.
  destruct (H a (or_introl eq_refl)) as [Hl|Hp].
  - destruct a; try discriminate. split; reflexivity.
  - destruct a as [q v|q|q v|q v|q o n]; try (split; reflexivity).
    destruct q; try (split; reflexivity). simpl in *. unfold Pc in Hp. simpl in Hp.
    destruct (cid_eqb_spec c0 c) as [->|Hne]; [|split; reflexivity].
    destruct (cid_eqb_spec c c); [discriminate|congruence].
Qed.

Lemma body_quiet c body : gauge_free c body = true -> writes_in (Pc c) (compile body).
Proof.
  intros H. apply compile_writes_in. intros o Ho q Hq. unfold Pc.
  unfold gauge_free in H. rewrite forallb_forall in H. specialize (H o Ho).
  destruct (loc_eqb_spec q (LCnt c)) as [->|]; [|reflexivity]. rewrite Hq in H. discriminate.
Qed.

(* the other goroutines are not affected by a step of goroutine i *)
Lemma stage_ok_other c t p tr i evs st :
  t <> i -> stage_ok c t p tr st -> stage_ok c t p (tr ++ map (fun a => (i, a)) evs) st.
Proof.
  intros Hne H. assert (E : Nat.eqb i t = false) by (apply PeanoNat.Nat.eqb_neq; congruence).
  destruct st; cbn [stage_ok] in *; rewrite started_app, exited_app, E; cbn [andb]; rewrite !orb_false_r; exact H.
Qed.

Lemma step_GInv c m0 cf sts lb : GInv c m0 cf sts -> exists sts', GInv c m0 (step cf lb) sts'.
Proof.
  intros [Hlen Hok Hwf Hval]. destruct cf as [ts m tr]. destruct lb as [i clk]. unfold step. simpl in *.
  destruct (nth_error ts i) as [p|] eqn:Ep; [|exists sts; constructor; assumption].
  assert (Hst : exists st, nth_error sts i = Some st).
  { destruct (nth_error sts i) eqn:E; [eauto|]. apply nth_error_None in E.
    assert (nth_error ts i <> None) by congruence. apply nth_error_Some in H. lia. }
  destruct Hst as [st Est]. pose proof (Hok i p st Ep Est) as Hp.
  (* common: the shape of the new configuration *)
  assert (Hmk : forall p' m' evs st',
    stage_ok c i p' (tr ++ map (fun a => (i, a)) evs) st' -> wfm m' ->
    get m' (LCnt c) = wrap (get m0 (LCnt c) + N.of_nat (nlive (upd stage sts i st'))) ->
    GInv c m0 (Cfg (set_nth ts i p') m' (tr ++ map (fun a => (i, a)) evs)) (upd stage sts i st')).
  { intros p' m' evs st' Hs Hw Hv. constructor; simpl; try assumption.
    - rewrite length_upd, length_set_nth. exact Hlen.
    - intros t q s Hq Hs'. rewrite nth_error_set_nth in Hq. rewrite nth_error_upd in Hs'.
      destruct (PeanoNat.Nat.eqb_spec t i) as [->|Hne].
      + rewrite Ep in Hq. rewrite Est in Hs'. inversion Hq; inversion Hs'; subst. exact Hs.
      + apply stage_ok_other; [exact Hne|]. eapply Hok; eassumption. }
  destruct st; cbn [stage_ok] in Hp.
  - (* idle -> live: XRoutinesIncr *)
    destruct Hp as [[body [Hg ->]] [Hs He]].
    unfold worker, seq, counter_incr, act. cbn [bind step1 exec].
    exists (upd stage sts i SLive). apply Hmk.
    + cbn [stage_ok]. rewrite started_app, exited_app, PeanoNat.Nat.eqb_refl, Hs, He. simpl.
      destruct (cid_eqb_spec c c); [|congruence]. simpl.
      split; [|split; reflexivity].
      exists (compile body). split; [apply body_quiet, Hg|reflexivity].
    + apply wfm_set; [assumption|apply wrap_lt].
    + rewrite get_set_same, Hval. pose proof (nlive_upd sts i SIdle SLive Est) as Hn. simpl in Hn.
      rewrite wrap_add_l. f_equal. lia.
  - (* live: the body, or the deferred XRoutinesDecr *)
    destruct Hp as [[rest [Hr ->]] [Hs He]].
    destruct (is_ret rest) eqn:Eret.
    + destruct rest; try discriminate. unfold counter_decr, act. cbn [bind step1 exec].
      exists (upd stage sts i SDone). apply Hmk.
      * cbn [stage_ok]. rewrite started_app, exited_app, PeanoNat.Nat.eqb_refl, Hs, He. simpl.
        destruct (cid_eqb_spec c c); [|congruence]. rewrite ?N.eqb_refl. simpl. split; [eauto|split; reflexivity].
      * apply wfm_set; [assumption|apply wrap_lt].
      * rewrite get_set_same, Hval. pose proof (nlive_upd sts i SLive SDone Est) as Hn. simpl in Hn.
        rewrite wrap_add_l, decr_arg_1.
        replace (get m0 (LCnt c) + N.of_nat (nlive sts) + (W - 1))
          with (get m0 (LCnt c) + N.of_nat (nlive (upd stage sts i SDone)) + W).
        -- apply wrap_plus_W.
        -- assert (0 < W) by apply W_pos. lia.
    + rewrite step1_bind by exact Eret.
      destruct (writes_in_step1 (Pc c) rest Hr clk m) as (W1 & W2 & W3 & W4).
      destruct (quiet_events c _ W4) as [Q1 Q2].
      exists (upd stage sts i SLive). apply Hmk.
      * cbn [stage_ok]. rewrite started_app, exited_app, Hs, He, Q1, Q2, andb_false_r. simpl.
        split; [eauto|split; reflexivity].
      * apply W3, Hwf.
      * rewrite W2 by (unfold Pc; rewrite loc_eqb_refl; reflexivity). rewrite Hval.
        pose proof (nlive_upd sts i SLive SLive Est) as Hn. simpl in Hn. f_equal. lia.
  - (* done *)
    destruct Hp as [[v ->] [Hs He]]. cbn [step1]. exists (upd stage sts i SDone). apply Hmk.
    + cbn [stage_ok]. rewrite started_app, exited_app, Hs, He. simpl. eauto.
    + assumption.
    + rewrite Hval. pose proof (nlive_upd sts i SDone SDone Est) as Hn. simpl in Hn. f_equal. lia.
Qed.

Lemma run_GInv c m0 sched : forall cf sts, GInv c m0 cf sts -> exists sts', GInv c m0 (run cf sched) sts'.
Proof.
  induction sched as [|lb r IH]; intros cf sts H; [exists sts; exact H|].
  destruct (step_GInv c m0 cf sts lb H) as [sts1 H1]. unfold run. simpl. apply (IH _ sts1 H1).
Qed.

Lemma run_length sched : forall cf, length (c_threads (run cf sched)) = length (c_threads cf).
Proof.
  induction sched as [|lb r IH]; intros cf; [reflexivity|].
  unfold run. simpl. fold (run (step cf lb) r). rewrite IH.
  unfold step. destruct (nth_error (c_threads cf) (fst lb)); [|reflexivity].
  destruct (step1 p (snd lb) (c_mem cf)) as [[p' m'] t']. simpl. apply length_set_nth.
Qed.

Lemma live_count_stages c tr sts : forall t0,
  (forall t st, nth_error sts t = Some st -> live c tr (t0 + t) = is_live st) ->
  length (filter (live c tr) (List.seq t0 (length sts))) = nlive sts.
Proof.
  unfold nlive. induction sts as [|s r IH]; intros t0 H; [reflexivity|].
  simpl. rewrite <- (H 0%nat s eq_refl). rewrite PeanoNat.Nat.add_0_r.
  assert (E : length (filter (live c tr) (List.seq (S t0) (length r))) = length (filter is_live r)).
  { apply IH. intros t st Ht. rewrite <- (H (S t) st Ht). f_equal. lia. }
  destruct (live c tr t0); simpl; rewrite E; reflexivity.
Qed.

Lemma nlive_idle {A} (l : list A) : nlive (map (fun _ => SIdle) l) = 0%nat.
Proof. unfold nlive. induction l; simpl; auto. Qed.

Lemma start_GInv c m0 bodies :
  wfm m0 -> forallb (gauge_free c) bodies = true ->
  GInv c m0 (start (map (worker c) bodies) m0) (map (fun _ => SIdle) bodies).
Proof.
  intros Hw Hg. constructor; simpl.
  - rewrite !map_length. reflexivity.
  - intros t p st Hp Hs. rewrite nth_error_map in Hp, Hs.
    destruct (nth_error bodies t) as [b|] eqn:E; try discriminate. inversion Hp; inversion Hs; subst.
    simpl. split; [|split; reflexivity]. exists b. split; [|reflexivity].
    rewrite forallb_forall in Hg. apply Hg. eapply nth_error_In, E.
  - exact Hw.
  - rewrite (nlive_idle bodies). simpl. rewrite N.add_0_r. symmetry. apply wrap_small, Hw.
Qed.

Theorem gauge_exact_lemma c bodies sched m0 :
  wfm m0 -> forallb (gauge_free c) bodies = true ->
  let cf := run (start (map (worker c) bodies) m0) sched in
  get (c_mem cf) (LCnt c) = wrap (get m0 (LCnt c) + N.of_nat (live_count c (c_trace cf) (length bodies)))
  /\ (finished cf = true -> live_count c (c_trace cf) (length bodies) = 0%nat).
Proof.
  intros Hw Hg cf.
  destruct (run_GInv c m0 sched _ _ (start_GInv c m0 bodies Hw Hg)) as [sts [Hlen Hok _ Hval]].
  fold cf in Hlen, Hok, Hval.
  assert (Hn : length (c_threads cf) = length bodies).
  { unfold cf. rewrite run_length. simpl. apply map_length. }
  assert (Hlive : forall t st, nth_error sts t = Some st -> live c (c_trace cf) (0 + t) = is_live st).
  { intros t st Hs. simpl.
    destruct (nth_error (c_threads cf) t) as [p|] eqn:Ep.
    - pose proof (Hok t p st Ep Hs) as H. unfold live.
      destruct st; simpl in H; destruct H as [_ [-> ->]]; reflexivity.
    - apply nth_error_None in Ep. assert (nth_error sts t <> None) by congruence.
      apply nth_error_Some in H. lia. }
  assert (Hcount : live_count c (c_trace cf) (length bodies) = nlive sts).
  { unfold live_count. rewrite <- Hn, <- Hlen. apply live_count_stages, Hlive. }
  rewrite Hcount. split; [exact Hval|].
  intros Hfin. unfold nlive. unfold finished in Hfin. rewrite forallb_forall in Hfin.
  assert (Hall : forall st, In st sts -> is_live st = false).
  { intros st Hin. apply In_nth_error in Hin. destruct Hin as [t Ht].
    destruct (nth_error (c_threads cf) t) as [p|] eqn:Ep.
    - pose proof (Hok t p st Ep Ht) as H. pose proof (Hfin p (nth_error_In _ _ Ep)) as Hr.
      destruct st; try reflexivity. simpl in H. destruct H as [[rest [_ ->]] _].
      destruct rest; simpl in Hr; discriminate.
    - apply nth_error_None in Ep. assert (nth_error sts t <> None) by congruence.
      apply nth_error_Some in H. lia. }
  clear - Hall. induction sts as [|s r IH]; [reflexivity|]. simpl.
  rewrite (Hall s (or_introl eq_refl)). apply IH. intros st Hin. apply Hall. right. exact Hin.
Qed.
