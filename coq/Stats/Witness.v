(* C17 - witnesses: schedules on which the ORIGINAL code (and variants without a lock) go wrong, and
   non-vacuity examples for the theorems.  Everything here is closed by computation. *)
From ZenoV Require Import Stats.Atomics Stats.AtomicsBase Stats.Effects Stats.StatsProofs Stats.GaugeProofs.
Open Scope N_scope.

Definition L (i : nat) : label := (i, []).
Fixpoint reps (n : nat) (i : nat) : list label := match n with O => [] | S k => L i :: reps k i end.

(* ---- mean.go as found: add = two atomics, reset = two atomics.  A reset that lands between the
   two halves of an add leaves count and sum describing different sets of values, for good:
   goroutine 0 adds 5 twice, goroutine 1 resets once; the mean then reads 10/1. *)
Definition orig_threads : list prog :=
  [seq (mean_add_orig MResp 5) (mean_add_orig MResp 5); mean_reset_orig MResp].
Definition orig_sched : list label := [L 0; L 1; L 1; L 0; L 0; L 0].

Lemma mean_reset_orig_refuted_lemma :
  exists sched,
    let c := run (start orig_threads []) sched in
    finished c = true
    /\ get (c_mem c) (LMCount MResp) = 1 /\ get (c_mem c) (LMSum MResp) = 10
    /\ ~ MC MResp 5 (c_mem c).
Proof. exists orig_sched. vm_compute. repeat split; try reflexivity. discriminate. Qed.

(* a concurrent get of the original code can pair the count of one moment with the sum of another:
   all values are 5, the getter returns 10/1 *)
Lemma mean_get_orig_torn_lemma :
  exists sched,
    let c := run (start [seq (mean_add_orig MResp 5) (mean_add_orig MResp 5); mean_get_orig MResp] []) sched in
    nth_error (c_threads c) 1 = Some (Ret (VPair 1 10)).
Proof. exists [L 0; L 0; L 1; L 0; L 0; L 1]. vm_compute. reflexivity. Qed.

(* the same two scripts on the fixed code, same schedule shape: consistent *)
Example mean_fixed_same_schedule :
  let c := run (start [compile [OMeanAdd MResp 5; OMeanAdd MResp 5]; compile [OMeanReset MResp]] [])
               [L 0; L 1; L 0] in
  finished c = true /\ get (c_mem c) (LMCount MResp) = 1 /\ get (c_mem c) (LMSum MResp) = 5.
Proof. vm_compute. repeat split; reflexivity. Qed.

(* ---- rateBucket.incr without its mutex loses an update on a new key: both goroutines see the key
   absent, both allocate, the second insert replaces the first object *)
Lemma bucket_unlocked_refuted_lemma :
  exists sched,
    let c := run (start [bucket_incr_body 7 1; bucket_incr_body 7 1] []) sched in
    finished c = true /\ get (c_mem c) (LTotal (RKey 7)) = 1.
Proof. exists ([L 0; L 1] ++ reps 7 0 ++ reps 7 1). vm_compute. split; reflexivity. Qed.

(* ---- a gauge must not be reset while workers are live: Reset then the deferred Decr wraps *)
Lemma gauge_reset_breaks_lemma :
  exists sched,
    let c := run (start [worker CPre []; compile [OCntReset CPre]] []) sched in
    finished c = true /\ get (c_mem c) (LCnt CPre) = W - 1.
Proof. exists [L 0; L 1; L 0]. vm_compute. split; reflexivity. Qed.

(* ---- archive() as found never counted a response it retried on or gave up on: max-retry 1, the
   origin answers 503 then 200 to one item and 500, 500 to another - three 5xx responses served,
   the 503 and 500 totals stay 0 (after the fix: 1 and 2) *)
Lemma status_counts_orig_refuted_lemma :
  let served := [attempts 2 [503; 200]; attempts 2 [500; 500]] in
  let total calls k := rs_val (runseq (compile_op (ORateGetTotal (RKey k))) []
                         (c_mem (exec_all [expand calls] [] (flat_map (fun _ => [L 0]) (List.seq 0 20))))) in
  served = [[503; 200]; [500; 500]]
  /\ finished (exec_all [expand (arch_calls_orig served)] [] (flat_map (fun _ => [L 0]) (List.seq 0 20))) = true
  /\ total (arch_calls_orig served) 503 = VN 0 /\ total (arch_calls_orig served) 500 = VN 0
  /\ total (arch_calls_orig served) 200 = VN 1
  /\ total (arch_calls served) 503 = VN 1 /\ total (arch_calls served) 500 = VN 2.
Proof. vm_compute. repeat split; reflexivity. Qed.

(* ================================================================ non-vacuity *)
(* a burst of three goroutines with increments, a key created concurrently, resets, per-second
   getters and a TUI read; wrap-around on the seeds total *)
Definition nv_scripts : list (list op) :=
  [ [ORateIncr RUrls 1; ORateIncr (RKey 200) 1; ORateReset RUrls; OMeanAdd MResp 30; ORateIncr RSeeds (W - 1)];
    [ORateIncr (RKey 200) 1; ORateGet RUrls; ORateIncr RUrls 1; OReset; ORateIncr RSeeds 3];
    [OTui [200] [] [404] []; ORateIncr (RKey 404) 1; OBucketResetAll; ORateGet (RKey 200); OMeanAdd MResp 50] ].
Definition nv_sched : list label :=
  flat_map (fun _ => [(0%nat, [7]); (1%nat, [7; 8]); (2%nat, [9; 9; 9; 9; 9])]) (List.seq 0 40).

Example totals_exact_nonvacuous :
  let c := exec_all nv_scripts [] nv_sched in
  finished c = true
  /\ rs_val (runseq (compile_op (ORateGetTotal RUrls)) [] (c_mem c)) = VN 2
  /\ rs_val (runseq (compile_op (ORateGetTotal RSeeds)) [] (c_mem c)) = VN 2
  /\ rs_val (runseq (compile_op (ORateGetTotal (RKey 200))) [] (c_mem c)) = VN 2
  /\ rs_val (runseq (compile_op (ORateGetTotal (RKey 404))) [] (c_mem c)) = VN 1
  /\ issued RSeeds (concat nv_scripts) = W + 2.
Proof. vm_compute. repeat split; reflexivity. Qed.

Example mean_exact_nonvacuous :
  let scripts := [[OMeanAdd MResp 30; ORateIncr RUrls 1]; [OMeanAdd MResp 50; OMeanGet MResp; OMeanAdd MBody 7]] in
  let c := exec_all scripts [] (reps 4 1 ++ reps 4 0) in
  forallb (additive (LMCount MResp)) scripts = true /\ forallb (additive (LMSum MResp)) scripts = true
  /\ finished c = true
  /\ rs_val (runseq (compile_op (OMeanGet MResp)) [] (c_mem c)) = VPair 2 80.
Proof. vm_compute. repeat split; reflexivity. Qed.

Example mean_consistent_nonvacuous :
  let scripts := [[OMeanAdd MResp 5; OMeanAdd MResp 5; OMeanAdd MBody 9]; [OMeanReset MResp; OReset; OMeanAdd MResp 5]] in
  let c := exec_all scripts [] [L 1; L 0; L 0; L 0] in
  forallb (forallb (value_ok MResp 5)) scripts = true /\ MC MResp 5 []
  /\ get (c_mem c) (LMCount MResp) = 2 /\ get (c_mem c) (LMSum MResp) = 10.
Proof. vm_compute. repeat split; reflexivity. Qed.

(* three workers; two are live, one has exited *)
Example gauge_exact_nonvacuous :
  let bodies := [[ORateIncr RUrls 1]; [OMeanAdd MResp 4; ORateIncr (RKey 200) 1]; []] in
  let c := run (start (map (worker CArch) bodies) []) [L 0; L 1; L 2; L 2; L 1] in
  forallb (gauge_free CArch) bodies = true
  /\ live_count CArch (c_trace c) 3 = 2%nat /\ get (c_mem c) (LCnt CArch) = 2
  /\ finished c = false.
Proof. vm_compute. repeat split; reflexivity. Qed.

Example order_irrelevant_nonvacuous :
  let s1 := [[ORateIncr RUrls 1; OCntIncr CPre 1]; [ORateIncr (RKey 200) 1; OMeanAdd MResp 3; OCntDecr CPre 1]] in
  let s2 := [[OCntDecr CPre 1; OMeanAdd MResp 3; ORateIncr RUrls 1; OCntIncr CPre 1; ORateIncr (RKey 200) 1]] in
  forallb (forallb comm_op) s1 = true /\ forallb (forallb comm_op) s2 = true
  /\ finished (exec_all s1 [] (reps 3 1 ++ reps 3 0 ++ reps 3 1)) = true
  /\ finished (exec_all s2 [] (reps 9 0)) = true
  /\ get (c_mem (exec_all s1 [] (reps 3 1 ++ reps 3 0 ++ reps 3 1))) (LCnt CPre) = 0
  /\ get (c_mem (exec_all s2 [] (reps 9 0))) (LCnt CPre) = 0.
Proof. vm_compute. repeat split; reflexivity. Qed.
