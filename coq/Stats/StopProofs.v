(* C17 - Stop(): the worker's gauge decrement happens before its wg.Done(), hence before wg.Wait()
   - and therefore Stop() - returns.  Over all interleavings of the workers' exit actions: whenever
   the WaitGroup counter is 0 the gauge is back at its initial value. *)
From Coq Require Import Lia.
From ZenoV Require Import Stats.Atomics Stats.AtomicsBase Stats.Effects Stats.StatsProofs Stats.GaugeProofs.
Open Scope N_scope.

Inductive xstage := XIdle | XLive | XExit | XDone.
Definition x_live (s : xstage) : bool := match s with XLive => true | _ => false end.
Definition x_done (s : xstage) : bool := match s with XDone => true | _ => false end.
Definition xnlive (sts : list xstage) : nat := length (filter x_live sts).
Definition xndone (sts : list xstage) : nat := length (filter x_done sts).

Lemma xcount_upd (f : xstage -> bool) sts i old new :
  nth_error sts i = Some old ->
  (length (filter f (upd xstage sts i new)) + (if f old then 1 else 0)
   = length (filter f sts) + (if f new then 1 else 0))%nat.
Proof.
  revert i. induction sts as [|s r IH]; intros [|i] H; simpl in *; try discriminate.
  - inversion H; subst. destruct (f old), (f new); simpl; lia.
  - specialize (IH i H). destruct (f s); simpl; lia.
Qed.
Lemma xndone_le sts : (xndone sts <= length sts)%nat.
Proof. unfold xndone. induction sts as [|s r IH]; simpl; [lia|]. destruct (x_done s); simpl; lia. Qed.
Lemma xndone_full sts : xndone sts = length sts -> xnlive sts = 0%nat.
Proof.
  unfold xndone, xnlive. induction sts as [|s r IH]; simpl; [reflexivity|]. intros H.
  pose proof (xndone_le r) as Hle. unfold xndone in Hle.
  destruct s; simpl in *; try lia; apply IH; lia.
Qed.

(* the words a worker's body may write: neither the gauge nor the WaitGroup counter *)
Definition Px (c : cid) (q : loc) : bool := negb (loc_eqb q (LCnt c)) && negb (loc_eqb q (LWg c)).

Lemma wr_nowg o c : wr o (LWg c) = false.
Proof. destruct o; try destruct r; cbn [wr]; unfold rate_cells, is_key_rate_cell; reflexivity. Qed.

Lemma body_quiet_x c body : gauge_free c body = true -> writes_in (Px c) (compile body).
Proof.
  intros H. apply compile_writes_in. intros o Ho q Hq. unfold Px.
  unfold gauge_free in H. rewrite forallb_forall in H. specialize (H o Ho).
  destruct (loc_eqb_spec q (LCnt c)) as [->|]; [rewrite Hq in H; discriminate|].
  destruct (loc_eqb_spec q (LWg c)) as [->|]; [rewrite wr_nowg in Hq; discriminate|reflexivity].
Qed.

Definition xstage_ok (c : cid) (p : prog) (st : xstage) : Prop :=
  match st with
  | XIdle => exists body, gauge_free c body = true /\ p = stage_worker c body
  | XLive => exists rest, writes_in (Px c) rest
                          /\ p = bind (bind rest (fun _ => counter_decr c 1)) (fun _ => wg_done c)
  | XExit => p = wg_done c
  | XDone => exists v, p = Ret v
  end.

Record XInv (c : cid) (m0 : mem) (n : nat) (cf : cfg) (sts : list xstage) : Prop := {
  x_len : length sts = n;
  x_lent : length (c_threads cf) = n;
  x_ok : forall t p st, nth_error (c_threads cf) t = Some p -> nth_error sts t = Some st -> xstage_ok c p st;
  x_wf : wfm (c_mem cf);
  x_val : get (c_mem cf) (LCnt c) = wrap (get m0 (LCnt c) + N.of_nat (xnlive sts));
  x_wg : get (c_mem cf) (LWg c) + N.of_nat (xndone sts) = N.of_nat n }.

Lemma step_XInv c m0 n cf sts lb :
  N.of_nat n < W -> XInv c m0 n cf sts -> exists sts', XInv c m0 n (step cf lb) sts'.
Proof.
  intros HnW [Hlen Hlent Hok Hwf Hval Hwg]. destruct cf as [ts m tr]. destruct lb as [i clk]. unfold step. simpl in *.
  destruct (nth_error ts i) as [p|] eqn:Ep; [|exists sts; constructor; assumption].
  assert (Hst : exists st, nth_error sts i = Some st).
  { destruct (nth_error sts i) eqn:E; [eauto|]. apply nth_error_None in E.
    assert (nth_error ts i <> None) by congruence. apply nth_error_Some in H. lia. }
  destruct Hst as [st Est]. pose proof (Hok i p st Ep Est) as Hp.
  assert (Hmk : forall p' m' evs st',
    xstage_ok c p' st' -> wfm m' ->
    get m' (LCnt c) = wrap (get m0 (LCnt c) + N.of_nat (xnlive (upd xstage sts i st'))) ->
    get m' (LWg c) + N.of_nat (xndone (upd xstage sts i st')) = N.of_nat n ->
    XInv c m0 n (Cfg (set_nth ts i p') m' (tr ++ map (fun a => (i, a)) evs)) (upd xstage sts i st')).
  { intros p' m' evs st' Hs Hw Hv Hg. constructor; simpl; try assumption.
    - rewrite length_upd. exact Hlen.
    - rewrite length_set_nth. exact Hlent.
    - intros t q s Hq Hs'. rewrite nth_error_set_nth in Hq. rewrite nth_error_upd in Hs'.
      destruct (PeanoNat.Nat.eqb_spec t i) as [->|Hne].
      + rewrite Ep in Hq. rewrite Est in Hs'. inversion Hq; inversion Hs'; subst. exact Hs.
      + eapply Hok; eassumption. }
  pose proof (xcount_upd x_live sts i st) as CL. pose proof (xcount_upd x_done sts i st) as CD.
  fold (xnlive sts) in CL. fold (xndone sts) in CD.
  destruct st; cbn [xstage_ok] in Hp.
  - (* idle -> live: XRoutinesIncr *)
    destruct Hp as [body [Hg ->]].
    unfold stage_worker, worker, seq, counter_incr, act. cbn [bind step1 exec].
    exists (upd xstage sts i XLive). specialize (CL XLive Est). specialize (CD XLive Est). simpl in CL, CD.
    fold (xnlive (upd xstage sts i XLive)) in CL. fold (xndone (upd xstage sts i XLive)) in CD.
    apply Hmk.
    + cbn [xstage_ok]. exists (compile body). split; [apply body_quiet_x, Hg|reflexivity].
    + apply wfm_set; [assumption|apply wrap_lt].
    + rewrite get_set_same, Hval, wrap_add_l. f_equal. lia.
    + rewrite get_set_other by discriminate. lia.
  - (* live: the body, or the deferred XRoutinesDecr *)
    destruct Hp as [rest [Hr ->]].
    destruct (is_ret rest) eqn:Eret.
    + destruct rest; try discriminate. unfold counter_decr, act. cbn [bind step1 exec].
      exists (upd xstage sts i XExit). specialize (CL XExit Est). specialize (CD XExit Est). simpl in CL, CD.
      fold (xnlive (upd xstage sts i XExit)) in CL. fold (xndone (upd xstage sts i XExit)) in CD.
      apply Hmk.
      * cbn [xstage_ok]. reflexivity.
      * apply wfm_set; [assumption|apply wrap_lt].
      * rewrite get_set_same, Hval, wrap_add_l, decr_arg_1.
        replace (get m0 (LCnt c) + N.of_nat (xnlive sts) + (W - 1))
          with (get m0 (LCnt c) + N.of_nat (xnlive (upd xstage sts i XExit)) + W).
        -- apply wrap_plus_W.
        -- assert (0 < W) by apply W_pos. lia.
      * rewrite get_set_other by discriminate. lia.
    + assert (Eret2 : is_ret (bind rest (fun _ => counter_decr c 1)) = false) by (destruct rest; try discriminate; reflexivity).
      rewrite step1_bind by exact Eret2. rewrite step1_bind by exact Eret.
      unfold s1_prog, s1_mem, s1_tr. cbn [fst snd].
      destruct (writes_in_step1 (Px c) rest Hr clk m) as (W1 & W2 & W3 & _).
      exists (upd xstage sts i XLive). specialize (CL XLive Est). specialize (CD XLive Est). simpl in CL, CD.
      fold (xnlive (upd xstage sts i XLive)) in CL. fold (xndone (upd xstage sts i XLive)) in CD.
      apply Hmk.
      * cbn [xstage_ok]. eauto.
      * apply W3, Hwf.
      * unfold s1_mem in W2. rewrite W2 by (unfold Px; rewrite loc_eqb_refl; reflexivity).
        rewrite Hval. f_equal. lia.
      * unfold s1_mem in W2. rewrite W2 by (unfold Px; rewrite (loc_eqb_refl (LWg c)), andb_false_r; reflexivity). lia.
  - (* exit: wg.Done() *)
    subst p. unfold wg_done, act. cbn [step1 exec].
    exists (upd xstage sts i XDone). specialize (CL XDone Est). specialize (CD XDone Est). simpl in CL, CD.
    fold (xnlive (upd xstage sts i XDone)) in CL. fold (xndone (upd xstage sts i XDone)) in CD.
    pose proof (xndone_le (upd xstage sts i XDone)) as Hle. rewrite length_upd in Hle.
    apply Hmk.
    + cbn [xstage_ok]. eauto.
    + apply wfm_set; [assumption|apply wrap_lt].
    + rewrite get_set_other by discriminate. rewrite Hval. f_equal. lia.
    + rewrite get_set_same.
      assert (Hge : 1 <= get m (LWg c)) by lia.
      replace (get m (LWg c) + (W - 1)) with ((get m (LWg c) - 1) + W) by (assert (0 < W) by apply W_pos; lia).
      rewrite wrap_plus_W. rewrite wrap_small by lia. lia.
  - (* done *)
    destruct Hp as [v ->]. cbn [step1]. exists (upd xstage sts i XDone).
    specialize (CL XDone Est). specialize (CD XDone Est). simpl in CL, CD.
    fold (xnlive (upd xstage sts i XDone)) in CL. fold (xndone (upd xstage sts i XDone)) in CD.
    apply Hmk.
    + cbn [xstage_ok]. eauto.
    + assumption.
    + rewrite Hval. f_equal. lia.
    + lia.
Qed.

Lemma run_XInv c m0 n sched : N.of_nat n < W ->
  forall cf sts, XInv c m0 n cf sts -> exists sts', XInv c m0 n (run cf sched) sts'.
Proof.
  intros HnW. induction sched as [|lb r IH]; intros cf sts H; [exists sts; exact H|].
  destruct (step_XInv c m0 n cf sts lb HnW H) as [sts1 H1]. unfold run. simpl. apply (IH _ sts1 H1).
Qed.

Lemma x_idle_counts {A} (l : list A) :
  xnlive (map (fun _ => XIdle) l) = 0%nat /\ xndone (map (fun _ => XIdle) l) = 0%nat.
Proof. unfold xnlive, xndone. induction l; simpl; auto. Qed.

(* For every schedule and at every point of it: if the stage's WaitGroup counter is 0 - the only
   condition under which wg.Wait(), and so Stop(), returns - the gauge is back at its initial value
   (0 after Init): no worker is between its wg.Done() and its decrement, because there is no such
   place in the worker. *)
Theorem stop_returned_gauge_zero_lemma c bodies sched m0 :
  wfm m0 -> forallb (gauge_free c) bodies = true ->
  get m0 (LWg c) = N.of_nat (length bodies) -> N.of_nat (length bodies) < W ->
  let cf := run (start (map (stage_worker c) bodies) m0) sched in
  stop_returned c (c_mem cf) = true -> get (c_mem cf) (LCnt c) = get m0 (LCnt c).
Proof.
  intros Hw Hg Hwg0 HnW cf Hstop.
  assert (H0 : XInv c m0 (length bodies) (start (map (stage_worker c) bodies) m0) (map (fun _ => XIdle) bodies)).
  { destruct (x_idle_counts bodies) as [E1 E2]. constructor; simpl.
    - apply map_length.
    - apply map_length.
    - intros t p st Hp Hs. rewrite nth_error_map in Hp, Hs.
      destruct (nth_error bodies t) as [b|] eqn:E; try discriminate. inversion Hp; inversion Hs; subst.
      cbn [xstage_ok]. exists b. split; [|reflexivity].
      rewrite forallb_forall in Hg. apply Hg. eapply nth_error_In, E.
    - exact Hw.
    - rewrite E1. simpl. rewrite N.add_0_r. symmetry. apply wrap_small, Hw.
    - rewrite E2. simpl. lia. }
  destruct (run_XInv c m0 (length bodies) sched HnW _ _ H0) as [sts [Hlen _ _ _ Hval Hwg]].
  fold cf in Hval, Hwg. unfold stop_returned in Hstop. apply N.eqb_eq in Hstop. rewrite Hstop in Hwg.
  assert (Hd : xndone sts = length sts) by lia.
  rewrite Hval, (xndone_full sts Hd). simpl. rewrite N.add_0_r. apply wrap_small, Hw.
Qed.

(* With wg.Done() deferred after the decrement's defer (so that it runs BEFORE it) the statement is
   false: both workers have released the WaitGroup, Stop() returns, the gauge still reads 2. *)
Lemma stop_returned_bad_order_refuted_lemma :
  exists sched,
    let cf := run (start (map (stage_worker_bad CPost) [[]; []]) [(LWg CPost, 2)]) sched in
    stop_returned CPost (c_mem cf) = true /\ get (c_mem cf) (LCnt CPost) = 2.
Proof. exists [(0%nat, []); (1%nat, []); (0%nat, []); (1%nat, [])]. vm_compute. split; reflexivity. Qed.

(* non-vacuity: three workers, all the way through; and a point where Stop() has not returned yet *)
Example stop_returned_nonvacuous :
  let bodies := [[ORateIncr RUrls 1]; []; [OMeanAdd MResp 4]] in
  let m0 := [(LWg CPost, 3)] in
  let sched := flat_map (fun _ => [(0%nat, []); (1%nat, []); (2%nat, [])]) (List.seq 0 6) in
  forallb (gauge_free CPost) bodies = true
  /\ stop_returned CPost (c_mem (run (start (map (stage_worker CPost) bodies) m0) sched)) = true
  /\ get (c_mem (run (start (map (stage_worker CPost) bodies) m0) sched)) (LCnt CPost) = 0
  /\ stop_returned CPost (c_mem (run (start (map (stage_worker CPost) bodies) m0) (firstn 4 sched))) = false
  /\ get (c_mem (run (start (map (stage_worker CPost) bodies) m0) (firstn 4 sched))) (LCnt CPost) = 3.
Proof. vm_compute. repeat split; reflexivity. Qed.
