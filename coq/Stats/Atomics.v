(* C17 - model of internal/pkg/stats (counter.go, rate.go, rate_bucket.go, mean.go, methods.go,
   stats.go) and of the worker gauges of the stage workers.

   Memory is a finite map from locations to 64-bit words.  Goroutines are resumption programs whose
   leaves are the ATOMIC ACTIONS the Go code performs through sync/atomic (Add, Load, Store, Swap,
   CompareAndSwap); every API function below is a transliteration of its Go body into that
   language, including the data flow between its actions (rate.get stores what its Swap returned)
   and its branches (time.Now() == lastUpdate, key present in the map).  A critical section
   (sync.Mutex Lock ... Unlock) is a [Crit] block, executed as one step of the transition system.
   A history is produced by a schedule: a list of labels (goroutine index, clock readings); the
   theorems in StatsProofs.v quantify over all schedules.

   Executable definitions only; proofs are in StatsProofs.v. *)
From Coq Require Export NArith List Bool.
Export ListNotations.
Open Scope N_scope.

(* ---------------------------------------------------------------- words *)
Definition W : N := 2 ^ 64.
Definition wrap (x : N) : N := x mod W.
(* ^x on a uint64 *)
Definition compl (x : N) : N := W - 1 - wrap x.
(* the operand of counter.decr:  ^uint64(step-1)  with step-1 computed in uint64 *)
Definition decr_arg (step : N) : N := compl (wrap (wrap step + (W - 1))).

(* ---------------------------------------------------------------- locations *)
Inductive rid := RUrls | RSeeds | RKey (k : N).   (* URLsCrawled, SeedsFinished, HTTPReturnCodes[k] *)
Inductive cid := CPre | CArch | CPost | CFin.     (* the four *Routines gauges *)
Inductive mid := MResp | MBody | MFeed.           (* MeanHTTPResponseTime, MeanProcessBodyTime, MeanWaitOnFeedbackTime *)

Inductive loc :=
| LTotal (r : rid) | LCount (r : rid) | LLastCount (r : rid) | LLastUpdate (r : rid)  (* rate fields *)
| LCnt (c : cid)                                                                      (* counter.count *)
| LMCount (m : mid) | LMSum (m : mid)                                                 (* mean fields *)
| LPaused | LWarcQ
| LPresent (k : N)                         (* 1 iff rateBucket.data has key k *)
| LWg (c : cid).                           (* counter of the stage's sync.WaitGroup *)

Definition rid_eqb (a b : rid) : bool :=
  match a, b with
  | RUrls, RUrls | RSeeds, RSeeds => true
  | RKey x, RKey y => x =? y
  | _, _ => false
  end.
Definition cid_eqb (a b : cid) : bool :=
  match a, b with
  | CPre, CPre | CArch, CArch | CPost, CPost | CFin, CFin => true
  | _, _ => false
  end.
Definition mid_eqb (a b : mid) : bool :=
  match a, b with
  | MResp, MResp | MBody, MBody | MFeed, MFeed => true
  | _, _ => false
  end.
Definition loc_eqb (a b : loc) : bool :=
  match a, b with
  | LTotal x, LTotal y | LCount x, LCount y | LLastCount x, LLastCount y | LLastUpdate x, LLastUpdate y => rid_eqb x y
  | LCnt x, LCnt y => cid_eqb x y
  | LMCount x, LMCount y | LMSum x, LMSum y => mid_eqb x y
  | LPaused, LPaused | LWarcQ, LWarcQ => true
  | LPresent x, LPresent y => x =? y
  | LWg x, LWg y => cid_eqb x y
  | _, _ => false
  end.

(* ---------------------------------------------------------------- memory *)
Definition mem := list (loc * N).
Fixpoint get (m : mem) (l : loc) : N :=
  match m with
  | [] => 0
  | (l', v) :: r => if loc_eqb l l' then v else get r l
  end.
Fixpoint set (m : mem) (l : loc) (v : N) : mem :=
  match m with
  | [] => [(l, v)]
  | (l', v') :: r => if loc_eqb l l' then (l, v) :: r else (l', v') :: set r l v
  end.
(* the keys of rateBucket.data *)
Fixpoint dedupN (l : list N) : list N :=
  match l with
  | [] => []
  | x :: r => x :: filter (fun y => negb (x =? y)) (dedupN r)
  end.
Definition keys (m : mem) : list N :=
  filter (fun k => get m (LPresent k) =? 1)
         (dedupN (flat_map (fun e => match fst e with LPresent k => [k] | _ => [] end) m)).

(* ---------------------------------------------------------------- atomic actions *)
Inductive action :=
| Add (l : loc) (v : N)          (* atomic.AddUint64 / Uint64.Add; returns the new value *)
| Load (l : loc)
| Store (l : loc) (v : N)
| Swap (l : loc) (v : N)         (* returns the old value *)
| CAS (l : loc) (old new : N).   (* returns 1 when swapped *)

Definition aloc (a : action) : loc :=
  match a with Add l _ | Load l | Store l _ | Swap l _ | CAS l _ _ => l end.

Definition exec (a : action) (m : mem) : mem * N :=
  match a with
  | Add l v => let x := wrap (get m l + v) in (set m l x, x)
  | Load l => (m, get m l)
  | Store l v => (set m l (wrap v), 0)
  | Swap l v => (set m l (wrap v), get m l)
  | CAS l o n => if get m l =? o then (set m l (wrap n), 1) else (m, 0)
  end.

(* ---------------------------------------------------------------- programs *)
Inductive val := VU | VN (n : N) | VPair (a b : N) | VMap (kv : list (N * N)).
Definition val_N (v : val) : N := match v with VN n => n | _ => 0 end.

Inductive prog :=
| Ret (v : val)
| Do (a : action) (k : N -> prog)
| Now (k : N -> prog)                 (* time.Now().Unix(); the value comes from the label *)
| Keys (k : list N -> prog)           (* range over rb.data *)
| Crit (body : prog) (k : val -> prog).   (* Lock(); body; Unlock() *)

Fixpoint bind (p : prog) (f : val -> prog) : prog :=
  match p with
  | Ret v => f v
  | Do a k => Do a (fun r => bind (k r) f)
  | Now k => Now (fun r => bind (k r) f)
  | Keys k => Keys (fun ks => bind (k ks) f)
  | Crit b k => Crit b (fun r => bind (k r) f)
  end.
Definition seq (p q : prog) : prog := bind p (fun _ => q).
Definition act (a : action) : prog := Do a (fun _ => Ret VU).

(* run a program to completion on its own: a critical section body, or a goroutine that runs
   alone.  [clk] are the successive clock readings; the executed actions are returned in order. *)
Fixpoint runseq (p : prog) (clk : list N) (m : mem) : val * mem * list N * list action :=
  match p with
  | Ret v => (v, m, clk, [])
  | Do a k => let '(m1, r) := exec a m in
              let '(v, m2, clk2, tr) := runseq (k r) clk m1 in (v, m2, clk2, a :: tr)
  | Now k => runseq (k (wrap (hd 0 clk))) (tl clk) m
  | Keys k => runseq (k (keys m)) clk m
  | Crit b k => let '(r, m1, clk1, tr1) := runseq b clk m in
                let '(v, m2, clk2, tr2) := runseq (k r) clk1 m1 in (v, m2, clk2, tr1 ++ tr2)
  end.

(* one scheduling step of one goroutine *)
Definition step1 (p : prog) (clk : list N) (m : mem) : prog * mem * list action :=
  match p with
  | Ret v => (Ret v, m, [])
  | Do a k => let '(m1, r) := exec a m in (k r, m1, [a])
  | Now k => (k (wrap (hd 0 clk)), m, [])
  | Keys k => (k (keys m), m, [])
  | Crit b k => let '(r, m1, _, tr) := runseq b clk m in (k r, m1, tr)
  end.

(* ---------------------------------------------------------------- the transition system *)
Definition label := (nat * list N)%type.             (* goroutine index, clock readings *)
Definition event := (nat * action)%type.             (* who executed which atomic action *)
Record cfg := Cfg { c_threads : list prog; c_mem : mem; c_trace : list event }.

Fixpoint set_nth (l : list prog) (i : nat) (p : prog) : list prog :=
  match l, i with
  | [], _ => []
  | _ :: r, O => p :: r
  | x :: r, S j => x :: set_nth r j p
  end.

Definition step (c : cfg) (lb : label) : cfg :=
  match nth_error (c_threads c) (fst lb) with
  | None => c
  | Some p => let '(p', m', tr) := step1 p (snd lb) (c_mem c) in
              Cfg (set_nth (c_threads c) (fst lb) p') m' (c_trace c ++ map (fun a => (fst lb, a)) tr)
  end.
Definition run (c : cfg) (sched : list label) : cfg := fold_left step sched c.
Definition start (ps : list prog) (m : mem) : cfg := Cfg ps m [].

Definition is_ret (p : prog) : bool := match p with Ret _ => true | _ => false end.
Definition finished (c : cfg) : bool := forallb is_ret (c_threads c).

(* ================================================================ the Go code *)

(* ---- counter.go *)
Definition counter_incr (c : cid) (step : N) : prog := act (Add (LCnt c) step).
Definition counter_decr (c : cid) (step : N) : prog := act (Add (LCnt c) (decr_arg step)).
Definition counter_get (c : cid) : prog := Do (Load (LCnt c)) (fun v => Ret (VN v)).
Definition counter_reset (c : cid) : prog := act (Store (LCnt c) 0).

(* ---- rate.go *)
Definition rate_incr (r : rid) (step : N) : prog :=
  Do (Add (LCount r) step) (fun _ => Do (Add (LTotal r) step) (fun _ => Ret VU)).
Definition rate_get (r : rid) : prog :=
  Now (fun now =>
  Do (Load (LLastUpdate r)) (fun lastUpdate =>
  if now =? lastUpdate then Do (Load (LLastCount r)) (fun v => Ret (VN v))
  else
    Do (Load (LCount r)) (fun currentCount =>
    Do (Swap (LCount r) 0) (fun lastCount =>
    Do (Store (LLastCount r) lastCount) (fun _ =>
    Do (Store (LLastUpdate r) now) (fun _ => Ret (VN currentCount))))))).
Definition rate_get_total (r : rid) : prog := Do (Load (LTotal r)) (fun v => Ret (VN v)).
Definition rate_reset (r : rid) : prog :=
  Do (Store (LCount r) 0) (fun _ => Do (Store (LLastCount r) 0) (fun _ => Do (Store (LLastUpdate r) 0) (fun _ => Ret VU))).

(* ---- mean.go.  [mean_*_orig]: the code as found (two independent atomics per operation);
   [mean_*]: after "fix: mean guards count and sum with one mutex" (fixes/C17-mean-mutex.diff). *)
Definition mean_add_orig (m : mid) (v : N) : prog :=
  Do (Add (LMCount m) 1) (fun _ => Do (Add (LMSum m) v) (fun _ => Ret VU)).
Definition mean_get_orig (m : mid) : prog :=
  Do (Load (LMCount m)) (fun c => Do (Load (LMSum m)) (fun s => Ret (VPair c s))).
Definition mean_reset_orig (m : mid) : prog :=
  Do (Store (LMCount m) 0) (fun _ => Do (Store (LMSum m) 0) (fun _ => Ret VU)).
Definition mean_add (m : mid) (v : N) : prog := Crit (mean_add_orig m v) Ret.
Definition mean_get (m : mid) : prog := Crit (mean_get_orig m) Ret.
Definition mean_reset (m : mid) : prog := Crit (mean_reset_orig m) Ret.

(* ---- rate_bucket.go: every method holds rb.Mutex for its whole body.
   [new_rate]: rps := &rate{} - the key's cells are those of a fresh zeroed object. *)
Definition new_rate (k : N) : prog :=
  Do (Store (LTotal (RKey k)) 0) (fun _ => Do (Store (LCount (RKey k)) 0) (fun _ =>
  Do (Store (LLastCount (RKey k)) 0) (fun _ => Do (Store (LLastUpdate (RKey k)) 0) (fun _ => Ret VU)))).
Definition bucket_incr_body (k : N) (step : N) : prog :=
  Do (Load (LPresent k)) (fun ok =>
  if ok =? 1 then rate_incr (RKey k) step
  else seq (new_rate k) (seq (rate_incr (RKey k) step) (act (Store (LPresent k) 1)))).
Definition bucket_get_body (k : N) : prog :=
  Do (Load (LPresent k)) (fun ok => if ok =? 1 then rate_get (RKey k) else Ret (VN 0)).
Definition bucket_get_total_body (k : N) : prog :=
  Do (Load (LPresent k)) (fun ok => if ok =? 1 then rate_get_total (RKey k) else Ret (VN 0)).
Definition bucket_reset_body (k : N) : prog :=
  Do (Load (LPresent k)) (fun ok => if ok =? 1 then rate_reset (RKey k) else Ret VU).
Fixpoint for_keys (ks : list N) (f : N -> prog) (acc : list (N * N)) : prog :=
  match ks with
  | [] => Ret (VMap (rev acc))
  | k :: r => bind (f k) (fun v => for_keys r f ((k, val_N v) :: acc))
  end.
Definition bucket_incr (k step : N) : prog := Crit (bucket_incr_body k step) Ret.
Definition bucket_get (k : N) : prog := Crit (bucket_get_body k) Ret.
Definition bucket_get_total (k : N) : prog := Crit (bucket_get_total_body k) Ret.
Definition bucket_reset (k : N) : prog := Crit (bucket_reset_body k) Ret.
Definition bucket_get_all : prog :=
  Crit (Keys (fun ks => for_keys ks (fun k => rate_get (RKey k)) [])) Ret.
Definition bucket_get_all_total : prog :=
  Crit (Keys (fun ks => for_keys ks (fun k => rate_get_total (RKey k)) [])) Ret.
(* getFiltered(pattern): [f] says which keys the pattern matches *)
Definition bucket_get_filtered (f : N -> bool) : prog :=
  Crit (Keys (fun ks => for_keys (filter f ks) (fun k => rate_get (RKey k)) [])) Ret.
Definition bucket_reset_all : prog :=
  Crit (Keys (fun ks => for_keys ks (fun k => rate_reset (RKey k)) [])) Ret.

(* ---- methods.go / stats.go: the API (Prometheus disabled: globalPromStats == nil) *)
Inductive op :=
| ORateIncr (r : rid) (step : N)     (* URLsCrawledIncr / SeedsFinishedIncr / HTTPReturnCodesIncr(key): step 1 *)
| ORateGet (r : rid)                 (* URLsCrawledGet / SeedsFinishedGet / HTTPReturnCodesGet(key): per-second value *)
| ORateGetTotal (r : rid)
| ORateReset (r : rid)               (* ...Reset / HTTPReturnCodesReset(key) *)
| OBucketGetAll | OBucketGetAllTotal | OBucketGetFiltered (ks : list N) | OBucketResetAll
| OCntIncr (c : cid) (step : N) | OCntDecr (c : cid) (step : N) | OCntGet (c : cid) | OCntReset (c : cid)
| OMeanAdd (m : mid) (v : N) | OMeanGet (m : mid) | OMeanReset (m : mid)
| OPausedSet | OPausedUnset | OPausedGet | OPausedReset
| OWarcSet (v : N) | OWarcGet | OWarcReset
| OReset                             (* stats.Reset() *)
| OTui (k2 k3 k4 k5 : list N).       (* stats.GetMapTUI(); the keys matching "2*" "3*" "4*" "5*" *)

Definition memN (ks : list N) (k : N) : bool := existsb (N.eqb k) ks.

Definition compile_op (o : op) : prog :=
  match o with
  | ORateIncr (RKey k) s => bucket_incr k s
  | ORateIncr r s => rate_incr r s
  | ORateGet (RKey k) => bucket_get k
  | ORateGet r => rate_get r
  | ORateGetTotal (RKey k) => bucket_get_total k
  | ORateGetTotal r => rate_get_total r
  | ORateReset (RKey k) => bucket_reset k
  | ORateReset r => rate_reset r
  | OBucketGetAll => bucket_get_all
  | OBucketGetAllTotal => bucket_get_all_total
  | OBucketGetFiltered ks => bucket_get_filtered (memN ks)
  | OBucketResetAll => bucket_reset_all
  | OCntIncr c s => counter_incr c s
  | OCntDecr c s => counter_decr c s
  | OCntGet c => counter_get c
  | OCntReset c => counter_reset c
  | OMeanAdd m v => mean_add m v
  | OMeanGet m => mean_get m
  | OMeanReset m => mean_reset m
  | OPausedSet => Do (CAS LPaused 0 1) (fun _ => Ret VU)
  | OPausedUnset => Do (CAS LPaused 1 0) (fun _ => Ret VU)
  | OPausedGet => Do (Load LPaused) (fun v => Ret (VN v))
  | OPausedReset => act (Store LPaused 0)
  | OWarcSet v => act (Store LWarcQ v)
  | OWarcGet => Do (Load LWarcQ) (fun v => Ret (VN v))
  | OWarcReset => act (Store LWarcQ 0)
  | OReset =>
      seq (rate_reset RUrls) (seq (rate_reset RSeeds)
      (seq (counter_reset CPre) (seq (counter_reset CArch) (seq (counter_reset CPost) (seq (counter_reset CFin)
      (seq bucket_reset_all (seq (mean_reset MResp) (seq (mean_reset MBody) (mean_reset MFeed)))))))))
  | OTui k2 k3 k4 k5 =>
      seq (rate_get RUrls) (seq (rate_get_total RUrls) (seq (rate_get_total RSeeds)
      (seq (counter_get CPre) (seq (counter_get CArch) (seq (counter_get CPost) (seq (counter_get CFin)
      (seq (Do (Load LPaused) (fun v => Ret (VN v)))
      (seq (bucket_get_filtered (memN k2)) (seq (bucket_get_filtered (memN k3))
      (seq (bucket_get_filtered (memN k4)) (seq (bucket_get_filtered (memN k5))
      (seq (mean_get MResp) (Do (Load LWarcQ) (fun v => Ret (VN v)))))))))))))))
  end.

(* a goroutine that calls the API functions of [s] one after the other *)
Fixpoint compile (s : list op) : prog :=
  match s with
  | [] => Ret VU
  | o :: r => seq (compile_op o) (compile r)
  end.

(* a stage worker:  stats.XRoutinesIncr(); defer stats.XRoutinesDecr(); <body> *)
Definition worker (c : cid) (body : list op) : prog :=
  seq (counter_incr c 1) (seq (compile body) (counter_decr c 1)).

(* ================================================================ the sequential specification *)

(* what one call adds to a word (only the cells that are only ever Add-ed to are listed) *)
Definition delta (l : loc) (o : op) : N :=
  match o, l with
  | ORateIncr r s, LTotal r' => if rid_eqb r r' then s else 0
  | ORateIncr r s, LCount r' => if rid_eqb r r' then s else 0
  | OCntIncr c s, LCnt c' => if cid_eqb c c' then s else 0
  | OCntDecr c s, LCnt c' => if cid_eqb c c' then decr_arg s else 0
  | OMeanAdd m v, LMCount m' => if mid_eqb m m' then 1 else 0
  | OMeanAdd m v, LMSum m' => if mid_eqb m m' then v else 0
  | _, _ => 0
  end.
Definition sigma (l : loc) (ops : list op) : N := fold_right (fun o a => delta l o + a) 0 ops.

(* the locations a call may write *)
Definition is_key_rate_cell (l : loc) : bool :=
  match l with LCount (RKey _) | LLastCount (RKey _) | LLastUpdate (RKey _) => true | _ => false end.
Definition rate_cells (r : rid) (l : loc) : bool :=
  loc_eqb l (LCount r) || loc_eqb l (LLastCount r) || loc_eqb l (LLastUpdate r).
Definition wr (o : op) (l : loc) : bool :=
  match o with
  | ORateIncr (RKey k) _ => loc_eqb l (LTotal (RKey k)) || rate_cells (RKey k) l || loc_eqb l (LPresent k)
  | ORateIncr r _ => loc_eqb l (LCount r) || loc_eqb l (LTotal r)
  | ORateGet r | ORateReset r => rate_cells r l
  | OBucketGetAll | OBucketGetFiltered _ | OBucketResetAll => is_key_rate_cell l
  | OCntIncr c _ | OCntDecr c _ | OCntReset c => loc_eqb l (LCnt c)
  | OMeanAdd m _ | OMeanReset m => loc_eqb l (LMCount m) || loc_eqb l (LMSum m)
  | OPausedSet | OPausedUnset | OPausedReset => loc_eqb l LPaused
  | OWarcSet _ | OWarcReset => loc_eqb l LWarcQ
  | OReset =>
      match l with
      | LCount _ | LLastCount _ | LLastUpdate _ | LCnt _ | LMCount _ | LMSum _ => true
      | _ => false
      end
  | OTui _ _ _ _ => rate_cells RUrls l || is_key_rate_cell l
  | _ => false
  end.
(* ... of which by adding only.  (rateBucket.incr on a new key stores zeros into the fresh
   object's total and then adds: an addition, because the total of an absent key is 0 - BInv.) *)
Definition adds_to (o : op) (l : loc) : bool :=
  match o with
  | ORateIncr (RKey k) _ => loc_eqb l (LTotal (RKey k))
  | ORateIncr r _ => loc_eqb l (LCount r) || loc_eqb l (LTotal r)
  | OCntIncr c _ | OCntDecr c _ => loc_eqb l (LCnt c)
  | OMeanAdd m _ => loc_eqb l (LMCount m) || loc_eqb l (LMSum m)
  | _ => false
  end.
(* calls that write a word otherwise than by adding to it *)
Definition clobbers (l : loc) (o : op) : bool := wr o l && negb (adds_to o l).
Definition additive (l : loc) (ops : list op) : bool := forallb (fun o => negb (clobbers l o)) ops.

(* the mean the getter reports, as a rational:  float64(sum) / float64(count), 0 when count = 0 *)
Definition mean_num (v : val) : N := match v with VPair _ s => s | _ => 0 end.
Definition mean_den (v : val) : N := match v with VPair c _ => c | _ => 0 end.

(* ---- worker gauges: who is live according to the history *)
Definition is_start (c : cid) (a : action) : bool :=
  match a with Add (LCnt c') v => cid_eqb c' c && (v =? 1) | _ => false end.
Definition is_exit (c : cid) (a : action) : bool :=
  match a with Add (LCnt c') v => cid_eqb c' c && (v =? decr_arg 1) | _ => false end.
Definition started (c : cid) (tr : list event) (t : nat) : bool :=
  existsb (fun e => Nat.eqb (fst e) t && is_start c (snd e)) tr.
Definition exited (c : cid) (tr : list event) (t : nat) : bool :=
  existsb (fun e => Nat.eqb (fst e) t && is_exit c (snd e)) tr.
(* goroutine t has executed its XRoutinesIncr and not yet its deferred XRoutinesDecr *)
Definition live (c : cid) (tr : list event) (t : nat) : bool := started c tr t && negb (exited c tr t).
Definition live_count (c : cid) (tr : list event) (n : nat) : nat :=
  length (filter (live c tr) (List.seq 0 n)).
Definition gauge_free (c : cid) (body : list op) : bool := forallb (fun o => negb (wr o (LCnt c))) body.

(* ---- readable forms of the specification *)
Fixpoint sumN (xs : list N) : N := match xs with [] => 0 | x :: r => x + sumN r end.

Definition issued (r : rid) (ops : list op) : N := sigma (LTotal r) ops.

Definition incr_steps (r : rid) (ops : list op) : list N :=
  flat_map (fun o => match o with ORateIncr r' s => if rid_eqb r' r then [s] else [] | _ => [] end) ops.

Definition added_values (m : mid) (ops : list op) : list N :=
  flat_map (fun o => match o with OMeanAdd m' v => if mid_eqb m' m then [v] else [] | _ => [] end) ops.

Definition incr_of_key (k : N) (o : op) : bool :=
  match o with ORateIncr (RKey k') _ => k' =? k | _ => false end.

(* the calls that only add and read: everything the pipeline does while it runs, except the
   per-second rate getters (Swap) *)
Definition comm_op (o : op) : bool :=
  match o with
  | ORateIncr _ _ | OCntIncr _ _ | OCntDecr _ _ | OMeanAdd _ _
  | ORateGetTotal _ | OBucketGetAllTotal | OCntGet _ | OMeanGet _ | OPausedGet | OWarcGet => true
  | _ => false
  end.

(* the words compared: all of them except the per-second helper cells of the bucket's rates *)
Definition compared (l : loc) : bool := negb (is_key_rate_cell l).

(* the quiescent state as a function of the multiset of calls *)
Definition spec_word (l : loc) (ops : list op) (m0 : mem) : N :=
  match l with
  | LPresent k => if existsb (incr_of_key k) ops then 1 else get m0 l
  | _ => wrap (get m0 l + sigma l ops)
  end.

(* ---- run-length encoded scripts *)
Definition expand (segs : list (op * N)) : list op :=
  flat_map (fun on => N.iter (snd on) (cons (fst on)) []) segs.
Definition sigma_segs (l : loc) (segs : list (op * N)) : N :=
  fold_right (fun on a => delta l (fst on) * snd on + a) 0 segs.
Definition additive_segs (l : loc) (segs : list (op * N)) : bool :=
  forallb (fun on => negb (clobbers l (fst on))) segs.
Definition key_incremented (k : N) (segs : list (op * N)) : bool :=
  existsb (fun on => incr_of_key k (fst on) && negb (snd on =? 0)) segs.

(* ---- a stage and its WaitGroup.  Start(): for each worker  wg.Add(1); go worker().
   worker():  defer wg.Done()  is its FIRST defer, so it runs LAST: Incr; body; Decr; Done.
   Stop():  cancel(); wg.Wait()  - returns once the counter is observed to be 0. *)
Definition wg_done (c : cid) : prog := act (Add (LWg c) (W - 1)).
Definition stage_worker (c : cid) (body : list op) : prog := seq (worker c body) (wg_done c).
Definition stop_returned (c : cid) (m : mem) : bool := get m (LWg c) =? 0.
(* the order a worker would have with  defer wg.Done()  registered AFTER  defer XRoutinesDecr() *)
Definition stage_worker_bad (c : cid) (body : list op) : prog :=
  seq (counter_incr c 1) (seq (compile body) (seq (wg_done c) (counter_decr c 1))).

(* ---- the archiver as a client of the package (internal/pkg/archiver/archiver.go, archive()) *)
(* archive()'s retry loop: 5xx, 408, 425, 429 are retried up to max-retry times; [fuel] = max-retry + 1;
   the script exhausted, the origin answers 200 *)
Definition retry_class (s : N) : bool := (500 <=? s) || (s =? 408) || (s =? 425) || (s =? 429).
Fixpoint attempts (fuel : nat) (script : list N) : list N :=
  match fuel with
  | O => []
  | S f => let s := hd 200 script in
           if retry_class s then s :: attempts f (tl script) else [s]
  end.
(* the calls it makes, given the statuses received per item (after "fix: archiver counts the
   responses it retries on or gives up on", /repo 3ec1779): HTTPReturnCodesIncr for every response,
   URLsCrawledIncr once per item *)
Definition arch_calls (served : list (list N)) : list (op * N) :=
  flat_map (fun sv => map (fun s => (ORateIncr (RKey s) 1, 1)) sv ++ [(ORateIncr RUrls 1, 1)]) served.
(* the code as found: only the response finally accepted was counted *)
Definition arch_calls_orig (served : list (list N)) : list (op * N) :=
  flat_map (fun sv => map (fun s => (ORateIncr (RKey s) 1, 1)) (filter (fun s => negb (retry_class s)) sv)
                      ++ [(ORateIncr RUrls 1, 1)]) served.
