(* C17 - the proof method: a goroutine's PENDING EFFECT on one location.

   [eff p x]: in every execution (whatever the loaded values, clock readings and key sets are)
   program p changes location l by exactly the effect x, where effects form a commutative monoid
   acting on words (additions mod 2^64; or "set to 1").  The sum of the memory word and all pending
   effects is invariant under every step of every goroutine, so when all goroutines have
   finished the word is the initial word plus all effects - for EVERY schedule. *)
From Coq Require Import Lia.
From ZenoV Require Import Stats.Atomics Stats.AtomicsBase.
Open Scope N_scope.

(* ---- the invariant of the rate bucket: a key that is not in the map has total 0 (its rate
   object does not exist yet; the model keeps the cells of the future object at zero) *)
Definition binv_loc (l : loc) : bool :=
  match l with LTotal (RKey _) | LPresent _ => true | _ => false end.
Definition BInv (m : mem) : Prop := forall k, get m (LPresent k) <> 1 -> get m (LTotal (RKey k)) = 0.
Definition Inv (m : mem) : Prop := wfm m /\ BInv m.

Lemma Inv_nil : Inv [].
Proof. split; [apply wfm_nil|]. intros k _. reflexivity. Qed.
Lemma Inv_same m m' :
  Inv m -> wfm m' -> (forall l, binv_loc l = true -> get m' l = get m l) -> Inv m'.
Proof.
  intros [Hw Hb] Hw' Hs. split; [assumption|]. intros k Hk.
  rewrite (Hs (LTotal (RKey k)) eq_refl). apply Hb. rewrite <- (Hs (LPresent k) eq_refl). assumption.
Qed.
Lemma Inv_exec a m : Inv m -> (is_load a = true \/ binv_loc (aloc a) = false) -> Inv (fst (exec a m)).
Proof.
  intros HI Ha. apply (Inv_same m); [assumption|apply wfm_exec, HI|].
  intros l Hl. apply exec_other. destruct Ha as [Ha|Ha]; [left; assumption|right; congruence].
Qed.

Section Effects.
  (* the effect monoid and its action on the observed word *)
  Variable M : Type.
  Variable mzero : M.
  Variable mplus : M -> M -> M.
  Variable app : M -> N -> N.
  Variable good : N -> Prop.
  Hypothesis app_zero : forall n, good n -> app mzero n = n.
  Hypothesis app_plus : forall a b n, app (mplus a b) n = app b (app a n).
  Hypothesis app_comm : forall a b n, app a (app b n) = app b (app a n).
  Hypothesis app_good : forall a n, good n -> good (app a n).
  (* the invariant carried along ([prot]: the locations it depends on) and the observed word
     ([watched]: the locations it depends on) *)
  Variable J : mem -> Prop.
  Variable prot : loc -> bool.
  Variable obs : mem -> N.
  Variable watched : loc -> bool.
  Hypothesis J_wf : forall m, J m -> wfm m.
  Hypothesis J_same : forall m m',
    J m -> wfm m' -> (forall q, prot q = true -> get m' q = get m q) -> J m'.
  Hypothesis obs_same : forall m m', (forall q, watched q = true -> get m' q = get m q) -> obs m' = obs m.
  Hypothesis inv_good : forall m, J m -> good (obs m).
  Variable aeff : action -> option M.      (* effect of one action outside a critical section; None: not allowed *)
  Hypothesis aeff_ok : forall a x m, J m -> aeff a = Some x ->
    obs (fst (exec a m)) = app x (obs m) /\ J (fst (exec a m)).
  Hypothesis aeff_free : forall a,
    (is_load a = true \/ (prot (aloc a) = false /\ watched (aloc a) = false)) -> aeff a = Some mzero.

  Definition crit_ok (b : prog) (x : M) : Prop := forall m clk, J m ->
    J (rs_mem (runseq b clk m)) /\ obs (rs_mem (runseq b clk m)) = app x (obs m).
  Definition meq (x y : M) : Prop := forall n, good n -> app x n = app y n.

  Inductive eff : prog -> M -> Prop :=
  | E_Ret v : eff (Ret v) mzero
  | E_Do a k x y : aeff a = Some x -> (forall r, eff (k r) y) -> eff (Do a k) (mplus x y)
  | E_Now k y : (forall r, eff (k r) y) -> eff (Now k) y
  | E_Keys k y : (forall ks, eff (k ks) y) -> eff (Keys k) y
  | E_Crit b k x y : crit_ok b x -> (forall r, eff (k r) y) -> eff (Crit b k) (mplus x y)
  | E_eq p x y : eff p x -> meq x y -> eff p y.

  Lemma eff_ret_inv v x : eff (Ret v) x -> meq x mzero.
  Proof.
    intros H. remember (Ret v) as p eqn:Ep. induction H; try discriminate.
    - intros n _. reflexivity.
    - intros n Hn. rewrite <- (H0 n Hn). apply IHeff; assumption.
  Qed.

  Lemma eff_bind p x f y : eff p x -> (forall v, eff (f v) y) -> eff (bind p f) (mplus x y).
  Proof.
    intros Hp Hf. induction Hp.
    - simpl. eapply E_eq; [apply Hf|]. intros n Hn. rewrite app_plus, app_zero by assumption. reflexivity.
    - simpl. eapply E_eq; [eapply E_Do; [eassumption|]; intros r; apply H1|].
      intros n Hn. rewrite !app_plus. reflexivity.
    - simpl. apply E_Now. intros r. apply H0.
    - simpl. apply E_Keys. intros r. apply H0.
    - simpl. eapply E_eq; [eapply E_Crit; [eassumption|]; intros r; apply H1|].
      intros n Hn. rewrite !app_plus. reflexivity.
    - eapply E_eq; [apply IHHp|]. intros n Hn. rewrite !app_plus. rewrite (H n Hn). reflexivity.
  Qed.

  Lemma eff_step1 p x : eff p x -> forall m clk, J m ->
    exists x0 y, eff (s1_prog (step1 p clk m)) y /\ J (s1_mem (step1 p clk m))
      /\ obs (s1_mem (step1 p clk m)) = app x0 (obs m)
      /\ (forall n, good n -> app x n = app y (app x0 n)).
  Proof.
    induction 1 as [v|a k x y Ha Hk _|k y Hk _|k y Hk _|b k x y Hb Hk _|p x y Hp IH Hxy]; intros m clk HI.
    - exists mzero, mzero. unfold s1_prog, s1_mem; simpl. split; [constructor|]. split; [assumption|].
      split; [symmetry; apply app_zero, inv_good, HI|]. intros n Hn. rewrite !app_zero; auto.
    - exists x, y. simpl. destruct (exec a m) as [m1 r] eqn:E. unfold s1_prog, s1_mem; simpl.
      destruct (aeff_ok a x m HI Ha) as [A1 A2]. rewrite E in A1, A2. simpl in A1, A2.
      split; [apply Hk|]. split; [assumption|]. split; [assumption|]. intros n _. apply app_plus.
    - exists mzero, y. unfold s1_prog, s1_mem; simpl. split; [apply Hk|]. split; [assumption|].
      split; [symmetry; apply app_zero, inv_good, HI|]. intros n Hn. rewrite app_zero; auto.
    - exists mzero, y. unfold s1_prog, s1_mem; simpl. split; [apply Hk|]. split; [assumption|].
      split; [symmetry; apply app_zero, inv_good, HI|]. intros n Hn. rewrite app_zero; auto.
    - exists x, y. simpl. destruct (runseq b clk m) as [[[r m1] c1] t1] eqn:E. unfold s1_prog, s1_mem; simpl.
      destruct (Hb m clk HI) as [B1 B2]. rewrite E in B1, B2. unfold rs_mem in B1, B2; simpl in B1, B2.
      split; [apply Hk|]. split; [assumption|]. split; [assumption|]. intros n _. apply app_plus.
    - destruct (IH m clk HI) as (x0 & y0 & E1 & E2 & E3 & E4). exists x0, y0.
      split; [assumption|]. split; [assumption|]. split; [assumption|].
      intros n Hn. rewrite <- (Hxy n Hn). apply E4, Hn.
  Qed.

  Lemma writes_in_eff P p :
    writes_in P p -> (forall q, P q = true -> prot q = false /\ watched q = false) -> eff p mzero.
  Proof.
    intros Hw HP. induction Hw as [v|a k Ha Hk IH|k Hk IH|k Hk IH|b k Hb IHb Hk IH].
    - constructor.
    - eapply E_eq; [eapply E_Do; [apply aeff_free|exact IH]|].
      + destruct Ha as [Ha|Ha]; [left; assumption|right; apply HP, Ha].
      + intros n Hn. rewrite app_plus, !app_zero; auto.
    - apply E_Now. exact IH.
    - apply E_Keys. exact IH.
    - eapply E_eq; [eapply E_Crit; [|exact IH]|].
      + intros m clk HI. destruct (writes_in_runseq P b Hb clk m) as [B1 B2]. split.
        * apply (J_same m); [assumption|apply B2, J_wf, HI|]. intros q Hq. apply B1.
          destruct (P q) eqn:E; [|reflexivity]. apply HP in E. destruct E. congruence.
        * rewrite (obs_same m (rs_mem (runseq b clk m))).
          -- symmetry. apply app_zero, inv_good, HI.
          -- intros q Hq. apply B1. destruct (P q) eqn:E; [|reflexivity]. apply HP in E. destruct E. congruence.
      + intros n Hn. rewrite app_plus, !app_zero; auto.
  Qed.

  (* running a program to completion applies its effect *)
  Lemma eff_crit_ok p x : eff p x -> crit_ok p x.
  Proof.
    induction 1 as [v|a k x y Ha Hk IH|k y Hk IH|k y Hk IH|b k x y Hb Hk IH|p x y Hp IH Hxy]; intros m clk HI.
    - unfold rs_mem; simpl. split; [assumption|]. symmetry. apply app_zero, inv_good, HI.
    - rewrite rs_mem_Do.
      destruct (aeff_ok a x m HI Ha) as [A1 A2].
      destruct (IH (snd (exec a m)) (fst (exec a m)) clk A2) as [I1 I2].
      split; [assumption|]. rewrite I2, A1. symmetry. apply app_plus.
    - simpl. apply IH, HI.
    - simpl. apply IH, HI.
    - rewrite rs_mem_Crit.
      destruct (Hb m clk HI) as [B1 B2].
      destruct (IH (rs_val (runseq b clk m)) (rs_mem (runseq b clk m)) (rs_clk (runseq b clk m)) B1) as [I1 I2].
      split; [assumption|]. rewrite I2, B2. symmetry. apply app_plus.
    - destruct (IH m clk HI) as [I1 I2]. split; [assumption|]. rewrite I2. apply Hxy, inv_good, HI.
  Qed.
  Lemma E_Crit' b k x y : eff b x -> (forall r, eff (k r) y) -> eff (Crit b k) (mplus x y).
  Proof. intros Hb Hk. apply E_Crit; [apply eff_crit_ok, Hb|exact Hk]. Qed.

  (* ---- all goroutines together *)
  Definition app_all (xs : list M) (n : N) : N := fold_right app n xs.

  Lemma app_all_good xs n : good n -> good (app_all xs n).
  Proof. intros Hn. induction xs; simpl; auto. Qed.
  Lemma app_all_comm a xs n : app a (app_all xs n) = app_all xs (app a n).
  Proof. induction xs as [|z r IH]; simpl; [reflexivity|]. rewrite app_comm, IH. reflexivity. Qed.

  Fixpoint upd (xs : list M) (i : nat) (y : M) : list M :=
    match xs, i with
    | [], _ => []
    | _ :: r, O => y :: r
    | z :: r, S j => z :: upd r j y
    end.

  Lemma forall2_nth ts xs i p :
    Forall2 eff ts xs -> nth_error ts i = Some p -> exists x, nth_error xs i = Some x /\ eff p x.
  Proof.
    intros H. revert i. induction H as [|t x ts xs Ht _ IH]; intros i Hi.
    - destruct i; discriminate.
    - destruct i; simpl in *.
      + inversion Hi; subst. eauto.
      + apply IH, Hi.
  Qed.
  Lemma forall2_upd ts xs i p' y :
    Forall2 eff ts xs -> eff p' y -> Forall2 eff (set_nth ts i p') (upd xs i y).
  Proof.
    intros H Hy. revert i. induction H as [|t x ts xs Ht Hts IH]; intros i; simpl.
    - destruct i; constructor.
    - destruct i; constructor; auto.
  Qed.
  Lemma app_all_upd xs i x y x0 n :
    nth_error xs i = Some x -> (forall k, good k -> app x k = app y (app x0 k)) -> good n ->
    app_all (upd xs i y) (app x0 n) = app_all xs n.
  Proof.
    revert i. induction xs as [|z r IH]; intros i Hi Hx Hn.
    - destruct i; discriminate.
    - destruct i; simpl in *.
      + inversion Hi; subst. rewrite <- app_all_comm. symmetry. apply Hx, app_all_good, Hn.
      + f_equal. apply IH; assumption.
  Qed.

  Lemma step_eff ts xs m tr lb :
    Forall2 eff ts xs -> J m ->
    exists xs', Forall2 eff (c_threads (step (Cfg ts m tr) lb)) xs'
      /\ J (c_mem (step (Cfg ts m tr) lb))
      /\ app_all xs' (obs (c_mem (step (Cfg ts m tr) lb))) = app_all xs (obs m).
  Proof.
    intros HF HI. unfold step. simpl. destruct (nth_error ts (fst lb)) as [p|] eqn:En.
    - destruct (forall2_nth _ _ _ _ HF En) as (x & Ex & Hp).
      destruct (eff_step1 p x Hp m (snd lb) HI) as (x0 & y & E1 & E2 & E3 & E4).
      destruct (step1 p (snd lb) m) as [[p' m'] t]. unfold s1_prog, s1_mem in *. simpl in *.
      exists (upd xs (fst lb) y). split; [apply forall2_upd; assumption|]. split; [assumption|].
      rewrite E3. apply (app_all_upd xs (fst lb) x); auto.
    - exists xs. simpl. auto.
  Qed.

  Lemma run_eff sched : forall ts xs m tr,
    Forall2 eff ts xs -> J m ->
    exists xs', Forall2 eff (c_threads (run (Cfg ts m tr) sched)) xs'
      /\ J (c_mem (run (Cfg ts m tr) sched))
      /\ app_all xs' (obs (c_mem (run (Cfg ts m tr) sched))) = app_all xs (obs m).
  Proof.
    induction sched as [|lb r IH]; intros ts xs m tr HF HI.
    - exists xs. simpl. auto.
    - destruct (step_eff ts xs m tr lb HF HI) as (xs1 & F1 & I1 & A1).
      unfold run. simpl. fold (run (step (Cfg ts m tr) lb) r).
      destruct (step (Cfg ts m tr) lb) as [ts1 m1 tr1]. simpl in *.
      destruct (IH ts1 xs1 m1 tr1 F1 I1) as (xs2 & F2 & I2 & A2).
      exists xs2. split; [assumption|]. split; [assumption|]. rewrite A2. exact A1.
  Qed.

  Lemma finished_app_all ts xs n :
    Forall2 eff ts xs -> forallb is_ret ts = true -> good n -> app_all xs n = n.
  Proof.
    intros H. induction H as [|t x ts xs Ht _ IH]; intros Hf Hn; simpl; [reflexivity|].
    simpl in Hf. apply andb_prop in Hf. destruct Hf as [Ht' Hf].
    destruct t; try discriminate. rewrite IH by assumption.
    rewrite (eff_ret_inv _ _ Ht n Hn). apply app_zero, Hn.
  Qed.

  (* for every schedule: once every goroutine has returned, the word is the initial word with all
     the effects applied *)
  Theorem run_finished sched ts xs m tr :
    Forall2 eff ts xs -> J m -> finished (run (Cfg ts m tr) sched) = true ->
    obs (c_mem (run (Cfg ts m tr) sched)) = app_all xs (obs m) /\ J (c_mem (run (Cfg ts m tr) sched)).
  Proof.
    intros HF HI Hfin. destruct (run_eff sched ts xs m tr HF HI) as (xs' & F & I & A).
    split; [|assumption]. rewrite <- A. symmetry. apply (finished_app_all _ _ _ F Hfin), inv_good, I.
  Qed.
End Effects.
