(* C18 - the binary64 computation of checkThreshold (Disk/FloatExact.v, Flocq) never rounds on the
   domain where Go defines its result, and equals the integer model of Disk/Threshold.v there.
   Flocq's correctness theorems speak about real numbers, so everything proved here depends on the
   standard library's description of R (ClassicalDedekindReals.sig_forall_dec, sig_not_dec,
   FunctionalExtensionality.functional_extensionality_dep, Classical_Prop.classic) - and on
   nothing else. *)
From Coq Require Import ZArith Bool Lia Reals.
From Flocq Require Import Core Binary Bits.
From ZenoV Require Import Disk.Threshold Disk.FloatExact.
Import BinarySingleNaN(mode_NE).
Open Scope Z_scope.

Notation fexp64 := (SpecFloat.fexp 53 1024).
Notation rnd64 := (round radix2 fexp64 (BinarySingleNaN.round_mode mode_NE)).
Notation R64 := (B2R 53 1024).
Notation fin64 := (is_finite 53 1024).
Notation F2 m e := (F2R (Float radix2 m e)).

Local Instance prec53 : Prec_gt_0 53 := eq_refl Lt.
Local Instance prec_emax64 : BinarySingleNaN.Prec_lt_emax 53 1024 := eq_refl Lt.
Local Instance valid_fexp64 : Valid_exp fexp64 := BinarySingleNaN.fexp_correct 53 1024 prec53.

Lemma fexp64_le k e : k - 53 <= e -> -1074 <= e -> fexp64 k <= e.
Proof. unfold SpecFloat.fexp, SpecFloat.emin. lia. Qed.

(* ---- values that need no rounding ------------------------------------------------------------ *)
Lemma format_F2 m e :
  (m <> 0 -> Zdigits radix2 m + e - 53 <= e /\ -1074 <= e) ->
  generic_format radix2 fexp64 (F2 m e).
Proof.
  intros H. apply generic_format_F2R. intros Hm. unfold cexp.
  rewrite mag_F2R_Zdigits by exact Hm. apply fexp64_le; apply H; exact Hm.
Qed.

Lemma round_F2 m e :
  (m <> 0 -> Zdigits radix2 m + e - 53 <= e /\ -1074 <= e) -> rnd64 (F2 m e) = F2 m e.
Proof. intros H. apply round_generic; [typeclasses eauto | apply format_F2; exact H]. Qed.

Lemma F2_shift m e k : (F2 m e * bpow radix2 k)%R = F2 m (e + k).
Proof. unfold F2R; cbn [Fnum Fexp]. rewrite bpow_plus. ring. Qed.

Lemma F2_0 n : F2 n 0 = IZR n.
Proof. unfold F2R; cbn [Fnum Fexp bpow]. ring. Qed.

Lemma digits_lt n k : 0 <= k -> Z.abs n < 2 ^ k -> Zdigits radix2 n <= k.
Proof. intros Hk H. apply Zdigits_le_Zpower. exact H. Qed.

Lemma abs_F2_lt m e k : 0 <= k -> Z.abs m < 2 ^ k -> (Rabs (F2 m e) < bpow radix2 (k + e))%R.
Proof.
  intros Hk H. rewrite <- F2R_Zabs. unfold F2R; cbn [Fnum Fexp].
  rewrite bpow_plus. apply Rmult_lt_compat_r; [apply bpow_gt_0|].
  rewrite <- (IZR_Zpower radix2 k Hk). apply IZR_lt. exact H.
Qed.

(* ---- float64(n) is exact below 2^53 ---------------------------------------------------------- *)
Lemma b64_of_Z_exact n :
  Z.abs n < 2 ^ 53 -> R64 (b64_of_Z n) = IZR n /\ fin64 (b64_of_Z n) = true.
Proof.
  intros Hn. unfold b64_of_Z.
  generalize (binary_normalize_correct 53 1024 (eq_refl Lt) (eq_refl Lt) mode_NE n 0 false).
  assert (Hr : rnd64 (F2 n 0) = F2 n 0).
  { apply round_F2. intros _. split; [|lia]. generalize (digits_lt n 53 ltac:(lia) Hn). lia. }
  rewrite Hr. rewrite Rlt_bool_true.
  - intros (H1 & H2 & _). rewrite H1, F2_0. split; [reflexivity | exact H2].
  - apply Rlt_trans with (bpow radix2 (53 + 0)); [apply abs_F2_lt; [lia | exact Hn]|].
    apply bpow_lt. lia.
Qed.

(* ---- one multiplication / division whose real result is representable ------------------------- *)
Lemma b64_mult_exact x y m e :
  (R64 x * R64 y)%R = F2 m e ->
  (m <> 0 -> Zdigits radix2 m + e - 53 <= e /\ -1074 <= e) ->
  (Rabs (F2 m e) < bpow radix2 1024)%R ->
  R64 (b64_mult mode_NE x y) = F2 m e /\ fin64 (b64_mult mode_NE x y) = fin64 x && fin64 y.
Proof.
  intros Hv Hf Hlt. unfold b64_mult.
  match goal with |- context [Bmult 53 1024 ?p ?q ?nan mode_NE x y] =>
    generalize (Bmult_correct 53 1024 p q nan mode_NE x y) end.
  rewrite Hv, (round_F2 m e Hf), (Rlt_bool_true _ _ Hlt).
  intros (H1 & H2 & _). split; assumption.
Qed.

Lemma b64_div_exact x y m e :
  R64 y <> 0%R ->
  (R64 x / R64 y)%R = F2 m e ->
  (m <> 0 -> Zdigits radix2 m + e - 53 <= e /\ -1074 <= e) ->
  (Rabs (F2 m e) < bpow radix2 1024)%R ->
  R64 (b64_div mode_NE x y) = F2 m e /\ fin64 (b64_div mode_NE x y) = fin64 x.
Proof.
  intros Hy Hv Hf Hlt. unfold b64_div.
  match goal with |- context [Bdiv 53 1024 ?p ?q ?nan mode_NE x y] =>
    generalize (Bdiv_correct 53 1024 p q nan mode_NE x y Hy) end.
  rewrite Hv, (round_F2 m e Hf), (Rlt_bool_true _ _ Hlt).
  intros (H1 & H2 & _). split; assumption.
Qed.

(* a product of two non-negative factors whose (representable) real value is 2^1024 or more is +Inf *)
Lemma b64_mult_overflow x y m e :
  (R64 x * R64 y)%R = F2 m e ->
  (m <> 0 -> Zdigits radix2 m + e - 53 <= e /\ -1074 <= e) ->
  (bpow radix2 1024 <= Rabs (F2 m e))%R ->
  Bsign 53 1024 x = false -> Bsign 53 1024 y = false ->
  b64_mult mode_NE x y = B754_infinity 53 1024 false.
Proof.
  intros Hv Hf Hge Sx Sy. unfold b64_mult.
  match goal with |- context [Bmult 53 1024 ?p ?q ?nan mode_NE x y] =>
    generalize (Bmult_correct 53 1024 p q nan mode_NE x y);
    generalize (Bmult 53 1024 p q nan mode_NE x y) end.
  intros r. rewrite Hv, (round_F2 m e Hf), (Rlt_bool_false _ _ Hge), Sx, Sy.
  change (binary_overflow 53 1024 mode_NE (xorb false false)) with (F754_infinity false).
  destruct r; cbn [B2FF]; intros H; try discriminate H. injection H as ->. reflexivity.
Qed.

(* ---- Go's uint64(f), through the real value of f ---------------------------------------------- *)
Lemma scale_Zfloor m e : scale m e = Zfloor (F2 m e).
Proof.
  unfold scale, F2R; cbn [Fnum Fexp]. destruct (Z.leb_spec 0 e) as [He|He].
  - rewrite <- (IZR_Zpower radix2 e He), <- mult_IZR, Zfloor_IZR. reflexivity.
  - replace e with (- (- e)) at 2 by lia. rewrite bpow_opp.
    rewrite <- (IZR_Zpower radix2 (- e)) by lia.
    change (IZR m * / IZR (radix2 ^ - e))%R with (IZR m / IZR (radix2 ^ - e))%R.
    rewrite Zfloor_div; [reflexivity|].
    change (radix_val radix2) with 2. apply Z.pow_nonzero; lia.
Qed.

Lemma uint64_of_b64_real f :
  fin64 f = true -> (0 <= R64 f)%R ->
  uint64_of_b64 f = if Zfloor (R64 f) <? two64 then Some (Zfloor (R64 f)) else None.
Proof.
  destruct f as [s|s|s pl Hpl|s m e Hb]; cbn [is_finite]; try discriminate; intros _ Hpos.
  - cbn [B2R]. rewrite Zfloor_IZR. reflexivity.
  - cbn [B2R] in *. apply ge_0_F2R in Hpos. destruct s; [cbn in Hpos; lia|].
    unfold uint64_of_b64, trunc_b64. cbn [cond_Zopp]. rewrite scale_Zfloor.
    assert (H0 : 0 <= Zfloor (F2 (Z.pos m) e)).
    { rewrite <- (Zfloor_IZR 0). apply Zfloor_le. apply F2R_ge_0. cbn [Fnum]. lia. }
    destruct (Z.leb_spec 0 (Zfloor (F2 (Z.pos m) e))); [reflexivity | lia].
Qed.

(* ---- `> 0` ------------------------------------------------------------------------------------ *)
Lemma b64_gt0_fl_pos ms : b64_gt0 ms = fl_pos (fl_of_b64 ms).
Proof. destruct ms as [s|s|s pl Hpl|s m e Hb]; try destruct s; reflexivity. Qed.

(* ---- the operator branch:  ms * 2^30  is exact, or overflows to +Inf --------------------------- *)
Lemma finite_b64_format m e :
  SpecFloat.bounded 53 1024 m e = true ->
  Zdigits radix2 (Z.pos m) + e - 53 <= e /\ -1074 <= e.
Proof.
  intros Hb. unfold SpecFloat.bounded in Hb. apply andb_prop in Hb. destruct Hb as [Hc _].
  unfold SpecFloat.canonical_mantissa in Hc. apply Zeq_bool_eq in Hc.
  rewrite Zpos_digits2_pos in Hc. unfold SpecFloat.fexp, SpecFloat.emin in Hc. lia.
Qed.

Lemma GiB_b64 : R64 (b64_of_Z GiB) = bpow radix2 30 /\ fin64 (b64_of_Z GiB) = true
                /\ Bsign 53 1024 (b64_of_Z GiB) = false.
Proof.
  destruct (b64_of_Z_exact GiB) as [H1 H2]; [unfold GiB; lia|].
  split; [|split; [exact H2 | reflexivity]].
  rewrite H1. unfold GiB. rewrite <- (IZR_Zpower radix2 30) by lia. reflexivity.
Qed.

Theorem operator_product_lemma (m : positive) (e : Z) (Hb : SpecFloat.bounded 53 1024 m e = true) :
  let ms := B754_finite 53 1024 false m e Hb in
  let p := b64_mult mode_NE ms (b64_of_Z GiB) in
  (R64 ms * bpow radix2 30 < bpow radix2 1024)%R /\ fin64 p = true /\ R64 p = (R64 ms * bpow radix2 30)%R
  \/ (bpow radix2 1024 <= R64 ms * bpow radix2 30)%R /\ p = B754_infinity 53 1024 false.
Proof.
  intros ms p. destruct GiB_b64 as (G1 & G2 & G3).
  assert (Hv : (R64 ms * R64 (b64_of_Z GiB))%R = F2 (Z.pos m) (e + 30)).
  { rewrite G1. unfold ms. cbn [B2R cond_Zopp]. apply F2_shift. }
  assert (Hf : Z.pos m <> 0 -> Zdigits radix2 (Z.pos m) + (e + 30) - 53 <= e + 30 /\ -1074 <= e + 30).
  { intros _. generalize (finite_b64_format m e Hb). lia. }
  assert (Hpos : (0 <= F2 (Z.pos m) (e + 30))%R) by (apply F2R_ge_0; cbn [Fnum]; lia).
  assert (Hms : (R64 ms * bpow radix2 30)%R = F2 (Z.pos m) (e + 30)).
  { unfold ms. cbn [B2R cond_Zopp]. apply F2_shift. }
  rewrite Hms.
  destruct (Rlt_or_le (F2 (Z.pos m) (e + 30)) (bpow radix2 1024)) as [Hlt|Hge].
  - left. split; [exact Hlt|].
    destruct (b64_mult_exact ms (b64_of_Z GiB) _ _ Hv Hf) as [H1 H2].
    { rewrite Rabs_pos_eq by exact Hpos. exact Hlt. }
    split; [unfold p; rewrite H2, G2; reflexivity | exact H1].
  - right. split; [exact Hge|].
    apply (b64_mult_overflow ms (b64_of_Z GiB) _ _ Hv Hf); [|reflexivity|exact G3].
    rewrite Rabs_pos_eq by exact Hpos. exact Hge.
Qed.

Lemma operator_branch_lemma (m : positive) (e : Z) (Hb : SpecFloat.bounded 53 1024 m e = true) :
  uint64_of_b64 (b64_mult mode_NE (B754_finite 53 1024 false m e Hb) (b64_of_Z GiB))
  = let t := scale (Z.pos m) (e + 30) in if t <? two64 then Some t else None.
Proof.
  cbv zeta. rewrite scale_Zfloor.
  assert (Hms : (R64 (B754_finite 53 1024 false m e Hb) * bpow radix2 30)%R = F2 (Z.pos m) (e + 30)).
  { cbn [B2R cond_Zopp]. apply F2_shift. }
  destruct (operator_product_lemma m e Hb) as [(Hlt & Hfin & Hv) | (Hge & Hinf)];
    cbv zeta in *; rewrite Hms in *.
  - rewrite uint64_of_b64_real; [rewrite Hv; reflexivity | exact Hfin |].
    rewrite Hv. apply F2R_ge_0. cbn [Fnum]. lia.
  - rewrite Hinf. cbn [uint64_of_b64 trunc_b64].
    assert (H : 2 ^ 1024 <= Zfloor (F2 (Z.pos m) (e + 30))).
    { rewrite <- (Zfloor_IZR (2 ^ 1024)). apply Zfloor_le.
      change (2 ^ 1024) with (radix2 ^ 1024). rewrite (IZR_Zpower radix2 1024) by lia. exact Hge. }
    assert (H64 : two64 <= 2 ^ 1024) by (unfold two64; apply Z.pow_le_mono_r; lia).
    destruct (Z.ltb_spec (Zfloor (F2 (Z.pos m) (e + 30))) two64); [lia | reflexivity].
Qed.

(* ---- the default branch:  float64(50*GB) * (float64(total) / float64(256*GB))  is exact --------- *)
Theorem default_value_lemma total :
  0 <= total <= 256 * GiB ->
  let q := b64_div mode_NE (b64_of_Z total) (b64_of_Z (256 * GiB)) in
  let p := b64_mult mode_NE (b64_of_Z (50 * GiB)) q in
  R64 (b64_of_Z total) = IZR total
  /\ R64 q = (IZR total / IZR (256 * GiB))%R
  /\ fin64 p = true
  /\ R64 p = (IZR (50 * GiB) * (IZR total / IZR (256 * GiB)))%R
  /\ R64 p = (IZR (total * 25) / IZR 128)%R.
Proof.
  intros Ht q p. unfold GiB in Ht.
  destruct (b64_of_Z_exact total) as [T1 T2]; [lia|].
  destruct (b64_of_Z_exact (256 * GiB)) as [D1 D2]; [unfold GiB; lia|].
  destruct (b64_of_Z_exact (50 * GiB)) as [C1 C2]; [unfold GiB; lia|].
  assert (D38 : IZR (256 * GiB) = bpow radix2 38).
  { rewrite <- (IZR_Zpower radix2 38) by lia. reflexivity. }
  assert (C50 : IZR (50 * GiB) = F2 25 31).
  { unfold F2R; cbn [Fnum Fexp]. rewrite <- (IZR_Zpower radix2 31) by lia. rewrite <- mult_IZR. reflexivity. }
  (* the quotient: total * 2^-38 *)
  assert (Hq : (IZR total / IZR (256 * GiB))%R = F2 total (-38)).
  { rewrite D38. unfold F2R; cbn [Fnum Fexp]. rewrite (bpow_opp radix2 38 : bpow radix2 (-38) = _). reflexivity. }
  assert (Hd : Zdigits radix2 total <= 39) by (apply digits_lt; lia).
  destruct (b64_div_exact (b64_of_Z total) (b64_of_Z (256 * GiB)) total (-38)) as [Q1 Q2].
  { rewrite D1, D38. apply Rgt_not_eq, bpow_gt_0. }
  { rewrite T1, D1. exact Hq. }
  { intros _. lia. }
  { apply Rlt_trans with (bpow radix2 (39 + -38)); [apply abs_F2_lt; lia | apply bpow_lt; lia]. }
  fold q in Q1, Q2.
  (* the product: 25 * 2^31 * total * 2^-38 = (25 * total) * 2^-7 *)
  assert (Hp : (R64 (b64_of_Z (50 * GiB)) * R64 q)%R = F2 (total * 25) (-7)).
  { rewrite C1, C50, Q1. unfold F2R; cbn [Fnum Fexp]. rewrite mult_IZR.
    replace (-7) with (31 + -38) by lia. rewrite bpow_plus. ring. }
  assert (Hd25 : Zdigits radix2 (total * 25) <= 44) by (apply digits_lt; lia).
  destruct (b64_mult_exact (b64_of_Z (50 * GiB)) q (total * 25) (-7) Hp) as [P1 P2].
  { intros _. lia. }
  { apply Rlt_trans with (bpow radix2 (44 + -7)); [apply abs_F2_lt; lia | apply bpow_lt; lia]. }
  fold p in P1, P2.
  assert (H128 : F2 (total * 25) (-7) = (IZR (total * 25) / IZR 128)%R).
  { unfold F2R; cbn [Fnum Fexp]. rewrite (bpow_opp radix2 7 : bpow radix2 (-7) = _).
    rewrite <- (IZR_Zpower radix2 7) by lia. reflexivity. }
  split; [exact T1|]. split; [rewrite Q1, Hq; reflexivity|].
  split; [rewrite P2, C2, Q2, T2; reflexivity|].
  split; [|rewrite P1; exact H128].
  rewrite P1, C50, Hq. unfold F2R; cbn [Fnum Fexp]. rewrite mult_IZR.
  replace (-7) with (31 + -38) by lia. rewrite bpow_plus. ring.
Qed.

Lemma default_branch_lemma total :
  0 <= total <= 256 * GiB ->
  uint64_of_b64 (b64_mult mode_NE (b64_of_Z (50 * GiB))
                          (b64_div mode_NE (b64_of_Z total) (b64_of_Z (256 * GiB))))
  = Some (total * 25 / 128).
Proof.
  intros Ht. destruct (default_value_lemma total Ht) as (_ & _ & Hfin & _ & Hv). cbv zeta in *.
  rewrite uint64_of_b64_real; [|exact Hfin|].
  - rewrite Hv, Zfloor_div by lia.
    assert (H : total * 25 / 128 < two64).
    { unfold two64, GiB in *. apply Z.div_lt_upper_bound; lia. }
    destruct (Z.ltb_spec (total * 25 / 128) two64); [reflexivity | lia].
  - rewrite Hv. apply Rmult_le_pos; [apply IZR_le; lia|].
    apply Rlt_le, Rinv_0_lt_compat, IZR_lt. lia.
Qed.

Lemma constant_branch_lemma : uint64_of_b64 (b64_of_Z (50 * GiB)) = Some (50 * GiB).
Proof. vm_compute. reflexivity. Qed.

(* ---- the float computation = the integer model, for every volume size and every binary64 -------- *)
Theorem threshold_float_exact_lemma total (ms : binary64) :
  0 <= total ->
  uint64_of_b64 (threshold_float total ms) = threshold_int total (fl_of_b64 ms).
Proof.
  intros Ht. unfold threshold_float, threshold_int. rewrite b64_gt0_fl_pos.
  destruct (fl_pos (fl_of_b64 ms)) eqn:Hp.
  - destruct ms as [s|s|s pl Hpl|s m e Hb]; cbn [fl_of_b64] in *.
    + cbn in Hp. rewrite andb_false_r in Hp. discriminate.
    + destruct s; [discriminate|]. reflexivity.
    + discriminate.
    + destruct s; [discriminate|]. apply operator_branch_lemma.
  - destruct (Z.leb_spec total (256 * GiB)).
    + apply default_branch_lemma. lia.
    + apply constant_branch_lemma.
Qed.

Theorem refuse_float_exact_lemma total free (ms : binary64) :
  0 <= total ->
  refuse_float total free ms = refuse total free (fl_of_b64 ms).
Proof.
  intros Ht. unfold refuse_float, refuse. rewrite threshold_float_exact_lemma by exact Ht. reflexivity.
Qed.

(* ---- the bridge used by the correspondence harness ----------------------------------------------
   The driver prints a float64 x as (sign, m, e) with |x| = m * 2^e (math.Frexp, trailing zero bits
   of m removed).  ANY such decomposition of a finite binary64 is rebuilt by [b64_of_fl] into that very
   binary64 - so the Flocq computation in the harness runs on the float the real code was given. *)
Theorem b64_of_fl_value_lemma (x : binary64) (neg : bool) (m e : Z) :
  fin64 x = true -> 0 <= m -> R64 x = F2 (cond_Zopp neg m) e -> Bsign 53 1024 x = neg ->
  b64_of_fl (FFin neg m e) = x.
Proof.
  intros Hfin Hm Hv Hs. cbn [b64_of_fl].
  generalize (binary_normalize_correct 53 1024 (eq_refl Lt) (eq_refl Lt) mode_NE (cond_Zopp neg m) e neg).
  rewrite <- Hv.
  rewrite round_generic; [|typeclasses eauto | apply generic_format_B2R].
  rewrite (Rlt_bool_true _ _ (abs_B2R_lt_emax 53 1024 x)).
  intros (H1 & H2 & H3).
  apply B2R_Bsign_inj; [exact H2 | exact Hfin | exact H1 |].
  rewrite H3, Hs. destruct (Rcompare_spec (R64 x) 0) as [Hlt|Heq|Hgt]; [| reflexivity |].
  - rewrite Hv in Hlt. apply lt_0_F2R in Hlt. destruct neg; [reflexivity | cbn in Hlt; lia].
  - rewrite Hv in Hgt. apply gt_0_F2R in Hgt. destruct neg; [cbn in Hgt; lia | reflexivity].
Qed.

(* in particular the decomposition Flocq itself stores *)
Theorem b64_of_fl_of_b64_lemma (x : binary64) : fin64 x = true -> b64_of_fl (fl_of_b64 x) = x.
Proof.
  destruct x as [s|s|s pl Hpl|s m e Hb]; cbn [is_finite]; try discriminate; intros _.
  - destruct s; reflexivity.
  - cbn [fl_of_b64]. apply b64_of_fl_value_lemma; [reflexivity | lia | reflexivity | reflexivity].
Qed.

(* examples of the same, and the non-finite classes: *)
Example b64_of_fl_roundtrip :
  fl_same (fl_of_b64 (b64_of_fl (FFin false 5 (-1)))) (FFin false 5 (-1)) = true
  /\ fl_same (fl_of_b64 (b64_of_fl (FFin true 0 0))) (FFin true 0 0) = true
  /\ fl_same (fl_of_b64 (b64_of_fl (FFin false 1 (-1074)))) (FFin false 1 (-1074)) = true
  /\ fl_of_b64 (b64_of_fl FNaN) = FNaN /\ fl_of_b64 (b64_of_fl (FInf true)) = FInf true.
Proof. vm_compute. repeat split; reflexivity. Qed.

(* non-vacuity: 100 GiB volume under the default rule and under 2.5 GiB; an operator value whose
   product with 2^30 overflows binary64; the largest subnormal *)
Example refuse_float_nonvacuous :
  refuse_float (100 * GiB) (19 * GiB) b64_zero = Some true
  /\ refuse_float (100 * GiB) (2 * GiB) (b64_of_fl (FFin false 5 (-1))) = Some true
  /\ refuse_float (100 * GiB) (3 * GiB) (b64_of_fl (FFin false 5 (-1))) = Some false
  /\ refuse_float 0 0 (b64_of_fl (FFin false 1 1000)) = None
  /\ refuse_float 0 0 (b64_of_fl (FFin false (2 ^ 52 - 1) (-1074))) = Some false.
Proof. vm_compute. repeat split; reflexivity. Qed.
