(* C18 - model of internal/pkg/controler/watchers/disk.go: checkThreshold and the
   WatchDiskSpace loop.  Executable definitions only; proofs are in ThresholdProofs.v. *)
From Coq Require Export ZArith List Bool.
Export ListNotations.
Open Scope Z_scope.

(* An IEEE-754 binary64 value as the harness passes it: class, and for finite values
   sign and the exact decomposition  |v| = m * 2^e  with m >= 0 (math.Frexp). *)
Inductive fl :=
| FNaN
| FInf (neg : bool)
| FFin (neg : bool) (m e : Z).

Definition GiB : Z := 2 ^ 30.
Definition two64 : Z := 2 ^ 64.

(* floor (m * 2^e) for m >= 0 *)
Definition scale (m e : Z) : Z :=
  if 0 <=? e then m * 2 ^ e else m / 2 ^ (- e).

(* `minSpaceRequired > 0` *)
Definition fl_pos (f : fl) : bool :=
  match f with
  | FNaN => false
  | FInf neg => negb neg
  | FFin neg m _ => negb neg && (0 <? m)
  end.

(* The value Go's  uint64(threshold)  yields.  [None]: the float is >= 2^64 (or +Inf), where
   the Go specification leaves the conversion implementation-defined. *)
Definition threshold_int (total : Z) (ms : fl) : option Z :=
  if fl_pos ms then
    match ms with
    | FFin _ m e => let t := scale m (e + 30) in if t <? two64 then Some t else None
    | _ => None
    end
  else if total <=? 256 * GiB then Some (total * 25 / 128)   (* 50GiB * (total / 256GiB), exact in binary64 *)
  else Some (50 * GiB).

(* refuse <-> checkThreshold returns an error.  [conv] is what the hardware conversion
   produced in the implementation-defined case. *)
Definition refuse_conv (conv : Z) (total free : Z) (ms : fl) : bool :=
  match threshold_int total ms with
  | Some t => free <? t
  | None => free <? conv
  end.

Definition refuse (total free : Z) (ms : fl) : option bool :=
  match threshold_int total ms with
  | Some t => Some (free <? t)
  | None => None
  end.

(* ---- WatchDiskSpace: the loop body on one tick.  State = the local [paused].
   Output = the pause-manager call made on that tick. *)
Inductive wcall := WNone | WPause | WResume.

Definition tick (paused : bool) (low : bool) : bool * wcall :=
  if low && negb paused then (true, WPause)
  else if negb low && paused then (false, WResume)
  else (paused, WNone).

Fixpoint ticks (paused : bool) (obs : list bool) : bool * list wcall :=
  match obs with
  | [] => (paused, [])
  | o :: r => let '(p, c) := tick paused o in
              let '(p', cs) := ticks p r in (p', c :: cs)
  end.
