(* C18 - proofs about Disk/Threshold.v *)
From Coq Require Import QArith Qround Qpower Lia Lqa.
From ZenoV Require Import Disk.Threshold.
Open Scope Z_scope.

(* ------------------------------------------------------------------------------------
   The specification, spelled as the property statement does, over the rationals. *)

Definition QGiB : Q := inject_Z GiB.

(* exact value of a finite binary64  m * 2^e *)
Definition fl_Q (m e : Z) : Q := (inject_Z m * Qpower 2 e)%Q.

(* tau: the threshold in bytes.  [None] = +Inf operator value (no finite threshold). *)
Definition tau (total : Z) (ms : fl) : option Q :=
  if fl_pos ms then
    match ms with
    | FFin _ m e => Some (fl_Q m e * QGiB)%Q            (* operator value, in GiB *)
    | _ => None
    end
  else if total <=? 256 * GiB
       then Some (50 * QGiB * (inject_Z total / (256 * QGiB)))%Q  (* 50 GiB scaled linearly *)
       else Some (50 * QGiB)%Q.

Definition wf_fl (f : fl) : Prop :=
  match f with FFin _ m _ => 0 <= m | _ => True end.

(* ------------------------------------------------------------------------------------ *)

Lemma pow2_pos e : 0 <= e -> 0 < 2 ^ e.
Proof. intros; apply Z.pow_pos_nonneg; lia. Qed.

Lemma Qfloor_scale m e : Qfloor (fl_Q m e) = scale m e.
Proof.
  unfold fl_Q, scale. destruct (Z.leb_spec 0 e) as [He|He].
  - rewrite <- (Qfloor_Z (m * 2 ^ e)). apply Qfloor_comp.
    rewrite inject_Z_mult. rewrite Zpower_Qpower by assumption. reflexivity.
  - assert (Hd : 0 < 2 ^ (- e)) by (apply pow2_pos; lia).
    destruct (2 ^ (- e)) as [|p|p] eqn:Ep; try lia.
    transitivity (Qfloor (m # p)); [|reflexivity].
    apply Qfloor_comp.
    assert (Hq : (m # p == inject_Z m * / inject_Z (Z.pos p))%Q) by apply Qmake_Qdiv.
    rewrite Hq. apply Qmult_comp; [reflexivity|].
    rewrite <- Ep. rewrite Zpower_Qpower by lia.
    replace e with (- (- e)) at 1 by lia.
    rewrite Qpower_opp. reflexivity.
Qed.

Lemma fl_Q_GiB m e : (fl_Q m e * QGiB == fl_Q m (e + 30))%Q.
Proof.
  unfold fl_Q, QGiB, GiB.
  rewrite Qpower_plus by discriminate.
  rewrite <- Qmult_assoc. apply Qmult_comp; [reflexivity|].
  apply Qmult_comp; [reflexivity|].
  rewrite Zpower_Qpower by lia. reflexivity.
Qed.

Lemma Qfloor_default total :
  Qfloor (50 * QGiB * (inject_Z total / (256 * QGiB)))%Q = total * 25 / 128.
Proof.
  transitivity (Qfloor ((total * 25) # 128)); [|reflexivity].
  apply Qfloor_comp.
  change (256 * QGiB)%Q with (274877906944 # 1)%Q.
  change (50 * QGiB)%Q with (53687091200 # 1)%Q.
  unfold Qeq, Qdiv, Qmult, Qinv, inject_Z. cbn [Qnum Qden]. lia.
Qed.

Lemma Qfloor_50 : Qfloor (50 * QGiB)%Q = 50 * GiB.
Proof. reflexivity. Qed.

(* threshold_int is the floor of tau wherever the conversion is defined *)
Lemma threshold_int_floor total ms t :
  tau total ms = Some t ->
  (Qfloor t < two64) ->
  threshold_int total ms = Some (Qfloor t).
Proof.
  unfold tau, threshold_int.
  destruct (fl_pos ms) eqn:Hp.
  - destruct ms as [|neg|neg m e]; try discriminate.
    intros [= <-] Hlt.
    rewrite (Qfloor_comp _ _ (fl_Q_GiB m e)) in *.
    rewrite Qfloor_scale in *.
    destruct (Z.ltb_spec (scale m (e + 30)) two64); [reflexivity|lia].
  - destruct (total <=? 256 * GiB).
    + intros [= <-] _. rewrite Qfloor_default. reflexivity.
    + intros [= <-] _. reflexivity.
Qed.

(* for integer [free]:  free < floor t  <->  free + 1 <= t *)
Lemma lt_floor_iff (free : Z) (t : Q) :
  free < Qfloor t <-> (inject_Z free + 1 <= t)%Q.
Proof.
  split; intros H.
  - apply Qle_trans with (inject_Z (Qfloor t)); [|apply Qfloor_le].
    change 1%Q with (inject_Z 1). rewrite <- inject_Z_plus. rewrite <- Zle_Qle. lia.
  - assert (H1 : free + 1 <= Qfloor t).
    { rewrite <- (Qfloor_Z (free + 1)). apply Qfloor_resp_le.
      rewrite inject_Z_plus. exact H. }
    lia.
Qed.

(* ---- refuse_exact --------------------------------------------------------------- *)
Theorem refuse_exact_lemma total free ms t :
  tau total ms = Some t -> Qfloor t < two64 ->
  refuse total free ms = Some (free <? Qfloor t)
  /\ (refuse total free ms = Some true <-> (inject_Z free + 1 <= t)%Q)
  /\ (refuse total free ms = Some true -> (inject_Z free < t)%Q)
  /\ (refuse total free ms = Some false -> (t - 1 < inject_Z free)%Q).
Proof.
  intros Ht Hlt. unfold refuse. rewrite (threshold_int_floor _ _ _ Ht Hlt).
  split; [reflexivity|].
  assert (Hiff : Some (free <? Qfloor t) = Some true <-> (inject_Z free + 1 <= t)%Q).
  { rewrite <- lt_floor_iff. destruct (Z.ltb_spec free (Qfloor t)); split; intros; try congruence; try lia. }
  split; [exact Hiff|]. split.
  - intros H. apply Hiff in H. apply Qlt_le_trans with (inject_Z free + 1)%Q; [|exact H].
    rewrite <- (Qplus_0_r (inject_Z free)) at 1. apply Qplus_lt_r. reflexivity.
  - intros H. destruct (Z.ltb_spec free (Qfloor t)) as [|Hge]; [discriminate|].
    assert (H1 : (t < inject_Z (Qfloor t + 1))%Q) by apply Qlt_floor.
    rewrite inject_Z_plus in H1. change (inject_Z 1) with 1%Q in H1.
    assert (H2 : (inject_Z (Qfloor t) <= inject_Z free)%Q) by (rewrite <- Zle_Qle; exact Hge).
    lra.
Qed.

(* the defined domain: operator values below 2^34 GiB, any total below 2^64 *)
Lemma default_representable total ms t :
  0 <= total < two64 -> fl_pos ms = false -> tau total ms = Some t -> Qfloor t < two64.
Proof.
  intros Htot Hp. unfold tau. rewrite Hp.
  destruct (Z.leb_spec total (256 * GiB)); intros [= <-].
  - rewrite Qfloor_default. unfold two64, GiB in *.
    apply Z.div_lt_upper_bound; lia.
  - rewrite Qfloor_50. unfold two64, GiB. lia.
Qed.

(* ---- monotonicity: for ALL inputs, including NaN / Inf / out-of-range ------------- *)
Theorem refuse_monotone_lemma conv total free free' ms :
  free <= free' -> refuse_conv conv total free' ms = true -> refuse_conv conv total free ms = true.
Proof.
  unfold refuse_conv. intros Hle.
  destruct (threshold_int total ms) as [t|]; rewrite !Z.ltb_lt; lia.
Qed.

Lemma refuse_conv_refuse conv total free ms r :
  refuse total free ms = Some r -> refuse_conv conv total free ms = r.
Proof. unfold refuse, refuse_conv. destruct (threshold_int total ms); congruence. Qed.

(* ---- shape of the default threshold --------------------------------------------- *)
Theorem branches_meet_lemma :
  threshold_int (256 * GiB) (FFin false 0 0) = Some (50 * GiB)
  /\ threshold_int (256 * GiB + 1) (FFin false 0 0) = Some (50 * GiB).
Proof. split; reflexivity. Qed.

Theorem threshold_monotone_in_total_lemma total total' ms t t' :
  0 <= total <= total' -> fl_pos ms = false ->
  threshold_int total ms = Some t -> threshold_int total' ms = Some t' -> t <= t' <= 50 * GiB.
Proof.
  intros Hle Hp. unfold threshold_int. rewrite Hp.
  destruct (Z.leb_spec total (256 * GiB)), (Z.leb_spec total' (256 * GiB));
    intros [= <-] [= <-]; unfold GiB in *.
  - split. + apply Z.div_le_mono; lia. + apply Z.div_le_upper_bound; lia.
  - split. + apply Z.div_le_upper_bound; lia. + lia.
  - lia.
  - lia.
Qed.

Theorem operator_value_wins_lemma total total' free ms :
  fl_pos ms = true -> refuse total free ms = refuse total' free ms.
Proof. intros Hp. unfold refuse, threshold_int. rewrite Hp. reflexivity. Qed.

(* ---- the watcher loop ----------------------------------------------------------- *)
Lemma ticks_app p o1 o2 :
  ticks p (o1 ++ o2) =
  let '(p1, c1) := ticks p o1 in let '(p2, c2) := ticks p1 o2 in (p2, c1 ++ c2).
Proof.
  revert p; induction o1 as [|o r IH]; intros p; simpl.
  - destruct (ticks p o2); reflexivity.
  - destruct (tick p o) as [p' c]. rewrite IH.
    destruct (ticks p' r) as [p1 c1]. destruct (ticks p1 o2). reflexivity.
Qed.

(* after every tick the watcher's paused flag equals the last observation *)
Theorem watcher_tracks_lemma p obs o :
  fst (ticks p (obs ++ [o])) = o.
Proof.
  rewrite ticks_app. destruct (ticks p obs) as [p1 c1]. simpl.
  unfold tick. destruct o, p1; reflexivity.
Qed.

(* calls alternate: a Pause is issued exactly on a false->true edge, a Resume on a true->false edge *)
Fixpoint alternating (expect_pause : bool) (cs : list wcall) : bool :=
  match cs with
  | [] => true
  | WNone :: r => alternating expect_pause r
  | WPause :: r => expect_pause && alternating false r
  | WResume :: r => negb expect_pause && alternating true r
  end.

Theorem watcher_alternates_lemma p obs :
  alternating (negb p) (snd (ticks p obs)) = true.
Proof.
  revert p; induction obs as [|o r IH]; intros p; [reflexivity|].
  simpl. destruct (tick p o) as [p' c] eqn:Et. specialize (IH p').
  destruct (ticks p' r) as [p2 cs]. simpl in *.
  unfold tick in Et. destruct o, p; simpl in Et; inversion Et; subst; simpl; auto.
Qed.

(* non-vacuity: a 100 GiB volume, operator value 2.5 GiB (= 5 * 2^-1) *)
Example refuse_exact_nonvacuous :
  exists t, tau (100 * GiB) (FFin false 5 (-1)) = Some t /\ Qfloor t < two64
    /\ refuse (100 * GiB) (2 * GiB) (FFin false 5 (-1)) = Some true
    /\ refuse (100 * GiB) (3 * GiB) (FFin false 5 (-1)) = Some false.
Proof. eexists; split; [reflexivity|]. vm_compute. repeat split; reflexivity. Qed.
