(* C18 - what the generated case files evaluate: model-vs-implementation differences and the
   property's monitors on the implementation's own answers. *)
From Coq Require Import QArith Qround.
From ZenoV Require Import Lib.Harness Disk.Threshold Disk.ThresholdProofs Disk.FloatExact.
Open Scope Z_scope.

(* one case: a volume, an operator setting, and the implementation's answers
   (free, refused?) for a set of free-space values *)
Record dcase := DC { d_total : Z; d_ms : fl; d_obs : list (Z * bool) }.

(* correspondence: the model's answer where it has one *)
Definition diff_case_model (c : dcase) : bool :=
  existsb (fun '(free, r) =>
    match refuse (d_total c) free (d_ms c) with
    | Some r' => negb (Bool.eqb r r')
    | None => false
    end) (d_obs c).

(* correspondence, second stream: checkThreshold's float computation itself, evaluated in Flocq's
   binary64 (Disk/FloatExact.v) on the case's float - the binary64 rebuilt from the printed (sign, m, e),
   which must map back to the same value - against the implementation's answers.  [float_differs]
   is [refuse_float] with the threshold computed once per case. *)
Definition float_differs (total : Z) (ms : fl) (obs : list (Z * bool)) : bool :=
  let f := b64_of_fl ms in
  negb (fl_same (fl_of_b64 f) ms)
  || match uint64_of_b64 (threshold_float total f) with
     | Some t => existsb (fun '(free, r) => negb (Bool.eqb r (free <? t))) obs
     | None => false
     end.
Definition diff_case_float (c : dcase) : bool := float_differs (d_total c) (d_ms c) (d_obs c).

Definition diff_case (c : dcase) : bool := diff_case_model c || diff_case_float c.

(* monitor 0: the specification itself, over Q:  refused <-> free < floor(tau) *)
Definition mon_exact (c : dcase) : bool :=
  match tau (d_total c) (d_ms c) with
  | Some t => if Qfloor t <? two64
              then forallb (fun '(free, r) => Bool.eqb r (free <? Qfloor t)) (d_obs c)
              else true
  | None => true
  end.

(* monitor 1: monotone in free space, on every input *)
Definition mon_monotone (c : dcase) : bool :=
  forallb (fun '(f1, r1) =>
    forallb (fun '(f2, r2) => if f1 <=? f2 then implb r2 r1 else true) (d_obs c)) (d_obs c).

Definition diffs (l : list dcase) := bad_idx diff_case l.
Definition mons (l : list dcase) := mon_idx [mon_exact; mon_monotone] l.

(* watcher loop: observations, the calls the implementation made (seen as edges of
   pause.IsPaused()), and IsPaused() after each tick *)
Record wcase := WC { w_obs : list bool; w_calls : list wcall; w_paused : list bool }.
Definition wcall_eqb (a c : wcall) : bool :=
  match a, c with WNone, WNone | WPause, WPause | WResume, WResume => true | _, _ => false end.
Fixpoint calls_eqb (a c : list wcall) : bool :=
  match a, c with
  | [], [] => true
  | x :: a', y :: c' => wcall_eqb x y && calls_eqb a' c'
  | _, _ => false
  end.
Fixpoint bools_eqb (a c : list bool) : bool :=
  match a, c with
  | [], [] => true
  | x :: a', y :: c' => Bool.eqb x y && bools_eqb a' c'
  | _, _ => false
  end.
Definition wdiff_case (c : wcase) : bool :=
  negb (calls_eqb (snd (ticks false (w_obs c))) (w_calls c)).
Definition wdiffs (l : list wcase) := bad_idx wdiff_case l.
(* monitor: paused exactly while the last sample was low *)
Definition wmon_tracks (c : wcase) : bool := bools_eqb (w_obs c) (w_paused c).
Definition wmon_alternates (c : wcase) : bool := alternating true (w_calls c).
Definition wmons (l : list wcase) := mon_idx [wmon_tracks; wmon_alternates] l.

(* start-up check (driver "diskstart"): one real controler.Start() in a child process whose job
   directory lies on another filesystem than its working directory.  (total, free) = statfs of
   the JOB volume (f_blocks, f_bavail, in bytes) taken by the child right before the start, the
   operator's --min-space-required, and what the crawler did.  [SNotRun]: the case could not be
   set up on this machine (fewer than two filesystems with different free space, free space moving
   too close to the chosen threshold): nothing is claimed. *)
Inductive soutcome := SStarted | SRefused | SNotRun.
Record scase := SC { s_total : Z; s_free : Z; s_ms : fl; s_out : soutcome }.

(* correspondence: the threshold model evaluated on the JOB volume's numbers predicts the outcome *)
Definition sdiff_case (c : scase) : bool :=
  match s_out c, refuse (s_total c) (s_free c) (s_ms c) with
  | SStarted, Some r => r
  | SRefused, Some r => negb r
  | _, _ => false
  end
  || match s_out c with     (* and of the binary64 computation (Disk/FloatExact.v) *)
     | SStarted => float_differs (s_total c) (s_ms c) [(s_free c, false)]
     | SRefused => float_differs (s_total c) (s_ms c) [(s_free c, true)]
     | SNotRun => false
     end.

(* monitor 0: the specification itself over Q, on the job volume:
   refused to start <-> free < floor(tau total min_space) *)
Definition smon_exact (c : scase) : bool :=
  match s_out c with
  | SStarted => mon_exact (DC (s_total c) (s_ms c) [(s_free c, false)])
  | SRefused => mon_exact (DC (s_total c) (s_ms c) [(s_free c, true)])
  | SNotRun => true
  end.

Definition sdiffs (l : list scase) := bad_idx sdiff_case l.
Definition smons (l : list scase) := mon_idx [smon_exact] l.

(* command line (driver "diskflag"): the operator's --min-space-required as given on the real command
   line ([None]: not given) and config.MinSpaceRequired - the number the guard passes to checkThreshold -
   as the real flag -> viper -> InitConfig path delivered it. *)
Record fcase := FC { f_given : option fl; f_used : fl }.
Definition fl_zero (f : fl) : bool := match f with FFin _ m _ => m =? 0 | _ => false end.
Definition fl_eqb (a c : fl) : bool :=
  match a, c with
  | FNaN, FNaN => true
  | FInf x, FInf y => Bool.eqb x y
  | FFin n m e, FFin n' m' e' =>
      (fl_zero a && fl_zero c) || (Bool.eqb n n' && (m =? m') && (e =? e'))   (* the harness emits odd mantissas *)
  | _, _ => false
  end.
Definition f_operator (c : fcase) : fl := match f_given c with Some g => g | None => FFin false 0 0 end.
Definition optZ_eqb (a c : option Z) : bool :=
  match a, c with Some x, Some y => x =? y | None, None => true | _, _ => false end.
(* The command line path as a function: [cli_delivers], the operator's value as it is (zero when not given).
   Before /repo commit 55466e0 (fixes/C18-min-space-20.diff) a left-over alias block of handleFlagsAliases()
   (`GetInt("msr") != 20 && GetInt("min-space-required") == 20`, there is no "msr" flag) overwrote exactly
   the value 20 with 0: [cli_delivers_orig], kept with its refutation.  Correspondence and monitor constrain
   every value, 20 included. *)
Definition fl_zero_v : fl := FFin false 0 0.
Definition fl_twenty (f : fl) : bool := fl_eqb f (FFin false 5 2).
Definition cli_delivers (given : option fl) : fl := match given with Some g => g | None => fl_zero_v end.
Definition cli_delivers_orig (given : option fl) : fl :=
  match given with Some g => if fl_twenty g then fl_zero_v else g | None => fl_zero_v end.
Lemma cli_delivers_orig_refuted :
  exists g, fl_eqb (cli_delivers_orig (Some g)) g = false
            /\ threshold_int (1024 * GiB) (cli_delivers_orig (Some g)) <> threshold_int (1024 * GiB) g.
Proof. exists (FFin false 5 2). split; [reflexivity | vm_compute; discriminate]. Qed.

(* correspondence: the threshold the model computes from what the guard uses = the threshold for what the
   command line path delivers, on a small and on a large volume *)
Definition fdiff_case (c : fcase) : bool :=
  negb (forallb (fun total => optZ_eqb (threshold_int total (f_used c))
                                       (threshold_int total (cli_delivers (f_given c))))
                [100 * GiB; 1024 * GiB]).
(* monitor 0: value given on the command line = value the guard uses, exactly *)
Definition fmon_exact (c : fcase) : bool := fl_eqb (f_operator c) (f_used c).
Definition fdiffs (l : list fcase) := bad_idx fdiff_case l.
Definition fmons (l : list fcase) := mon_idx [fmon_exact] l.
