(* C18 - the float computation of checkThreshold (internal/pkg/controler/watchers/disk.go), written
   operation by operation in Flocq's IEEE-754 binary64 (Flocq.IEEE754.Bits: precision 53, emax 1024,
   round to nearest even - Go's float64 arithmetic).  Executable definitions only (they evaluate
   under vm_compute: the correspondence harness runs them on every case); the proof that this
   computation never rounds on the domain and equals the integer model of Threshold.v is in
   FloatExactProofs.v.

     Go                                                   here
     float64(c)   for an untyped constant c               b64_of_Z c   (round to nearest even)
     float64(total), total uint64                         b64_of_Z total
     x * y, x / y  on float64                             b64_mult mode_NE, b64_div mode_NE
     minSpaceRequired > 0                                 b64_gt0  (false on NaN)
     uint64(threshold)                                    uint64_of_b64: truncation toward zero where
                                                          the truncated value is in [0, 2^64); None
                                                          otherwise (NaN, infinities, out of range: the
                                                          Go specification leaves the result to the
                                                          implementation)                              *)
From Coq Require Import ZArith Bool.
From Flocq Require Import Core Binary Bits.
From ZenoV Require Import Disk.Threshold.
Import BinarySingleNaN(mode_NE).
Open Scope Z_scope.

(* integer -> binary64, rounded to nearest even (exact below 2^53) *)
Definition b64_of_Z (n : Z) : binary64 :=
  binary_normalize 53 1024 (eq_refl Lt) (eq_refl Lt) mode_NE n 0 false.

Definition b64_zero : binary64 := B754_zero 53 1024 false.

(* `f > 0` *)
Definition b64_gt0 (f : binary64) : bool :=
  match b64_compare f b64_zero with Some Gt => true | _ => false end.

(* the value of the local variable `threshold` *)
Definition threshold_float (total : Z) (ms : binary64) : binary64 :=
  if b64_gt0 ms then
    b64_mult mode_NE ms (b64_of_Z GiB)                       (* float64(minSpaceRequired) * float64(GB) *)
  else if total <=? 256 * GiB then
    b64_mult mode_NE (b64_of_Z (50 * GiB))                    (* float64(50*GB) * *)
             (b64_div mode_NE (b64_of_Z total) (b64_of_Z (256 * GiB)))  (* (float64(total) / float64(256*GB)) *)
  else b64_of_Z (50 * GiB).                                  (* 50 * GB *)

(* the float with its fraction discarded (truncation toward zero); None: NaN, infinities *)
Definition trunc_b64 (f : binary64) : option Z :=
  match f with
  | B754_zero _ _ _ => Some 0
  | B754_finite _ _ s m e _ => Some (cond_Zopp s (scale (Z.pos m) e))
  | _ => None
  end.

(* Go's uint64(f) where the specification defines it *)
Definition uint64_of_b64 (f : binary64) : option Z :=
  match trunc_b64 f with
  | Some t => if (0 <=? t) && (t <? two64) then Some t else None
  | None => None
  end.

(* checkThreshold returns an error *)
Definition refuse_float (total free : Z) (ms : binary64) : option bool :=
  match uint64_of_b64 (threshold_float total ms) with
  | Some t => Some (free <? t)
  | None => None
  end.

(* ---- bridge to the value type of Threshold.v ------------------------------------------------ *)
Definition fl_of_b64 (f : binary64) : fl :=
  match f with
  | B754_zero _ _ s => FFin s 0 0
  | B754_infinity _ _ s => FInf s
  | B754_nan _ _ _ _ _ => FNaN
  | B754_finite _ _ s m e _ => FFin s (Z.pos m) e
  end.

(* the binary64 with the exact value  (-1)^neg * m * 2^e  (the harness passes math.Frexp's
   decomposition of a float64, which is such a value; other (m, e) are rounded) *)
Definition b64_nan : binary64 := proj1_sig default_nan_pl64.
Definition b64_of_fl (f : fl) : binary64 :=
  match f with
  | FNaN => b64_nan
  | FInf neg => B754_infinity 53 1024 neg
  | FFin neg m e =>
      binary_normalize 53 1024 (eq_refl Lt) (eq_refl Lt) mode_NE (cond_Zopp neg m) e neg
  end.

(* same real value (finite values compared after aligning the exponents) *)
Definition fl_same (a c : fl) : bool :=
  match a, c with
  | FNaN, FNaN => true
  | FInf x, FInf y => Bool.eqb x y
  | FFin n m e, FFin n' m' e' =>
      ((m =? 0) && (m' =? 0) && Bool.eqb n n')
      || ((0 <? m) && (0 <? m') && Bool.eqb n n'
          && (if e <=? e' then m =? m' * 2 ^ (e' - e) else m * 2 ^ (e - e') =? m'))
  | _, _ => false
  end.
