(* C19 - proofs about Ext/FileExt.v *)
From Coq Require Import Lia.
From ZenoV Require Import Ext.FileExt.

Lemma eqb_false_neq (a c : ascii) : Ascii.eqb a c = false <-> a <> c.
Proof. destruct (Ascii.eqb_spec a c); split; intros; congruence. Qed.

(* ---- cut_at: the longest prefix without [c] ------------------------------------- *)
Lemma cut_at_noocc c s : ~ In c (cut_at c s).
Proof.
  induction s as [|a r IH]; simpl; [tauto|].
  destruct (Ascii.eqb_spec a c) as [->|Hn]; simpl; [tauto|].
  intros [H|H]; [congruence|tauto].
Qed.

Lemma cut_at_split c s :
  s = cut_at c s \/ exists r, s = cut_at c s ++ c :: r.
Proof.
  induction s as [|a r IH]; simpl; [left; reflexivity|].
  destruct (Ascii.eqb_spec a c) as [->|Hn].
  - right. exists r. reflexivity.
  - destruct IH as [IH|[r' IH]].
    + left. congruence.
    + right. exists r'. simpl. congruence.
Qed.

Lemma cut_at_app_noocc c p r : ~ In c p -> cut_at c (p ++ c :: r) = p.
Proof.
  induction p as [|a p IH]; simpl; intros Hn.
  - rewrite Ascii.eqb_refl. reflexivity.
  - destruct (Ascii.eqb_spec a c) as [->|Hne]; [tauto|]. rewrite IH; tauto.
Qed.

Lemma cut_at_id c p : ~ In c p -> cut_at c p = p.
Proof.
  induction p as [|a p IH]; simpl; intros Hn; [reflexivity|].
  destruct (Ascii.eqb_spec a c) as [->|Hne]; [tauto|]. rewrite IH; tauto.
Qed.

(* cut_at c s = p  <->  p is free of c and s is p, or p followed by c and anything *)
Theorem cut_at_spec c s p :
  cut_at c s = p <-> (~ In c p /\ (s = p \/ exists r, s = p ++ c :: r)).
Proof.
  split.
  - intros <-. split; [apply cut_at_noocc|apply cut_at_split].
  - intros [Hn [->|[r ->]]]; [apply cut_at_id|apply cut_at_app_noocc]; assumption.
Qed.

(* ---- after_last_opt: the text after the last [c] --------------------------------- *)
Lemma after_last_none c s : after_last_opt c s = None <-> ~ In c s.
Proof.
  induction s as [|a r IH]; simpl; [tauto|].
  destruct (after_last_opt c r) as [t|].
  - split; [discriminate|]. intros Hn. exfalso. apply Hn. right.
    destruct (in_dec ascii_dec c r) as [Hi|Hi]; [assumption|].
    apply IH in Hi. discriminate.
  - destruct (Ascii.eqb_spec a c) as [->|Hne].
    + split; [discriminate|]. intros Hn; exfalso; apply Hn; left; reflexivity.
    + split; [|reflexivity]. intros _ [H|H]; [congruence|]. apply IH in H; [assumption|reflexivity].
Qed.

Lemma cons_app_split (a c : ascii) (r p t : list ascii) :
  a :: r = p ++ c :: t -> (p = [] /\ a = c /\ r = t) \/ (exists p', p = a :: p' /\ r = p' ++ c :: t).
Proof.
  destruct p as [|a' p]; simpl; intros H; inversion H; subst.
  - left. repeat split.
  - right. exists p. split; reflexivity.
Qed.

Lemma in_mid (c : ascii) (p t : list ascii) : In c (p ++ c :: t).
Proof. apply in_or_app. right. left. reflexivity. Qed.

Lemma after_last_some c s t :
  after_last_opt c s = Some t <-> exists p, s = p ++ c :: t /\ ~ In c t.
Proof.
  revert t; induction s as [|a r IH]; intros t; simpl.
  - split; [discriminate|]. intros [p [H _]]. destruct p; discriminate.
  - destruct (after_last_opt c r) as [t'|] eqn:E.
    + split.
      * intros [= <-]. destruct (proj1 (IH t') eq_refl) as [p [-> Hn]].
        exists (a :: p). split; [reflexivity|assumption].
      * intros [p [Hs Hn]]. f_equal.
        destruct (proj1 (IH t') eq_refl) as [p' [Hr Hn']].
        apply cons_app_split in Hs. destruct Hs as [[_ [_ Hr2]]|[p2 [_ Hr2]]].
        -- exfalso. apply Hn. rewrite <- Hr2, Hr. apply in_mid.
        -- assert (Hx : Some t' = Some t) by (apply IH; exists p2; split; assumption).
           congruence.
    + apply after_last_none in E.
      destruct (Ascii.eqb_spec a c) as [Hac|Hne].
      * split.
        -- intros [= <-]. exists []. split; [simpl; congruence|assumption].
        -- intros [p [Hs Hn]]. apply cons_app_split in Hs. destruct Hs as [[_ [_ Hr2]]|[p2 [_ Hr2]]].
           ++ rewrite Hr2. reflexivity.
           ++ exfalso. apply E. rewrite Hr2. apply in_mid.
      * split; [discriminate|].
        intros [p [Hs Hn]]. apply cons_app_split in Hs. destruct Hs as [[_ [Hac _]]|[p2 [_ Hr2]]].
        -- congruence.
        -- exfalso. apply E. rewrite Hr2. apply in_mid.
Qed.

(* after_last c s = t  <->  c does not occur and t = s, or s = p ++ c :: t with t free of c *)
Theorem after_last_spec c s t :
  after_last c s = t <-> ((~ In c s /\ t = s) \/ (exists p, s = p ++ c :: t /\ ~ In c t)).
Proof.
  unfold after_last. destruct (after_last_opt c s) as [t'|] eqn:E.
  - split.
    + intros <-. right. apply after_last_some. assumption.
    + intros [[Hn _]|H].
      * apply after_last_none in Hn. congruence.
      * apply after_last_some in H. congruence.
  - split.
    + intros <-. left. split; [apply after_last_none; assumption|reflexivity].
    + intros [[_ ->]|H]; [reflexivity|]. apply after_last_some in H. congruence.
Qed.

(* ---- the segment test ------------------------------------------------------------ *)
(* seg has an extension  <->  seg = a ++ "." ++ b with b non-empty and free of dots, i.e. the
   last dot of the segment exists and is not its last byte *)
Theorem seg_has_ext_spec seg :
  seg_has_ext seg = true <-> exists a b, seg = a ++ ch_dot :: b /\ b <> [] /\ ~ In ch_dot b.
Proof.
  unfold seg_has_ext. destruct (after_last_opt ch_dot seg) as [t|] eqn:E.
  - apply after_last_some in E. destruct E as [p [-> Hn]].
    destruct t as [|x t].
    + split; [discriminate|]. intros [a [b [He [Hne Hnd]]]].
      exfalso.
      assert (H1 : after_last_opt ch_dot (p ++ [ch_dot]) = Some []) by (apply after_last_some; exists p; split; [reflexivity|tauto]).
      assert (H2 : after_last_opt ch_dot (p ++ [ch_dot]) = Some b) by (apply after_last_some; exists a; split; assumption).
      rewrite H1 in H2. injection H2 as <-. apply Hne. reflexivity.
    + split; [|reflexivity]. intros _. exists p, (x :: t). repeat split; [discriminate|assumption].
  - split; [discriminate|]. intros [a [b [-> _]]].
    apply after_last_none in E. exfalso. apply E. apply in_or_app. right. left. reflexivity.
Qed.

(* the complete specification of hasFileExtension *)
Theorem file_ext_spec_lemma s :
  has_file_ext s = true <->
  exists s1 s2 seg a b,
    cut_at ch_hash s = s1 /\ cut_at ch_qmark s1 = s2 /\ after_last ch_slash s2 = seg /\
    seg = a ++ ch_dot :: b /\ b <> [] /\ ~ In ch_dot b.
Proof.
  unfold has_file_ext, last_seg. rewrite seg_has_ext_spec. split.
  - intros [a [b H]]. do 3 eexists. exists a, b. repeat split; try reflexivity; apply H.
  - intros [s1 [s2 [seg [a [b [<- [<- [<- H]]]]]]]]. exists a, b. exact H.
Qed.

(* ---- URLs: the segment looked at is the last path segment ------------------------ *)
Definition no3 (s : bytes) : Prop := ~ In ch_hash s /\ ~ In ch_qmark s /\ ~ In ch_slash s.
Definition opt_part (c : ascii) (q : bytes) : Prop := q = [] \/ exists q', q = c :: q'.

Lemma notin_app (c : ascii) (u v : bytes) : ~ In c u -> ~ In c v -> ~ In c (u ++ v).
Proof. intros Hu Hv H. apply in_app_or in H. tauto. Qed.

Lemma cut_at_opt_part c p q : ~ In c p -> opt_part c q -> cut_at c (p ++ q) = p.
Proof.
  intros Hn [->|[q' ->]].
  - rewrite app_nil_r. apply cut_at_id. assumption.
  - apply cut_at_app_noocc. assumption.
Qed.

Lemma cut_query_frag (body q f : bytes) :
  ~ In ch_hash body -> ~ In ch_qmark body -> opt_part ch_qmark q -> ~ In ch_hash q -> opt_part ch_hash f ->
  cut_at ch_qmark (cut_at ch_hash (body ++ q ++ f)) = body.
Proof.
  intros Hh Hq Hoq Hqh Hof.
  rewrite app_assoc. rewrite (cut_at_opt_part ch_hash (body ++ q) f); [|apply notin_app; assumption|assumption].
  apply cut_at_opt_part; assumption.
Qed.

Lemma after_last_app_slash (pre path : bytes) :
  after_last ch_slash (pre ++ ch_slash :: path) = after_last ch_slash path.
Proof.
  unfold after_last at 2. destruct (after_last_opt ch_slash path) as [t|] eqn:E.
  - apply after_last_spec. right. apply after_last_some in E. destruct E as [p [-> Hn]].
    exists (pre ++ ch_slash :: p). split; [|assumption].
    rewrite <- app_assoc. reflexivity.
  - apply after_last_spec. right. exists pre. split; [reflexivity|]. apply after_last_none. assumption.
Qed.

Definition sep : bytes := [":"%char; ch_slash; ch_slash].

(* a URL  scheme://authority/path[?query][#fragment] : the test is applied to the text after the
   last slash of the path, i.e. to the last path segment *)
Theorem file_ext_is_last_segment_lemma scheme auth path q f :
  no3 scheme -> no3 auth -> ~ In ch_hash path -> ~ In ch_qmark path ->
  opt_part ch_qmark q -> ~ In ch_hash q -> opt_part ch_hash f ->
  has_file_ext (scheme ++ sep ++ auth ++ ch_slash :: path ++ q ++ f) = seg_has_ext (after_last ch_slash path).
Proof.
  intros [Hs1 [Hs2 Hs3]] [Ha1 [Ha2 Ha3]] Hp1 Hp2 Hq Hqh Hf.
  unfold has_file_ext, last_seg. f_equal.
  replace (scheme ++ sep ++ auth ++ ch_slash :: path ++ q ++ f)
    with ((scheme ++ sep ++ auth ++ ch_slash :: path) ++ q ++ f)
    by (repeat rewrite <- app_assoc; simpl; repeat rewrite <- app_assoc; reflexivity).
  assert (Hsep_h : ~ In ch_hash sep) by (unfold sep, ch_hash, ch_slash; simpl; intros [H|[H|[H|H]]]; try discriminate; tauto).
  assert (Hsep_q : ~ In ch_qmark sep) by (unfold sep, ch_qmark, ch_slash; simpl; intros [H|[H|[H|H]]]; try discriminate; tauto).
  rewrite cut_query_frag; try assumption.
  - replace (scheme ++ sep ++ auth ++ ch_slash :: path) with ((scheme ++ sep ++ auth) ++ ch_slash :: path)
      by (repeat rewrite <- app_assoc; simpl; repeat rewrite <- app_assoc; reflexivity).
    apply after_last_app_slash.
  - repeat apply notin_app; try assumption. simpl. intros [H|H]; [discriminate|tauto].
  - repeat apply notin_app; try assumption. simpl. intros [H|H]; [discriminate|tauto].
Qed.

(* a host-only URL  scheme://authority[?query][#fragment] : the test is applied to the authority
   (DESIGN.md section 7 row 15) *)
Theorem file_ext_host_only_lemma scheme auth q f :
  no3 scheme -> no3 auth -> opt_part ch_qmark q -> ~ In ch_hash q -> opt_part ch_hash f ->
  has_file_ext (scheme ++ sep ++ auth ++ q ++ f) = seg_has_ext auth.
Proof.
  intros [Hs1 [Hs2 Hs3]] [Ha1 [Ha2 Ha3]] Hq Hqh Hf.
  unfold has_file_ext, last_seg. f_equal.
  replace (scheme ++ sep ++ auth ++ q ++ f) with ((scheme ++ sep ++ auth) ++ q ++ f)
    by (repeat rewrite <- app_assoc; simpl; repeat rewrite <- app_assoc; reflexivity).
  assert (Hsep_h : ~ In ch_hash sep) by (unfold sep, ch_hash, ch_slash; simpl; intros [H|[H|[H|H]]]; try discriminate; tauto).
  assert (Hsep_q : ~ In ch_qmark sep) by (unfold sep, ch_qmark, ch_slash; simpl; intros [H|[H|[H|H]]]; try discriminate; tauto).
  rewrite cut_query_frag; try assumption; try (repeat apply notin_app; assumption).
  replace (scheme ++ sep ++ auth) with ((scheme ++ [":"%char; ch_slash]) ++ ch_slash :: auth)
    by (unfold sep; repeat rewrite <- app_assoc; simpl; repeat rewrite <- app_assoc; reflexivity).
  rewrite after_last_app_slash. apply after_last_spec. left. split; [assumption|reflexivity].
Qed.

(* the property's reading ("last path segment has a file extension") is refuted for host-only
   URLs: https://example.com has no path, yet it is classified as an asset *)
Lemma host_only_asset_refuted :
  exists scheme auth, no3 scheme /\ no3 auth /\ has_file_ext (scheme ++ sep ++ auth) = true.
Proof.
  exists (bs "https"), (bs "example.com"). split; [|split]; [| |vm_compute; reflexivity];
    unfold no3, ch_hash, ch_qmark, ch_slash; simpl; repeat split; intuition discriminate.
Qed.

(* non-vacuity *)
Example file_ext_nonvacuous :
  has_file_ext (bs "https://example.com/a/b.tar.gz?x=1.2#f.g") = true
  /\ has_file_ext (bs "https://example.com/a.b/c?x=d.e") = false
  /\ has_file_ext (bs "https://example.com/a.") = false
  /\ has_file_ext (bs "https://example.com/.htaccess") = true
  /\ has_file_ext (bs "https://example.com/") = false.
Proof. vm_compute. repeat split; reflexivity. Qed.

Example last_segment_nonvacuous :
  no3 (bs "https") /\ no3 (bs "user@example.com:8080") /\
  has_file_ext (bs "https" ++ sep ++ bs "user@example.com:8080" ++ ch_slash :: bs "a/b.png" ++ bs "?q=1" ++ bs "#top") = true.
Proof.
  split; [|split]; [| |vm_compute; reflexivity];
    unfold no3, ch_hash, ch_qmark, ch_slash; simpl; repeat split; intuition discriminate.
Qed.

(* ---- TrimSpace gives back a URL followed by white space ---------------------------- *)
Definition plain_byte (a : ascii) : bool := (nb a <? 128)%N && negb (ascii_ws a).

Lemma plain_not_ws2 a b : plain_byte b = true -> ws2 a b = false.
Proof.
  unfold plain_byte, ws2. intros H. apply andb_true_iff in H. destruct H as [H _].
  apply N.ltb_lt in H.
  destruct (nb b =? 133)%N eqn:E1; [apply N.eqb_eq in E1; lia|].
  destruct (nb b =? 160)%N eqn:E2; [apply N.eqb_eq in E2; lia|].
  rewrite andb_false_r. reflexivity.
Qed.

Lemma plain_not_ws3 a b c : plain_byte c = true -> ws3 a b c = false.
Proof.
  unfold plain_byte, ws3. intros H. apply andb_true_iff in H. destruct H as [H _].
  apply N.ltb_lt in H.
  assert (E0 : (nb c =? 128)%N = false) by (apply N.eqb_neq; lia).
  assert (E1 : (128 <=? nb c)%N = false) by (apply N.leb_gt; lia).
  assert (E2 : (nb c =? 168)%N = false) by (apply N.eqb_neq; lia).
  assert (E3 : (nb c =? 169)%N = false) by (apply N.eqb_neq; lia).
  assert (E4 : (nb c =? 175)%N = false) by (apply N.eqb_neq; lia).
  assert (E5 : (nb c =? 159)%N = false) by (apply N.eqb_neq; lia).
  rewrite E0, E1, E2, E3, E4, E5. simpl. rewrite !andb_false_r. reflexivity.
Qed.

Lemma rtrim_rev_ws ws l : forallb ascii_ws ws = true -> rtrim_rev (ws ++ l) = rtrim_rev l.
Proof.
  induction ws as [|a r IH]; simpl; [reflexivity|]. intros H. apply andb_true_iff in H.
  destruct H as [Ha Hr]. rewrite Ha. apply IH. assumption.
Qed.

Lemma rtrim_rev_plain c l : plain_byte c = true -> rtrim_rev (c :: l) = c :: l.
Proof.
  intros Hc. assert (Hw : ascii_ws c = false).
  { unfold plain_byte in Hc. apply andb_true_iff in Hc. destruct Hc as [_ Hc].
    destruct (ascii_ws c); [discriminate|reflexivity]. }
  cbn [rtrim_rev]. rewrite Hw. destruct l as [|b l]; [reflexivity|].
  rewrite plain_not_ws2 by assumption. destruct l as [|a l]; [reflexivity|].
  rewrite plain_not_ws3 by assumption. reflexivity.
Qed.

Lemma ltrim_plain c l : plain_byte c = true -> ltrim (c :: l) = c :: l.
Proof.
  intros Hc. assert (Hw : ascii_ws c = false).
  { unfold plain_byte in Hc. apply andb_true_iff in Hc. destruct Hc as [_ Hc].
    destruct (ascii_ws c); [discriminate|reflexivity]. }
  assert (Hlt : (nb c < 128)%N).
  { unfold plain_byte in Hc. apply andb_true_iff in Hc. destruct Hc as [Hc _]. apply N.ltb_lt. assumption. }
  cbn [ltrim]. rewrite Hw. destruct l as [|b l]; [reflexivity|].
  assert (H2 : ws2 c b = false).
  { unfold ws2. destruct (nb c =? 194)%N eqn:E; [apply N.eqb_eq in E; lia|reflexivity]. }
  rewrite H2. destruct l as [|a l]; [reflexivity|].
  assert (H3 : ws3 c b a = false).
  { unfold ws3.
    destruct (nb c =? 225)%N eqn:E1; [apply N.eqb_eq in E1; lia|].
    destruct (nb c =? 226)%N eqn:E2; [apply N.eqb_eq in E2; lia|].
    destruct (nb c =? 227)%N eqn:E3; [apply N.eqb_eq in E3; lia|]. reflexivity. }
  rewrite H3. reflexivity.
Qed.

(* a text node made of a URL that begins and ends with plain (ASCII, non-blank) bytes, followed by
   any ASCII white space - a pretty-printed <loc> - is trimmed back to the URL *)
Theorem trim_space_url_lemma c0 mid c1 ws :
  plain_byte c0 = true -> plain_byte c1 = true -> forallb ascii_ws ws = true ->
  trim_space (c0 :: mid ++ c1 :: ws) = c0 :: mid ++ [c1].
Proof.
  intros H0 H1 Hws. unfold trim_space. rewrite ltrim_plain by assumption.
  replace (c0 :: mid ++ c1 :: ws) with ((c0 :: mid ++ [c1]) ++ ws)
    by (simpl; rewrite <- app_assoc; reflexivity).
  rewrite rev_app_distr. rewrite rtrim_rev_ws.
  - replace (rev (c0 :: mid ++ [c1])) with (c1 :: rev (c0 :: mid)).
    + rewrite rtrim_rev_plain by assumption.
      change (c1 :: rev (c0 :: mid)) with (rev [c1] ++ rev (c0 :: mid)).
      rewrite <- rev_app_distr, rev_involutive. reflexivity.
    + change (c0 :: mid ++ [c1]) with ((c0 :: mid) ++ [c1]). rewrite rev_app_distr. reflexivity.
  - rewrite forallb_forall in *. intros x Hx. apply Hws. apply in_rev. assumption.
Qed.


Lemma ltrim_ws ws l : forallb ascii_ws ws = true -> ltrim (ws ++ l) = ltrim l.
Proof.
  induction ws as [|a r IH]; simpl; [reflexivity|]. intros H. apply andb_true_iff in H.
  destruct H as [Ha Hr]. rewrite Ha. apply IH. assumption.
Qed.

(* a text that begins and ends with plain bytes, padded with ASCII white space on both sides, is
   trimmed back to the text *)
Theorem trim_space_padded_lemma c0 mid c1 ws1 ws2 :
  plain_byte c0 = true -> plain_byte c1 = true ->
  forallb ascii_ws ws1 = true -> forallb ascii_ws ws2 = true ->
  trim_space (ws1 ++ c0 :: mid ++ c1 :: ws2) = c0 :: mid ++ [c1].
Proof.
  intros H0 H1 Hw1 Hw2. unfold trim_space. rewrite ltrim_ws by assumption.
  apply (trim_space_url_lemma c0 mid c1 ws2); assumption.
Qed.
