(* C19 - model of internal/pkg/postprocessor/extractor/json.go (JSON, GetURLsFromJSON, findURLs,
   isLikelyJSON) on decoded JSON values.  encoding/json and fasturl are oracles:
   - a document is given as the value tree encoding/json decodes it to (objects carry their
     members after duplicate-key resolution; the order of members is irrelevant below);
   - a string node carries what json.Unmarshal yields when the string's own text is parsed as
     JSON ([Some v]; [None] when it does not parse) - the "JSON embedded in a string" node;
   - [valid] is isValidURL: fasturl.ParseURL accepts the text and reports a non-empty host.
   Executable definitions only; proofs are in JsonProofs.v. *)
From ZenoV Require Export Ext.FileExt.

Inductive jv :=
| JNull
| JBool (b : bool)
| JNum
| JStr (s : bytes) (emb : option jv)
| JArr (l : list jv)
| JObj (l : list (bytes * jv)).

Definition ch_lbrace : ascii := "{"%char.
Definition ch_rbrace : ascii := "}"%char.
Definition ch_lbrack : ascii := "["%char.
Definition ch_rbrack : ascii := "]"%char.
Definition ch_dquote : ascii := """"%char.

Definition first_byte (s : bytes) : option ascii := match s with a :: _ => Some a | [] => None end.
Definition last_byte (s : bytes) : option ascii := first_byte (rev s).
Definition opt_is (o : option ascii) (c : ascii) : bool :=
  match o with Some a => Ascii.eqb a c | None => false end.

(* isLikelyJSON as found: len(str) >= 5, first/last byte are {} or [], and a double quote occurs *)
Definition is_likely_json_orig (s : bytes) : bool :=
  (5 <=? List.length s)%nat
  && ((opt_is (first_byte s) ch_lbrace && opt_is (last_byte s) ch_rbrace)
      || (opt_is (first_byte s) ch_lbrack && opt_is (last_byte s) ch_rbrack))
  && existsb (Ascii.eqb ch_dquote) s.

(* isLikelyJSON (FIXED code, fixes/C19-json-embedded-ws.diff): the same test on
   strings.TrimSpace(str) *)
Definition is_likely_json (s : bytes) : bool := is_likely_json_orig (trim_space s).

Section J.
Variable valid : bytes -> bool.

(* findURLs: the links in the order the document lists them (Go iterates a map: any order) *)
Fixpoint find_urls (v : jv) : list bytes :=
  match v with
  | JStr s emb =>
      if valid s then [s]
      else if is_likely_json s then
             match emb with Some e => find_urls e | None => [] end
           else []
  | JArr l => flat_map find_urls l
  | JObj l => flat_map (fun kv => find_urls (snd kv)) l
  | _ => []
  end.

(* GetURLsFromJSON: assets are the links with a file extension, the others are outlinks *)
Definition json_assets (v : jv) : list bytes := filter has_file_ext (find_urls v).
Definition json_outlinks (v : jv) : list bytes := filter (fun u => negb (has_file_ext u)) (find_urls v).

(* extractor.JSON on a body: [None] = the decoder rejects the document (error, nothing returned) *)
Definition json_extract (doc : option jv) : bool * list bytes * list bytes :=
  match doc with
  | None => (true, [], [])
  | Some v => (false, json_assets v, json_outlinks v)
  end.
End J.

(* every string value of a document, at any depth, embedded values included whatever the
   carrier string looks like (used by the harness monitors, not by the model above) *)
Fixpoint all_strings (v : jv) : list bytes :=
  match v with
  | JStr s emb => s :: match emb with Some e => all_strings e | None => [] end
  | JArr l => flat_map all_strings l
  | JObj l => flat_map (fun kv => all_strings (snd kv)) l
  | _ => []
  end.

(* findURLs as found (isLikelyJSON on the untrimmed string) *)
Fixpoint find_urls_orig (valid : bytes -> bool) (v : jv) : list bytes :=
  match v with
  | JStr s emb =>
      if valid s then [s]
      else if is_likely_json_orig s then
             match emb with Some e => find_urls_orig valid e | None => [] end
           else []
  | JArr l => flat_map (find_urls_orig valid) l
  | JObj l => flat_map (fun kv => find_urls_orig valid (snd kv)) l
  | _ => []
  end.

(* the oracle as a finite table: the strings isValidURL accepts (harness, witnesses) *)
Definition tv (l : list bytes) : bytes -> bool := fun s => memb s l.
