(* C19 - model of internal/pkg/postprocessor/extractor/s3.go (S3, s3Legacy, s3V2) together with a
   bucket server and the walk that follows the links the extractor returns.

   Bucket: the list of (key, size) in the server's listing order (for S3: strictly increasing keys,
   byte-wise).  API V1 = ListObjects (marker pagination, flat), V2 = ListObjectsV2 (continuation
   token, optional one-byte delimiter => common prefixes).
   Modelling decision for continuation tokens (DESIGN.md C19): a token is opaque to Zeno; the server
   side reads it as a cursor into its listing order - here the number of keys already passed - and
   honours it whatever the other query parameters are.  Zeno builds sub-folder links by editing the
   CURRENT request's query, so they still carry that page's token; under the cursor reading this is
   harmless (proved below, not assumed).

   The model follows the FIXED s3V2 (fixes/C19-s3-v2-mixed-page.diff: a page with common prefixes AND
   contents yields both kinds of links); [orig := true] gives the code as found.
   Executable definitions only; proofs are in S3Proofs.v. *)
From Coq Require Export Arith.
From ZenoV Require Export Ext.FileExt.

Definition obj := (bytes * N)%type.
Inductive cursor := CNone | CMarker (k : bytes) | CTok (i : nat).
Record req := Req { r_prefix : bytes; r_cur : cursor }.
Inductive api := V1 | V2.
Record cfg := Cfg { c_api : api; c_delim : option ascii; c_max : nat }.

(* ---- strings ---------------------------------------------------------------------- *)
Definition bn (a : ascii) : N := N_of_ascii a.

(* Go's string "<": byte-wise lexicographic, a proper prefix is smaller *)
Fixpoint bytes_ltb (u v : bytes) : bool :=
  match u, v with
  | [], [] => false
  | [], _ :: _ => true
  | _ :: _, [] => false
  | a :: u', c :: v' =>
      if (bn a <? bn c)%N then true
      else if (bn a =? bn c)%N then bytes_ltb u' v' else false
  end.

(* strings.HasPrefix(k, p), returning the rest *)
Fixpoint strip_prefix (p k : bytes) : option bytes :=
  match p, k with
  | [], _ => Some k
  | a :: p', c :: k' => if Ascii.eqb a c then strip_prefix p' k' else None
  | _ :: _, [] => None
  end.

(* the common prefix a key rolls up into: prefix + rest up to and including the first delimiter *)
Definition cp_of (d : option ascii) (p rest : bytes) : option bytes :=
  match d with
  | None => None
  | Some c => if existsb (Ascii.eqb c) rest then Some (p ++ cut_at c rest ++ [c]) else None
  end.

(* ---- the server -------------------------------------------------------------------- *)
Inductive entry := EKey (k : bytes) (sz : N) | EPre (cp : bytes).

Definition is_open (o : option bytes) (cp : bytes) : bool :=
  match o with Some x => bytes_eqb x cp | None => false end.

(* ListObjectsV2 over the remaining listing [l]: at most [n] entries; consecutive keys that roll up
   into the same common prefix form one entry.  Result: the entries, and when the page is truncated
   the part of the listing that starts at the first key not covered. *)
Fixpoint scan (d : option ascii) (P : bytes) (n : nat) (open : option bytes) (l : list obj)
  : list entry * option (list obj) :=
  match l with
  | [] => ([], None)
  | (k, sz) :: r =>
      match strip_prefix P k with
      | None => scan d P n open r
      | Some rest =>
          match cp_of d P rest with
          | Some cp =>
              if is_open open cp then scan d P n open r
              else match n with
                   | O => ([], Some l)
                   | S n' => let (es, nx) := scan d P n' (Some cp) r in (EPre cp :: es, nx)
                   end
          | None =>
              match n with
              | O => ([], Some l)
              | S n' => let (es, nx) := scan d P n' None r in (EKey k sz :: es, nx)
              end
          end
      end
  end.

Record page := Page { p_cps : list bytes; p_contents : list obj; p_trunc : bool; p_next : option nat }.

Definition entry_cps (es : list entry) : list bytes :=
  flat_map (fun e => match e with EPre cp => [cp] | _ => [] end) es.
Definition entry_keys (es : list entry) : list obj :=
  flat_map (fun e => match e with EKey k sz => [(k, sz)] | _ => [] end) es.

Definition start_pos (c : cursor) : nat := match c with CTok i => i | _ => 0 end.

Definition serve2 (c : cfg) (b : list obj) (r : req) : page :=
  let (es, rest) := scan (c_delim c) (r_prefix r) (c_max c) None (skipn (start_pos (r_cur r)) b) in
  Page (entry_cps es) (entry_keys es)
       (match rest with Some _ => true | None => false end)
       (match rest with Some rs => Some (List.length b - List.length rs) | None => None end).

Definition after_marker (c : cursor) (k : bytes) : bool :=
  match c with CMarker m => bytes_ltb m k | _ => true end.

Definition in_scope1 (r : req) (o : obj) : bool :=
  prefixb (r_prefix r) (fst o) && after_marker (r_cur r) (fst o).

(* ListObjects (V1): keys under the prefix strictly after the marker, first max-keys of them *)
Definition serve1 (c : cfg) (b : list obj) (r : req) : page :=
  let l := filter (in_scope1 r) b in
  Page [] (firstn (c_max c) l) (c_max c <? List.length l) None.

Definition serve (c : cfg) (b : list obj) (r : req) : page :=
  match c_api c with V1 => serve1 c b r | V2 => serve2 c b r end.

(* ---- Zeno: the links built from one listing page ----------------------------------- *)
Definition nonzero (l : list obj) : list bytes :=
  map fst (filter (fun o => (0 <? snd o)%N) l).

Definition is_nil {A} (l : list A) : bool := match l with [] => true | _ => false end.

(* (listing requests to fetch next, object keys to fetch) *)
Definition links (orig : bool) (c : cfg) (r : req) (pg : page) : list req * list bytes :=
  match c_api c with
  | V1 =>
      (* s3Legacy: marker = last key of Contents whenever Contents is not empty *)
      (match last (map (fun o => Some (fst o)) (p_contents pg)) None with
       | Some k => [Req (r_prefix r) (CMarker k)]
       | None => []
       end,
       nonzero (p_contents pg))
  | V2 =>
      (* s3V2: prefix := each common prefix (other parameters kept);
               continuation-token := NextContinuationToken when truncated *)
      (map (fun cp => Req cp (r_cur r)) (p_cps pg)
         ++ match p_next pg with
            | Some i => if p_trunc pg then [Req (r_prefix r) (CTok i)] else []
            | None => []
            end,
       if orig && negb (is_nil (p_cps pg)) then [] else nonzero (p_contents pg))
  end.

Definition step (orig : bool) (c : cfg) (b : list obj) (r : req) : list req * list bytes :=
  links orig c r (serve c b r).

(* ---- the walk: fetch a pending request chosen by the schedule, skip it when it was fetched
   before, otherwise queue what the extractor returns.  One schedule entry per fetch decision. --- *)
Fixpoint take {A} (n : nat) (x : A) (q : list A) : A * list A :=
  match n, q with
  | O, _ => (x, q)
  | S _, [] => (x, [])
  | S m, y :: q' => let (z, r) := take m y q' in (z, x :: r)
  end.

Section Walk.
Context {R O : Type}.
Variable reqb : R -> R -> bool.
Variable stepf : R -> list R * list O.

Inductive outcome := Done (visited : list R) (reached : list O) | OutOfFuel.

Fixpoint walk (sched : list nat) (vis : list R) (q : list R) (acc : list O) : outcome :=
  match q with
  | [] => Done (rev vis) acc
  | x0 :: q0 =>
      match sched with
      | [] => OutOfFuel
      | n :: sched' =>
          let (r, q') := take n x0 q0 in
          if existsb (reqb r) vis then walk sched' vis q' acc
          else let (rs, os) := stepf r in walk sched' (r :: vis) (q' ++ rs) (acc ++ os)
      end
  end.
End Walk.

Definition cursor_eqb (a c : cursor) : bool :=
  match a, c with
  | CNone, CNone => true
  | CMarker x, CMarker y => bytes_eqb x y
  | CTok i, CTok j => Nat.eqb i j
  | _, _ => false
  end.
Definition req_eqb (a c : req) : bool :=
  bytes_eqb (r_prefix a) (r_prefix c) && cursor_eqb (r_cur a) (r_cur c).

Definition s3_walk (orig : bool) (c : cfg) (b : list obj) (P : bytes) (sched : list nat) : outcome :=
  walk req_eqb (step orig c b) sched [] [Req P CNone] [].

(* what the walk is supposed to reach: keys under the root prefix with a non-zero size *)
Definition wanted (b : list obj) (P : bytes) : list bytes :=
  nonzero (filter (fun o => prefixb P (fst o)) b).

(* ---- explicit fuel bound ------------------------------------------------------------ *)
Definition count_delims (d : option ascii) (k : bytes) : nat :=
  match d with Some c => List.length (filter (Ascii.eqb c) k) | None => 0 end.
Definition total_delims (d : option ascii) (b : list obj) : nat :=
  fold_right (fun o acc => count_delims d (fst o) + acc) 0 b.

(* number of fetch decisions that always suffices *)
Definition walk_bound (c : cfg) (b : list obj) : nat :=
  match c_api c with
  | V1 => (List.length b + 1) * 2 + 1
  | V2 => ((1 + total_delims (c_delim c) b) * (List.length b + 2)) * (c_max c + 2) + 1
  end.

(* the same bound in binary numbers (harness monitor; equality proved in S3Proofs.v) *)
Definition walk_bound_N (c : cfg) (b : list obj) : N :=
  match c_api c with
  | V1 => (N.of_nat (List.length b) + 1) * 2 + 1
  | V2 => ((1 + N.of_nat (total_delims (c_delim c) b)) * (N.of_nat (List.length b) + 2)) * (N.of_nat (c_max c) + 2) + 1
  end%N.

(* strictly increasing keys *)
Fixpoint sorted_keysb (b : list obj) : bool :=
  match b with
  | [] => true
  | o :: r => forallb (fun o' => bytes_ltb (fst o) (fst o')) r && sorted_keysb r
  end.
