(* C19 - model of internal/pkg/postprocessor/extractor/xml.go (XML, IsSitemapXML) on the token tree
   that encoding/xml's RawToken walk delivers.  encoding/xml and xurls are oracles:
   - a document is the list of its top-level nodes; an element carries its attributes as
     (name, decoded value) in document order and its children; character data is one node per
     CharData token (plain text between two tags, entities decoded, CR/CRLF already turned into LF;
     a CDATA section is a token of its own);
   - a character-data node carries [found] = DedupeStrings(xurls.Strict().FindAllString(text)),
     which the extractor uses when the text does not start with "http".
   The model follows the FIXED code (fixes/C19-xml-trim-text-url.diff): a text node that starts with
   "http" is returned with surrounding white space trimmed; [xml_urls_orig] is the code as found.
   Executable definitions only; proofs are in XmlProofs.v. *)
From ZenoV Require Export Ext.FileExt.

Inductive xnode :=
| XElem (name : bytes) (attrs : list (bytes * bytes)) (kids : list xnode)
| XText (t : bytes) (found : list bytes)
| XCData (t : bytes) (found : list bytes)
| XComment (t : bytes)
| XPI (target inst : bytes)
| XDirective (t : bytes).

Definition http4 : bytes := bs "http".

(* strings.TrimSpace on valid UTF-8 ([trim_space], [ascii_ws], ...) is defined in Ext/FileExt.v *)

(* ---- XML() ------------------------------------------------------------------------ *)
Section X.
Variable trim : bytes -> bytes.   (* what is done to a text node that starts with "http" *)

Definition chardata_urls (t : bytes) (found : list bytes) : list bytes :=
  if prefixb http4 t then [trim t] else found.

Fixpoint node_urls (n : xnode) : list bytes :=
  match n with
  | XElem _ attrs kids => filter (prefixb http4) (map snd attrs) ++ flat_map node_urls kids
  | XText t f => chardata_urls t f
  | XCData t f => chardata_urls t f
  | _ => []
  end.

Definition doc_urls (doc : list xnode) : list bytes := flat_map node_urls doc.
End X.

Definition xml_urls : list xnode -> list bytes := doc_urls trim_space.
Definition xml_urls_orig : list xnode -> list bytes := doc_urls (fun t => t).

Definition xml_assets (doc : list xnode) : list bytes := filter has_file_ext (xml_urls doc).
Definition xml_outlinks (doc : list xnode) : list bytes := filter (fun u => negb (has_file_ext u)) (xml_urls doc).

(* extractor.XML on a body: [None] = RawToken reports a syntax error, or the body is empty
   (error; the lists built so far are NOT returned: they are filled after the loop only) *)
Definition xml_extract (doc : option (list xnode)) : bool * list bytes * list bytes :=
  match doc with
  | None => (true, [], [])
  | Some d => (false, xml_assets d, xml_outlinks d)
  end.

(* ---- IsSitemapXML ------------------------------------------------------------------ *)
Definition sitemap_marker : bytes := bs "sitemaps.org/schemas/sitemap/".

Fixpoint containsb (m s : bytes) : bool :=
  prefixb m s || match s with [] => false | _ :: r => containsb m r end.

(* element names cannot contain the marker: '/' is not a name byte for encoding/xml, so the
   two tests on t.Name are dead and not modelled *)
Fixpoint node_sitemap (n : xnode) : bool :=
  match n with
  | XElem _ attrs kids => existsb (fun kv => containsb sitemap_marker (snd kv)) attrs || existsb node_sitemap kids
  | XText t _ => containsb sitemap_marker t
  | XCData t _ => containsb sitemap_marker t
  | XComment t => containsb sitemap_marker t
  | XPI _ inst => containsb sitemap_marker inst
  | XDirective t => containsb sitemap_marker t
  end.
Definition is_sitemap (doc : list xnode) : bool := existsb node_sitemap doc.

(* extractOutlinks on a sitemap: assets and outlinks are both queued as outlinks *)
Definition sitemap_outlinks (doc : list xnode) : list bytes := xml_outlinks doc ++ xml_assets doc.

(* every node of a document (harness monitors) *)
Fixpoint subnodes (n : xnode) : list xnode :=
  n :: match n with XElem _ _ kids => flat_map subnodes kids | _ => [] end.
Definition doc_nodes (doc : list xnode) : list xnode := flat_map subnodes doc.
