(* C19 - byte-exact model of hasFileExtension (internal/pkg/postprocessor/extractor/utils.go),
   the test that splits the URLs found in JSON and XML documents into assets and outlinks.
   Executable definitions only; proofs are in FileExtProofs.v. *)
From Coq Require Export List Ascii String NArith Bool.
From ZenoV Require Export Lib.Hex.
Export ListNotations.

Definition ch_hash : ascii := "#"%char.
Definition ch_qmark : ascii := "?"%char.
Definition ch_slash : ascii := "/"%char.
Definition ch_dot : ascii := "."%char.

(* s[:i] with i = strings.IndexByte(s, c); the whole string when c does not occur *)
Fixpoint cut_at (c : ascii) (s : bytes) : bytes :=
  match s with
  | [] => []
  | a :: r => if Ascii.eqb a c then [] else a :: cut_at c r
  end.

(* s[i+1:] with i = strings.LastIndexByte(s, c); None when c does not occur *)
Fixpoint after_last_opt (c : ascii) (s : bytes) : option bytes :=
  match s with
  | [] => None
  | a :: r => match after_last_opt c r with
              | Some t => Some t
              | None => if Ascii.eqb a c then Some r else None
              end
  end.

Definition after_last (c : ascii) (s : bytes) : bytes :=
  match after_last_opt c s with Some t => t | None => s end.

(* dotPos := LastIndexByte(s,'.');  !(dotPos == -1 || dotPos == len(s)-1) *)
Definition seg_has_ext (seg : bytes) : bool :=
  match after_last_opt ch_dot seg with
  | Some (_ :: _) => true
  | _ => false
  end.

(* the text hasFileExtension looks at: fragment cut, then query cut, then everything up to
   the last slash dropped *)
Definition last_seg (s : bytes) : bytes :=
  after_last ch_slash (cut_at ch_qmark (cut_at ch_hash s)).

Definition has_file_ext (s : bytes) : bool := seg_has_ext (last_seg s).

(* strings.HasPrefix *)
Fixpoint prefixb (p s : bytes) : bool :=
  match p, s with
  | [], _ => true
  | a :: p', c :: s' => Ascii.eqb a c && prefixb p' s'
  | _ :: _, [] => false
  end.

(* membership in a list of byte strings *)
Definition memb (x : bytes) (l : list bytes) : bool := existsb (bytes_eqb x) l.

(* l1 is included in l2 / same set *)
Definition inclb (l1 l2 : list bytes) : bool := forallb (fun x => memb x l2) l1.
Definition same_set (l1 l2 : list bytes) : bool := inclb l1 l2 && inclb l2 l1.

(* same multiset: every element has the same number of occurrences on both sides *)
Definition countb (x : bytes) (l : list bytes) : nat := List.length (filter (bytes_eqb x) l).
Definition same_multiset (l1 l2 : list bytes) : bool :=
  Nat.eqb (List.length l1) (List.length l2) && forallb (fun x => Nat.eqb (countb x l1) (countb x l2)) l1.

(* ---- strings.TrimSpace on valid UTF-8 (unicode.IsSpace) --------------------------- *)
Definition nb (a : ascii) : N := N_of_ascii a.
Definition ascii_ws (a : ascii) : bool :=
  let n := nb a in ((9 <=? n) && (n <=? 13))%N || (n =? 32)%N.
(* U+0085, U+00A0 *)
Definition ws2 (a b : ascii) : bool :=
  (nb a =? 194)%N && ((nb b =? 133)%N || (nb b =? 160)%N).
(* U+1680, U+2000..U+200A, U+2028, U+2029, U+202F, U+205F, U+3000 *)
Definition ws3 (a b c : ascii) : bool :=
  ((nb a =? 225)%N && (nb b =? 154)%N && (nb c =? 128)%N)
  || ((nb a =? 226)%N && (nb b =? 128)%N &&
      (((128 <=? nb c) && (nb c <=? 138))%N || (nb c =? 168)%N || (nb c =? 169)%N || (nb c =? 175)%N))
  || ((nb a =? 226)%N && (nb b =? 129)%N && (nb c =? 159)%N)
  || ((nb a =? 227)%N && (nb b =? 128)%N && (nb c =? 128)%N).

Fixpoint ltrim (l : bytes) : bytes :=
  match l with
  | a :: r1 =>
      if ascii_ws a then ltrim r1 else
      match r1 with
      | b :: r2 =>
          if ws2 a b then ltrim r2 else
          match r2 with
          | c :: r3 => if ws3 a b c then ltrim r3 else l
          | [] => l
          end
      | [] => l
      end
  | [] => []
  end.

(* on the reversed string *)
Fixpoint rtrim_rev (l : bytes) : bytes :=
  match l with
  | c :: r1 =>
      if ascii_ws c then rtrim_rev r1 else
      match r1 with
      | b :: r2 =>
          if ws2 b c then rtrim_rev r2 else
          match r2 with
          | a :: r3 => if ws3 a b c then rtrim_rev r3 else l
          | [] => l
          end
      | [] => l
      end
  | [] => []
  end.

Definition trim_space (s : bytes) : bytes := rev (rtrim_rev (rev (ltrim s))).

