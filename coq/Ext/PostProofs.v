(* C19 - proofs about Ext/Post.v *)
From Coq Require Import Lia.
From ZenoV Require Import Ext.FileExt Ext.Json Ext.JsonProofs Ext.Xml Ext.XmlProofs Ext.M3u8 Ext.Post.

Lemma in_tag_hops u h l : In (u, h) (tag_hops h l) <-> In u l.
Proof.
  unfold tag_hops. rewrite in_map_iff. split.
  - intros [x [[= ->] Hx]]. assumption.
  - intros H. exists u. tauto.
Qed.

Lemma tag_hops_hops u h h' l : In (u, h') (tag_hops h l) -> h' = h.
Proof. unfold tag_hops. rewrite in_map_iff. intros [x [[= _ ->] _]]. reflexivity. Qed.

Lemma not_self_true i u : not_self i u = true <-> u <> p_self i.
Proof.
  unfold not_self. destruct (bytes_eqb_spec u (p_self i)); simpl; split; congruence.
Qed.

(* the hop limit: an item at or beyond --max-hops queues no outlink at all, whatever the document *)
Theorem post_hop_guard_lemma i : (p_maxhops i <= p_hops i)%N -> post_outlinks i = [].
Proof.
  intros H. unfold post_outlinks. replace (p_hops i <? p_maxhops i)%N with false; [rewrite andb_false_r; reflexivity|].
  symmetry. apply N.ltb_ge. assumption.
Qed.

(* JSON and non-sitemap XML: URLs with a file extension become children at the item's hop count,
   the others become outlinks one hop further - exactly while the hop limit allows *)
Theorem post_split_lemma i u :
  p_body i = true -> u <> p_self i ->
  match p_doc i with
  | PJson v valid =>
      (In u (json_assets (tv valid) v) <-> In (u, p_hops i) (post_children i))
      /\ ((p_hops i < p_maxhops i)%N -> (In u (json_outlinks (tv valid) v) <-> In (u, p_hops i + 1)%N (post_outlinks i)))
  | PXml d =>
      if is_sitemap d
      then post_children i = []
           /\ ((p_hops i < p_maxhops i)%N -> In u (xml_urls d) -> In (u, p_hops i + 1)%N (post_outlinks i))
      else (In u (xml_assets d) <-> In (u, p_hops i) (post_children i))
           /\ ((p_hops i < p_maxhops i)%N -> (In u (xml_outlinks d) <-> In (u, p_hops i + 1)%N (post_outlinks i)))
  | PM3u8 p =>
      (In u (m3u8_uris p) <-> In (u, p_hops i) (post_children i)) /\ post_outlinks i = []
  end.
Proof.
  intros Hb Hu. apply not_self_true in Hu. unfold post_children, post_outlinks. rewrite Hb. simpl.
  destruct (p_doc i) as [v valid|d|p].
  - split.
    + rewrite in_tag_hops, filter_In. tauto.
    + intros Hh. apply N.ltb_lt in Hh. rewrite Hh. rewrite in_tag_hops. tauto.
  - destruct (is_sitemap d).
    + split; [reflexivity|]. intros Hh Hx. apply N.ltb_lt in Hh. rewrite Hh. apply in_tag_hops.
      apply in_or_app. left. apply (xml_split d u). assumption.
    + split.
      * rewrite in_tag_hops, filter_In. tauto.
      * intros Hh. apply N.ltb_lt in Hh. rewrite Hh. rewrite in_tag_hops. tauto.
  - split.
    + rewrite in_tag_hops, filter_In. tauto.
    + destruct (p_hops i <? p_maxhops i)%N; reflexivity.
Qed.

(* every child carries the item's hop count, every outlink one more *)
Theorem post_hops_lemma i u h :
  (In (u, h) (post_children i) -> h = p_hops i) /\ (In (u, h) (post_outlinks i) -> h = (p_hops i + 1)%N).
Proof.
  unfold post_children, post_outlinks. split.
  - destruct (p_body i); [apply tag_hops_hops|intros []].
  - destruct (p_body i && (p_hops i <? p_maxhops i)%N); [apply tag_hops_hops|intros []].
Qed.

(* non-vacuity *)
Example post_nonvacuous :
  let i := PIn (PJson ex_doc [ex_u1; ex_u2]) 1 2 true (bs "https://doc.example/data.json") [] in
  post_children i = [(ex_u1, 1%N)] /\ post_outlinks i = [(ex_u2, 2%N)]
  /\ post_outlinks (PIn (PJson ex_doc [ex_u1; ex_u2]) 2 2 true (bs "https://doc.example/data.json") []) = [].
Proof. vm_compute. repeat split; reflexivity. Qed.
