(* C19 - proofs about Ext/Xml.v *)
From Coq Require Import Lia.
From ZenoV Require Import Ext.FileExt Ext.FileExtProofs Ext.Xml.

Section XInd.
Variable P : xnode -> Prop.
Hypothesis Helem : forall nm attrs kids, Forall P kids -> P (XElem nm attrs kids).
Hypothesis Htext : forall t f, P (XText t f).
Hypothesis Hcdata : forall t f, P (XCData t f).
Hypothesis Hcomment : forall t, P (XComment t).
Hypothesis Hpi : forall a b, P (XPI a b).
Hypothesis Hdir : forall t, P (XDirective t).
Fixpoint xnode_ind' (n : xnode) : P n :=
  match n with
  | XElem nm attrs kids =>
      Helem nm attrs kids ((fix go (l : list xnode) : Forall P l :=
                              match l with [] => Forall_nil _ | x :: r => Forall_cons _ (xnode_ind' x) (go r) end) kids)
  | XText t f => Htext t f
  | XCData t f => Hcdata t f
  | XComment t => Hcomment t
  | XPI a b => Hpi a b
  | XDirective t => Hdir t
  end.
End XInd.

(* what one node contributes by itself *)
Definition chardata_yields (trim : bytes -> bytes) (t : bytes) (f : list bytes) (u : bytes) : Prop :=
  if prefixb http4 t then u = trim t else In u f.

Definition node_yields (trim : bytes -> bytes) (n : xnode) (u : bytes) : Prop :=
  match n with
  | XElem _ attrs _ => exists k, In (k, u) attrs /\ prefixb http4 u = true
  | XText t f => chardata_yields trim t f u
  | XCData t f => chardata_yields trim t f u
  | _ => False
  end.

Section X.
Variable trim : bytes -> bytes.

Lemma chardata_urls_iff t f u : In u (chardata_urls trim t f) <-> chardata_yields trim t f u.
Proof.
  unfold chardata_urls, chardata_yields. destruct (prefixb http4 t); simpl; [|tauto].
  split; [intros [H|[]]; congruence|intros ->; left; reflexivity].
Qed.

Lemma attrs_iff (attrs : list (bytes * bytes)) u :
  In u (filter (prefixb http4) (map snd attrs)) <-> exists k, In (k, u) attrs /\ prefixb http4 u = true.
Proof.
  rewrite filter_In, in_map_iff. split.
  - intros [[[k v] [Hs Hin]] Hp]. simpl in Hs. subst v. exists k. tauto.
  - intros [k [Hin Hp]]. split; [|assumption]. exists (k, u). tauto.
Qed.

Lemma node_urls_iff n u :
  In u (node_urls trim n) <-> exists m, In m (subnodes n) /\ node_yields trim m u.
Proof.
  induction n as [nm attrs kids IH| t f | t f | t | a b | t] using xnode_ind'.
  - cbn [node_urls subnodes]. rewrite in_app_iff, attrs_iff, in_flat_map. split.
    + intros [H|[x [Hx Hu]]].
      * exists (XElem nm attrs kids). split; [left; reflexivity|exact H].
      * rewrite Forall_forall in IH. apply (IH x Hx) in Hu. destruct Hu as [m [Hm Hy]].
        exists m. split; [|assumption]. right. apply in_flat_map. exists x. tauto.
    + intros [m [[<-|Hm] Hy]].
      * left. exact Hy.
      * right. apply in_flat_map in Hm. destruct Hm as [x [Hx Hm]]. exists x. split; [assumption|].
        rewrite Forall_forall in IH. apply (IH x Hx). exists m. tauto.
  - cbn [node_urls subnodes]. rewrite chardata_urls_iff. split.
    + intros H. eexists. split; [left; reflexivity|exact H].
    + intros [m [[<-|[]] Hy]]. exact Hy.
  - cbn [node_urls subnodes]. rewrite chardata_urls_iff. split.
    + intros H. eexists. split; [left; reflexivity|exact H].
    + intros [m [[<-|[]] Hy]]. exact Hy.
  - simpl. split; [tauto|]. intros [m [[<-|[]] Hy]]. exact Hy.
  - simpl. split; [tauto|]. intros [m [[<-|[]] Hy]]. exact Hy.
  - simpl. split; [tauto|]. intros [m [[<-|[]] Hy]]. exact Hy.
Qed.

(* soundness and completeness of the RawToken walk in one statement: the URLs returned are
   exactly what the attribute and character-data nodes of the document yield, at any depth *)
Theorem doc_urls_iff doc u :
  In u (doc_urls trim doc) <-> exists n, In n (doc_nodes doc) /\ node_yields trim n u.
Proof.
  unfold doc_urls, doc_nodes. rewrite in_flat_map. split.
  - intros [x [Hx Hu]]. apply node_urls_iff in Hu. destruct Hu as [m [Hm Hy]].
    exists m. split; [|assumption]. apply in_flat_map. exists x. tauto.
  - intros [m [Hm Hy]]. apply in_flat_map in Hm. destruct Hm as [x [Hx Hm]].
    exists x. split; [assumption|]. apply node_urls_iff. exists m. tauto.
Qed.
End X.

(* the lemmas about strings.TrimSpace ([trim_space_url_lemma], ...) are in Ext/FileExtProofs.v *)

(* ---- xml_all_found ----------------------------------------------------------------- *)
(* every attribute value that starts with "http", every character-data node that starts with
   "http" (trimmed), and every URL xurls finds in other character data is returned, whatever the
   depth of the node; assets are exactly those with a file extension *)
Theorem xml_all_found_lemma doc n :
  In n (doc_nodes doc) ->
  match n with
  | XElem _ attrs _ => forall k v, In (k, v) attrs -> prefixb http4 v = true -> In v (xml_urls doc)
  | XText t f | XCData t f =>
      (prefixb http4 t = true -> In (trim_space t) (xml_urls doc))
      /\ (prefixb http4 t = false -> forall u, In u f -> In u (xml_urls doc))
  | _ => True
  end.
Proof.
  intros Hn. destruct n as [nm attrs kids| t f | t f | t | a b | t]; try exact I.
  - intros k v Hin Hp. apply doc_urls_iff. exists (XElem nm attrs kids). split; [assumption|].
    exists k. tauto.
  - split.
    + intros Hp. apply doc_urls_iff. exists (XText t f). split; [assumption|].
      simpl. unfold chardata_yields. rewrite Hp. reflexivity.
    + intros Hp u Hu. apply doc_urls_iff. exists (XText t f). split; [assumption|].
      simpl. unfold chardata_yields. rewrite Hp. assumption.
  - split.
    + intros Hp. apply doc_urls_iff. exists (XCData t f). split; [assumption|].
      simpl. unfold chardata_yields. rewrite Hp. reflexivity.
    + intros Hp u Hu. apply doc_urls_iff. exists (XCData t f). split; [assumption|].
      simpl. unfold chardata_yields. rewrite Hp. assumption.
Qed.

Theorem xml_only_found_lemma doc u :
  In u (xml_urls doc) -> exists n, In n (doc_nodes doc) /\ node_yields trim_space n u.
Proof. apply doc_urls_iff. Qed.

Theorem xml_split doc u :
  (In u (xml_assets doc) <-> In u (xml_urls doc) /\ has_file_ext u = true)
  /\ (In u (xml_outlinks doc) <-> In u (xml_urls doc) /\ has_file_ext u = false)
  /\ (In u (sitemap_outlinks doc) <-> In u (xml_urls doc)).
Proof.
  unfold sitemap_outlinks, xml_assets, xml_outlinks. rewrite in_app_iff, !filter_In.
  split; [tauto|]. split.
  - destruct (has_file_ext u); simpl; intuition congruence.
  - destruct (has_file_ext u); simpl; intuition congruence.
Qed.

(* ---- sitemap detection ------------------------------------------------------------- *)
Definition node_marks (n : xnode) : bool :=
  match n with
  | XElem _ attrs _ => existsb (fun kv => containsb sitemap_marker (snd kv)) attrs
  | XText t _ => containsb sitemap_marker t
  | XCData t _ => containsb sitemap_marker t
  | XComment t => containsb sitemap_marker t
  | XPI _ inst => containsb sitemap_marker inst
  | XDirective t => containsb sitemap_marker t
  end.

Lemma node_sitemap_iff n :
  node_sitemap n = true <-> exists m, In m (subnodes n) /\ node_marks m = true.
Proof.
  induction n as [nm attrs kids IH| t f | t f | t | a b | t] using xnode_ind';
    try (simpl; split; [intros H; eexists; split; [left; reflexivity|exact H]|intros [m [[<-|[]] H]]; exact H]).
  cbn [node_sitemap subnodes]. rewrite orb_true_iff. split.
  - intros [H|H].
    + exists (XElem nm attrs kids). split; [left; reflexivity|exact H].
    + apply existsb_exists in H. destruct H as [x [Hx Hs]].
      rewrite Forall_forall in IH. apply (IH x Hx) in Hs. destruct Hs as [m [Hm Hk]].
      exists m. split; [|assumption]. right. apply in_flat_map. exists x. tauto.
  - intros [m [[<-|Hm] Hk]].
    + left. exact Hk.
    + right. apply in_flat_map in Hm. destruct Hm as [x [Hx Hm]]. apply existsb_exists.
      exists x. split; [assumption|].
      rewrite Forall_forall in IH. apply (IH x Hx). exists m. tauto.
Qed.

(* a document is taken for a sitemap exactly when one of its nodes, at any depth, mentions the
   sitemap namespace: in an attribute value (the usual xmlns declaration), in character data, a
   comment, a processing instruction or a directive *)
Theorem sitemap_detected_lemma doc :
  is_sitemap doc = true <-> exists n, In n (doc_nodes doc) /\ node_marks n = true.
Proof.
  unfold is_sitemap, doc_nodes. rewrite existsb_exists. split.
  - intros [x [Hx Hs]]. apply node_sitemap_iff in Hs. destruct Hs as [m [Hm Hk]].
    exists m. split; [|assumption]. apply in_flat_map. exists x. tauto.
  - intros [m [Hm Hk]]. apply in_flat_map in Hm. destruct Hm as [x [Hx Hm]].
    exists x. split; [assumption|]. apply node_sitemap_iff. exists m. tauto.
Qed.

(* ---- witnesses -------------------------------------------------------------------- *)
Definition nl2 : bytes := [ascii_of_N 10; " "%char; " "%char].
Definition ex_loc := bs "https://b.example/page1".
Definition ex_img := bs "https://b.example/i/pic.jpg".
Definition ex_ns := bs "http://www.sitemaps.org/schemas/sitemap/0.9".
(* <urlset xmlns="..."><url><loc>https://b.example/page1\n  </loc><image src="https://b.example/i/pic.jpg"/></url></urlset> *)
Definition ex_sitemap : list xnode :=
  [XPI (bs "xml") (bs "version=""1.0"" encoding=""UTF-8""");
   XElem (bs "urlset") [(bs "xmlns", ex_ns)]
     [XElem (bs "url") []
        [XElem (bs "loc") [] [XText (ex_loc ++ nl2) []];
         XElem (bs "image") [(bs "src", ex_img)] []]]].

Example xml_all_found_nonvacuous :
  In (XText (ex_loc ++ nl2) []) (doc_nodes ex_sitemap)
  /\ prefixb http4 (ex_loc ++ nl2) = true
  /\ trim_space (ex_loc ++ nl2) = ex_loc
  /\ xml_extract (Some ex_sitemap) = (false, [ex_ns; ex_img], [ex_loc])
  /\ is_sitemap ex_sitemap = true.
Proof. split; [vm_compute; do 4 right; left; reflexivity|vm_compute; repeat split; reflexivity]. Qed.

(* DESIGN.md section 7 row 19: the code as found returns the text node with its trailing
   line break and indentation, so the URL itself is not among the results *)
Lemma xml_trailing_ws_refuted :
  exists doc t, In (XText t []) (doc_nodes doc) /\ prefixb http4 t = true /\
                ~ In (trim_space t) (xml_urls_orig doc) /\ In t (xml_urls_orig doc).
Proof.
  exists ex_sitemap, (ex_loc ++ nl2). vm_compute. repeat split; try tauto.
  intros [H|[H|[H|H]]]; try discriminate; tauto.
Qed.
