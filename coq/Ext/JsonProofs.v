(* C19 - proofs about Ext/Json.v *)
From Coq Require Import Lia.
From ZenoV Require Import Ext.FileExt Ext.FileExtProofs Ext.Json.

(* induction principle for the nested type *)
Section JInd.
Variable P : jv -> Prop.
Hypothesis Hnull : P JNull.
Hypothesis Hbool : forall b, P (JBool b).
Hypothesis Hnum : P JNum.
Hypothesis Hstr0 : forall s, P (JStr s None).
Hypothesis Hstr1 : forall s e, P e -> P (JStr s (Some e)).
Hypothesis Harr : forall l, Forall P l -> P (JArr l).
Hypothesis Hobj : forall l, Forall (fun kv => P (snd kv)) l -> P (JObj l).

Fixpoint jv_ind' (v : jv) : P v :=
  match v with
  | JNull => Hnull
  | JBool b => Hbool b
  | JNum => Hnum
  | JStr s None => Hstr0 s
  | JStr s (Some e) => Hstr1 s e (jv_ind' e)
  | JArr l => Harr l ((fix go (l : list jv) : Forall P l :=
                         match l with [] => Forall_nil _ | x :: r => Forall_cons _ (jv_ind' x) (go r) end) l)
  | JObj l => Hobj l ((fix go (l : list (bytes * jv)) : Forall (fun kv => P (snd kv)) l :=
                         match l with [] => Forall_nil _ | x :: r => Forall_cons _ (jv_ind' (snd x)) (go r) end) l)
  end.
End JInd.

Section J.
Variable valid : bytes -> bool.

(* [visits v w]: findURLs, started on v, is called on w.  It descends through every array element
   and every object member at any depth, and into the value embedded in a string exactly when that
   string is not itself a valid URL and passes isLikelyJSON. *)
Inductive visits : jv -> jv -> Prop :=
| vis_here v : visits v v
| vis_arr l x w : In x l -> visits x w -> visits (JArr l) w
| vis_obj l k x w : In (k, x) l -> visits x w -> visits (JObj l) w
| vis_emb s e w : valid s = false -> is_likely_json s = true -> visits e w -> visits (JStr s (Some e)) w.

Lemma visits_str_inv s emb w :
  visits (JStr s emb) w ->
  w = JStr s emb \/ (exists e, emb = Some e /\ valid s = false /\ is_likely_json s = true /\ visits e w).
Proof.
  intros H. inversion H; subst.
  - left. reflexivity.
  - right. eexists. repeat split; eassumption.
Qed.

(* soundness and completeness of findURLs in one statement *)
Theorem find_urls_iff v u :
  In u (find_urls valid v) <-> (valid u = true /\ exists emb, visits v (JStr u emb)).
Proof.
  revert u. induction v as [| b | | s | s e IHe | l IHl | l IHl] using jv_ind'; intros u; simpl.
  - split; [tauto|]. intros [_ [emb H]]. inversion H.
  - split; [tauto|]. intros [_ [emb H]]. inversion H.
  - split; [tauto|]. intros [_ [emb H]]. inversion H.
  - destruct (valid s) eqn:Hv.
    + simpl. split.
      * intros [<-|[]]. split; [assumption|]. exists None. constructor.
      * intros [Hu [emb H]]. apply visits_str_inv in H. destruct H as [H|[e [He _]]]; [|discriminate].
        injection H as <- _. left. reflexivity.
    + split.
      * destruct (is_likely_json s); simpl; tauto.
      * intros [Hu [emb H]]. apply visits_str_inv in H. destruct H as [H|[e [He _]]]; [|discriminate].
        injection H as <- _. congruence.
  - destruct (valid s) eqn:Hv.
    + simpl. split.
      * intros [<-|[]]. split; [assumption|]. exists (Some e). constructor.
      * intros [Hu [emb H]]. apply visits_str_inv in H. destruct H as [H|[e' [He [Hv' _]]]]; [|congruence].
        injection H as <- _. left. reflexivity.
    + destruct (is_likely_json s) eqn:Hl.
      * rewrite IHe. split.
        -- intros [Hu [emb H]]. split; [assumption|]. exists emb. apply vis_emb; assumption.
        -- intros [Hu [emb H]]. split; [assumption|]. apply visits_str_inv in H.
           destruct H as [H|[e' [He [_ [_ H]]]]].
           ++ injection H as <- _. congruence.
           ++ injection He as <-. exists emb. assumption.
      * split; [simpl; tauto|]. intros [Hu [emb H]]. apply visits_str_inv in H.
        destruct H as [H|[e' [_ [_ [Hl' _]]]]]; [|congruence].
        injection H as <- _. congruence.
  - rewrite in_flat_map. split.
    + intros [x [Hx Hu]]. rewrite Forall_forall in IHl. apply (IHl x Hx) in Hu.
      destruct Hu as [Hu [emb H]]. split; [assumption|]. exists emb. eapply vis_arr; eassumption.
    + intros [Hu [emb H]]. inversion H; subst.
      exists x. split; [assumption|]. rewrite Forall_forall in IHl. apply (IHl x); [assumption|].
      split; [assumption|]. exists emb. assumption.
  - rewrite in_flat_map. split.
    + intros [[k x] [Hx Hu]]. rewrite Forall_forall in IHl. apply (IHl (k, x) Hx) in Hu.
      destruct Hu as [Hu [emb H]]. split; [assumption|]. exists emb. eapply vis_obj; eassumption.
    + intros [Hu [emb H]]. inversion H; subst.
      exists (k, x). split; [assumption|]. rewrite Forall_forall in IHl. apply (IHl (k, x)); [assumption|].
      split; [assumption|]. exists emb. assumption.
Qed.

(* the asset / outlink split is exactly hasFileExtension, nothing is lost or duplicated by it *)
Theorem json_split v u :
  (In u (json_assets valid v) <-> In u (find_urls valid v) /\ has_file_ext u = true)
  /\ (In u (json_outlinks valid v) <-> In u (find_urls valid v) /\ has_file_ext u = false)
  /\ List.length (json_assets valid v) + List.length (json_outlinks valid v) = List.length (find_urls valid v).
Proof.
  unfold json_assets, json_outlinks. rewrite !filter_In. split; [tauto|]. split.
  - destruct (has_file_ext u); simpl; intuition congruence.
  - induction (find_urls valid v) as [|x r IH]; simpl; [reflexivity|].
    destruct (has_file_ext x); simpl; lia.
Qed.

(* json_all_found: a string value [u] that findURLs reaches and that fasturl accepts is returned,
   as an asset exactly when it has a file extension, as an outlink otherwise *)
Theorem json_all_found_lemma v u emb :
  visits v (JStr u emb) -> valid u = true ->
  (has_file_ext u = true -> In u (json_assets valid v))
  /\ (has_file_ext u = false -> In u (json_outlinks valid v)).
Proof.
  intros Hvis Hu.
  assert (Hin : In u (find_urls valid v)) by (apply find_urls_iff; split; [assumption|exists emb; assumption]).
  destruct (json_split v u) as [Ha [Ho _]]. split; intros He; [apply Ha|apply Ho]; tauto.
Qed.

Theorem json_only_found_lemma v u :
  In u (json_assets valid v) \/ In u (json_outlinks valid v) ->
  valid u = true /\ exists emb, visits v (JStr u emb).
Proof.
  destruct (json_split v u) as [Ha [Ho _]].
  intros [H|H]; [apply Ha in H|apply Ho in H]; apply find_urls_iff; tauto.
Qed.

(* a rejected document yields nothing *)
Lemma json_extract_error : json_extract valid None = (true, [], []).
Proof. reflexivity. Qed.
End J.

(* ---- witnesses -------------------------------------------------------------------- *)

(* non-vacuity: URLs at depth 3, in an array inside an object inside embedded JSON *)
Definition ex_u1 := bs "https://a.example/x/pic.png".
Definition ex_u2 := bs "https://b.example/page".
Definition ex_carrier := bs "{""k"":[""https://b.example/page""]}".
Definition ex_doc : jv :=
  JObj [(bs "a", JArr [JNum; JObj [(bs "deep", JStr ex_u1 None)]]);
        (bs "b", JStr ex_carrier (Some (JObj [(bs "k", JArr [JStr ex_u2 None])])))].

Example json_all_found_nonvacuous :
  visits (tv [ex_u1; ex_u2]) ex_doc (JStr ex_u1 None)
  /\ visits (tv [ex_u1; ex_u2]) ex_doc (JStr ex_u2 None)
  /\ json_extract (tv [ex_u1; ex_u2]) (Some ex_doc) = (false, [ex_u1], [ex_u2]).
Proof.
  split; [|split].
  - eapply vis_obj; [left; reflexivity|]. eapply vis_arr; [right; left; reflexivity|].
    eapply vis_obj; [left; reflexivity|]. constructor.
  - eapply vis_obj; [right; left; reflexivity|]. apply vis_emb; [reflexivity|reflexivity|].
    eapply vis_obj; [left; reflexivity|]. eapply vis_arr; [left; reflexivity|]. constructor.
  - vm_compute. reflexivity.
Qed.

(* DESIGN.md section 7 row 20 (fixed by fixes/C19-json-embedded-ws.diff): embedded JSON surrounded by
   white space parses (json.Unmarshal skips the white space); the code as found did not look into it,
   because isLikelyJSON tested the first and last byte of the untrimmed string; the fixed code does *)
Lemma json_embedded_ws_refuted :
  exists s e u, is_likely_json_orig s = false /\ In u (all_strings (JStr s (Some e))) /\
                ~ In u (find_urls_orig (tv [u]) (JStr s (Some e))) /\
                In u (find_urls (tv [u]) (JStr s (Some e))).
Proof.
  exists (bs " [""https://b.example/page""] "), (JArr [JStr ex_u2 None]), ex_u2.
  split; [reflexivity|]. split; [right; left; reflexivity|]. vm_compute. split; [tauto|left; reflexivity].
Qed.

(* isLikelyJSON does not see ASCII white space around the text *)
Theorem likely_json_padded_lemma c0 mid c1 ws1 ws2 :
  plain_byte c0 = true -> plain_byte c1 = true ->
  forallb ascii_ws ws1 = true -> forallb ascii_ws ws2 = true ->
  is_likely_json (ws1 ++ c0 :: mid ++ c1 :: ws2) = is_likely_json_orig (c0 :: mid ++ [c1]).
Proof.
  intros. unfold is_likely_json. rewrite trim_space_padded_lemma by assumption. reflexivity.
Qed.

Example likely_json_padded_nonvacuous :
  is_likely_json ([" "%char; ascii_of_N 10] ++ bs "{""u"":""https://b.example/x.css""}" ++ [ascii_of_N 9]) = true
  /\ is_likely_json_orig ([" "%char; ascii_of_N 10] ++ bs "{""u"":""https://b.example/x.css""}" ++ [ascii_of_N 9]) = false.
Proof. vm_compute. split; reflexivity. Qed.
