(* C19 - model of internal/pkg/postprocessor/extractor/m3u8.go (M3U8) on the playlist structure
   that github.com/grafov/m3u8 (v0.12.1, DecodeFrom in strict mode) delivers.  The parser is an
   oracle; what the model takes from it:
   - a media playlist is the list of its segment URIs (one per #EXTINF + URI line pair);
   - a master playlist is the list of its #EXT-X-MEDIA (alternative rendition), #EXT-X-STREAM-INF
     (variant) and #EXT-X-I-FRAME-STREAM-INF lines in document order.  The parser attaches a
     rendition to every variant that names its GROUP-ID in the attribute matching its TYPE
     (AUDIO / VIDEO / SUBTITLES / CLOSED-CAPTIONS) - it does so after every line, so duplicates are
     produced and only the SET of URIs is meaningful - and an I-FRAME line takes over all renditions
     read since the previous I-FRAME line.
   Executable definitions only; proofs are in M3u8Proofs.v. *)
From ZenoV Require Export Ext.FileExt.

Inductive mtype := MAudio | MVideo | MSubs | MCaptions | MOther.
Record alt := Alt { a_type : mtype; a_group : bytes; a_uri : bytes }.
Record variant := Var { v_uri : bytes; v_audio : bytes; v_video : bytes; v_subs : bytes; v_cc : bytes }.
Inductive mline := LAlt (a : alt) | LVar (v : variant) | LIFrame (v : variant).
Inductive playlist := PMedia (segs : list bytes) | PMaster (lines : list mline).

Definition nonempty (s : bytes) : bool := match s with [] => false | _ => true end.

(* attachRenditionsToVariants: variant.X != "" && alt.Type == "X" && variant.X == alt.GroupId *)
Definition refers (v : variant) (a : alt) : bool :=
  match a_type a with
  | MAudio => nonempty (v_audio v) && bytes_eqb (v_audio v) (a_group a)
  | MVideo => nonempty (v_video v) && bytes_eqb (v_video v) (a_group a)
  | MSubs => nonempty (v_subs v) && bytes_eqb (v_subs v) (a_group a)
  | MCaptions => nonempty (v_cc v) && bytes_eqb (v_cc v) (a_group a)
  | MOther => false
  end.

Definition line_variant (l : mline) : list variant :=
  match l with LVar v => [v] | LIFrame v => [v] | LAlt _ => [] end.
Definition variants (ls : list mline) : list variant := flat_map line_variant ls.
Definition is_iframe (l : mline) : bool := match l with LIFrame _ => true | _ => false end.

(* the renditions that end up in some variant's Alternatives *)
Fixpoint attached (vars : list variant) (ls : list mline) : list alt :=
  match ls with
  | [] => []
  | LAlt a :: r => (if existsb is_iframe r || existsb (fun v => refers v a) vars then [a] else []) ++ attached vars r
  | _ :: r => attached vars r
  end.

(* M3U8(): segment.URI != "" / variant.URI != "" / alt.URI != "" *)
Definition m3u8_uris (p : playlist) : list bytes :=
  match p with
  | PMedia segs => filter nonempty segs
  | PMaster ls => filter nonempty (map v_uri (variants ls)) ++ filter nonempty (map a_uri (attached (variants ls) ls))
  end.

(* extractor.M3U8 on a body: [None] = the decoder returns an error (nothing returned) *)
Definition m3u8_extract (p : option playlist) : bool * list bytes :=
  match p with None => (true, []) | Some pl => (false, m3u8_uris pl) end.
