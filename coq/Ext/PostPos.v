(* C19 - where the structured document sits in its seed's item tree.

   postprocessItem (item.go) does not extract anything from an item that is "too deep":
       if !domainscrawl.Enabled() && item.GetDepthWithoutRedirections() > 2 { Completed; return }
       else if !domainscrawl.Enabled() && item.GetDepthWithoutRedirections() == 1 && MIME type contains "html" { Completed; return }
   The depth that decides is the one of pkg/models/item.go that does NOT count redirection edges: a
   document reached as  seed -301-> -301-> master playlist -> variant playlist  is an asset (depth 1), not
   a node of depth 3, and its segments have to be extracted.

   The tree is the shared tree model Tree/Item.v (imported, not re-stated): a position is the list of
   edges from the seed down to the document, [path_tree] is the item tree with exactly that path (what
   AddChild(child, ItemGotRedirected) / AddChild(child, ItemGotChildren) build: the parent of a
   redirection edge is GotRedirected, the parent of an asset edge is GotChildren, the document itself is
   Archived), and the depth of the document is read off Tree/Item.v's [dwr_all] (= the real
   GetDepthWithoutRedirections of every node, encoded + 1).
   Executable definitions only; proofs are in PostPosProofs.v. *)
From ZenoV Require Import Tree.Item.
From ZenoV Require Export Ext.Post.

Inductive edge := ERedir | EChild.
Definition pos := list edge.      (* seed first; [] = the document is the seed itself *)

Definition edge_status (e : edge) : status :=
  match e with ERedir => GotRedirected | EChild => GotChildren end.

(* node k of the path has id k; the document is the last node, id = first id + length of the position *)
Fixpoint path_tree (k : nat) (p : pos) : item :=
  match p with
  | [] => Node (Info (N.of_nat k) 0 Archived false 0 0) []
  | e :: r => Node (Info (N.of_nat k) 0 (edge_status e) false 0 0) [path_tree (S k) r]
  end.

(* GetDepthWithoutRedirections of the document + 1 (Tree/Item.v's encoding), None never happens *)
Definition doc_dwr (p : pos) : option nat :=
  assoc (N.of_nat (List.length p)) (dwr_all (path_tree 0 p)).

(* GetDepth of the document: every edge counts *)
Definition doc_depth (p : pos) : nat := List.length p.

Definition is_child (e : edge) : bool := match e with EChild => true | ERedir => false end.
(* the number of asset edges on the way: 0 = the page itself (possibly after redirections),
   1 = an asset of the page, 2 = an asset of an asset *)
Definition nchild (p : pos) : nat := List.length (filter is_child p).

(* the two early returns of postprocessItem quoted above; [html] = the sniffed MIME type contains "html" *)
Definition cut_off (p : pos) (html : bool) : bool :=
  match doc_dwr p with
  | Some d => Nat.ltb 3 d || (Nat.eqb d 2 && html)
  | None => true
  end.

Definition post_children_at (p : pos) (html : bool) (i : pin) : list (bytes * N) :=
  if cut_off p html then [] else post_children i.
Definition post_outlinks_at (p : pos) (html : bool) (i : pin) : list (bytes * N) :=
  if cut_off p html then [] else post_outlinks i.

(* what the extractor of the document's kind yields (the sets the theorems of Json / Xml / M3u8 speak about) *)
Definition doc_assets (i : pin) : list bytes :=
  match p_doc i with
  | PM3u8 p => m3u8_uris p
  | PJson v valid => json_assets (tv valid) v
  | PXml d => if is_sitemap d then [] else xml_assets d
  end.
Definition doc_outlinks (i : pin) : list bytes :=
  match p_doc i with
  | PM3u8 _ => []
  | PJson v valid => json_outlinks (tv valid) v
  | PXml d => if is_sitemap d then sitemap_outlinks d ++ p_textlinks i else xml_outlinks d
  end.
