(* C19 - proofs about Ext/M3u8.v *)
From ZenoV Require Import Ext.FileExt Ext.M3u8.

Lemma nonempty_true s : nonempty s = true <-> s <> [].
Proof. destruct s; simpl; split; congruence. Qed.

Lemma in_variants ls v : In v (variants ls) <-> In (LVar v) ls \/ In (LIFrame v) ls.
Proof.
  unfold variants. rewrite in_flat_map. split.
  - intros [l [Hl Hv]]. destruct l as [a|w|w]; simpl in Hv; try tauto;
      destruct Hv as [<-|[]]; tauto.
  - intros [H|H]; eexists; (split; [exact H|left; reflexivity]).
Qed.

Lemma cons_app_split' {A} (x y : A) (r p t : list A) :
  x :: r = p ++ y :: t -> (p = [] /\ x = y /\ r = t) \/ (exists p', p = x :: p' /\ r = p' ++ y :: t).
Proof.
  destruct p as [|x' p]; simpl; intros H; inversion H; subst.
  - left. repeat split.
  - right. exists p. split; reflexivity.
Qed.

(* [LAlt a] occurs in [ls] and either an I-FRAME line follows it or a variant refers to it *)
Lemma attached_iff vars ls a :
  In a (attached vars ls) <->
  exists l1 l2, ls = l1 ++ LAlt a :: l2 /\ (existsb is_iframe l2 = true \/ existsb (fun v => refers v a) vars = true).
Proof.
  induction ls as [|l r IH]; simpl.
  - split; [tauto|]. intros [l1 [l2 [H _]]]. destruct l1; discriminate.
  - assert (Hskip : In a (attached vars r) <->
                    exists l1 l2, l :: r = (l :: l1) ++ LAlt a :: l2 /\
                                  (existsb is_iframe l2 = true \/ existsb (fun v => refers v a) vars = true)).
    { rewrite IH. split; intros [l1 [l2 [He Hc]]]; exists l1, l2; (split; [|assumption]).
      - simpl. congruence.
      - simpl in He. congruence. }
    destruct l as [b|w|w].
    + rewrite in_app_iff. split.
      * intros [H|H].
        -- destruct (existsb is_iframe r || existsb (fun v => refers v b) vars) eqn:E; [|destruct H].
           destruct H as [<-|[]]. exists [], r. split; [reflexivity|]. apply orb_true_iff. assumption.
        -- apply Hskip in H. destruct H as [l1 [l2 [He Hc]]]. exists (LAlt b :: l1), l2. tauto.
      * intros [l1 [l2 [He Hc]]]. apply cons_app_split' in He. destruct He as [[_ [Hx Hr]]|[l1' [_ Hr]]].
        -- left. injection Hx as <-. subst r. apply orb_true_iff in Hc. rewrite Hc. left. reflexivity.
        -- right. apply IH. exists l1', l2. tauto.
    + split.
      * intros H. apply Hskip in H. destruct H as [l1 [l2 [He Hc]]]. exists (LVar w :: l1), l2. tauto.
      * intros [l1 [l2 [He Hc]]]. apply cons_app_split' in He. destruct He as [[_ [Hx Hr]]|[l1' [_ Hr]]]; [discriminate|].
        apply IH. exists l1', l2. tauto.
    + split.
      * intros H. apply Hskip in H. destruct H as [l1 [l2 [He Hc]]]. exists (LIFrame w :: l1), l2. tauto.
      * intros [l1 [l2 [He Hc]]]. apply cons_app_split' in He. destruct He as [[_ [Hx Hr]]|[l1' [_ Hr]]]; [discriminate|].
        apply IH. exists l1', l2. tauto.
Qed.

(* m3u8_all_found: every non-empty segment URI of a media playlist; every non-empty variant and
   I-FRAME URI of a master playlist; every non-empty rendition URI whose group is named by some
   variant (or that is followed by an I-FRAME line) *)
Theorem m3u8_all_found_lemma :
  (forall segs u, In u segs -> u <> [] -> In u (m3u8_uris (PMedia segs)))
  /\ (forall ls v, (In (LVar v) ls \/ In (LIFrame v) ls) -> v_uri v <> [] -> In (v_uri v) (m3u8_uris (PMaster ls)))
  /\ (forall ls a, In (LAlt a) ls -> a_uri a <> [] ->
        (exists v, (In (LVar v) ls \/ In (LIFrame v) ls) /\ refers v a = true) ->
        In (a_uri a) (m3u8_uris (PMaster ls))).
Proof.
  split; [|split].
  - intros segs u Hin Hne. simpl. apply filter_In. split; [assumption|]. apply nonempty_true. assumption.
  - intros ls v Hv Hne. simpl. apply in_or_app. left. apply filter_In. split.
    + apply in_map. apply in_variants. assumption.
    + apply nonempty_true. assumption.
  - intros ls a Hin Hne [v [Hv Hr]]. simpl. apply in_or_app. right. apply filter_In. split.
    + apply in_map. apply attached_iff. apply in_split in Hin. destruct Hin as [l1 [l2 ->]].
      exists l1, l2. split; [reflexivity|]. right. apply existsb_exists. exists v. split; [|assumption].
      apply in_variants. assumption.
    + apply nonempty_true. assumption.
Qed.

(* nothing else is returned *)
Theorem m3u8_only_found_lemma :
  (forall segs u, In u (m3u8_uris (PMedia segs)) -> In u segs /\ u <> [])
  /\ (forall ls u, In u (m3u8_uris (PMaster ls)) ->
        u <> [] /\ ((exists v, (In (LVar v) ls \/ In (LIFrame v) ls) /\ v_uri v = u)
                    \/ (exists a, In (LAlt a) ls /\ a_uri a = u))).
Proof.
  split.
  - intros segs u H. simpl in H. apply filter_In in H. rewrite nonempty_true in H. assumption.
  - intros ls u H. simpl in H. apply in_app_or in H. destruct H as [H|H]; apply filter_In in H;
      rewrite nonempty_true in H; destruct H as [H Hne]; (split; [assumption|]); apply in_map_iff in H.
    + destruct H as [v [<- Hv]]. left. exists v. split; [apply in_variants; assumption|reflexivity].
    + destruct H as [a [<- Ha]]. right. exists a. split; [|reflexivity].
      apply attached_iff in Ha. destruct Ha as [l1 [l2 [-> _]]]. apply in_or_app. right. left. reflexivity.
Qed.

(* ---- witnesses -------------------------------------------------------------------- *)
Definition ex_alt := Alt MAudio (bs "aac") (bs "audio/en/prog.m3u8").
Definition ex_var := Var (bs "https://cdn.example/hi/prog.m3u8") (bs "aac") [] [] [].
Definition ex_master := [LVar ex_var; LAlt ex_alt].

Example m3u8_all_found_nonvacuous :
  In (LAlt ex_alt) ex_master /\ a_uri ex_alt <> [] /\ refers ex_var ex_alt = true
  /\ m3u8_extract (Some (PMaster ex_master)) = (false, [v_uri ex_var; a_uri ex_alt])
  /\ m3u8_extract (Some (PMedia [bs "seg0.ts"; []; bs "https://cdn.example/seg1.ts"]))
     = (false, [bs "seg0.ts"; bs "https://cdn.example/seg1.ts"]).
Proof. split; [right; left; reflexivity|]. split; [discriminate|]. vm_compute. repeat split; reflexivity. Qed.

(* a rendition whose group no variant names and that no I-FRAME line follows is dropped by the
   parser, so its URI is not returned: the guard of the third clause above cannot be removed *)
Lemma m3u8_unreferenced_alt_refuted :
  exists ls a, In (LAlt a) ls /\ a_uri a <> [] /\ ~ In (a_uri a) (m3u8_uris (PMaster ls)).
Proof.
  exists [LVar (Var (bs "v.m3u8") [] [] [] []); LAlt ex_alt], ex_alt.
  split; [right; left; reflexivity|]. split; [discriminate|]. vm_compute.
  intros [H|H]; [discriminate|tauto].
Qed.
