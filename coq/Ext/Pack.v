(* C19 - compact byte-string literals for the harness-written case files: a byte string is written as
   a list of 63-bit machine integers, each holding up to 7 bytes (bits 56..58: how many; the bytes
   big-endian in the low bits).  Type-checking such a literal costs one node per 7 bytes instead of
   about twenty per byte for [hx "..."].  Only used by generated case files (vm_compute). *)
From Coq Require Import Uint63.
From ZenoV Require Export Lib.Hex.

Local Open Scope uint63_scope.

Definition bit_of (c : int) (i : int) : bool := Uint63.eqb ((c >> i) land 1) 1.

Definition byte_at (c : int) (sh : int) : ascii :=
  let x := c >> sh in
  Ascii (bit_of x 0) (bit_of x 1) (bit_of x 2) (bit_of x 3) (bit_of x 4) (bit_of x 5) (bit_of x 6) (bit_of x 7).

Definition chunk_bytes (c : int) : bytes :=
  let n := c >> 56 in
  ((if 6 <? n then [byte_at c 48] else [])
   ++ (if 5 <? n then [byte_at c 40] else [])
   ++ (if 4 <? n then [byte_at c 32] else [])
   ++ (if 3 <? n then [byte_at c 24] else [])
   ++ (if 2 <? n then [byte_at c 16] else [])
   ++ (if 1 <? n then [byte_at c 8] else [])
   ++ (if 0 <? n then [byte_at c 0] else []))%list.

Definition pk (l : list int) : bytes := flat_map chunk_bytes l.

Example pk_ok : pk [(7 << 56) lor 29401441029536303; (1 << 56) lor 47] = bs "https://".
Proof. vm_compute. reflexivity. Qed.
