(* C19 - model of what post-processing does with a structured document that was fetched with status
   200 as a seed or outlink (depth 0, assets capture on, no domains crawl): postprocessItem (item.go)
   with the dispatch of extractAssets (assets.go) and extractOutlinks / shouldExtractOutlinks
   (outlinks.go), restricted to the document kinds of this property:
     M3U8 (Content-Type names an HLS playlist), JSON (Content-Type or sniffed type says json),
     XML (says xml) that is not a sitemap, XML that is a sitemap.
   Assets become children of the item at the item's hop count; outlinks are new items at hop count + 1
   and are produced only while the item's hop count is below --max-hops.
   Executable definitions only; proofs are in PostProofs.v. *)
From ZenoV Require Export Ext.FileExt Ext.Json Ext.Xml Ext.M3u8.

Inductive pdoc :=
| PJson (v : jv) (valid : list bytes)
| PXml (d : list xnode)
| PM3u8 (p : playlist).

Record pin := PIn {
  p_doc : pdoc;
  p_hops : N; p_maxhops : N;
  p_body : bool;               (* the archiver kept the body (sniffed type is textual) *)
  p_self : bytes;              (* the item's own URL: an asset equal to it is dropped *)
  p_textlinks : list bytes }.  (* Content-Type contains "text/": regex links of the whole body (oracle),
                                  appended to the outlinks of a sitemap *)

Definition not_self (i : pin) (u : bytes) : bool := negb (bytes_eqb u (p_self i)).

Definition tag_hops (h : N) (l : list bytes) : list (bytes * N) := map (fun u => (u, h)) l.

(* extractAssets + the loop that adds one child per asset *)
Definition post_children (i : pin) : list (bytes * N) :=
  if p_body i then
    tag_hops (p_hops i)
      (filter (not_self i)
         match p_doc i with
         | PM3u8 p => m3u8_uris p
         | PJson v valid => json_assets (tv valid) v
         | PXml d => if is_sitemap d then [] else xml_assets d
         end)
  else [].

(* shouldExtractOutlinks + extractOutlinks + the outlinks extractAssets found *)
Definition post_outlinks (i : pin) : list (bytes * N) :=
  if p_body i && (p_hops i <? p_maxhops i)%N then
    tag_hops (p_hops i + 1)
      match p_doc i with
      | PM3u8 _ => []
      | PJson v valid => json_outlinks (tv valid) v
      | PXml d => if is_sitemap d then sitemap_outlinks d ++ p_textlinks i else xml_outlinks d
      end
  else [].
