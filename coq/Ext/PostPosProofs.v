(* C19 - proofs about Ext/PostPos.v: the depth that decides the "too deep" cut-off of postprocessItem
   ignores redirection edges, for every shape of the path from the seed to the document; hence every link
   of a structured document at asset depth <= 2 is extracted wherever redirections sit on the way. *)
From Coq Require Import Lia.
From ZenoV Require Import Tree.Item.
From ZenoV Require Import Ext.FileExt Ext.Json Ext.Xml Ext.M3u8 Ext.Post Ext.PostProofs Ext.PostPos.

(* the value Tree/Item.v computes for the document when the first node of the path has value d *)
Definition head_val (p : pos) : nat := match p with ERedir :: _ => 0 | _ => 1 end.

Fixpoint doc_val (d : nat) (p : pos) : nat :=
  match p with
  | [] => d
  | _ :: r => doc_val (d + head_val r) r
  end.

Lemma st_of_path_tree k p :
  st_of (path_tree k p) = match p with [] => Archived | e :: _ => edge_status e end.
Proof. destruct p; reflexivity. Qed.

Lemma dwr_child_path d k p : dwr_child d (path_tree k p) = d + head_val p.
Proof.
  unfold dwr_child. rewrite st_of_path_tree. destruct p as [|[|] r]; simpl; lia.
Qed.

Lemma dwr_seed_path k p : dwr_seed (path_tree k p) = head_val p.
Proof.
  unfold dwr_seed. rewrite st_of_path_tree. destruct p as [|[|] r]; reflexivity.
Qed.

Lemma assoc_dwr_path p : forall k d,
  assoc (N.of_nat (k + List.length p)) (dwr_list d (path_tree k p)) = Some (doc_val d p).
Proof.
  induction p as [|e r IH]; intros k d.
  - cbn [path_tree dwr_list flat_map List.length nid assoc doc_val]. rewrite Nat.add_0_r, N.eqb_refl. reflexivity.
  - cbn [path_tree dwr_list flat_map List.length nid assoc doc_val]. rewrite app_nil_r.
    replace (N.eqb (N.of_nat (k + S (List.length r))) (N.of_nat k)) with false
      by (symmetry; apply N.eqb_neq; lia).
    rewrite dwr_child_path. replace (k + S (List.length r)) with (S k + List.length r) by lia. apply IH.
Qed.

Lemma doc_val_nchild p : forall c, doc_val (c + head_val p) p = c + S (nchild p).
Proof.
  unfold nchild. induction p as [|e r IH]; intros c.
  - simpl. lia.
  - cbn [doc_val]. rewrite IH. destruct e; simpl; lia.
Qed.

(* The depth used for the cut-off counts the asset edges only - for every path. *)
Theorem doc_dwr_counts_children_lemma : forall p, doc_dwr p = Some (S (nchild p)).
Proof.
  intros p. unfold doc_dwr, dwr_all. rewrite dwr_seed_path.
  change (List.length p) with (0 + List.length p). rewrite assoc_dwr_path.
  f_equal. apply (doc_val_nchild p 0).
Qed.

Lemma nchild_app p q : nchild (p ++ q) = nchild p + nchild q.
Proof. unfold nchild. rewrite filter_app, app_length. reflexivity. Qed.

(* ... so a redirection edge inserted anywhere on the way (before the page, between page and asset,
   between asset and asset of asset, directly in front of the document) changes nothing, while it does
   change the plain depth *)
Theorem doc_dwr_ignores_redirections_lemma : forall p q,
  doc_dwr (p ++ ERedir :: q) = doc_dwr (p ++ q) /\ doc_depth (p ++ ERedir :: q) = S (doc_depth (p ++ q)).
Proof.
  intros p q. rewrite !doc_dwr_counts_children_lemma, !nchild_app. unfold doc_depth. rewrite !app_length.
  split; [reflexivity|simpl; lia].
Qed.

Lemma cut_off_spec p html : cut_off p html = Nat.ltb 2 (nchild p) || (Nat.eqb (nchild p) 1 && html).
Proof. unfold cut_off. rewrite doc_dwr_counts_children_lemma. reflexivity. Qed.

(* the cut-off, for every tree shape: at asset depth <= 2 (an HTML-sniffed asset excepted) the document is
   post-processed exactly as a freshly archived seed; deeper, nothing is extracted *)
Theorem post_at_lemma : forall p html i,
  (nchild p <= 2 -> (nchild p = 1 -> html = false) ->
     post_children_at p html i = post_children i /\ post_outlinks_at p html i = post_outlinks i)
  /\ (2 < nchild p -> post_children_at p html i = [] /\ post_outlinks_at p html i = []).
Proof.
  intros p html i. unfold post_children_at, post_outlinks_at. rewrite cut_off_spec. split.
  - intros Hle Hh. replace (Nat.ltb 2 (nchild p)) with false by (symmetry; apply Nat.ltb_ge; lia).
    destruct (Nat.eqb_spec (nchild p) 1) as [E|E]; simpl.
    + rewrite (Hh E). split; reflexivity.
    + split; reflexivity.
  - intros Hgt. replace (Nat.ltb 2 (nchild p)) with true by (symmetry; apply Nat.ltb_lt; lia).
    split; reflexivity.
Qed.

(* the monitor's predicate: every link of a structured document at asset depth <= 2, counted without
   redirections, is extracted - assets as children at the item's hop count, the others as outlinks one hop
   further while the hop limit allows - for every position, whatever number of redirection edges *)
Theorem post_at_all_found_lemma : forall p html i u,
  nchild p <= 2 -> (nchild p = 1 -> html = false) -> p_body i = true -> u <> p_self i ->
  (In u (doc_assets i) -> In (u, p_hops i) (post_children_at p html i))
  /\ ((p_hops i < p_maxhops i)%N -> In u (doc_outlinks i) -> In (u, p_hops i + 1)%N (post_outlinks_at p html i)).
Proof.
  intros p html i u Hle Hh Hb Hu.
  destruct (post_at_lemma p html i) as [H _]. destruct (H Hle Hh) as [-> ->]. clear H.
  apply not_self_true in Hu. unfold doc_assets, doc_outlinks, post_children, post_outlinks. rewrite Hb. simpl. split.
  - intros Hin. apply in_tag_hops. apply filter_In. split; assumption.
  - intros Hh' Hin. apply N.ltb_lt in Hh'. rewrite Hh'. apply in_tag_hops. assumption.
Qed.

(* non-vacuity: seed -301-> -301-> master playlist -> (redirected) variant playlist: plain depth 4, asset
   depth 1, its segments are children; one asset level too many: nothing *)
Example post_at_nonvacuous :
  let i := PIn (PM3u8 (PMedia [bs "https://cdn.example/seg0.ts"; bs "https://cdn.example/seg1.ts"])) 0 0 true
               (bs "https://cdn.example/v.m3u8") [] in
  let p := [ERedir; ERedir; EChild; ERedir] in
  doc_depth p = 4 /\ doc_dwr p = Some 2 /\ nchild p = 1
  /\ post_children_at p false i = [(bs "https://cdn.example/seg0.ts", 0%N); (bs "https://cdn.example/seg1.ts", 0%N)]
  /\ post_children_at [EChild; EChild; EChild] false i = []
  /\ post_children_at [EChild] true i = [].
Proof. vm_compute. repeat split; reflexivity. Qed.
