(* C19 - proofs about Ext/S3.v: the walk that follows the links extractor.S3 returns reaches exactly
   the non-empty objects under the root prefix, for every bucket, page size >= 1, both API versions,
   every delimiter choice and EVERY order in which pending requests are fetched; and it ends within an
   explicit number of fetch decisions. *)
From Coq Require Import Lia Sorted.
From ZenoV Require Import Ext.FileExt Ext.FileExtProofs Ext.S3.

(* ===================================================================================== *)
(* Part A - the generic walk                                                             *)
(* ===================================================================================== *)
Lemma take_spec {A} n (x : A) q z r :
  take n x q = (z, r) ->
  (forall y, In y (x :: q) <-> y = z \/ In y r) /\ List.length r = List.length q.
Proof.
  revert x q z r. induction n as [|n IH]; intros x q z r H.
  - simpl in H. injection H as <- <-. split; [|reflexivity]. intros y. simpl. intuition.
  - destruct q as [|y0 q'].
    + simpl in H. injection H as <- <-. split; [|reflexivity]. intros y. simpl. intuition.
    + simpl in H. destruct (take n y0 q') as [z' r'] eqn:E. injection H as <- <-.
      destruct (IH _ _ _ _ E) as [Hin Hlen]. split.
      * intros y. specialize (Hin y). simpl in *. intuition.
      * simpl. congruence.
Qed.

Section WalkProofs.
Context {R O : Type}.
Variable reqb : R -> R -> bool.
Variable stepf : R -> list R * list O.
Hypothesis reqb_spec : forall a c, reqb a c = true <-> a = c.
Variable root : R.

Lemma walk_nil sched vis acc : walk reqb stepf sched vis [] acc = Done (rev vis) acc.
Proof. destruct sched; reflexivity. Qed.

Lemma existsb_reqb r vis : existsb (reqb r) vis = true <-> In r vis.
Proof.
  rewrite existsb_exists. split.
  - intros [x [Hx He]]. apply reqb_spec in He. congruence.
  - intros H. exists r. split; [assumption|]. apply reqb_spec. reflexivity.
Qed.

(* an invariant of requests: true of the root and preserved by following links *)
Variable Pinv : R -> Prop.
Hypothesis Pinv_step : forall r, Pinv r -> forall r', In r' (fst (stepf r)) -> Pinv r'.

Definition winv (vis q : list R) (acc : list O) : Prop :=
  (In root vis \/ In root q)
  /\ (forall r, In r vis -> forall r', In r' (fst (stepf r)) -> In r' vis \/ In r' q)
  /\ (forall o, In o acc <-> exists r, In r vis /\ In o (snd (stepf r)))
  /\ (forall r, In r vis \/ In r q -> Pinv r).

(* when the walk ends, the fetched requests contain the root and are closed under the links, and
   what was queued is exactly what their pages yield *)
Lemma walk_done_inv sched : forall vis q acc V A,
  winv vis q acc -> walk reqb stepf sched vis q acc = Done V A ->
  In root V
  /\ (forall r, In r V -> forall r', In r' (fst (stepf r)) -> In r' V)
  /\ (forall o, In o A <-> exists r, In r V /\ In o (snd (stepf r)))
  /\ (forall r, In r V -> Pinv r).
Proof.
  assert (Hfin : forall vis acc V A, winv vis [] acc -> Done (rev vis) acc = Done V A ->
            In root V /\ (forall r, In r V -> forall r', In r' (fst (stepf r)) -> In r' V)
            /\ (forall o, In o A <-> exists r, In r V /\ In o (snd (stepf r)))
            /\ (forall r, In r V -> Pinv r)).
  { intros vis acc V A [Hroot [Hcl [Hacc Hp]]] H. injection H as <- <-. repeat split.
    - apply -> in_rev. destruct Hroot as [H|[]]. assumption.
    - intros r Hr r' Hr'. apply -> in_rev. apply in_rev in Hr. destruct (Hcl r Hr r' Hr') as [H|[]]. assumption.
    - intros Ho. apply Hacc in Ho. destruct Ho as [r [Hr Ho]]. exists r. split; [apply -> in_rev; assumption|assumption].
    - intros [r [Hr Ho]]. apply Hacc. exists r. split; [apply in_rev; assumption|assumption].
    - intros r Hr. apply Hp. left. apply in_rev. assumption. }
  induction sched as [|n sched IH]; intros vis q acc V A Hinv H.
  - destruct q as [|x0 q0]; [|discriminate]. simpl in H. eapply Hfin; eassumption.
  - destruct q as [|x0 q0]; [simpl in H; eapply Hfin; eassumption|].
    cbn [walk] in H. destruct (take n x0 q0) as [r q'] eqn:Et.
    destruct (take_spec _ _ _ _ _ Et) as [Hin Hlen].
    destruct Hinv as [Hroot [Hcl [Hacc Hp]]].
    destruct (existsb (reqb r) vis) eqn:Ev.
    + apply existsb_reqb in Ev. apply (IH _ _ _ _ _) in H; [assumption|].
      repeat split.
      * destruct Hroot as [Hr|Hr]; [left; assumption|]. apply Hin in Hr. destruct Hr as [->|Hr]; [left|right]; assumption.
      * intros r0 Hr0 r' Hr'. destruct (Hcl r0 Hr0 r' Hr') as [Hx|Hx]; [left; assumption|].
        apply Hin in Hx. destruct Hx as [->|Hx]; [left|right]; assumption.
      * apply Hacc.
      * apply Hacc.
      * intros r0 [Hr0|Hr0]; apply Hp; [left; assumption|]. right. apply Hin. right. assumption.
    + destruct (stepf r) as [rs os] eqn:Es.
      assert (Hnv : ~ In r vis) by (intros Hc; apply existsb_reqb in Hc; congruence).
      assert (Hpr : Pinv r) by (apply Hp; right; apply Hin; left; reflexivity).
      apply (IH _ _ _ _ _) in H; [assumption|].
      repeat split.
      * destruct Hroot as [Hr|Hr]; [left; right; assumption|]. apply Hin in Hr.
        destruct Hr as [->|Hr]; [left; left; reflexivity|right; apply in_or_app; left; assumption].
      * intros r0 [<-|Hr0] r' Hr'.
        -- right. apply in_or_app. right. rewrite Es in Hr'. assumption.
        -- destruct (Hcl r0 Hr0 r' Hr') as [Hx|Hx]; [left; right; assumption|].
           apply Hin in Hx. destruct Hx as [->|Hx]; [left; left; reflexivity|right; apply in_or_app; left; assumption].
      * intros Ho. apply in_app_or in Ho. destruct Ho as [Ho|Ho].
        -- apply Hacc in Ho. destruct Ho as [r0 [Hr0 Ho]]. exists r0. split; [right; assumption|assumption].
        -- exists r. split; [left; reflexivity|]. rewrite Es. assumption.
      * intros [r0 [[<-|Hr0] Ho]]; apply in_or_app.
        -- right. rewrite Es in Ho. assumption.
        -- left. apply Hacc. exists r0. tauto.
      * intros r0 [[<-|Hr0]|Hr0].
        -- assumption.
        -- apply Hp. left. assumption.
        -- apply in_app_or in Hr0. destruct Hr0 as [Hr0|Hr0].
           ++ apply Hp. right. apply Hin. right. assumption.
           ++ apply (Pinv_step r Hpr). rewrite Es. assumption.
Qed.

(* ---- termination: a finite universe of requests closed under the links ------------- *)
Variable U : list R.
Variable L : nat.
Hypothesis U_step : forall r, In r U -> forall r', In r' (fst (stepf r)) -> In r' U.
Hypothesis L_bound : forall r, In r U -> List.length (fst (stepf r)) <= L.

Lemma walk_fuel sched : forall vis q acc,
  NoDup vis -> incl vis U -> incl q U ->
  (List.length U - List.length vis) * (L + 1) + List.length q <= List.length sched ->
  walk reqb stepf sched vis q acc <> OutOfFuel.
Proof.
  induction sched as [|n sched IH]; intros vis q acc Hnd Hvu Hqu Hf.
  - destruct q as [|x0 q0]; [simpl; discriminate|]. simpl in Hf. nia.
  - destruct q as [|x0 q0]; [simpl; discriminate|].
    cbn [walk]. destruct (take n x0 q0) as [r q'] eqn:Et.
    destruct (take_spec _ _ _ _ _ Et) as [Hin Hlen].
    assert (Hq'u : incl q' U) by (intros y Hy; apply Hqu; apply Hin; right; assumption).
    assert (Hru : In r U) by (apply Hqu; apply Hin; left; reflexivity).
    simpl in Hf.
    destruct (existsb (reqb r) vis) eqn:Ev.
    + apply IH; try assumption. nia.
    + destruct (stepf r) as [rs os] eqn:Es.
      assert (Hnv : ~ In r vis) by (intros Hc; apply existsb_reqb in Hc; congruence).
      assert (Hnd' : NoDup (r :: vis)) by (constructor; assumption).
      assert (Hvu' : incl (r :: vis) U) by (intros y [<-|Hy]; [assumption|apply Hvu; assumption]).
      assert (Hlen' : List.length (r :: vis) <= List.length U) by (apply NoDup_incl_length; assumption).
      assert (Hrs : List.length rs <= L) by (specialize (L_bound r Hru); rewrite Es in L_bound; assumption).
      apply IH; try assumption.
      * apply incl_app; [assumption|]. intros y Hy. apply (U_step r Hru). rewrite Es. assumption.
      * rewrite app_length. simpl in Hlen'.
        remember (List.length U - List.length vis) as a eqn:Ha.
        destruct a as [|a']; [lia|].
        replace (List.length U - List.length (r :: vis)) with a' by (simpl; lia).
        simpl in Hf. nia.
Qed.
End WalkProofs.

(* ===================================================================================== *)
(* Part B - byte strings: prefixes and the listing order                                 *)
(* ===================================================================================== *)
Lemma strip_prefix_some p k rest : strip_prefix p k = Some rest <-> k = p ++ rest.
Proof.
  revert k. induction p as [|a p IH]; intros k; simpl.
  - split; [intros [= ->]; reflexivity|intros ->; reflexivity].
  - destruct k as [|c k]; [split; discriminate|].
    destruct (Ascii.eqb_spec a c) as [->|Hn].
    + rewrite IH. split; [intros ->; reflexivity|intros [= ->]; reflexivity].
    + split; [discriminate|]. intros [= H _]. congruence.
Qed.

Lemma prefixb_strip p k : prefixb p k = true <-> exists rest, strip_prefix p k = Some rest.
Proof.
  revert k. induction p as [|a p IH]; intros k; simpl.
  - split; [intros _; eexists; reflexivity|reflexivity].
  - destruct k as [|c k]; [split; [discriminate|intros [r H]; discriminate]|].
    destruct (Ascii.eqb_spec a c) as [->|Hn]; simpl; [apply IH|].
    split; [discriminate|intros [r H]; discriminate].
Qed.

Lemma prefixb_app p k : prefixb p k = true <-> exists rest, k = p ++ rest.
Proof.
  rewrite prefixb_strip. split; intros [r H]; exists r; apply strip_prefix_some; assumption.
Qed.

Lemma strip_prefix_app p q k :
  strip_prefix (p ++ q) k = match strip_prefix p k with Some r => strip_prefix q r | None => None end.
Proof.
  revert k. induction p as [|a p IH]; intros k; simpl; [reflexivity|].
  destruct k as [|c k]; [reflexivity|]. destruct (Ascii.eqb a c); [apply IH|reflexivity].
Qed.

(* the listing order is a strict total order; what is used: irreflexive, asymmetric, transitive *)
Lemma bn_inj a c : bn a = bn c -> a = c.
Proof. unfold bn. intros H. rewrite <- (ascii_N_embedding a), <- (ascii_N_embedding c). congruence. Qed.

Lemma ltb_irrefl u : bytes_ltb u u = false.
Proof.
  induction u as [|a u IH]; simpl; [reflexivity|].
  rewrite N.ltb_irrefl, N.eqb_refl. assumption.
Qed.

Lemma ltb_trans u v w : bytes_ltb u v = true -> bytes_ltb v w = true -> bytes_ltb u w = true.
Proof.
  revert v w. induction u as [|a u IH]; intros [|c v] [|e w]; simpl; try congruence.
  destruct (N.ltb_spec (bn a) (bn c)) as [H1|H1]; destruct (N.ltb_spec (bn c) (bn e)) as [H2|H2];
    destruct (N.ltb_spec (bn a) (bn e)) as [H3|H3]; try reflexivity; try lia;
    destruct (N.eqb_spec (bn a) (bn c)) as [E1|E1]; destruct (N.eqb_spec (bn c) (bn e)) as [E2|E2];
    destruct (N.eqb_spec (bn a) (bn e)) as [E3|E3]; try congruence; try lia.
  apply IH.
Qed.

Lemma ltb_asym u v : bytes_ltb u v = true -> bytes_ltb v u = false.
Proof.
  intros H. destruct (bytes_ltb v u) eqn:E; [|reflexivity].
  pose proof (ltb_trans _ _ _ H E) as Hc. rewrite ltb_irrefl in Hc. discriminate.
Qed.

Definition klt (x y : obj) : Prop := bytes_ltb (fst x) (fst y) = true.

Lemma sorted_keysb_spec b : sorted_keysb b = true <-> StronglySorted klt b.
Proof.
  induction b as [|o r IH]; simpl.
  - split; [constructor|reflexivity].
  - rewrite andb_true_iff, forallb_forall, IH. split.
    + intros [Hf Hs]. constructor; [assumption|]. apply Forall_forall. exact Hf.
    + intros H. inversion H; subst. split; [|assumption]. apply Forall_forall. assumption.
Qed.

Lemma ssorted_filter f b : StronglySorted klt b -> StronglySorted klt (filter f b).
Proof.
  induction b as [|o r IH]; simpl; intros H; [constructor|].
  inversion H; subst. destruct (f o).
  - constructor; [apply IH; assumption|]. apply Forall_forall. intros x Hx. apply filter_In in Hx.
    rewrite Forall_forall in H3. apply H3. tauto.
  - apply IH. assumption.
Qed.

Lemma ssorted_mid l1 x l2 :
  StronglySorted klt (l1 ++ x :: l2) -> Forall (fun y => klt y x) l1 /\ Forall (klt x) l2.
Proof.
  induction l1 as [|a l1 IH]; simpl; intros H; inversion H; subst.
  - split; [constructor|assumption].
  - destruct (IH H2) as [H1 H4]. split; [|assumption]. constructor; [|assumption].
    rewrite Forall_forall in H3. apply H3. apply in_or_app. right. left. reflexivity.
Qed.

Lemma filter_all_true {A} (f : A -> bool) l : (forall x, In x l -> f x = true) -> filter f l = l.
Proof.
  induction l as [|a l IH]; simpl; intros H; [reflexivity|].
  rewrite (H a (or_introl eq_refl)). f_equal. apply IH. intros x Hx. apply H. right. assumption.
Qed.

(* in a strictly increasing listing, the keys after x are exactly what follows x *)
Lemma filter_after_mid l1 x l2 :
  StronglySorted klt (l1 ++ x :: l2) ->
  filter (fun o => bytes_ltb (fst x) (fst o)) (l1 ++ x :: l2) = l2.
Proof.
  intros H. destruct (ssorted_mid _ _ _ H) as [H1 H2].
  set (f := fun o : obj => bytes_ltb (fst x) (fst o)).
  assert (E1 : filter f l1 = []).
  { clear H. induction l1 as [|a l1 IH]; simpl; [reflexivity|].
    inversion H1; subst. unfold f at 1. rewrite (ltb_asym _ _ H3). apply IH. assumption. }
  assert (E2 : filter f l2 = l2).
  { apply filter_all_true. rewrite Forall_forall in H2. exact H2. }
  change (filter f (l1 ++ x :: l2) = l2). rewrite filter_app, E1. cbn [filter app].
  replace (f x) with false by (unfold f; rewrite ltb_irrefl; reflexivity). exact E2.
Qed.

(* ===================================================================================== *)
(* Part C - the V2 listing scan                                                          *)
(* ===================================================================================== *)
Lemma is_open_true o cp : is_open o cp = true <-> o = Some cp.
Proof.
  destruct o as [x|]; simpl; [|split; discriminate].
  rewrite bytes_eqb_eq. split; congruence.
Qed.

Section Scan.
Variable d : option ascii.
Variable P : bytes.

(* weight of a key under prefix P: 1 + the number of delimiters in the rest (0 when not under P) *)
Definition weight (k : bytes) : nat :=
  match strip_prefix P k with Some rest => 1 + count_delims d rest | None => 0 end.
Definition mu (l : list obj) : nat := fold_right (fun o acc => weight (fst o) + acc) 0 l.

Lemma mu_app l1 l2 : mu (l1 ++ l2) = mu l1 + mu l2.
Proof. induction l1 as [|o l1 IH]; simpl; [reflexivity|]. rewrite IH. lia. Qed.

Lemma mu_in k sz l rest : In (k, sz) l -> strip_prefix P k = Some rest -> 1 <= mu l.
Proof.
  intros Hin Hs. apply in_split in Hin. destruct Hin as [l1 [l2 ->]].
  rewrite mu_app. simpl. unfold weight at 1. simpl. rewrite Hs. lia.
Qed.

Lemma scan_suffix : forall l n open es rs,
  scan d P n open l = (es, Some rs) -> exists pre, l = pre ++ rs.
Proof.
  induction l as [|[k sz] r IH]; intros n open es rs H; simpl in H; [discriminate|].
  destruct (strip_prefix P k) as [rest|].
  - destruct (cp_of d P rest) as [cp|].
    + destruct (is_open open cp).
      * destruct (IH _ _ _ _ H) as [pre ->]. exists ((k, sz) :: pre). reflexivity.
      * destruct n as [|n'].
        -- injection H as _ <-. exists []. reflexivity.
        -- destruct (scan d P n' (Some cp) r) as [es' nx] eqn:E. injection H as _ ->.
           destruct (IH _ _ _ _ E) as [pre ->]. exists ((k, sz) :: pre). reflexivity.
    + destruct n as [|n'].
      * injection H as _ <-. exists []. reflexivity.
      * destruct (scan d P n' None r) as [es' nx] eqn:E. injection H as _ ->.
        destruct (IH _ _ _ _ E) as [pre ->]. exists ((k, sz) :: pre). reflexivity.
  - destruct (IH _ _ _ _ H) as [pre ->]. exists ((k, sz) :: pre). reflexivity.
Qed.

(* a truncated page with room for at least one entry has passed at least one key under P *)
Lemma scan_progress : forall l n open es rs,
  1 <= n -> scan d P n open l = (es, Some rs) -> exists pre, l = pre ++ rs /\ 1 <= mu pre.
Proof.
  induction l as [|[k sz] r IH]; intros n open es rs Hn H; simpl in H; [discriminate|].
  destruct (strip_prefix P k) as [rest|] eqn:Es.
  - assert (Hw : 1 <= weight k) by (unfold weight; rewrite Es; lia).
    destruct (cp_of d P rest) as [cp|].
    + destruct (is_open open cp).
      * destruct (scan_suffix _ _ _ _ _ H) as [pre ->]. exists ((k, sz) :: pre). split; [reflexivity|simpl; lia].
      * destruct n as [|n']; [lia|].
        destruct (scan d P n' (Some cp) r) as [es' nx] eqn:E. injection H as _ ->.
        destruct (scan_suffix _ _ _ _ _ E) as [pre ->]. exists ((k, sz) :: pre). split; [reflexivity|simpl; lia].
    + destruct n as [|n']; [lia|].
      destruct (scan d P n' None r) as [es' nx] eqn:E. injection H as _ ->.
      destruct (scan_suffix _ _ _ _ _ E) as [pre ->]. exists ((k, sz) :: pre). split; [reflexivity|simpl; lia].
  - destruct (IH _ _ _ _ Hn H) as [pre [-> Hm]]. exists ((k, sz) :: pre). split; [reflexivity|simpl; lia].
Qed.

(* every key under P in the listing is either covered by an entry of the page, or rolled up into the
   group that was open when the scan started, or still ahead when the page is truncated *)
Lemma scan_cover : forall l n open es nx,
  scan d P n open l = (es, nx) ->
  forall k sz rest, In (k, sz) l -> strip_prefix P k = Some rest ->
    (forall cp, cp_of d P rest = Some cp ->
       open = Some cp \/ In (EPre cp) es \/ (exists rs, nx = Some rs /\ In (k, sz) rs))
    /\ (cp_of d P rest = None ->
       In (EKey k sz) es \/ (exists rs, nx = Some rs /\ In (k, sz) rs)).
Proof.
  induction l as [|[k0 sz0] r IH]; intros n open es nx H k sz rest Hin Hs; [destruct Hin|].
  simpl in H.
  assert (Hall : forall n0, n0 = 0 -> (es, nx) = ([], Some ((k0, sz0) :: r)) ->
     (forall cp, cp_of d P rest = Some cp ->
        open = Some cp \/ In (EPre cp) es \/ (exists rs, nx = Some rs /\ In (k, sz) rs))
     /\ (cp_of d P rest = None -> In (EKey k sz) es \/ (exists rs, nx = Some rs /\ In (k, sz) rs))).
  { intros n0 _ [= -> ->]. split; intros; [right|]; right; eexists; split; try reflexivity; assumption. }
  destruct (strip_prefix P k0) as [rest0|] eqn:Es0.
  - destruct (cp_of d P rest0) as [cp0|] eqn:Ec0.
    + destruct (is_open open cp0) eqn:Eo.
      * destruct Hin as [[= <- <-]|Hin]; [|eapply IH; eassumption].
        rewrite Es0 in Hs. injection Hs as <-. apply is_open_true in Eo. split.
        -- intros cp Hc. left. congruence.
        -- congruence.
      * destruct n as [|n']; [apply (Hall 0 eq_refl); symmetry; exact H|].
        destruct (scan d P n' (Some cp0) r) as [es' nx'] eqn:E. injection H as <- <-.
        destruct Hin as [[= <- <-]|Hin].
        -- rewrite Es0 in Hs. injection Hs as <-. split.
           ++ intros cp Hc. right. left. left. congruence.
           ++ congruence.
        -- destruct (IH _ _ _ _ E _ _ _ Hin Hs) as [H1 H2]. split.
           ++ intros cp Hc. destruct (H1 cp Hc) as [Ho|[Hi|Hr]].
              ** right. left. left. congruence.
              ** right. left. right. assumption.
              ** right. right. assumption.
           ++ intros Hc. destruct (H2 Hc) as [Hi|Hr]; [left; right; assumption|right; assumption].
    + destruct n as [|n']; [apply (Hall 0 eq_refl); symmetry; exact H|].
      destruct (scan d P n' None r) as [es' nx'] eqn:E. injection H as <- <-.
      destruct Hin as [[= <- <-]|Hin].
      * rewrite Es0 in Hs. injection Hs as <-. split.
        -- congruence.
        -- intros _. left. left. reflexivity.
      * destruct (IH _ _ _ _ E _ _ _ Hin Hs) as [H1 H2]. split.
        -- intros cp Hc. destruct (H1 cp Hc) as [Ho|[Hi|Hr]]; [discriminate| |].
           ++ right. left. right. assumption.
           ++ right. right. assumption.
        -- intros Hc. destruct (H2 Hc) as [Hi|Hr]; [left; right; assumption|right; assumption].
  - destruct Hin as [[= <- <-]|Hin]; [congruence|]. eapply IH; eassumption.
Qed.

(* the entries of a page come from keys of the listing that lie under P; there are at most n *)
Lemma scan_sound : forall l n open es nx,
  scan d P n open l = (es, nx) ->
  (forall k sz, In (EKey k sz) es -> In (k, sz) l /\ prefixb P k = true)
  /\ (forall cp, In (EPre cp) es ->
        exists k sz rest, In (k, sz) l /\ strip_prefix P k = Some rest /\ cp_of d P rest = Some cp)
  /\ List.length es <= n.
Proof.
  induction l as [|[k0 sz0] r IH]; intros n open es nx H; simpl in H.
  - injection H as <- <-. simpl. repeat split; try tauto. lia.
  - assert (Hlift : forall n' open' es' nx', scan d P n' open' r = (es', nx') ->
       (forall k sz, In (EKey k sz) es' -> In (k, sz) ((k0, sz0) :: r) /\ prefixb P k = true)
       /\ (forall cp, In (EPre cp) es' ->
             exists k sz rest, In (k, sz) ((k0, sz0) :: r) /\ strip_prefix P k = Some rest /\ cp_of d P rest = Some cp)
       /\ List.length es' <= n').
    { intros n' open' es' nx' E. destruct (IH _ _ _ _ E) as [H1 [H2 H3]]. repeat split.
      - right. apply H1. assumption.
      - apply H1 in H0. tauto.
      - intros cp Hc. destruct (H2 cp Hc) as [k [sz [rest [Hi Hr]]]]. exists k, sz, rest. split; [right; assumption|assumption].
      - assumption. }
    destruct (strip_prefix P k0) as [rest0|] eqn:Es0.
    + destruct (cp_of d P rest0) as [cp0|] eqn:Ec0.
      * destruct (is_open open cp0); [apply (Hlift _ _ _ _ H)|].
        destruct n as [|n']; [injection H as <- <-; simpl; repeat split; try tauto; lia|].
        destruct (scan d P n' (Some cp0) r) as [es' nx'] eqn:E. injection H as <- <-.
        destruct (Hlift _ _ _ _ E) as [H1 [H2 H3]]. repeat split.
        -- destruct H as [H|H]; [discriminate|]. apply H1 in H. tauto.
        -- destruct H as [H|H]; [discriminate|]. apply H1 in H. tauto.
        -- intros cp [[= <-]|Hc]; [|apply H2; assumption].
           exists k0, sz0, rest0. split; [left; reflexivity|tauto].
        -- simpl. lia.
      * destruct n as [|n']; [injection H as <- <-; simpl; repeat split; try tauto; lia|].
        destruct (scan d P n' None r) as [es' nx'] eqn:E. injection H as <- <-.
        destruct (Hlift _ _ _ _ E) as [H1 [H2 H3]]. repeat split.
        -- destruct H as [[= <- <-]|H]; [left; reflexivity|]. apply H1 in H. tauto.
        -- destruct H as [[= <- <-]|H]; [apply prefixb_strip; eexists; eassumption|]. apply H1 in H. tauto.
        -- intros cp [H|Hc]; [discriminate|apply H2; assumption].
        -- simpl. lia.
    + apply (Hlift _ _ _ _ H).
Qed.
End Scan.

(* ===================================================================================== *)
(* Part D - small facts about pages, links and measures                                  *)
(* ===================================================================================== *)
Lemma in_entry_cps cp es : In cp (entry_cps es) <-> In (EPre cp) es.
Proof.
  unfold entry_cps. rewrite in_flat_map. split.
  - intros [e [He Hc]]. destruct e; simpl in Hc; [tauto|]. destruct Hc as [<-|[]]. assumption.
  - intros H. exists (EPre cp). split; [assumption|left; reflexivity].
Qed.

Lemma in_entry_keys k sz es : In (k, sz) (entry_keys es) <-> In (EKey k sz) es.
Proof.
  unfold entry_keys. rewrite in_flat_map. split.
  - intros [e [He Hc]]. destruct e; simpl in Hc; [|tauto]. destruct Hc as [[= <- <-]|[]]. assumption.
  - intros H. exists (EKey k sz). split; [assumption|left; reflexivity].
Qed.

Lemma entry_cps_length es : List.length (entry_cps es) <= List.length es.
Proof.
  induction es as [|e es IH]; simpl; [lia|]. destruct e; simpl; lia.
Qed.

Lemma in_nonzero k l : In k (nonzero l) <-> exists sz, In (k, sz) l /\ (0 <? sz)%N = true.
Proof.
  unfold nonzero. rewrite in_map_iff. split.
  - intros [[k' sz] [Hk Hf]]. simpl in Hk. subst k'. apply filter_In in Hf. exists sz. exact Hf.
  - intros [sz [Hin Hz]]. exists (k, sz). split; [reflexivity|]. apply filter_In. tauto.
Qed.

Lemma in_wanted k b P0 :
  In k (wanted b P0) <-> exists sz, In (k, sz) b /\ prefixb P0 k = true /\ (0 <? sz)%N = true.
Proof.
  unfold wanted. rewrite in_nonzero. split; intros [sz H]; exists sz.
  - destruct H as [H Hz]. apply filter_In in H. simpl in H. tauto.
  - split; [apply filter_In; simpl; tauto|tauto].
Qed.

Lemma in_skipn {A} n (l : list A) x : In x (skipn n l) -> In x l.
Proof. intros H. rewrite <- (firstn_skipn n l). apply in_or_app. right. assumption. Qed.

Lemma skipn_suffix {A} (pre rs : list A) : skipn (List.length (pre ++ rs) - List.length rs) (pre ++ rs) = rs.
Proof.
  rewrite app_length. replace (List.length pre + List.length rs - List.length rs) with (List.length pre) by lia.
  induction pre as [|a pre IH]; simpl; [reflexivity|assumption].
Qed.

Lemma flat_map_const_length {A B} (f : A -> list B) n ps :
  (forall p, List.length (f p) = n) -> List.length (flat_map f ps) = List.length ps * n.
Proof.
  intros H. induction ps as [|p ps IH]; simpl; [reflexivity|]. rewrite app_length, H, IH. reflexivity.
Qed.

Lemma filter_filter {A} (g h : A -> bool) l : filter g (filter h l) = filter (fun x => h x && g x) l.
Proof.
  induction l as [|a l IH]; simpl; [reflexivity|].
  destruct (h a); simpl; [destruct (g a); rewrite IH; reflexivity|assumption].
Qed.

(* cp_of: the common prefix is P ++ seg ++ [c] where the rest is seg ++ c :: tail *)
Lemma cp_of_some d P rest cp :
  cp_of d P rest = Some cp ->
  exists c seg tail, d = Some c /\ rest = seg ++ c :: tail /\ cp = P ++ seg ++ [c].
Proof.
  unfold cp_of. destruct d as [c|]; [|discriminate].
  destruct (existsb (Ascii.eqb c) rest) eqn:E; [|discriminate]. intros [= <-].
  apply existsb_exists in E. destruct E as [x [Hx He]]. apply Ascii.eqb_eq in He. subst x.
  destruct (cut_at_split c rest) as [H|[tail H]].
  - exfalso. apply (cut_at_noocc c rest). rewrite <- H. assumption.
  - exists c, (cut_at c rest), tail. repeat split. assumption.
Qed.

Lemma count_delims_app c u v :
  count_delims (Some c) (u ++ v) = count_delims (Some c) u + count_delims (Some c) v.
Proof. unfold count_delims. rewrite filter_app, app_length. reflexivity. Qed.

(* going down into a common prefix strictly lowers the weight of every key under P *)
Lemma weight_sub c P seg k :
  weight (Some c) (P ++ seg ++ [c]) k <= weight (Some c) P k
  /\ (forall r, strip_prefix P k = Some r -> weight (Some c) (P ++ seg ++ [c]) k < weight (Some c) P k).
Proof.
  unfold weight. rewrite strip_prefix_app. destruct (strip_prefix P k) as [r|]; [|split; [lia|discriminate]].
  assert (H : match strip_prefix (seg ++ [c]) r with Some rest => 1 + count_delims (Some c) rest | None => 0 end
              < 1 + count_delims (Some c) r).
  { destruct (strip_prefix (seg ++ [c]) r) as [t|] eqn:E; [|lia].
    apply strip_prefix_some in E. subst r. rewrite !count_delims_app.
    assert (Hc : count_delims (Some c) [c] = 1) by (simpl; rewrite Ascii.eqb_refl; reflexivity).
    lia. }
  split; [lia|]. intros r' _. exact H.
Qed.

Lemma mu_sub c P seg l :
  mu (Some c) (P ++ seg ++ [c]) l <= mu (Some c) P l
  /\ (forall k sz r, In (k, sz) l -> strip_prefix P k = Some r ->
        mu (Some c) (P ++ seg ++ [c]) l < mu (Some c) P l).
Proof.
  induction l as [|[k0 sz0] l IH]; simpl; [split; [lia|intros ? ? ? []]|].
  destruct IH as [IH1 IH2]. destruct (weight_sub c P seg k0) as [W1 W2]. split; [lia|].
  intros k sz r [[= <- <-]|Hin] Hs.
  - specialize (W2 _ Hs). lia.
  - specialize (IH2 _ _ _ Hin Hs). lia.
Qed.

(* ===================================================================================== *)
(* Part E - ListObjectsV2: coverage, soundness, universe                                 *)
(* ===================================================================================== *)
Section V2.
Variable c : cfg.
Variable b : list obj.
Hypothesis Hapi : c_api c = V2.

Definition scan_of (r : req) := scan (c_delim c) (r_prefix r) (c_max c) None (skipn (start_pos (r_cur r)) b).

Lemma step_v2 r es rest :
  scan_of r = (es, rest) ->
  step false c b r =
    (map (fun cp => Req cp (r_cur r)) (entry_cps es)
       ++ match rest with Some rs => [Req (r_prefix r) (CTok (List.length b - List.length rs))] | None => [] end,
     nonzero (entry_keys es))
  /\ p_contents (serve c b r) = entry_keys es.
Proof.
  intros H. unfold step, links, serve, serve2. rewrite Hapi. fold (scan_of r). rewrite H.
  destruct rest; simpl; split; reflexivity.
Qed.

Lemma skipn_rest r es rs :
  scan_of r = (es, Some rs) -> skipn (List.length b - List.length rs) b = rs.
Proof.
  intros H. unfold scan_of in H. destruct (scan_suffix _ _ _ _ _ _ _ H) as [pre Hp].
  rewrite <- (firstn_skipn (start_pos (r_cur r)) b) at 1 2. rewrite Hp, app_assoc. apply skipn_suffix.
Qed.

Section Cover.
Variable V : list req.
Hypothesis Hmax : 1 <= c_max c.
Hypothesis Hclosed : forall r, In r V -> forall r', In r' (fst (step false c b r)) -> In r' V.

(* every key under a fetched request's prefix that lies at or after its cursor is listed as an object
   by some fetched request *)
Lemma cover2 : forall m r,
  In r V -> mu (c_delim c) (r_prefix r) (skipn (start_pos (r_cur r)) b) < m ->
  forall k sz, In (k, sz) (skipn (start_pos (r_cur r)) b) -> prefixb (r_prefix r) k = true ->
  exists r', In r' V /\ In (k, sz) (p_contents (serve c b r')).
Proof.
  induction m as [|m IH]; intros r Hr Hmu k sz Hin Hpre; [lia|].
  destruct (scan_of r) as [es rest] eqn:Es.
  destruct (step_v2 r es rest Es) as [Hstep Hcont].
  apply prefixb_strip in Hpre. destruct Hpre as [restk Hs].
  assert (Hnext : forall rs, rest = Some rs -> In (k, sz) rs ->
            exists r', In r' V /\ In (k, sz) (p_contents (serve c b r'))).
  { intros rs -> Hk.
    set (r1 := Req (r_prefix r) (CTok (List.length b - List.length rs))).
    assert (Hr1 : In r1 V).
    { apply (Hclosed r Hr). rewrite Hstep. simpl. apply in_or_app. right. left. reflexivity. }
    apply (IH r1 Hr1); simpl.
    - rewrite (skipn_rest r es rs Es).
      unfold scan_of in Es. destruct (scan_progress _ _ _ _ _ _ _ Hmax Es) as [pre [Hl Hm1]].
      rewrite Hl, mu_app in Hmu. lia.
    - rewrite (skipn_rest r es rs Es). assumption.
    - apply prefixb_strip. eexists. eassumption. }
  unfold scan_of in Es.
  destruct (scan_cover _ _ _ _ _ _ _ Es k sz restk Hin Hs) as [Hc1 Hc2].
  destruct (cp_of (c_delim c) (r_prefix r) restk) as [cp|] eqn:Ecp.
  - destruct (Hc1 cp eq_refl) as [Ho|[Hi|[rs [Hrs Hk]]]]; [discriminate| |eapply Hnext; eassumption].
    destruct (cp_of_some _ _ _ _ Ecp) as [dc [seg [tail [Hd [Hrest Hcp]]]]].
    set (r1 := Req cp (r_cur r)).
    assert (Hr1 : In r1 V).
    { apply (Hclosed r Hr). rewrite Hstep. simpl. apply in_or_app. left.
      apply in_map_iff. exists cp. split; [reflexivity|]. apply in_entry_cps. assumption. }
    apply (IH r1 Hr1); simpl.
    + rewrite Hd in *. rewrite Hcp.
      destruct (mu_sub dc (r_prefix r) seg (skipn (start_pos (r_cur r)) b)) as [_ Hlt].
      specialize (Hlt _ _ _ Hin Hs). lia.
    + assumption.
    + apply prefixb_app. exists tail. apply strip_prefix_some in Hs. rewrite Hs, Hrest, Hcp.
      rewrite <- !app_assoc. reflexivity.
  - destruct (Hc2 eq_refl) as [Hi|[rs [Hrs Hk]]]; [|eapply Hnext; eassumption].
    exists r. split; [assumption|]. rewrite Hcont. apply in_entry_keys. assumption.
Qed.
End Cover.

(* what a page lists as objects are keys of the bucket under the request's prefix *)
Lemma contents2_sound r k sz :
  In (k, sz) (p_contents (serve c b r)) -> In (k, sz) b /\ prefixb (r_prefix r) k = true.
Proof.
  destruct (scan_of r) as [es rest] eqn:Es. destruct (step_v2 r es rest Es) as [_ ->].
  rewrite in_entry_keys. intros H. unfold scan_of in Es.
  destruct (scan_sound _ _ _ _ _ _ _ Es) as [H1 _]. apply H1 in H. destruct H as [H Hp].
  split; [eapply in_skipn; eassumption|assumption].
Qed.

(* ---- the universe of requests a V2 walk can ever issue ------------------------------ *)
Fixpoint key_prefixes (dc : ascii) (k : bytes) : list bytes :=
  match k with
  | [] => []
  | a :: r => (if Ascii.eqb a dc then [[a]] else []) ++ map (cons a) (key_prefixes dc r)
  end.

Lemma key_prefixes_length dc k : List.length (key_prefixes dc k) = count_delims (Some dc) k.
Proof.
  unfold count_delims. induction k as [|a k IH]; [reflexivity|].
  cbn [key_prefixes filter]. rewrite app_length, map_length. unfold bytes in *. rewrite IH.
  rewrite (Ascii.eqb_sym a dc). destruct (Ascii.eqb dc a); reflexivity.
Qed.

Lemma key_prefixes_in dc pre tail : In (pre ++ [dc]) (key_prefixes dc (pre ++ dc :: tail)).
Proof.
  induction pre as [|a pre IH]; simpl.
  - rewrite Ascii.eqb_refl. left. reflexivity.
  - apply in_or_app. right. apply in_map. assumption.
Qed.

Definition kps (k : bytes) : list bytes :=
  match c_delim c with Some dc => key_prefixes dc k | None => [] end.
Definition all_cps : list bytes := flat_map (fun o => kps (fst o)) b.

Lemma all_cps_length : List.length all_cps = total_delims (c_delim c) b.
Proof.
  unfold all_cps, total_delims. induction b as [|o l IH]; simpl; [reflexivity|].
  rewrite app_length, IH. f_equal. unfold kps. destruct (c_delim c); [apply key_prefixes_length|reflexivity].
Qed.

Variable P0 : bytes.
Definition cursors2 : list cursor := CNone :: map CTok (seq 0 (S (List.length b))).
Definition U2 : list req := flat_map (fun p => map (Req p) cursors2) (P0 :: all_cps).

Lemma in_U2 p cu : In (Req p cu) U2 <-> In p (P0 :: all_cps) /\ In cu cursors2.
Proof.
  unfold U2. rewrite in_flat_map. split.
  - intros [p' [Hp Hm]]. apply in_map_iff in Hm. destruct Hm as [cu' [[= -> ->] Hc]]. tauto.
  - intros [Hp Hc]. exists p. split; [assumption|]. apply in_map. assumption.
Qed.

Lemma U2_length : List.length U2 = (1 + total_delims (c_delim c) b) * (List.length b + 2).
Proof.
  unfold U2. rewrite <- all_cps_length.
  rewrite (flat_map_const_length _ (List.length cursors2)) by (intros p; apply map_length).
  unfold cursors2. simpl. rewrite map_length, seq_length. lia.
Qed.

Lemma U2_step r : In r U2 -> forall r', In r' (fst (step false c b r)) -> In r' U2.
Proof.
  destruct r as [p cu]. intros Hr r' Hr'. apply in_U2 in Hr. destruct Hr as [Hp Hc].
  destruct (scan_of (Req p cu)) as [es rest] eqn:Es.
  destruct (step_v2 _ es rest Es) as [Hstep _]. rewrite Hstep in Hr'. simpl in Hr'.
  apply in_app_or in Hr'. destruct Hr' as [Hr'|Hr'].
  - apply in_map_iff in Hr'. destruct Hr' as [cp [<- Hcp]]. apply in_U2. split; [|assumption].
    right. apply in_entry_cps in Hcp. unfold scan_of in Es. simpl in Es.
    destruct (scan_sound _ _ _ _ _ _ _ Es) as [_ [H2 _]].
    destruct (H2 cp Hcp) as [k [sz [restk [Hin [Hs Hc']]]]].
    destruct (cp_of_some _ _ _ _ Hc') as [dc [seg [tail [Hd [Hrest ->]]]]].
    unfold all_cps. apply in_flat_map. exists (k, sz). split; [eapply in_skipn; eassumption|].
    unfold kps. simpl. rewrite Hd. apply strip_prefix_some in Hs. rewrite Hs, Hrest.
    rewrite !app_assoc. apply key_prefixes_in.
  - destruct rest as [rs|]; [|destruct Hr']. destruct Hr' as [<-|[]]. simpl. apply in_U2. split; [assumption|].
    right. apply in_map. apply in_seq. lia.
Qed.

Lemma L2_bound r : List.length (fst (step false c b r)) <= c_max c + 1.
Proof.
  destruct (scan_of r) as [es rest] eqn:Es.
  destruct (step_v2 _ es rest Es) as [Hstep _]. rewrite Hstep. simpl.
  rewrite app_length, map_length. unfold scan_of in Es.
  destruct (scan_sound _ _ _ _ _ _ _ Es) as [_ [_ H3]].
  pose proof (entry_cps_length es). destruct rest; simpl; lia.
Qed.

(* requests stay below the root prefix *)
Definition below (r : req) : Prop := exists x, r_prefix r = P0 ++ x.

Lemma below_step2 r : below r -> forall r', In r' (fst (step false c b r)) -> below r'.
Proof.
  intros [x Hx] r' Hr'.
  destruct (scan_of r) as [es rest] eqn:Es.
  destruct (step_v2 _ es rest Es) as [Hstep _]. rewrite Hstep in Hr'. simpl in Hr'.
  apply in_app_or in Hr'. destruct Hr' as [Hr'|Hr'].
  - apply in_map_iff in Hr'. destruct Hr' as [cp [<- Hcp]]. apply in_entry_cps in Hcp.
    unfold scan_of in Es. destruct (scan_sound _ _ _ _ _ _ _ Es) as [_ [H2 _]].
    destruct (H2 cp Hcp) as [k [sz [restk [_ [_ Hc']]]]].
    destruct (cp_of_some _ _ _ _ Hc') as [dc [seg [tail [_ [_ ->]]]]].
    exists (x ++ seg ++ [dc]). simpl. rewrite Hx, <- app_assoc. reflexivity.
  - destruct rest as [rs|]; [|destruct Hr']. destruct Hr' as [<-|[]]. exists x. assumption.
Qed.
End V2.

(* ===================================================================================== *)
(* Part F - ListObjects (marker pagination)                                              *)
(* ===================================================================================== *)
Section V1.
Variable c : cfg.
Variable b : list obj.
Hypothesis Hapi : c_api c = V1.

Definition scope1 (r : req) : list obj := filter (in_scope1 r) b.

Lemma last_some {A B} (f : A -> B) (l pre : list A) (o : A) (dflt : B) :
  l = pre ++ [o] -> last (map f l) dflt = f o.
Proof. intros ->. rewrite map_app. simpl. apply last_last. Qed.

Lemma step_v1 r :
  step false c b r =
    (match last (map (fun o => Some (fst o)) (firstn (c_max c) (scope1 r))) None with
     | Some k => [Req (r_prefix r) (CMarker k)]
     | None => []
     end, nonzero (firstn (c_max c) (scope1 r)))
  /\ p_contents (serve c b r) = firstn (c_max c) (scope1 r).
Proof. unfold step, links, serve, serve1. rewrite Hapi. simpl. split; reflexivity. Qed.

Lemma L1_bound r : List.length (fst (step false c b r)) <= 1.
Proof.
  destruct (step_v1 r) as [-> _]. simpl.
  destruct (last (map (fun o => Some (fst o)) (firstn (c_max c) (scope1 r))) None); simpl; lia.
Qed.

(* the only link of a page: same prefix, marker = key of an object of the bucket *)
Lemma link1 r r' :
  In r' (fst (step false c b r)) ->
  exists pre o, firstn (c_max c) (scope1 r) = pre ++ [o] /\ r' = Req (r_prefix r) (CMarker (fst o)).
Proof.
  destruct (step_v1 r) as [-> _]. simpl.
  destruct (firstn (c_max c) (scope1 r)) as [|x l] eqn:E; [simpl; tauto|].
  destruct (@exists_last _ (x :: l)) as [pre [o Hl]]; [discriminate|].
  rewrite (last_some _ _ _ _ _ Hl). intros [<-|[]]. exists pre, o. split; [assumption|reflexivity].
Qed.

Lemma contents1_sound r k sz :
  In (k, sz) (p_contents (serve c b r)) -> In (k, sz) b /\ prefixb (r_prefix r) k = true.
Proof.
  destruct (step_v1 r) as [_ ->]. intros H.
  assert (H' : In (k, sz) (scope1 r)) by (rewrite <- (firstn_skipn (c_max c) (scope1 r)); apply in_or_app; left; assumption).
  apply filter_In in H'. destruct H' as [Hb Hs]. unfold in_scope1 in Hs. simpl in Hs.
  apply andb_true_iff in Hs. tauto.
Qed.

Section Cover.
Variable V : list req.
Hypothesis Hmax : 1 <= c_max c.
Hypothesis Hsorted : StronglySorted klt b.
Hypothesis Hclosed : forall r, In r V -> forall r', In r' (fst (step false c b r)) -> In r' V.

(* the next page's scope is what this page left over *)
Lemma next_scope r pre o :
  firstn (c_max c) (scope1 r) = pre ++ [o] ->
  scope1 (Req (r_prefix r) (CMarker (fst o))) = skipn (c_max c) (scope1 r).
Proof.
  intros Hf.
  assert (Hl : scope1 r = pre ++ o :: skipn (c_max c) (scope1 r)).
  { rewrite <- (firstn_skipn (c_max c) (scope1 r)) at 1. rewrite Hf, <- app_assoc. reflexivity. }
  assert (Hs : StronglySorted klt (scope1 r)) by (apply ssorted_filter; assumption).
  rewrite Hl in Hs. rewrite <- (filter_after_mid _ _ _ Hs), <- Hl.
  unfold scope1 at 2. rewrite filter_filter. unfold scope1. apply filter_ext_in. intros x Hx.
  unfold in_scope1. simpl.
  assert (Ho : in_scope1 r o = true).
  { assert (Hin : In o (scope1 r)) by (rewrite Hl; apply in_or_app; right; left; reflexivity).
    apply filter_In in Hin. tauto. }
  unfold in_scope1 in Ho. apply andb_true_iff in Ho. destruct Ho as [_ Hom].
  destruct (prefixb (r_prefix r) (fst x)); simpl; [|reflexivity].
  destruct (bytes_ltb (fst o) (fst x)) eqn:El; [|rewrite andb_false_r; reflexivity].
  rewrite andb_true_r. destruct (r_cur r) as [|m|i]; simpl in *; try reflexivity.
  symmetry. eapply ltb_trans; eassumption.
Qed.

Lemma cover1 : forall m r,
  In r V -> List.length (scope1 r) < m ->
  forall o, In o (scope1 r) -> exists r', In r' V /\ In o (p_contents (serve c b r')).
Proof.
  induction m as [|m IH]; intros r Hr Hlen o Hin; [lia|].
  destruct (step_v1 r) as [Hstep Hcont].
  rewrite <- (firstn_skipn (c_max c) (scope1 r)) in Hin. apply in_app_or in Hin. destruct Hin as [Hin|Hin].
  - exists r. split; [assumption|]. rewrite Hcont. assumption.
  - destruct (firstn (c_max c) (scope1 r)) as [|x l] eqn:Ef.
    + (* an empty first page means an empty scope, since max >= 1 *)
      exfalso. destruct (scope1 r) as [|y s] eqn:Es; [rewrite skipn_nil in Hin; destruct Hin|].
      destruct (c_max c) as [|n]; [lia|]. simpl in Ef. discriminate.
    + destruct (@exists_last _ (x :: l)) as [pre [ol Hl0]]; [discriminate|].
      assert (Hl : firstn (c_max c) (scope1 r) = pre ++ [ol]) by (rewrite Ef; assumption).
      set (r1 := Req (r_prefix r) (CMarker (fst ol))).
      assert (Hr1 : In r1 V).
      { apply (Hclosed r Hr). rewrite Hstep. cbn [fst]. rewrite (last_some _ _ _ _ _ Hl0). left. reflexivity. }
      assert (Hsc : scope1 r1 = skipn (c_max c) (scope1 r)) by (eapply next_scope; eassumption).
      apply (IH r1 Hr1).
      * rewrite Hsc. rewrite skipn_length.
        assert (Hfl : List.length (firstn (c_max c) (scope1 r)) = S (List.length l)) by (rewrite Ef; reflexivity).
        rewrite firstn_length in Hfl. lia.
      * rewrite Hsc. assumption.
Qed.
End Cover.

Variable P0 : bytes.
Definition U1 : list req := Req P0 CNone :: map (fun o => Req P0 (CMarker (fst o))) b.

Lemma U1_prefix r : In r U1 -> r_prefix r = P0.
Proof. intros [<-|H]; [reflexivity|]. apply in_map_iff in H. destruct H as [o [<- _]]. reflexivity. Qed.

Lemma U1_step r : In r U1 -> forall r', In r' (fst (step false c b r)) -> In r' U1.
Proof.
  intros Hr r' Hr'. destruct (link1 r r' Hr') as [pre [o [Hf ->]]]. rewrite (U1_prefix r Hr).
  right. apply in_map_iff. exists o. split; [reflexivity|].
  assert (Hin : In o (firstn (c_max c) (scope1 r))) by (rewrite Hf; apply in_or_app; right; left; reflexivity).
  assert (Hin' : In o (scope1 r)) by (rewrite <- (firstn_skipn (c_max c) (scope1 r)); apply in_or_app; left; assumption).
  apply filter_In in Hin'. tauto.
Qed.

Lemma below_step1 r : below P0 r -> forall r', In r' (fst (step false c b r)) -> below P0 r'.
Proof. intros Hb r' Hr'. destruct (link1 r r' Hr') as [pre [o [_ ->]]]. exact Hb. Qed.
End V1.

(* ===================================================================================== *)
(* Part G - the theorems                                                                 *)
(* ===================================================================================== *)
Lemma cursor_eqb_spec a c : cursor_eqb a c = true <-> a = c.
Proof.
  destruct a, c; simpl; try (split; [discriminate|congruence]); try tauto.
  - rewrite bytes_eqb_eq. split; congruence.
  - rewrite Nat.eqb_eq. split; congruence.
Qed.

Lemma req_eqb_spec a c : req_eqb a c = true <-> a = c.
Proof.
  destruct a as [p1 c1], c as [p2 c2]. unfold req_eqb. simpl.
  rewrite andb_true_iff, bytes_eqb_eq, cursor_eqb_spec. split; [intros [-> ->]; reflexivity|intros [= -> ->]; tauto].
Qed.

Lemma snd_step c b r : snd (step false c b r) = nonzero (p_contents (serve c b r)).
Proof. unfold step, links. destruct (c_api c); reflexivity. Qed.

Lemma below_step c b P0 r : below P0 r -> forall r', In r' (fst (step false c b r)) -> below P0 r'.
Proof.
  destruct (c_api c) eqn:Ea; [apply below_step1|apply below_step2]; assumption.
Qed.

Lemma winv_init {O} (stepf : req -> list req * list O) (Pinv : req -> Prop) root :
  Pinv root -> winv stepf root Pinv [] [root] [].
Proof.
  intros Hp. repeat split.
  - right. left. reflexivity.
  - intros r [].
  - intros [].
  - intros [r [[] _]].
  - intros r [[]|[<-|[]]]. assumption.
Qed.

(* s3_walk_complete: when the walk ends, the object keys queued are exactly the keys of the bucket
   under the root prefix whose size is not zero *)
Theorem s3_walk_complete_lemma c b P0 sched V A :
  1 <= c_max c -> (c_api c = V1 -> sorted_keysb b = true) ->
  s3_walk false c b P0 sched = Done V A ->
  forall k, In k A <-> In k (wanted b P0).
Proof.
  intros Hmax Hsorted Hw k. unfold s3_walk in Hw.
  assert (Hroot : below P0 (Req P0 CNone)) by (exists []; simpl; rewrite app_nil_r; reflexivity).
  destruct (walk_done_inv req_eqb (step false c b) req_eqb_spec (Req P0 CNone) (below P0)
              (below_step c b P0) sched [] [Req P0 CNone] [] V A
              (winv_init _ _ _ Hroot) Hw) as [HrootV [Hcl [Hacc Hbelow]]].
  rewrite Hacc, in_wanted. split.
  - (* soundness *)
    intros [r [Hr Ho]]. rewrite snd_step in Ho. apply in_nonzero in Ho. destruct Ho as [sz [Hin Hz]].
    assert (Hs : In (k, sz) b /\ prefixb (r_prefix r) k = true).
    { destruct (c_api c) eqn:Ea; [apply (contents1_sound c b Ea r)|apply (contents2_sound c b Ea r)]; assumption. }
    exists sz. split; [tauto|]. split; [|assumption].
    destruct (Hbelow r Hr) as [x Hx]. destruct Hs as [_ Hs]. apply prefixb_app in Hs. destruct Hs as [rest ->].
    apply prefixb_app. exists (x ++ rest). rewrite Hx, <- app_assoc. reflexivity.
  - (* completeness *)
    intros [sz [Hin [Hpre Hz]]].
    assert (Hcov : exists r', In r' V /\ In (k, sz) (p_contents (serve c b r'))).
    { destruct (c_api c) eqn:Ea.
      - apply (cover1 c b Ea V Hmax (proj1 (sorted_keysb_spec b) (Hsorted eq_refl)) Hcl
                 (S (List.length (scope1 b (Req P0 CNone)))) (Req P0 CNone) HrootV (Nat.lt_succ_diag_r _)).
        apply filter_In. split; [assumption|]. unfold in_scope1. simpl. rewrite Hpre. reflexivity.
      - apply (cover2 c b Ea V Hmax Hcl
                 (S (mu (c_delim c) P0 b)) (Req P0 CNone) HrootV); simpl; try assumption. lia. }
    destruct Hcov as [r' [Hr' Hk]]. exists r'. split; [assumption|]. rewrite snd_step.
    apply in_nonzero. exists sz. tauto.
Qed.

(* s3_walk_terminates: walk_bound fetch decisions always suffice *)
Theorem s3_walk_terminates_lemma c b P0 sched :
  walk_bound c b <= List.length sched -> s3_walk false c b P0 sched <> OutOfFuel.
Proof.
  intros Hb. unfold s3_walk, walk_bound in *. destruct (c_api c) eqn:Ea.
  - apply (walk_fuel req_eqb (step false c b) req_eqb_spec (U1 b P0) 1 (U1_step c b Ea P0)
             (fun r _ => L1_bound c b Ea r)).
    + constructor.
    + intros x [].
    + intros x [<-|[]]. left. reflexivity.
    + unfold U1. cbn [List.length]. rewrite map_length. unfold obj in *. lia.
  - apply (walk_fuel req_eqb (step false c b) req_eqb_spec (U2 c b P0) (c_max c + 1) (U2_step c b Ea P0)
             (fun r _ => L2_bound c b Ea r)).
    + constructor.
    + intros x [].
    + intros x [<-|[]]. apply in_U2. split; left; reflexivity.
    + rewrite U2_length. cbn [List.length]. unfold obj in *. nia.
Qed.

Lemma walk_bound_N_eq c b : walk_bound_N c b = N.of_nat (walk_bound c b).
Proof. unfold walk_bound_N, walk_bound. destruct (c_api c); lia. Qed.

(* ---- witnesses -------------------------------------------------------------------- *)
Definition slash : ascii := "/"%char.
Definition ex_bucket : list obj :=
  [(bs "a.png", 10%N); (bs "d/", 0%N); (bs "d/e/deep.bin", 7%N); (bs "d/x.png", 5%N); (bs "z.txt", 1%N)].
Definition ex_cfg2 := Cfg V2 (Some slash) 2.
Definition ex_cfg1 := Cfg V1 None 2.

(* non-vacuity: a V2 walk with sub-folders, a mixed page and continuation tokens; a V1 walk; both end
   and reach the four non-empty objects *)
Example s3_walk_nonvacuous :
  sorted_keysb ex_bucket = true
  /\ (exists V, s3_walk false ex_cfg2 ex_bucket [] [0; 0; 0; 0; 0; 0; 0; 0] =
                Done V [bs "a.png"; bs "z.txt"; bs "d/e/deep.bin"; bs "d/x.png"])
  /\ (exists V, s3_walk false ex_cfg1 ex_bucket [] [0; 0; 0; 0] =
                Done V [bs "a.png"; bs "d/e/deep.bin"; bs "d/x.png"; bs "z.txt"])
  /\ walk_bound ex_cfg2 ex_bucket = 141 /\ walk_bound ex_cfg1 ex_bucket = 13.
Proof. vm_compute. repeat split; eexists; reflexivity. Qed.

(* DESIGN.md section 7 row 14: with the code as found, a page that carries common prefixes AND
   contents yields no object link; the walk ends without a.png *)
Lemma s3_mixed_refuted :
  exists c b P0 sched V A k,
    1 <= c_max c /\ sorted_keysb b = true /\
    s3_walk true c b P0 sched = Done V A /\ In k (wanted b P0) /\ ~ In k A.
Proof.
  exists (Cfg V2 (Some slash) 1000), [(bs "a.png", 10%N); (bs "d/x.png", 5%N)], [], [0; 0; 0].
  eexists. eexists. exists (bs "a.png"). split; [simpl; lia|]. split; [reflexivity|].
  split; [vm_compute; reflexivity|]. split; [vm_compute; left; reflexivity|].
  vm_compute. intros [H|[]]. discriminate.
Qed.
