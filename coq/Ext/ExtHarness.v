(* C19 - what the generated case files evaluate: model-vs-implementation differences ([*diffs]) and the
   property's monitors on the implementation's own answers ([*mons]; they do not call the model's
   extraction functions, only list membership and the specification-level predicates). *)
From ZenoV Require Import Lib.Harness Ext.FileExt Ext.Json Ext.Xml Ext.M3u8 Ext.S3.

(* ===== hasFileExtension ============================================================== *)
(* [f_expect]: what the generator built (Some true: last path segment has an extension; Some false:
   it has none and the path is not empty; None: no expectation, e.g. not a URL) *)
Record fcase := FC { f_s : bytes; f_expect : option bool; f_obs : bool }.

Fixpoint take_until (c : ascii) (s : bytes) : bytes :=
  match s with [] => [] | a :: r => if Ascii.eqb a c then [] else a :: take_until c r end.

(* the specification, computed from the end of the string: the text after the last '/' of the string
   without fragment and query has a '.', and the text after its last '.' is not empty *)
Definition spec_ext (s : bytes) : bool :=
  let body := take_until ch_qmark (take_until ch_hash s) in
  let rseg := take_until ch_slash (rev body) in          (* reversed last segment *)
  let rext := take_until ch_dot rseg in                   (* reversed text after the last dot *)
  negb (Nat.eqb (List.length rext) 0) && Nat.ltb (List.length rext) (List.length rseg).

Definition fdiff (c : fcase) : bool := negb (Bool.eqb (has_file_ext (f_s c)) (f_obs c)).
Definition fmon_spec (c : fcase) : bool := Bool.eqb (spec_ext (f_s c)) (f_obs c).
Definition fmon_built (c : fcase) : bool :=
  match f_expect c with Some e => Bool.eqb e (f_obs c) | None => true end.
Definition fdiffs (l : list fcase) := bad_idx fdiff l.
Definition fmons (l : list fcase) := mon_idx [fmon_spec; fmon_built] l.

(* ===== JSON ========================================================================== *)
Record jcase := JC {
  j_doc : option jv;                 (* None: the rendering is malformed *)
  j_valid : list bytes;              (* the strings of the document that isValidURL accepts (oracle) *)
  j_assets : list bytes;             (* planted absolute http(s) URLs, last path segment with extension *)
  j_outlinks : list bytes;           (* planted absolute http(s) URLs without extension, non-empty path *)
  j_hard : list bytes;               (* planted absolute http(s) URLs fasturl is known to reject *)
  j_hostonly : list bytes;           (* planted host-only URLs *)
  j_embws : list bytes;              (* planted in embedded JSON surrounded by white space (found since the fix) *)
  j_err : bool; j_oa : list bytes; j_oo : list bytes }.

Definition jdiff (c : jcase) : bool :=
  let '(e, a, o) := json_extract (tv (j_valid c)) (j_doc c) in
  negb (Bool.eqb e (j_err c) && same_multiset a (j_oa c) && same_multiset o (j_oo c)).

Definition jmon_planted (c : jcase) : bool :=
  j_err c || (inclb (j_assets c) (j_oa c) && inclb (j_outlinks c) (j_oo c)).
Definition jmon_sound (c : jcase) : bool :=
  match j_doc c with
  | Some v => inclb (j_oa c ++ j_oo c) (all_strings v)
  | None => is_nil (j_oa c ++ j_oo c)
  end.
Definition jmon_error (c : jcase) : bool :=
  Bool.eqb (j_err c) (match j_doc c with None => true | Some _ => false end).
Definition jmon_hard (c : jcase) : bool := j_err c || inclb (j_hard c) (j_oa c ++ j_oo c).
Definition jmon_hostonly (c : jcase) : bool := j_err c || inclb (j_hostonly c) (j_oo c).
Definition jmon_embws (c : jcase) : bool := j_err c || inclb (j_embws c) (j_oa c ++ j_oo c).
Definition jdiffs (l : list jcase) := bad_idx jdiff l.
Definition jmons (l : list jcase) :=
  mon_idx [jmon_planted; jmon_sound; jmon_error; jmon_hard; jmon_hostonly; jmon_embws] l.

(* ===== XML =========================================================================== *)
Record xcase := XC {
  x_doc : option (list xnode);
  x_assets : list bytes; x_outlinks : list bytes; x_hostonly : list bytes;
  x_expect_sitemap : option bool;
  x_err : bool; x_oa : list bytes; x_oo : list bytes; x_sitemap : bool }.

Definition xdiff (c : xcase) : bool :=
  let '(e, a, o) := xml_extract (x_doc c) in
  negb (Bool.eqb e (x_err c) && same_multiset a (x_oa c) && same_multiset o (x_oo c)
        && match x_doc c with Some d => Bool.eqb (is_sitemap d) (x_sitemap c) | None => true end).

(* what a node could contribute: an attribute value; a character-data node as it is or cut before a
   tail without any visible ASCII byte (white space in whatever encoding); what xurls reports *)
Definition visible (a : ascii) : bool := (nb a <? 128)%N && negb (ascii_ws a).
Definition from_text (u t : bytes) : bool :=
  prefixb u t && negb (existsb visible (skipn (List.length u) t)).
Definition from_node (u : bytes) (n : xnode) : bool :=
  match n with
  | XElem _ attrs _ => memb u (map snd attrs)
  | XText t f => from_text u t || memb u f
  | XCData t f => from_text u t || memb u f
  | _ => false
  end.

Definition xmon_planted (c : xcase) : bool :=
  x_err c || (inclb (x_assets c) (x_oa c) && inclb (x_outlinks c) (x_oo c)).
Definition xmon_sound (c : xcase) : bool :=
  match x_doc c with
  | Some d => forallb (fun u => existsb (from_node u) (doc_nodes d)) (x_oa c ++ x_oo c)
  | None => is_nil (x_oa c ++ x_oo c)
  end.
Definition xmon_error (c : xcase) : bool :=
  Bool.eqb (x_err c) (match x_doc c with None => true | Some _ => false end).
Definition xmon_hostonly (c : xcase) : bool := x_err c || inclb (x_hostonly c) (x_oo c).
Definition xmon_sitemap (c : xcase) : bool :=
  match x_expect_sitemap c with Some e => Bool.eqb e (x_sitemap c) | None => true end.
Definition xdiffs (l : list xcase) := bad_idx xdiff l.
Definition xmons (l : list xcase) :=
  mon_idx [xmon_planted; xmon_sound; xmon_error; xmon_hostonly; xmon_sitemap] l.

(* ===== M3U8 ========================================================================== *)
Record mcase := MC {
  m_pl : option playlist;
  m_planted : list bytes;            (* segment / variant / referenced-rendition URIs *)
  m_unref : list bytes;              (* rendition URIs whose group no variant names *)
  m_err : bool; m_obs : list bytes }.

Definition mdiff (c : mcase) : bool :=
  let '(e, u) := m3u8_extract (m_pl c) in
  negb (Bool.eqb e (m_err c) && same_set u (m_obs c)).

Definition playlist_uris (p : playlist) : list bytes :=
  match p with
  | PMedia segs => segs
  | PMaster ls => flat_map (fun l => match l with LAlt a => [a_uri a] | LVar v => [v_uri v] | LIFrame v => [v_uri v] end) ls
  end.
Definition mmon_planted (c : mcase) : bool := m_err c || inclb (m_planted c) (m_obs c).
Definition mmon_sound (c : mcase) : bool :=
  match m_pl c with
  | Some p => inclb (m_obs c) (playlist_uris p) && negb (memb [] (m_obs c))
  | None => is_nil (m_obs c)
  end.
Definition mmon_error (c : mcase) : bool :=
  Bool.eqb (m_err c) (match m_pl c with None => true | Some _ => false end).
Definition mmon_unref (c : mcase) : bool := m_err c || inclb (m_unref c) (m_obs c).
Definition mdiffs (l : list mcase) := bad_idx mdiff l.
Definition mmons (l : list mcase) := mon_idx [mmon_planted; mmon_sound; mmon_error; mmon_unref] l.

(* ===== S3 bucket walks =============================================================== *)
(* one fetched listing request: the page the Go bucket simulator served and the links the real
   extractor.S3 returned for it (listing requests, object keys) *)
Record s3obs := TR { t_req : req; t_page : page; t_reqs : list req; t_objs : list bytes }.
Record s3case := S3C {
  s_cfg : cfg; s_bucket : list obj; s_root : bytes;
  s_sched : list nat;                (* the fetch decisions the driver made *)
  s_trace : list s3obs;              (* fetched requests in fetch order *)
  s_done : bool;                     (* the driver's walk ran out of pending requests *)
  s_reached : list bytes }.          (* object keys queued *)

Definition obj_eqb (a c : obj) : bool := bytes_eqb (fst a) (fst c) && N.eqb (snd a) (snd c).
Fixpoint list_eqb {A} (eqb : A -> A -> bool) (u v : list A) : bool :=
  match u, v with
  | [], [] => true
  | a :: u', c :: v' => eqb a c && list_eqb eqb u' v'
  | _, _ => false
  end.
Definition opt_nat_eqb (a c : option nat) : bool :=
  match a, c with Some x, Some y => Nat.eqb x y | None, None => true | _, _ => false end.
Definition page_eqb (a c : page) : bool :=
  list_eqb bytes_eqb (p_cps a) (p_cps c) && list_eqb obj_eqb (p_contents a) (p_contents c)
  && Bool.eqb (p_trunc a) (p_trunc c) && opt_nat_eqb (p_next a) (p_next c).
Definition reqs_same (u v : list req) : bool :=
  Nat.eqb (List.length u) (List.length v)
  && forallb (fun x => existsb (req_eqb x) v) u && forallb (fun x => existsb (req_eqb x) u) v.

Definition obs_ok (c : s3case) (t : s3obs) : bool :=
  page_eqb (serve (s_cfg c) (s_bucket c) (t_req t)) (t_page t)
  && (let '(rs, os) := links false (s_cfg c) (t_req t) (t_page t) in
      reqs_same rs (t_reqs t) && same_multiset os (t_objs t)).

Definition s3diff (c : s3case) : bool :=
  negb (sorted_keysb (s_bucket c)
        && forallb (obs_ok c) (s_trace c)
        && match s3_walk false (s_cfg c) (s_bucket c) (s_root c) (s_sched c) with
           | Done vis reached =>
               s_done c && list_eqb req_eqb vis (map t_req (s_trace c)) && same_multiset reached (s_reached c)
           | OutOfFuel => negb (s_done c)
           end).

Definition s3mon_complete (c : s3case) : bool := inclb (wanted (s_bucket c) (s_root c)) (s_reached c).
Definition s3mon_sound (c : s3case) : bool := inclb (s_reached c) (wanted (s_bucket c) (s_root c)).
Definition s3mon_terminates (c : s3case) : bool :=
  s_done c && (N.of_nat (List.length (s_sched c)) <=? walk_bound_N (s_cfg c) (s_bucket c))%N.
Definition s3diffs (l : list s3case) := bad_idx s3diff l.
Definition s3mons (l : list s3case) := mon_idx [s3mon_complete; s3mon_sound; s3mon_terminates] l.

(* ===== post-processing of a fetched document ========================================= *)
From ZenoV Require Import Ext.Post Ext.PostPos.

Record pcase := PC {
  pc_in : pin;
  pc_pos : pos;                      (* where the document sits in its seed's tree: the edges from the seed down to it *)
  pc_html : bool;                    (* oracle (mimetype): the sniffed MIME type contains "html" *)
  pc_kids : list bytes;              (* planted URLs expected among the children (assets) *)
  pc_outs : list bytes;              (* planted URLs expected among the outlinks while the hop limit allows *)
  pc_depths : N * N;                 (* observed on the real item: GetDepth(), GetDepthWithoutRedirections() *)
  pc_children : list (bytes * N);    (* observed: children of the item (URL, hops) *)
  pc_outlinks : list (bytes * N) }.  (* observed: outlink items returned (URL, hops) *)

Definition pair_eqb (a c : bytes * N) : bool := bytes_eqb (fst a) (fst c) && N.eqb (snd a) (snd c).
Definition same_mset_p (l1 l2 : list (bytes * N)) : bool :=
  Nat.eqb (List.length l1) (List.length l2)
  && forallb (fun x => Nat.eqb (List.length (filter (pair_eqb x) l1)) (List.length (filter (pair_eqb x) l2))) l1.

Definition same_set_p (l1 l2 : list (bytes * N)) : bool :=
  forallb (fun x => existsb (pair_eqb x) l2) l1 && forallb (fun x => existsb (pair_eqb x) l1) l2.

(* the playlist parser attaches a rendition to a variant once per line read, so a master playlist
   yields its rendition URIs several times: children of a playlist are compared as a set.
   The two depths of the real item are compared with the shared tree model's (Tree/Item.v through
   PostPos.doc_dwr, encoded + 1) on the path the driver built. *)
Definition pdiff (c : pcase) : bool :=
  let ch := post_children_at (pc_pos c) (pc_html c) (pc_in c) in
  negb ((match p_doc (pc_in c) with
         | PM3u8 _ => same_set_p ch (pc_children c)
         | _ => same_mset_p ch (pc_children c)
         end)
        && same_mset_p (post_outlinks_at (pc_pos c) (pc_html c) (pc_in c)) (pc_outlinks c)
        && N.eqb (fst (pc_depths c)) (N.of_nat (doc_depth (pc_pos c)))
        && match doc_dwr (pc_pos c) with Some d => N.eqb (N.succ (snd (pc_depths c))) (N.of_nat d) | None => false end).

Definition pmon_hops (c : pcase) : bool :=
  forallb (fun x => N.eqb (snd x) (p_hops (pc_in c))) (pc_children c)
  && forallb (fun x => N.eqb (snd x) (p_hops (pc_in c) + 1)) (pc_outlinks c).
Definition pmon_guard (c : pcase) : bool :=
  if (p_hops (pc_in c) <? p_maxhops (pc_in c))%N then true else is_nil (pc_outlinks c).
Definition planted_found (c : pcase) : bool :=
  inclb (pc_kids c) (map fst (pc_children c))
  && (if (p_hops (pc_in c) <? p_maxhops (pc_in c))%N then inclb (pc_outs c) (map fst (pc_outlinks c)) else true).
(* the document as a freshly archived seed (C19_post_split) *)
Definition pmon_planted (c : pcase) : bool :=
  negb (p_body (pc_in c)) || negb (is_nil (pc_pos c)) || planted_found c.
(* the document reaches post-processing at all: the archiver kept its body *)
Definition pmon_body (c : pcase) : bool := p_body (pc_in c).
(* C19_post_at_all_found on the observed answers: at asset depth <= 2 - asset edges of the position counted,
   redirection edges not - every planted link is extracted, wherever the redirections sit (the guard is a
   function of the input position, no model step is called) *)
Definition pmon_depth (c : pcase) : bool :=
  negb (p_body (pc_in c)) || Nat.ltb 2 (nchild (pc_pos c)) || (Nat.eqb (nchild (pc_pos c)) 1 && pc_html c)
  || planted_found c.
Definition pdiffs (l : list pcase) := bad_idx pdiff l.
Definition pmons (l : list pcase) := mon_idx [pmon_hops; pmon_guard; pmon_planted; pmon_body; pmon_depth] l.
