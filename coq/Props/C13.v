(* C13 - Per-host politeness: bounded request rate and honoured back-off penalties.
   This file contains only the property theorems; each is closed by [exact] of a lemma proved in
   Rate/BucketProofs.v or Rate/ManagerProofs.v and followed by Print Assumptions.

   Everywhere: c = capacity >= 0, r = configured rate >= 0 (also below 1/2), t0 = creation time,
   histories are lists of the atomic operations Try / Fail status / Succ with their clock readings
   (every real operation runs under the bucket's mutex, so a schedule of concurrent callers IS such
   a list; Wait() is a run of Try polls, lemma wait_polls_history). *)
From Coq Require Import QArith Qminmax.
From ZenoV Require Import Rate.Bucket Rate.BucketProofs Rate.Manager Rate.ManagerProofs Rate.Sweep Rate.SweepProofs Rate.Cancel Rate.CancelProofs.
Open Scope Z_scope.

(* After every history - whatever the timing, monotone or not - tokens stay within [0, capacity]. *)
Theorem C13_tokens_range : forall c r t0 h,
  (0 <= c)%Q -> (0 <= r)%Q ->
  let b := final (new_bucket c r t0) h in (0 <= tokens b)%Q /\ (tokens b <= c)%Q.
Proof. exact tokens_range_lemma. Qed.
Print Assumptions C13_tokens_range.

(* ... and the refill rate stays within [min(1/2, r), r]. *)
Theorem C13_rate_range : forall c r t0 h,
  (0 <= c)%Q -> (0 <= r)%Q ->
  let b := final (new_bucket c r t0) h in (Qmin (1 # 2) r <= rate b)%Q /\ (rate b <= r)%Q.
Proof. exact rate_range_lemma. Qed.
Print Assumptions C13_rate_range.

(* Window bound: after any prefix h1, a stretch h2 of operations with non-decreasing clock
   readings inside [t1, t2] releases at most capacity + (t2 - t1) * r requests. *)
Theorem C13_window_bound : forall c r t0 h1 h2 t1 t2,
  (0 <= c)%Q -> (0 <= r)%Q -> chain t1 h2 -> end_time t1 h2 <= t2 ->
  (glen (grants (final (new_bucket c r t0) h1) h2) <= c + secs (t2 - t1) * r)%Q.
Proof. exact window_bound_lemma. Qed.
Print Assumptions C13_window_bound.

(* Penalty: after a 429/403/408/425 at time f bringing the failure count to k (k >= 1), nothing is
   released before f + min(5 s * 2^(k-1), 30 s), whatever follows (further failures of either
   kind, successes, any number of pollers). *)
Theorem C13_penalty_honoured : forall c r t0 h1 f s h2 t,
  (0 <= c)%Q -> (0 <= r)%Q -> is_throttle s = true -> chain f h2 ->
  let b1 := fst (step (final (new_bucket c r t0) h1) (Fail f s)) in
  1 <= fails b1 /\ (In t (grants b1 h2) -> f + penalty_spec (fails b1) <= t).
Proof. exact penalty_honoured_lemma. Qed.
Print Assumptions C13_penalty_honoured.

(* A 5xx in any reachable state only lowers the rate, not below min(1/2, r), and imposes no penalty. *)
Theorem C13_five_xx_only_lowers : forall c r t0 h now s,
  (0 <= c)%Q -> (0 <= r)%Q -> is_5xx s = true ->
  let b := final (new_bucket c r t0) h in
  let b' := fail now s b in
  (rate b' <= rate b)%Q /\ (Qmin (1 # 2) r <= rate b')%Q /\ pen b' = pen b.
Proof. exact five_xx_only_lowers_lemma. Qed.
Print Assumptions C13_five_xx_only_lowers.

(* A success in any reachable state only raises the rate, never above r; tokens and penalty untouched. *)
Theorem C13_success_only_raises_to_ideal : forall c r t0 h now,
  (0 <= c)%Q -> (0 <= r)%Q ->
  let b := final (new_bucket c r t0) h in
  let b' := succ now b in
  (rate b <= rate b')%Q /\ (rate b' <= r)%Q /\ tokens b' = tokens b /\ pen b' = pen b.
Proof. exact success_only_raises_lemma. Qed.
Print Assumptions C13_success_only_raises_to_ideal.

(* Manager: from the empty table, along every label list the code can produce (every eviction
   choice, cleanup, interleaving), with non-empty host names and fewer than 2^31-1 getBucket calls,
   the table holds at most max(maxBuckets, 1) buckets.  (Also used by C16.) *)
Theorem C13_table_bounded : forall mx c r ls m gs,
  hosts_nonempty ls -> gets ls < MAXINT32 ->
  mrun (new_manager mx c r) ls = Some (m, gs) ->
  tab_len (mg_tab m) <= Z.max mx 1.
Proof. exact table_bounded_lemma. Qed.
Print Assumptions C13_table_bounded.

(* Manager: while a host is not evicted, its bucket sees exactly the operations addressed to the
   host and the host's releases are exactly that bucket's grants - so the six theorems above hold
   per host for a bucket's lifetime.  (Across an eviction they do not: evict_resets_refuted.) *)
Theorem C13_host_lifetime : forall ls h m e m' gs,
  Manager.find h (mg_tab m) = Some e -> not_evicted h ls -> mrun m ls = Some (m', gs) ->
  exists e', Manager.find h (mg_tab m') = Some e' /\
    me_bucket e' = final (me_bucket e) (host_history h ls) /\
    host_grants h gs = grants (me_bucket e) (host_history h ls).
Proof. exact lifetime_lemma. Qed.
Print Assumptions C13_host_lifetime.

(* The stale-bucket sweep: getBucket stamps the bucket on every access and a cleanup tick deletes only
   buckets whose stamp is older than the period.  Along every history of accesses (to any hosts) and
   ticks in which each tick comes within the period of h's most recent access, h keeps its bucket -
   the one stamped by that access, not a fresh one - so a host in continuous use has ONE bucket
   lifetime and the per-bucket theorems above hold for it across sweeps. *)
Theorem C13_sweep_spares_active_hosts : forall ops period tab h a,
  alookup h tab = Some a -> active h period a ops ->
  alookup h (srun period tab ops) = Some (last_access h a ops).
Proof. exact sweep_spares_active_hosts_lemma. Qed.
Print Assumptions C13_sweep_spares_active_hosts.

(* Stopping the crawl (Rate/Cancel.v): BucketManager.Wait as a blocking call - callers enter (WCall),
   poll (WPoll; the granted poll is the call's only exit), other traffic goes on (WOther) - and the
   context handed to NewBucketManager is cancelled at arbitrary points (WCancel).  Every run of that
   system is a run of the manager WITHOUT the cancellations, and the Wait calls that returned are
   exactly that run's token grants, in order: Wait never returns without a token, cancelled or not. *)
Theorem C13_cancel_wait_returns_only_with_token : forall xs s s' rets,
  wrun s xs = Some (s', rets) ->
  mrun (ws_mgr s) (erase xs) = Some (ws_mgr s', map ret_grant rets).
Proof. exact cancel_returns_are_grants_lemma. Qed.
Print Assumptions C13_cancel_wait_returns_only_with_token.

(* ... so after a throttling failure at f on a host's bucket no Wait(host) returns before f + penalty,
   whatever follows: callers entering and polling, further failures, successes, other hosts, and
   cancellations wherever they fall (archive() sends its request when Wait returns). *)
Theorem C13_cancel_penalty_honoured_across_stop : forall c r t0 h1 f st xs host s e s' rets t,
  (0 <= c)%Q -> (0 <= r)%Q -> is_throttle st = true ->
  Manager.find host (mg_tab (ws_mgr s)) = Some e ->
  me_bucket e = fst (step (final (new_bucket c r t0) h1) (Fail f st)) ->
  not_evicted host (erase xs) -> chain f (host_history host (erase xs)) ->
  wrun s xs = Some (s', rets) ->
  In t (host_returns host rets) -> f + penalty_spec (fails (me_bucket e)) <= t.
Proof. exact cancel_penalty_lemma. Qed.
Print Assumptions C13_cancel_penalty_honoured_across_stop.

(* ... and in any stretch with clock readings inside [t1, t2] at most capacity + (t2 - t1) * rate
   Wait(host) calls return, wherever the cancellations fall. *)
Theorem C13_cancel_window_bound_across_stop : forall c r t0 h1 xs host s e s' rets t1 t2,
  (0 <= c)%Q -> (0 <= r)%Q ->
  Manager.find host (mg_tab (ws_mgr s)) = Some e ->
  me_bucket e = final (new_bucket c r t0) h1 ->
  not_evicted host (erase xs) ->
  chain t1 (host_history host (erase xs)) -> end_time t1 (host_history host (erase xs)) <= t2 ->
  wrun s xs = Some (s', rets) ->
  (glen (host_returns host rets) <= c + secs (t2 - t1) * r)%Q.
Proof. exact cancel_window_lemma. Qed.
Print Assumptions C13_cancel_window_bound_across_stop.
