(* C13 - Per-host politeness: bounded request rate and honoured back-off penalties.
   This file contains only the property theorems; each is closed by [exact] of a lemma proved in
   Rate/BucketProofs.v or Rate/ManagerProofs.v and followed by Print Assumptions.

   Everywhere: c = capacity >= 0, r = configured rate >= 0 (also below 1/2), t0 = creation time,
   histories are lists of the atomic operations Try / Fail status / Succ with their clock readings
   (every real operation runs under the bucket's mutex, so a schedule of concurrent callers IS such
   a list; Wait() is a run of Try polls, lemma wait_polls_history). *)
From Coq Require Import QArith Qminmax.
From ZenoV Require Import Rate.Bucket Rate.BucketProofs Rate.Manager Rate.ManagerProofs Rate.Sweep Rate.SweepProofs.
Open Scope Z_scope.

(* After every history - whatever the timing, monotone or not - tokens stay within [0, capacity]. *)
Theorem C13_tokens_range : forall c r t0 h,
  (0 <= c)%Q -> (0 <= r)%Q ->
  let b := final (new_bucket c r t0) h in (0 <= tokens b)%Q /\ (tokens b <= c)%Q.
Proof. exact tokens_range_lemma. Qed.
Print Assumptions C13_tokens_range.

(* ... and the refill rate stays within [min(1/2, r), r]. *)
Theorem C13_rate_range : forall c r t0 h,
  (0 <= c)%Q -> (0 <= r)%Q ->
  let b := final (new_bucket c r t0) h in (Qmin (1 # 2) r <= rate b)%Q /\ (rate b <= r)%Q.
Proof. exact rate_range_lemma. Qed.
Print Assumptions C13_rate_range.

(* Window bound: after any prefix h1, a stretch h2 of operations with non-decreasing clock
   readings inside [t1, t2] releases at most capacity + (t2 - t1) * r requests. *)
Theorem C13_window_bound : forall c r t0 h1 h2 t1 t2,
  (0 <= c)%Q -> (0 <= r)%Q -> chain t1 h2 -> end_time t1 h2 <= t2 ->
  (glen (grants (final (new_bucket c r t0) h1) h2) <= c + secs (t2 - t1) * r)%Q.
Proof. exact window_bound_lemma. Qed.
Print Assumptions C13_window_bound.

(* Penalty: after a 429/403/408/425 at time f bringing the failure count to k (k >= 1), nothing is
   released before f + min(5 s * 2^(k-1), 30 s), whatever follows (further failures of either
   kind, successes, any number of pollers). *)
Theorem C13_penalty_honoured : forall c r t0 h1 f s h2 t,
  (0 <= c)%Q -> (0 <= r)%Q -> is_throttle s = true -> chain f h2 ->
  let b1 := fst (step (final (new_bucket c r t0) h1) (Fail f s)) in
  1 <= fails b1 /\ (In t (grants b1 h2) -> f + penalty_spec (fails b1) <= t).
Proof. exact penalty_honoured_lemma. Qed.
Print Assumptions C13_penalty_honoured.

(* A 5xx in any reachable state only lowers the rate, not below min(1/2, r), and imposes no penalty. *)
Theorem C13_five_xx_only_lowers : forall c r t0 h now s,
  (0 <= c)%Q -> (0 <= r)%Q -> is_5xx s = true ->
  let b := final (new_bucket c r t0) h in
  let b' := fail now s b in
  (rate b' <= rate b)%Q /\ (Qmin (1 # 2) r <= rate b')%Q /\ pen b' = pen b.
Proof. exact five_xx_only_lowers_lemma. Qed.
Print Assumptions C13_five_xx_only_lowers.

(* A success in any reachable state only raises the rate, never above r; tokens and penalty untouched. *)
Theorem C13_success_only_raises_to_ideal : forall c r t0 h now,
  (0 <= c)%Q -> (0 <= r)%Q ->
  let b := final (new_bucket c r t0) h in
  let b' := succ now b in
  (rate b <= rate b')%Q /\ (rate b' <= r)%Q /\ tokens b' = tokens b /\ pen b' = pen b.
Proof. exact success_only_raises_lemma. Qed.
Print Assumptions C13_success_only_raises_to_ideal.

(* Manager: from the empty table, along every label list the code can produce (every eviction
   choice, cleanup, interleaving), with non-empty host names and fewer than 2^31-1 getBucket calls,
   the table holds at most max(maxBuckets, 1) buckets.  (Also used by C16.) *)
Theorem C13_table_bounded : forall mx c r ls m gs,
  hosts_nonempty ls -> gets ls < MAXINT32 ->
  mrun (new_manager mx c r) ls = Some (m, gs) ->
  tab_len (mg_tab m) <= Z.max mx 1.
Proof. exact table_bounded_lemma. Qed.
Print Assumptions C13_table_bounded.

(* Manager: while a host is not evicted, its bucket sees exactly the operations addressed to the
   host and the host's releases are exactly that bucket's grants - so the six theorems above hold
   per host for a bucket's lifetime.  (Across an eviction they do not: evict_resets_refuted.) *)
Theorem C13_host_lifetime : forall ls h m e m' gs,
  Manager.find h (mg_tab m) = Some e -> not_evicted h ls -> mrun m ls = Some (m', gs) ->
  exists e', Manager.find h (mg_tab m') = Some e' /\
    me_bucket e' = final (me_bucket e) (host_history h ls) /\
    host_grants h gs = grants (me_bucket e) (host_history h ls).
Proof. exact lifetime_lemma. Qed.
Print Assumptions C13_host_lifetime.

(* The stale-bucket sweep: getBucket stamps the bucket on every access and a cleanup tick deletes only
   buckets whose stamp is older than the period.  Along every history of accesses (to any hosts) and
   ticks in which each tick comes within the period of h's most recent access, h keeps its bucket -
   the one stamped by that access, not a fresh one - so a host in continuous use has ONE bucket
   lifetime and the per-bucket theorems above hold for it across sweeps. *)
Theorem C13_sweep_spares_active_hosts : forall ops period tab h a,
  alookup h tab = Some a -> active h period a ops ->
  alookup h (srun period tab ops) = Some (last_access h a ops).
Proof. exact sweep_spares_active_hosts_lemma. Qed.
Print Assumptions C13_sweep_spares_active_hosts.
