(* C15 - Outlinks and finish acks reach the queue intact, despite queue errors.
   This file contains only the property theorems; each is closed by [exact] of a lemma proved
   elsewhere and followed by Print Assumptions.

   Models: Queue/HopsPath.v + Queue/Fields.v (field mappings), Queue/Batcher.v (receiver /
   dispatcher / sender machine of hq.producer, hq.finisher, lq.producer, lq.finisher; the label
   carries every scheduling choice, timer tick and queue answer), Queue/LqDb.v (lq.db table). *)
From Coq Require Import List Bool Arith ZArith NArith Permutation.
From ZenoV Require Import Lib.Hex Queue.HopsPath Queue.Json Queue.Batcher Queue.BatcherProofs
  Queue.LqDb Queue.LqDbProofs Queue.Fields Queue.FieldsProofs.
Import ListNotations.

(* hop count -> HQ path -> hop count is the identity for every hop count; counting is additive;
   the converse holds exactly for all-L paths. *)
Theorem C15_hops_roundtrip :
  (forall h, path_to_hops (hops_to_path h) = h)
  /\ (forall p q, path_to_hops (p ++ q) = (path_to_hops p + path_to_hops q)%N)
  /\ (forall p, hops_to_path (path_to_hops p) = p <-> Forall (fun c => c = chL) p).
Proof. exact hops_roundtrip_lemma. Qed.
Print Assumptions C15_hops_roundtrip.

(* For every parent page, hop count, outlink text and queue-assigned id: the outlink comes back
   as a seed with text unchanged, via = parent page, hops = parent + 1 - through crawl HQ (JSON
   wire + path encoding) whenever text and parent are well-formed UTF-8, through the local queue
   for every byte string and whatever status the row has meanwhile. *)
Theorem C15_outlink_fields_kept : forall parent h text id,
  let o := mk_outlink parent h text in
  (valid_utf8 text = true -> valid_utf8 parent = true ->
     seed_of_hq (hq_assign id (hq_wire (hq_of_outlink o))) = SD id text parent (h + 1))
  /\ seed_of_row (row_of_url (url_of_outlink id o)) = SD id text parent (h + 1)
  /\ (forall st, seed_of_row (Row id text parent (Z.of_N (h + 1)) st) = SD id text parent (h + 1)).
Proof. exact outlink_fields_kept_lemma. Qed.
Print Assumptions C15_outlink_fields_kept.

(* ... and the restriction is needed: for texts that are not well-formed UTF-8 the statement is
   false for the code as it is (known finding: json.Marshal replaces each offending byte by
   U+FFFD on the way to crawl HQ). *)
Theorem C15_outlink_text_via_hq_refuted_for_invalid_utf8 : ~ outlink_fields_kept_hq_stmt.
Proof. exact outlink_fields_kept_hq_refuted. Qed.
Print Assumptions C15_outlink_text_via_hq_refuted_for_invalid_utf8.

(* No drop, nothing invented - for every configuration (batch size, channel capacity, number of
   senders, hq or lq-producer mode), every item type and EVERY label sequence (all interleavings
   of arrivals, timer ticks, hand-overs and requests; all finite sequences of failed and lost
   requests): the received items are, in order, the closed batches followed by the open batch;
   the closed batches are, as a multiset, the acknowledged + given-up + in-flight ones; only the
   lq producer ever gives a batch up and only on a database error; without lost answers the queue
   accepted exactly the acknowledged batches; every request carried a closed batch. *)
Theorem C15_no_drop : forall (A : Type) (c : cfg) (ls : list (label A)) (s : st A),
  Batcher.run c init ls = Some s ->
  List.concat (made s) ++ pending s = items_of ls
  /\ Permutation (made s) (acked s ++ dropped c s ++ inflight s)
  /\ Permutation (items_of ls)
       (List.concat (acked s) ++ List.concat (dropped c s) ++ List.concat (inflight s) ++ pending s)
  /\ (sync c = false -> dropped c s = [])
  /\ (forallb (fun l => negb (is_syncfail_label l)) ls = true -> dropped c s = [])
  /\ (forallb (fun l => negb (is_lost_label l)) ls = true -> accepted s = acked s)
  /\ Forall (fun e => In (fst e) (made s)) (attlog s).
Proof. exact (@no_drop_lemma). Qed.
Print Assumptions C15_no_drop.

(* Errors delay, they never drop: in every reachable state of a running (not stopped) machine
   with a sane configuration, [mu] - at most [mu_bound] = 3*cap + senders + 7 (hq) - further
   productive moves deliver everything received so far; one is always enabled while something
   is outstanding; every productive run has List.length exactly the decrease of [mu]; a failed or
   lost request leaves [mu] unchanged; at [mu] = 0 everything received is acknowledged
   (or, lq producer only, was given up on a database error). *)
Theorem C15_eventually_delivered : forall (A : Type) (c : cfg) (ls : list (label A)) (s : st A),
  cfg_ok c = true -> Batcher.run c init ls = Some s -> stopped s = false ->
  mu c s <= mu_bound c
  /\ (mu c s > 0 -> exists l, productive s l = true /\ step c s l <> None)
  /\ (forall ls' s', prun c s ls' = Some s' -> List.length ls' + mu c s' = mu c s)
  /\ (forall i o s', is_ok o = false -> step c s (Attempt i o) = Some s' -> mu c s' = mu c s)
  /\ (mu c s = 0 ->
        quiet s = true /\ Permutation (items_of ls) (List.concat (acked s) ++ List.concat (dropped c s))).
Proof. exact (@eventually_delivered_lemma). Qed.
Print Assumptions C15_eventually_delivered.

(* Batches are non-empty and at most max(batch size, 1) long; the batch channel and the sender
   pool never exceed their capacity; retry sleeps never exceed max(1, cap) seconds. *)
Theorem C15_batch_bounds : forall (A : Type) (c : cfg) (ls : list (label A)) (s : st A),
  Batcher.run c init ls = Some s ->
  Forall (fun b => b <> [] /\ List.length b <= Nat.max (bsize c) 1) (made s)
  /\ List.length (chan s) <= cap c
  /\ List.length (snds s) <= nsend c
  /\ Forall (fun sd => (s_backoff sd <= N.max 1 (maxbo c))%N) (snds s).
Proof. exact (@bounds_lemma). Qed.
Print Assumptions C15_batch_bounds.

(* Local queue: for every sequence of Add / Get / Delete / Reset / re-open on an initially empty
   table no value (and no id) is ever in two rows; a present value is skipped, an absent one adds
   exactly one FRESH row with the given fields. *)
Theorem C15_lq_no_double_queue :
  (forall os d, LqDb.run [] os = Some d -> NoDup (map r_value d) /\ NoDup (map r_id d))
  /\ (forall d u, has_value d (u_value u) = true -> add_one d u = Some d)
  /\ (forall d u, has_value d (u_value u) = false -> has_id d (u_id u) = false ->
        add_one d u = Some (d ++ [row_of_url u])).
Proof. exact lq_no_double_queue_lemma. Qed.
Print Assumptions C15_lq_no_double_queue.

(* Acknowledgement is by id: Delete removes exactly the rows with the listed ids. *)
Theorem C15_ack_by_id : forall d ids,
  (forall r, In r (delete d ids) <-> In r d /\ mem_id (r_id r) ids = false)
  /\ (forall i, mem_id i ids = true -> has_id (delete d ids) i = false)
  /\ delete d [] = d.
Proof. exact ack_by_id_lemma. Qed.
Print Assumptions C15_ack_by_id.

(* Local queue: id, value, via, hops of every row, and of every row handed to the consumer, are
   those of a URL given to Add - for every operation sequence. *)
Theorem C15_lq_fields_kept : forall os d,
  LqDb.run [] os = Some d ->
  (forall r, In r d -> exists u, In u (added_urls os) /\ row_fields r = url_fields u)
  /\ (forall limit ids d' rows, get d limit ids = Some (d', rows) ->
        map r_id rows = ids
        /\ forall r, In r rows ->
             In r d /\ r_status r = FRESH
             /\ exists u, In u (added_urls os) /\ row_fields r = url_fields u).
Proof. exact lq_fields_kept_lemma. Qed.
Print Assumptions C15_lq_fields_kept.

(* The feed side: a fetch round of any number of concurrent sub-fetches, completing in any order,
   any of them failing - everything a successful sub-fetch received is passed on (becomes a seed if
   it parses, is acknowledged at once if not), nothing else is. *)
Theorem C15_feed_round_keeps_all : forall (parses : bytes -> bool) (results : list (option (list seed))),
  (forall u, In u (round_urls results) <-> exists us, In (Some us) results /\ In u us)
  /\ (forall us u, In (Some us) results -> In u us ->
        (parses (sd_raw u) = true -> In u (seeds_of parses (round_urls results)))
        /\ (parses (sd_raw u) = false -> In (sd_id u) (auto_finished parses (round_urls results))))
  /\ (forall a b : list (option (list seed)), round_urls (a ++ b) = round_urls a ++ round_urls b)
  /\ List.length (round_urls results)
     = fold_right (fun r n => match r with Some us => List.length us + n | None => n end) 0 results.
Proof. exact feed_round_keeps_all_lemma. Qed.
Print Assumptions C15_feed_round_keeps_all.
