(* C18 - Low-disk guard: threshold semantics are exact and monotone.
   This file contains only the property theorems; each is closed by [exact] of a lemma proved
   elsewhere and followed by Print Assumptions. *)
From Coq Require Import QArith Qround Reals.
From Flocq Require Import Core Binary Bits.
From ZenoV Require Import Disk.Threshold Disk.ThresholdProofs Disk.FloatExact Disk.FloatExactProofs.
Import BinarySingleNaN(mode_NE).
Open Scope Z_scope.

(* Exactness.  For every volume size, free space and operator setting for which Go's
   float->uint64 conversion is defined (threshold below 2^64 bytes), the guard refuses
   exactly when free < floor(tau), i.e. free + 1 <= tau: exact to the byte. *)
Theorem C18_refuse_exact : forall total free ms t,
  tau total ms = Some t -> Qfloor t < two64 ->
  refuse total free ms = Some (free <? Qfloor t)
  /\ (refuse total free ms = Some true <-> (inject_Z free + 1 <= t)%Q)
  /\ (refuse total free ms = Some true -> (inject_Z free < t)%Q)
  /\ (refuse total free ms = Some false -> (t - 1 < inject_Z free)%Q).
Proof. exact refuse_exact_lemma. Qed.
Print Assumptions C18_refuse_exact.

(* The default threshold is always in the defined domain. *)
Theorem C18_default_representable : forall total ms t,
  0 <= total < two64 -> fl_pos ms = false -> tau total ms = Some t -> Qfloor t < two64.
Proof. exact default_representable. Qed.
Print Assumptions C18_default_representable.

(* Monotone: more free space never turns an accept into a refusal - for ALL inputs,
   including NaN, infinities, negative and out-of-range operator values. *)
Theorem C18_refuse_monotone : forall conv total free free' ms,
  free <= free' -> refuse_conv conv total free' ms = true -> refuse_conv conv total free ms = true.
Proof. exact refuse_monotone_lemma. Qed.
Print Assumptions C18_refuse_monotone.

Theorem C18_branches_meet :
  threshold_int (256 * GiB) (FFin false 0 0) = Some (50 * GiB)
  /\ threshold_int (256 * GiB + 1) (FFin false 0 0) = Some (50 * GiB).
Proof. exact branches_meet_lemma. Qed.
Print Assumptions C18_branches_meet.

Theorem C18_threshold_monotone_in_total : forall total total' ms t t',
  0 <= total <= total' -> fl_pos ms = false ->
  threshold_int total ms = Some t -> threshold_int total' ms = Some t' -> t <= t' <= 50 * GiB.
Proof. exact threshold_monotone_in_total_lemma. Qed.
Print Assumptions C18_threshold_monotone_in_total.

(* While running: after every tick the watcher has paused iff the last sample was low,
   and its Pause/Resume calls strictly alternate, starting with Pause. *)
Theorem C18_watcher_tracks : forall p obs o, fst (ticks p (obs ++ [o])) = o.
Proof. exact watcher_tracks_lemma. Qed.
Print Assumptions C18_watcher_tracks.

Theorem C18_watcher_alternates : forall p obs,
  alternating (negb p) (snd (ticks p obs)) = true.
Proof. exact watcher_alternates_lemma. Qed.
Print Assumptions C18_watcher_alternates.

(* ---- IEEE-754: the float computation of checkThreshold, operation by operation in Flocq's binary64
   (Disk/FloatExact.v), is the integer model [refuse] on every volume size, every free-space value and
   EVERY binary64 operator value (NaN, infinities, subnormals, negative, overflowing included): both
   sides give the same verdict, and are undefined ([None]: Go leaves uint64(f) to the implementation)
   on exactly the same inputs.  With C18_refuse_exact: the real float code decides free < floor(tau).
   These four theorems rest on Flocq's specification of binary64 over the real numbers; Print
   Assumptions lists the standard library's axioms of R (ClassicalDedekindReals.sig_forall_dec,
   sig_not_dec, FunctionalExtensionality.functional_extensionality_dep, Classical_Prop.classic). *)
Theorem C18_float_exact : forall (total free : Z) (ms : binary64),
  0 <= total ->
  refuse_float total free ms = refuse total free (fl_of_b64 ms).
Proof. exact refuse_float_exact_lemma. Qed.
Print Assumptions C18_float_exact.

(* The default rule never rounds: for a volume of at most 256 GiB, float64(total) is total, the quotient
   by float64(256*GB) and the product with float64(50*GB) are the exact real numbers, = total*25/128. *)
Theorem C18_float_default_exact : forall total : Z,
  0 <= total <= 256 * GiB ->
  let q := b64_div mode_NE (b64_of_Z total) (b64_of_Z (256 * GiB)) in
  let p := b64_mult mode_NE (b64_of_Z (50 * GiB)) q in
  B2R 53 1024 (b64_of_Z total) = IZR total
  /\ B2R 53 1024 q = (IZR total / IZR (256 * GiB))%R
  /\ is_finite 53 1024 p = true
  /\ B2R 53 1024 p = (IZR (50 * GiB) * (IZR total / IZR (256 * GiB)))%R
  /\ B2R 53 1024 p = (IZR (total * 25) / IZR 128)%R.
Proof. exact default_value_lemma. Qed.
Print Assumptions C18_float_default_exact.

(* The operator rule never rounds either: for every finite positive binary64 ms (subnormals included),
   ms * float64(GB) is the exact real product ms * 2^30 when that is below 2^1024, and +Inf otherwise. *)
Theorem C18_float_operator_exact :
  forall (m : positive) (e : Z) (Hb : SpecFloat.bounded 53 1024 m e = true),
  let ms := B754_finite 53 1024 false m e Hb in
  let p := b64_mult mode_NE ms (b64_of_Z GiB) in
  (B2R 53 1024 ms * bpow radix2 30 < bpow radix2 1024)%R
    /\ is_finite 53 1024 p = true /\ B2R 53 1024 p = (B2R 53 1024 ms * bpow radix2 30)%R
  \/ (bpow radix2 1024 <= B2R 53 1024 ms * bpow radix2 30)%R /\ p = B754_infinity 53 1024 false.
Proof. exact operator_product_lemma. Qed.
Print Assumptions C18_float_operator_exact.

(* The harness bridge: every (sign, m, e) decomposition of a finite binary64 x is rebuilt into x itself. *)
Theorem C18_float_bridge : forall (x : binary64) (neg : bool) (m e : Z),
  is_finite 53 1024 x = true -> 0 <= m ->
  B2R 53 1024 x = F2R (Float radix2 (cond_Zopp neg m) e) -> Bsign 53 1024 x = neg ->
  b64_of_fl (FFin neg m e) = x.
Proof. exact b64_of_fl_value_lemma. Qed.
Print Assumptions C18_float_bridge.
