(* C18 - Low-disk guard: threshold semantics are exact and monotone.
   This file contains only the property theorems; each is closed by [exact] of a lemma proved
   elsewhere and followed by Print Assumptions. *)
From Coq Require Import QArith Qround.
From ZenoV Require Import Disk.Threshold Disk.ThresholdProofs.
Open Scope Z_scope.

(* Exactness.  For every volume size, free space and operator setting for which Go's
   float->uint64 conversion is defined (threshold below 2^64 bytes), the guard refuses
   exactly when free < floor(tau), i.e. free + 1 <= tau: exact to the byte. *)
Theorem C18_refuse_exact : forall total free ms t,
  tau total ms = Some t -> Qfloor t < two64 ->
  refuse total free ms = Some (free <? Qfloor t)
  /\ (refuse total free ms = Some true <-> (inject_Z free + 1 <= t)%Q)
  /\ (refuse total free ms = Some true -> (inject_Z free < t)%Q)
  /\ (refuse total free ms = Some false -> (t - 1 < inject_Z free)%Q).
Proof. exact refuse_exact_lemma. Qed.
Print Assumptions C18_refuse_exact.

(* The default threshold is always in the defined domain. *)
Theorem C18_default_representable : forall total ms t,
  0 <= total < two64 -> fl_pos ms = false -> tau total ms = Some t -> Qfloor t < two64.
Proof. exact default_representable. Qed.
Print Assumptions C18_default_representable.

(* Monotone: more free space never turns an accept into a refusal - for ALL inputs,
   including NaN, infinities, negative and out-of-range operator values. *)
Theorem C18_refuse_monotone : forall conv total free free' ms,
  free <= free' -> refuse_conv conv total free' ms = true -> refuse_conv conv total free ms = true.
Proof. exact refuse_monotone_lemma. Qed.
Print Assumptions C18_refuse_monotone.

Theorem C18_branches_meet :
  threshold_int (256 * GiB) (FFin false 0 0) = Some (50 * GiB)
  /\ threshold_int (256 * GiB + 1) (FFin false 0 0) = Some (50 * GiB).
Proof. exact branches_meet_lemma. Qed.
Print Assumptions C18_branches_meet.

Theorem C18_threshold_monotone_in_total : forall total total' ms t t',
  0 <= total <= total' -> fl_pos ms = false ->
  threshold_int total ms = Some t -> threshold_int total' ms = Some t' -> t <= t' <= 50 * GiB.
Proof. exact threshold_monotone_in_total_lemma. Qed.
Print Assumptions C18_threshold_monotone_in_total.

(* While running: after every tick the watcher has paused iff the last sample was low,
   and its Pause/Resume calls strictly alternate, starting with Pause. *)
Theorem C18_watcher_tracks : forall p obs o, fst (ticks p (obs ++ [o])) = o.
Proof. exact watcher_tracks_lemma. Qed.
Print Assumptions C18_watcher_tracks.

Theorem C18_watcher_alternates : forall p obs,
  alternating (negb p) (snd (ticks p obs)) = true.
Proof. exact watcher_alternates_lemma. Qed.
Print Assumptions C18_watcher_alternates.
