(* C19 - Structured documents yield all their links; bucket listings are fully walked.
   This file contains only the property theorems; each is closed by [exact] of a lemma proved in
   coq/Ext/*Proofs.v and followed by Print Assumptions. *)
From Coq Require Import List Ascii String NArith Bool.
From ZenoV Require Import Ext.FileExt Ext.FileExtProofs Ext.Json Ext.JsonProofs Ext.Xml Ext.XmlProofs
  Ext.M3u8 Ext.M3u8Proofs Ext.S3 Ext.S3Proofs Ext.Post Ext.PostProofs Ext.PostPos Ext.PostPosProofs.
Import ListNotations.

(* ---- assets versus outlinks: hasFileExtension ---------------------------------------------- *)

(* For every string: hasFileExtension is true exactly when the text after the last '/' of the string
   without "#..." and without "?..." has a '.' whose last occurrence is not its last byte. *)
Theorem C19_file_ext_spec : forall s,
  has_file_ext s = true <->
  exists s1 s2 seg a b,
    cut_at ch_hash s = s1 /\ cut_at ch_qmark s1 = s2 /\ after_last ch_slash s2 = seg /\
    seg = a ++ ch_dot :: b /\ b <> [] /\ ~ In ch_dot b.
Proof. exact file_ext_spec_lemma. Qed.
Print Assumptions C19_file_ext_spec.

(* For every URL scheme://authority/path[?query][#fragment] that text is the last path segment,
   whatever dots and slashes the authority, the query and the fragment contain. *)
Theorem C19_file_ext_is_last_segment : forall scheme auth path q f,
  no3 scheme -> no3 auth -> ~ In ch_hash path -> ~ In ch_qmark path ->
  opt_part ch_qmark q -> ~ In ch_hash q -> opt_part ch_hash f ->
  has_file_ext (scheme ++ sep ++ auth ++ ch_slash :: path ++ q ++ f) = seg_has_ext (after_last ch_slash path).
Proof. exact file_ext_is_last_segment_lemma. Qed.
Print Assumptions C19_file_ext_is_last_segment.

(* For a host-only URL it is the authority (known finding: https://example.com is an "asset"). *)
Theorem C19_file_ext_host_only : forall scheme auth q f,
  no3 scheme -> no3 auth -> opt_part ch_qmark q -> ~ In ch_hash q -> opt_part ch_hash f ->
  has_file_ext (scheme ++ sep ++ auth ++ q ++ f) = seg_has_ext auth.
Proof. exact file_ext_host_only_lemma. Qed.
Print Assumptions C19_file_ext_host_only.

(* ---- JSON ---------------------------------------------------------------------------------- *)

(* For every decoded document, every verdict function of the URL oracle (fasturl) and every string
   value [u] at any nesting depth - through arrays, objects and JSON embedded in a string that is not
   itself a URL and passes isLikelyJSON - that the oracle accepts: [u] is returned, among the assets
   when it has a file extension and among the outlinks otherwise. *)
Theorem C19_json_all_found : forall (valid : bytes -> bool) v u emb,
  visits valid v (JStr u emb) -> valid u = true ->
  (has_file_ext u = true -> In u (json_assets valid v))
  /\ (has_file_ext u = false -> In u (json_outlinks valid v)).
Proof. exact json_all_found_lemma. Qed.
Print Assumptions C19_json_all_found.

(* Nothing else is returned. *)
Theorem C19_json_only_found : forall (valid : bytes -> bool) v u,
  In u (json_assets valid v) \/ In u (json_outlinks valid v) ->
  valid u = true /\ exists emb, visits valid v (JStr u emb).
Proof. exact json_only_found_lemma. Qed.
Print Assumptions C19_json_only_found.

(* White space around embedded JSON does not hide it: isLikelyJSON judges the trimmed text. *)
Theorem C19_json_embedded_padded : forall c0 mid c1 ws1 ws2,
  plain_byte c0 = true -> plain_byte c1 = true ->
  forallb ascii_ws ws1 = true -> forallb ascii_ws ws2 = true ->
  is_likely_json (ws1 ++ c0 :: mid ++ c1 :: ws2) = is_likely_json_orig (c0 :: mid ++ [c1]).
Proof. exact likely_json_padded_lemma. Qed.
Print Assumptions C19_json_embedded_padded.

(* ---- XML, RSS, sitemaps -------------------------------------------------------------------- *)

(* For every token tree and every node of it at any depth: every attribute value that starts with
   "http", every text / CDATA node that starts with "http" (white space around it trimmed) and every
   URL the regex finds in other character data is returned. *)
Theorem C19_xml_all_found : forall doc n,
  In n (doc_nodes doc) ->
  match n with
  | XElem _ attrs _ => forall k v, In (k, v) attrs -> prefixb http4 v = true -> In v (xml_urls doc)
  | XText t f | XCData t f =>
      (prefixb http4 t = true -> In (trim_space t) (xml_urls doc))
      /\ (prefixb http4 t = false -> forall u, In u f -> In u (xml_urls doc))
  | _ => True
  end.
Proof. exact xml_all_found_lemma. Qed.
Print Assumptions C19_xml_all_found.

Theorem C19_xml_only_found : forall doc u,
  In u (xml_urls doc) -> exists n, In n (doc_nodes doc) /\ node_yields trim_space n u.
Proof. exact xml_only_found_lemma. Qed.
Print Assumptions C19_xml_only_found.

(* A URL followed by the line break and indentation of a pretty-printed document is given back as
   the URL itself. *)
Theorem C19_xml_trim_url : forall c0 mid c1 ws,
  plain_byte c0 = true -> plain_byte c1 = true -> forallb ascii_ws ws = true ->
  trim_space (c0 :: mid ++ c1 :: ws) = c0 :: mid ++ [c1].
Proof. exact trim_space_url_lemma. Qed.
Print Assumptions C19_xml_trim_url.

(* Assets are exactly the returned URLs with a file extension, outlinks the others; for a sitemap
   all of them are queued as outlinks. *)
Theorem C19_xml_split : forall doc u,
  (In u (xml_assets doc) <-> In u (xml_urls doc) /\ has_file_ext u = true)
  /\ (In u (xml_outlinks doc) <-> In u (xml_urls doc) /\ has_file_ext u = false)
  /\ (In u (sitemap_outlinks doc) <-> In u (xml_urls doc)).
Proof. exact xml_split. Qed.
Print Assumptions C19_xml_split.

Theorem C19_sitemap_detected : forall doc,
  is_sitemap doc = true <-> exists n, In n (doc_nodes doc) /\ node_marks n = true.
Proof. exact sitemap_detected_lemma. Qed.
Print Assumptions C19_sitemap_detected.

(* ---- M3U8 ---------------------------------------------------------------------------------- *)

(* Every non-empty segment URI of a media playlist, every non-empty variant / I-frame URI of a master
   playlist, and every non-empty rendition URI whose group some variant names. *)
Theorem C19_m3u8_all_found :
  (forall segs u, In u segs -> u <> [] -> In u (m3u8_uris (PMedia segs)))
  /\ (forall ls v, (In (LVar v) ls \/ In (LIFrame v) ls) -> v_uri v <> [] -> In (v_uri v) (m3u8_uris (PMaster ls)))
  /\ (forall ls a, In (LAlt a) ls -> a_uri a <> [] ->
        (exists v, (In (LVar v) ls \/ In (LIFrame v) ls) /\ refers v a = true) ->
        In (a_uri a) (m3u8_uris (PMaster ls))).
Proof. exact m3u8_all_found_lemma. Qed.
Print Assumptions C19_m3u8_all_found.

Theorem C19_m3u8_only_found :
  (forall segs u, In u (m3u8_uris (PMedia segs)) -> In u segs /\ u <> [])
  /\ (forall ls u, In u (m3u8_uris (PMaster ls)) ->
        u <> [] /\ ((exists v, (In (LVar v) ls \/ In (LIFrame v) ls) /\ v_uri v = u)
                    \/ (exists a, In (LAlt a) ls /\ a_uri a = u))).
Proof. exact m3u8_only_found_lemma. Qed.
Print Assumptions C19_m3u8_only_found.

(* ---- what post-processing does with the URLs of a document ---------------------------------- *)

(* For every fetched JSON / XML / sitemap / M3U8 document whose body reached post-processing, every
   hop count and every --max-hops: URLs with a file extension (for a playlist: all URIs) become
   children of the item at the item's hop count; the others are queued as outlinks one hop further,
   exactly while the hop count is below --max-hops; a sitemap yields no child, all its URLs are
   outlinks. *)
Theorem C19_post_split : forall i u,
  p_body i = true -> u <> p_self i ->
  match p_doc i with
  | PJson v valid =>
      (In u (json_assets (tv valid) v) <-> In (u, p_hops i) (post_children i))
      /\ ((p_hops i < p_maxhops i)%N -> (In u (json_outlinks (tv valid) v) <-> In (u, p_hops i + 1)%N (post_outlinks i)))
  | PXml d =>
      if is_sitemap d
      then post_children i = []
           /\ ((p_hops i < p_maxhops i)%N -> In u (xml_urls d) -> In (u, p_hops i + 1)%N (post_outlinks i))
      else (In u (xml_assets d) <-> In (u, p_hops i) (post_children i))
           /\ ((p_hops i < p_maxhops i)%N -> (In u (xml_outlinks d) <-> In (u, p_hops i + 1)%N (post_outlinks i)))
  | PM3u8 p =>
      (In u (m3u8_uris p) <-> In (u, p_hops i) (post_children i)) /\ post_outlinks i = []
  end.
Proof. exact post_split_lemma. Qed.
Print Assumptions C19_post_split.

(* The hop limit: at or beyond --max-hops nothing is queued as an outlink. *)
Theorem C19_post_hop_guard : forall i, (p_maxhops i <= p_hops i)%N -> post_outlinks i = [].
Proof. exact post_hop_guard_lemma. Qed.
Print Assumptions C19_post_hop_guard.

Theorem C19_post_hops : forall i u h,
  (In (u, h) (post_children i) -> h = p_hops i) /\ (In (u, h) (post_outlinks i) -> h = (p_hops i + 1)%N).
Proof. exact post_hops_lemma. Qed.
Print Assumptions C19_post_hops.

(* ---- the document's position in its seed's item tree ------------------------------------------ *)

(* The depth that decides postprocessItem's "too deep" cut-off - GetDepthWithoutRedirections of the document,
   read off the shared tree model Tree/Item.v (dwr_all, encoded + 1) on the tree that has exactly the path
   [p] from the seed to the document - is the number of ASSET edges of the path, for every path. *)
Theorem C19_post_depth_counts_assets : forall p, doc_dwr p = Some (S (nchild p)).
Proof. exact doc_dwr_counts_children_lemma. Qed.
Print Assumptions C19_post_depth_counts_assets.

(* A redirection edge anywhere on the way (before the page, between page and asset, in front of the
   document) does not change that depth, while it adds one to the plain depth (GetDepth). *)
Theorem C19_post_depth_ignores_redirections : forall p q,
  doc_dwr (p ++ ERedir :: q) = doc_dwr (p ++ q) /\ doc_depth (p ++ ERedir :: q) = S (doc_depth (p ++ q)).
Proof. exact doc_dwr_ignores_redirections_lemma. Qed.
Print Assumptions C19_post_depth_ignores_redirections.

(* The cut-off for every tree shape: at asset depth <= 2 (an asset sniffed as HTML excepted) the document is
   post-processed exactly as a freshly archived seed, one asset level deeper nothing is extracted. *)
Theorem C19_post_at : forall p html i,
  (nchild p <= 2 -> (nchild p = 1 -> html = false) ->
     post_children_at p html i = post_children i /\ post_outlinks_at p html i = post_outlinks i)
  /\ (2 < nchild p -> post_children_at p html i = [] /\ post_outlinks_at p html i = []).
Proof. exact post_at_lemma. Qed.
Print Assumptions C19_post_at.

(* Every link of a structured document at asset depth <= 2, counted WITHOUT redirections, is extracted -
   for every position (any number of redirection edges anywhere), every document kind, every hop count:
   assets become children at the item's hop count, the others outlinks one hop further while the hop limit
   allows. *)
Theorem C19_post_at_all_found : forall p html i u,
  nchild p <= 2 -> (nchild p = 1 -> html = false) -> p_body i = true -> u <> p_self i ->
  (In u (doc_assets i) -> In (u, p_hops i) (post_children_at p html i))
  /\ ((p_hops i < p_maxhops i)%N -> In u (doc_outlinks i) -> In (u, p_hops i + 1)%N (post_outlinks_at p html i)).
Proof. exact post_at_all_found_lemma. Qed.
Print Assumptions C19_post_at_all_found.

(* ---- bucket listings ----------------------------------------------------------------------- *)

(* For every bucket (any list of keys for the continuation-token API; strictly increasing keys for the
   marker API), every page size >= 1, both API versions, every delimiter choice, every root prefix and
   EVERY order in which pending requests are fetched ([sched]): when the walk that follows the links
   extractor.S3 returns has nothing pending any more, the object keys it queued are exactly the keys
   under the root prefix whose size is not zero. *)
Theorem C19_s3_walk_complete : forall c b P0 sched V A,
  1 <= c_max c -> (c_api c = V1 -> sorted_keysb b = true) ->
  s3_walk false c b P0 sched = Done V A ->
  forall k, In k A <-> In k (wanted b P0).
Proof. exact s3_walk_complete_lemma. Qed.
Print Assumptions C19_s3_walk_complete.

(* ... and it has nothing pending any more after at most [walk_bound c b] fetch decisions. *)
Theorem C19_s3_walk_terminates : forall c b P0 sched,
  walk_bound c b <= List.length sched -> s3_walk false c b P0 sched <> OutOfFuel.
Proof. exact s3_walk_terminates_lemma. Qed.
Print Assumptions C19_s3_walk_terminates.
