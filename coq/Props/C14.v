(* C14 - Pause stops all stages, resume wakes them all, the protocol never deadlocks.
   Only the property theorems; each is closed by [exact] of a lemma proved in Pause/ and followed
   by Print Assumptions.

   [step v] is the labelled transition system of pause.go + the pause arm of the four stage
   workers (Pause/PauseLts.v): one label = one channel / atomic / sync.Map operation of one
   goroutine, the label carries every scheduling choice.  [fixed] is the code with the three
   repairs of fixes/C14-*.diff, [orig] the code as found.  [init n m]: n subscribed running
   workers, m independent controllers (disk watcher, WARC-queue watcher, operator, ...), nothing
   paused.  "For all orders of pause / resume / worker-exit / stop invocations, any number of
   workers, every schedule" = for all n, m and all label lists. *)
From ZenoV Require Import Pause.PauseLts Pause.PauseBase Pause.PauseProofs Pause.PauseAll.

(* No caller and no worker can be left blocked forever.  From every reachable state: system steps
   (everything except new invocations and work items) stop after at most [mu s] steps; whenever
   they stop no Pause/Resume call is pending, nothing panicked, every cancelled worker has left,
   and every other worker is blocked acknowledging iff the manager is paused; and a maximal
   execution exists. *)
Theorem C14_calls_complete : forall n m ls0 s,
  run fixed (init n m) ls0 = Some s ->
  (forall ls s', all_sys ls -> run fixed s ls = Some s' -> length ls <= mu s) /\
  (forall ls s', all_sys ls -> run fixed s ls = Some s' -> quiescent fixed s' -> final_ok s') /\
  (exists ls s', all_sys ls /\ run fixed s ls = Some s' /\ quiescent fixed s').
Proof. exact calls_complete_lemma. Qed.
Print Assumptions C14_calls_complete.

(* A worker that acknowledged the pause exists only while the manager is paused, cannot take a
   work item, and over every continuation stays there, taking none, until a Resume call receives
   its acknowledgement or its own context is cancelled. *)
Theorem C14_paused_takes_no_work : forall n m ls0 s w,
  run fixed (init n m) ls0 = Some s -> w < nw s -> w_pc (wk s w) = WAck ->
  paused s = true /\
  step fixed s (LWork w) = None /\
  forall ls s', run fixed s ls = Some s' -> (forall l, In l ls -> ~ releases w l) ->
                w_pc (wk s' w) = WAck /\ ~ In (LWork w) ls.
Proof. exact paused_takes_no_work_lemma. Qed.
Print Assumptions C14_paused_takes_no_work.

(* When any Pause call returns, the manager is paused and no worker is left running with an empty
   PauseCh: each has the token queued, is blocked acknowledging, or is leaving. *)
Theorem C14_pause_reaches_all : forall n m ls0 s l s',
  run fixed (init n m) ls0 = Some s -> step fixed s l = Some s' -> pause_returns s l s' ->
  paused s' = true /\ forall w, w < nw s' -> ~ idle (wk s' w).
Proof. exact pause_reaches_all_lemma. Qed.
Print Assumptions C14_pause_reaches_all.

(* When any Resume call returns, nothing is paused and no worker is still blocked acknowledging
   or holds an unconsumed pause token. *)
Theorem C14_resume_wakes_all : forall n m ls0 s l s',
  run fixed (init n m) ls0 = Some s -> step fixed s l = Some s' -> resume_returns s l s' ->
  paused s' = false /\ forall w, w < nw s' -> ~ pending (wk s' w).
Proof. exact resume_wakes_all_lemma. Qed.
Print Assumptions C14_resume_wakes_all.

(* After Stop (context cancelled), once nothing moves every cancelled worker has unsubscribed and
   left - paused or not - so the stage's wg.Wait returns. *)
Theorem C14_stop_releases_workers : forall n m ls0 s ls s' w,
  run fixed (init n m) ls0 = Some s ->
  all_sys ls -> run fixed s ls = Some s' -> quiescent fixed s' ->
  w < nw s' -> w_stop (wk s' w) = true ->
  w_pc (wk s' w) = WGone /\ w_sub (wk s' w) = false /\ w_rclosed (wk s' w) = true.
Proof. exact stop_releases_workers_lemma. Qed.
Print Assumptions C14_stop_releases_workers.

(* No send on a closed channel - because no PauseCh is ever closed; at most one Pause/Resume call
   is past its first step. *)
Theorem C14_no_panic_mutex : forall n m ls s,
  run fixed (init n m) ls = Some s ->
  panic s = false /\
  (forall w, w < nw s -> w_pclosed (wk s w) = false) /\
  forall c c', c < nc s -> c' < nc s -> active (ct s c) = true -> active (ct s c') = true -> c = c'.
Proof. exact no_panic_lemma. Qed.
Print Assumptions C14_no_panic_mutex.

(* The code as found violates the property (each witness is replayed on the real code by the
   driver, corpus/C14/*.inputs): stop while paused never returns; an unmatched Resume blocks and
   then undoes the next Pause; Unsubscribe racing with Pause panics. *)
Theorem C14_orig_refuted :
  stuck orig 1 1 w_stop_while_paused /\
  stuck orig 1 1 w_unmatched_resume /\
  (exists s, run orig (init 1 2) w_pause_undone = Some s /\ quiescent orig s /\
             ct s 1 = CIdle /\ paused s = false /\ w_pc (wk s 0) = WRun) /\
  (exists s, run orig (init 1 1) w_unsubscribe_race = Some s /\ panic s = true).
Proof. exact orig_refuted_lemma. Qed.
Print Assumptions C14_orig_refuted.

(* Each repair is needed, and two tempting alternatives deadlock. *)
Theorem C14_repairs_needed :
  stuck (V false true true true false false false) 1 1 w_stop_while_paused /\
  stuck (V true false false false false false false) 1 1 w_unmatched_resume /\
  stuck (V true true true true true false false) 1 1 w_unsubscribe_race /\
  stuck (V true false false true false false false) 2 3 w_two_resumes /\
  stuck (V true true true true true true false) 1 1 w_unsub_mutex.
Proof. exact repairs_needed_lemma. Qed.
Print Assumptions C14_repairs_needed.

(* A Pause invoked when every Resume in progress is already collecting (none still before its
   first step), and not followed by a new Resume invocation, leaves the manager paused once all
   calls have returned - under every schedule (with C14_calls_complete: every live worker is then
   acknowledging). *)
Theorem C14_pause_sticks : forall n m ls0 s b s1 ls s',
  run fixed (init n m) ls0 = Some s ->
  (forall c, c < nc s -> ct s c <> CRStart) ->
  step fixed s (LCall b KPause) = Some s1 ->
  run fixed s1 ls = Some s' ->
  (forall l c, In l ls -> l <> LCall c KResume) ->
  (forall c, c < nc s' -> ct s' c = CIdle) ->
  paused s' = true.
Proof. exact pause_sticks_lemma. Qed.
Print Assumptions C14_pause_sticks.

(* Pause must hold the mutex too: with the mutex in Resume only, a Pause issued while a Resume is
   waiting for a busy worker returns having done nothing (pause_reaches_all fails at its return),
   and the pipeline ends up running although the last invocation was a Pause. *)
Theorem C14_pause_mutex_needed :
  (exists s s', run v_no_pause_mutex (init 2 2) w_pause_nomutex = Some s /\
                step v_no_pause_mutex s (LPauseBegin 1) = Some s' /\
                pause_returns s (LPauseBegin 1) s' /\ paused s' = true /\ idle (wk s' 0)) /\
  (exists t, run v_no_pause_mutex (init 2 2) (w_pause_nomutex ++ w_pause_nomutex_end) = Some t /\
             quiescent v_no_pause_mutex t /\ ct t 0 = CIdle /\ ct t 1 = CIdle /\ paused t = false).
Proof. exact pause_without_mutex_refuted. Qed.
Print Assumptions C14_pause_mutex_needed.

(* Resume must collect the acknowledgements concurrently (one receiver per subscriber).  With
   workers that feed each other (worker 0 passes its items to worker 1, as the stages do) a Resume
   that receives sequentially inside Range and meets the upstream worker first - blocked in its
   hand-over, token queued, while the downstream worker has acknowledged - never returns and all
   workers stay parked; the real (concurrent) code finishes the same schedule.  (The theorems
   above are about workers that do not feed each other; dependent workers are covered by this
   witness and by the driver's linked-worker cases.) *)
Theorem C14_sequential_resume_refuted :
  stuck_l v_seq_resume 2 1 link01 w_seq_resume /\
  seq_resume_fixed_ok = true.
Proof. exact sequential_resume_refuted. Qed.
Print Assumptions C14_sequential_resume_refuted.

(* The subscribers of the manager are the stage workers: the population is fixed, every worker
   whose context is not cancelled holds a subscription of its own, and once nothing moves the
   number of subscribers equals the number of such workers (with WorkersCount = w and no stop:
   w per stage). *)
Theorem C14_subscribers_are_live_workers : forall n m ls s,
  run fixed (init n m) ls = Some s ->
  nw s = n /\
  (forall w, w < nw s -> w_stop (wk s w) = false -> w_sub (wk s w) = true) /\
  (quiescent fixed s -> nsubs s = nlive s).
Proof. exact subscribers_are_live_workers_lemma. Qed.
Print Assumptions C14_subscribers_are_live_workers.

(* Pause stops ALL workers: once nothing moves while the manager is paused, every live worker is
   in the acknowledging send, and over every continuation without a new Resume invocation -
   whatever work is offered, whatever else is invoked - the manager stays paused and NO worker
   takes an item; once nothing moves while it is not paused, every live worker takes offered work. *)
Theorem C14_pause_stops_every_worker : forall n m ls0 s,
  run fixed (init n m) ls0 = Some s -> quiescent fixed s ->
  (paused s = true ->
     (forall w, w < nw s -> w_stop (wk s w) = false -> w_pc (wk s w) = WAck) /\
     forall ls s', run fixed s ls = Some s' -> no_resume_call ls ->
                   paused s' = true /\ forall w, ~ In (LWork w) ls) /\
  (paused s = false ->
     forall w, w < nw s -> w_stop (wk s w) = false -> step fixed s (LWork w) <> None).
Proof. exact pause_stops_every_worker_lemma. Qed.
Print Assumptions C14_pause_stops_every_worker.
