(* C09 - URL canonicalisation is deterministic, idempotent, yields only http(s) URLs.
   This file contains only the property theorems; each is closed by [exact] of a lemma proved
   in coq/Url/*Proofs.v and followed by Print Assumptions.

   [normalize parent r] is the reference normaliser (Url/Resolve.v): preprocessor.NormalizeURL
   followed by URL.String(), on URL ASTs of the reference grammar (Url/RefUrl.v); the model follows
   the code after /repo commits 8ac6930 (fixes/C09-query-order.diff) and ce05a6f
   (fixes/C09-base-choice.diff), the code as found is
   [reencode_orig] / [normalize_orig]. *)
From Coq Require Import List Ascii String NArith Bool Permutation.
From ZenoV Require Import Lib.Hex Url.Escape Url.EscapeProofs Url.Query Url.QueryProofs
  Url.RefUrl Url.Resolve Url.ResolveProofs Url.UrlText Url.UrlTextProofs.
Import ListNotations.
Open Scope char_scope.

(* ---------- escaping: QueryUnescape (QueryEscape s) = s for every byte string *)
Theorem C09_escape_roundtrip : forall s, query_unescape (query_escape s) = Some s.
Proof. exact escape_roundtrip_lemma. Qed.
Print Assumptions C09_escape_roundtrip.

(* ---------- query parameters: every list of (key, value) byte strings survives re-encoding
   and re-parsing unchanged - order and multiplicity included *)
Theorem C09_query_order_kept : forall ps, parse_query (encode_query ps) = ps.
Proof. exact parse_encode_lemma. Qed.
Print Assumptions C09_query_order_kept.

(* ... and from the text side: every well-formed parameter of a raw query is kept, in place *)
Theorem C09_query_wellformed_all_kept : forall segs, forallb wf_seg segs = true ->
  parse_query (join "&" segs) = map decode_seg segs.
Proof. exact wf_segs_all_kept_lemma. Qed.
Print Assumptions C09_query_wellformed_all_kept.

(* url.ParseQuery's list IS the list of well-formed pieces, decoded, in source order: droppable
   pieces (empty, with a semicolon, with a bad escape) remove nothing else, wherever they stand *)
Theorem C09_query_wellformed_exactly_kept : forall q,
  parse_query q = map decode_seg (filter wf_seg (pieces q)).
Proof. exact parse_query_wf_pieces. Qed.
Print Assumptions C09_query_wellformed_exactly_kept.

Theorem C09_query_reencode_idempotent : forall q, reencode (reencode q) = reencode q.
Proof. exact reencode_idem_lemma. Qed.
Print Assumptions C09_query_reencode_idempotent.

(* the percent-encoding that the WHATWG parser applies to a query in between is invisible to
   url.ParseQuery, for every byte string *)
Theorem C09_query_encoding_invisible : forall q, parse_query (ada_query_enc q) = parse_query q.
Proof. exact parse_query_ada_enc. Qed.
Print Assumptions C09_query_encoding_invisible.

(* through the whole normaliser: whatever the parent and the reference form, the accepted
   result has exactly the parameters of the reference's query, in order *)
Theorem C09_query_order_kept_norm : forall parent r c q,
  normalize parent r = Ok c -> ref_query r = Some q ->
  parse_query (qtext (u_query c)) = parse_query q.
Proof. exact query_order_kept_norm_lemma. Qed.
Print Assumptions C09_query_order_kept_norm.

(* ---------- the code as found: encodeQuery ranges over a Go map *)
Theorem C09_encode_query_refuted : exists q o1 o2,
  valid_order o1 (parse_query q) /\ valid_order o2 (parse_query q) /\
  reencode_orig o1 q <> reencode_orig o2 q.
Proof. exact encode_query_refuted. Qed.
Print Assumptions C09_encode_query_refuted.

Theorem C09_query_order_orig_refuted : exists q, forall o,
  valid_order o (parse_query q) -> parse_query (reencode_orig o q) <> parse_query q.
Proof. exact query_order_orig_refuted. Qed.
Print Assumptions C09_query_order_orig_refuted.

(* ---------- determinism: the normaliser is a function of (parent, reference), and the one
   piece of hidden state - whether String() was already called on the parent, which rewrites
   the parent's parsed URL in place - does not influence the answer *)
Theorem C09_norm_deterministic :
  (forall parent r o1 o2, normalize parent r = o1 -> normalize parent r = o2 -> o1 = o2)
  /\ (forall gp pr b r, norm_state gp pr = Ok b ->
        normalize (Some (finish b)) r = normalize (Some b) r).
Proof. exact norm_deterministic_lemma. Qed.
Print Assumptions C09_norm_deterministic.

(* ---------- idempotence: an accepted result, normalised again with ANY parent, is itself *)
Theorem C09_norm_idempotent : forall parent r c, normalize parent r = Ok c ->
  forall parent', normalize parent' (RAbs c) = Ok c.
Proof. exact norm_idempotent_lemma. Qed.
Print Assumptions C09_norm_idempotent.

(* strings.Trim: the text between the quote characters comes back *)
Theorem C09_trim_quotes_wrapped : forall qa qb a m z,
  forallb is_quote qa = true -> forallb is_quote qb = true ->
  is_quote a = false -> is_quote z = false ->
  trim_quotes (qa ++ (a :: m ++ [z]) ++ qb) = a :: m ++ [z].
Proof. exact trim_quotes_wrapped. Qed.
Print Assumptions C09_trim_quotes_wrapped.

(* ---------- shape: every accepted result is http/https, has a dotted host that is neither
   "localhost" nor "127.0.0.1", no fragment, an absolute path, no dot segment *)
Theorem C09_norm_shape : forall parent r c, normalize parent r = Ok c -> shape_ok c = true.
Proof. exact norm_shape_lemma. Qed.
Print Assumptions C09_norm_shape.

(* the same at the level of TEXT, with the very predicate the monitor evaluates on the
   implementation's answers: on the reference grammar the rendering of every accepted result
   starts with http:// or https://, its host part (after the credentials, before the port) is
   dotted and neither "localhost" nor "127.0.0.1", it has no '#', an absolute path and no dot
   segment.  The result is again an admissible parent, so the statement covers whole chains. *)
Theorem C09_norm_shape_text : forall parent r c, parent_ok parent -> in_grammar parent r = true ->
  normalize parent r = Ok c -> shape_text (render_url c) = true /\ parent_ok (Some c).
Proof. exact norm_shape_text_lemma. Qed.
Print Assumptions C09_norm_shape_text.

(* no fragment, from the input side: the answer is the answer for the reference without its
   fragment, however many '#' the fragment contains (a fragment-only reference excepted: without
   its fragment it is the empty reference, which is refused) *)
Theorem C09_norm_fragment_irrelevant : forall parent r, is_frag_only r = false ->
  normalize parent r = normalize parent (drop_frag r).
Proof. exact norm_fragment_irrelevant_lemma. Qed.
Print Assumptions C09_norm_fragment_irrelevant.

(* what NormalizeURL leaves in the object is a canonical state *)
Theorem C09_norm_state_canonical : forall parent r w, norm_state parent r = Ok w -> is_state w.
Proof. exact (norm_state_is_state false). Qed.
Print Assumptions C09_norm_state_canonical.

(* ---------- resolution of each reference form against any canonical parent *)
Theorem C09_resolve_absolute : forall b u, norm_state (Some b) (RAbs u) = norm_state None (RAbs u).
Proof. exact resolve_abs_lemma. Qed.
Print Assumptions C09_resolve_absolute.

Theorem C09_resolve_scheme_relative : forall b a p q f,
  norm_state (Some b) (RSchemeRel a p q f) = whatwg (Url (u_scheme b) a p q f).
Proof. exact resolve_scheme_rel_lemma. Qed.
Print Assumptions C09_resolve_scheme_relative.

(* RFC 3986 5.2.2: a reference with an authority but no scheme takes the parent's scheme *)
Theorem C09_scheme_relative_takes_parent_scheme : forall b a p q f w, is_state b ->
  norm_state (Some b) (RSchemeRel a p q f) = Ok w -> u_scheme w = u_scheme b.
Proof. exact scheme_relative_takes_parent_scheme_lemma. Qed.
Print Assumptions C09_scheme_relative_takes_parent_scheme.

Theorem C09_resolve_path_absolute : forall b p q f, is_state b ->
  norm_state (Some b) (RPathAbs p q f)
  = Ok (Url (u_scheme b) (u_auth b) (remove_dots p) (option_map ada_query_enc q) None).
Proof. exact resolve_path_abs_lemma. Qed.
Print Assumptions C09_resolve_path_absolute.

Theorem C09_resolve_path_relative : forall b p q f, is_state b ->
  norm_state (Some b) (RPathRel p q f)
  = Ok (Url (u_scheme b) (u_auth b) (remove_dots (removelast (u_path b) ++ p))
            (option_map ada_query_enc q) None).
Proof. exact resolve_path_rel_lemma. Qed.
Print Assumptions C09_resolve_path_relative.

Theorem C09_resolve_query_only : forall b q f, is_state b ->
  norm_state (Some b) (RQuery q f)
  = Ok (Url (u_scheme b) (u_auth b) (u_path b) (Some (ada_query_enc q)) None).
Proof. exact resolve_query_only_lemma. Qed.
Print Assumptions C09_resolve_query_only.

Theorem C09_resolve_fragment_only : forall b f, is_state b ->
  norm_state (Some b) (RFrag (Some f))
  = Ok (Url (u_scheme b) (u_auth b) (u_path b) (drop_bare (u_query b)) None).
Proof. exact resolve_fragment_only_lemma. Qed.
Print Assumptions C09_resolve_fragment_only.

(* ---------- dot segments: the rules of RFC 3986 5.2.4; applied to the leftmost dot segment
   they determine remove_dots completely *)
Theorem C09_remove_dots_none : forall p, p <> [] -> no_dots p = true -> remove_dots p = p.
Proof. exact remove_dots_id_lemma. Qed.
Print Assumptions C09_remove_dots_none.

Theorem C09_remove_dots_single : forall a d b, no_dots a = true -> is_dot d = true -> b <> [] ->
  remove_dots (a ++ d :: b) = remove_dots (a ++ b).
Proof. exact remove_dots_single_lemma. Qed.
Print Assumptions C09_remove_dots_single.

Theorem C09_remove_dots_double : forall a s d b, no_dots a = true -> dotseg s = false ->
  is_dotdot d = true -> b <> [] ->
  remove_dots (a ++ s :: d :: b) = remove_dots (a ++ b).
Proof. exact remove_dots_double_lemma. Qed.
Print Assumptions C09_remove_dots_double.

Theorem C09_remove_dots_root : forall d b, is_dotdot d = true -> b <> [] ->
  remove_dots (d :: b) = remove_dots b.
Proof. exact remove_dots_root_lemma. Qed.
Print Assumptions C09_remove_dots_root.

Theorem C09_remove_dots_single_last : forall a d, no_dots a = true -> is_dot d = true ->
  remove_dots (a ++ [d]) = a ++ [[]].
Proof. exact remove_dots_single_end_lemma. Qed.
Print Assumptions C09_remove_dots_single_last.

Theorem C09_remove_dots_double_last : forall a s d, no_dots a = true -> dotseg s = false ->
  is_dotdot d = true -> remove_dots (a ++ [s; d]) = a ++ [[]].
Proof. exact remove_dots_double_end_lemma. Qed.
Print Assumptions C09_remove_dots_double_last.

Theorem C09_remove_dots_clean : forall p, remove_dots p <> [] /\ no_dots (remove_dots p) = true.
Proof. exact remove_dots_clean_lemma. Qed.
Print Assumptions C09_remove_dots_clean.

(* ---------- the code as found chose the base from net/url's decoded path: credentials of the
   parent dropped for a path-absolute reference, "%2fa/b" resolved against the root *)
Theorem C09_base_choice_orig_refuted :
  render_url (match normalize_orig (Some ex_parent) (RPathAbs [bs "x"] None None) with Ok c => c | _ => ex_parent end)
    = bs "https://ex.com:8443/x"
  /\ render_url (match normalize (Some ex_parent) (RPathAbs [bs "x"] None None) with Ok c => c | _ => ex_parent end)
    = bs "https://u:p@ex.com:8443/x"
  /\ render_url (match normalize_orig (Some ex_parent) (RPathRel [bs "%2fa"; bs "b"] None None) with Ok c => c | _ => ex_parent end)
    = bs "https://ex.com:8443/%2fa/b"
  /\ render_url (match normalize (Some ex_parent) (RPathRel [bs "%2fa"; bs "b"] None None) with Ok c => c | _ => ex_parent end)
    = bs "https://u:p@ex.com:8443/d1/d2/%2fa/b".
Proof. exact base_choice_orig_refuted. Qed.
Print Assumptions C09_base_choice_orig_refuted.

Theorem C09_base_choice_orig_agrees : forall parent r, slash_first r = false ->
  normalize_orig parent r = normalize parent r.
Proof. exact normalize_orig_agrees. Qed.
Print Assumptions C09_base_choice_orig_agrees.
