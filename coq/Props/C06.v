(* C06 - Work per seed is bounded: redirects, asset depth, retries and hops.
   Only property theorems; each closed by [exact] of a lemma proved in Stage/PassClosed.v or
   Warc/RetryProofs.v.  An oracle list fixes EVERYTHING the server and the stores answer during a
   seed's life, so "forall os" is "however a site behaves" (endless redirect chains and loops,
   endlessly nested documents, self references, always-failing URLs). *)
From ZenoV Require Import Tree.Item Tree.ItemSpec Stage.Pass Stage.PassSpec Stage.PassClosed.
From ZenoV Require Warc.Retry Warc.RetryProofs.
Open Scope N_scope.

(* Between passes: every node's redirect counter is exact (parent's + 1 below a redirect edge, 0
   below an asset edge) and at most --max-redirect, so no chain of followed redirects is longer;
   with --domains-crawl off no node lies more than 3 asset edges below the page. *)
Theorem C06_bounds_between_passes : forall c os u hops t next,
  run_passes c os (seed0 u hops) = Ok (t, next, DFeedback) ->
  redir_ok c None t = true /\ (domains_crawl c = false -> adepth_ok 3 0 t = true).
Proof. exact d_bounds_between_passes. Qed.
Print Assumptions C06_bounds_between_passes.

(* ... and at each of the four stage boundaries inside a pass; every node that still awaits
   fetching or post-processing has the code's own depth measure (GetDepthWithoutRedirections) <= 3 *)
Theorem C06_bounds_at_stage_boundaries : forall c os1 o u hops t next t1 t2 t3 next' t4 d,
  run_passes c os1 (seed0 u hops) = Ok (t, next, DFeedback) ->
  pre_worker o t = Ok t1 -> arch_worker o t1 = Ok t2 -> post_worker c o t2 next = Ok (t3, next') ->
  fin_worker t3 = Ok (t4, d) ->
  (redir_ok c None t1 = true /\ redir_ok c None t2 = true /\ redir_ok c None t3 = true /\ redir_ok c None t4 = true)
  /\ (domains_crawl c = false ->
      pending_depth_ok (dwr_seed t1) t1 = true /\ pending_depth_ok (dwr_seed t2) t2 = true
      /\ pending_depth_ok (dwr_seed t3) t3 = true).
Proof. exact d_bounds_at_boundaries. Qed.
Print Assumptions C06_bounds_at_stage_boundaries.

(* Every seed finishes after a bounded number of pipeline passes, whatever the site answers:
   4 * (max-redirect + 1) passes always suffice (domains-crawl off); the bound is tight. *)
Theorem C06_finished_within_bound : forall c os u hops,
  domains_crawl c = false ->
  (length os >= 4 * (N.to_nat (max_redirect c) + 1))%nat ->
  exists t next, run_passes c os (seed0 u hops) = Ok (t, next, DFinish).
Proof. exact d_finished_within_bound. Qed.
Print Assumptions C06_finished_within_bound.

Theorem C06_bound_is_tight :
  (exists t next, run_passes (Cfg 2 false false) (adv_oracles 2 11) (seed0 7 0) = Ok (t, next, DFeedback))
  /\ (exists t next, run_passes (Cfg 2 false false) (adv_oracles 2 12) (seed0 7 0) = Ok (t, next, DFinish)).
Proof. exact passes_bound_tight_example. Qed.
Print Assumptions C06_bound_is_tight.

(* Each URL is attempted at most --max-retry + 1 times per visit, for every sequence of outcomes
   (transport errors, retryable statuses, challenge pages) *)
Theorem C06_attempts_le : forall cfg pb outcomes,
  (Retry.count_req (fst (Retry.archive_item cfg pb outcomes)) <= Retry.a_max_retry cfg + 1)%N.
Proof. exact RetryProofs.attempts_le_lemma. Qed.
Print Assumptions C06_attempts_le.

(* the invariant that carries these bounds is preserved by every pass *)
Theorem C06_invariant_preserved : forall c o t next t' next',
  InvB c t next -> pass c o (t, next) = Ok (t', next', DFeedback) -> InvB c t' next'.
Proof. exact pass_preserves_bounds_closed. Qed.
Print Assumptions C06_invariant_preserved.

(* non-vacuity: a four-pass life with redirects, assets of assets, duplicates, seen and failed nodes
   satisfies the invariant at every depth it reaches *)
Theorem C06_invariant_nonvacuous :
  forall k, In k [0; 1; 2; 3]%nat ->
  exists t next, ex_state k = Ok (t, next, DFeedback) /\ InvB ex_c t next /\ max_depth t = k.
Proof. exact ex_invariant_nonvacuous. Qed.
Print Assumptions C06_invariant_nonvacuous.

(* ---- hop rules (Stage/Outlinks.v), for every configuration, page and extractor output ---- *)
From ZenoV Require Import Stage.Outlinks.

(* an outlink that matches --domains-crawl is queued with hops 0; any other outlink is queued only
   from a page with fewer than --max-hops hops and carries the page's hops + 1 *)
Theorem C06_outlink_hops : forall c hops ok200 has_body links u h,
  In (u, h) (outlinks_of c hops ok200 has_body links) ->
  exists m, In (u, m) links
    /\ ((dc_enabled c = true /\ m = true /\ h = 0)
        \/ ((dc_enabled c = false \/ m = false) /\ hops < max_hops c /\ h = hops + 1)).
Proof. exact outlink_hops_lemma. Qed.
Print Assumptions C06_outlink_hops.

(* and every link the rules admit is queued *)
Theorem C06_outlink_complete : forall c hops links u m,
  In (u, m) links ->
  (dc_enabled c = true /\ m = true -> In (u, 0) (outlinks_of c hops true true links))
  /\ ((dc_enabled c = false \/ m = false) -> hops < max_hops c -> In (u, hops + 1) (outlinks_of c hops true true links)).
Proof. exact outlink_complete_lemma. Qed.
Print Assumptions C06_outlink_complete.

(* assets and redirect targets inherit the page's hops *)
Theorem C06_children_inherit_hops : forall h, asset_hops h = h /\ redirect_hops h = h.
Proof. intros h. split; reflexivity. Qed.
Print Assumptions C06_children_inherit_hops.
