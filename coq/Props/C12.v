(* C12 - Reactor: bounded in-flight seeds, exact token accounting, no deadlock.
   This file contains only the property theorems; each is closed by [exact] of a lemma proved
   in Reactor/ReactorProofs.v and followed by Print Assumptions.

   [run v (init n m) ls = Some s]: s is reached from Start(n, make(chan, m)) by the label sequence
   ls of the transition system Reactor.step - ANY interleaving of the atomic actions of any number
   of concurrent ReceiveInsert / ReceiveFeedback / MarkAsFinished calls, of run(), of the
   consumers of the output channel, of Freeze() and Stop(), with every select arm chosen by the
   label.  [runw]: the same with a well-formed client (fresh ids for inserts, feedback / finish
   only for seeds it holds, Stop() completes when no call is in progress).  [fixed] is the code
   after fixes/C12-*.diff, [original] the code before. *)
From ZenoV Require Import Reactor.Reactor Reactor.ReactorProofs.

(* Accounting - all token counts, all output capacities, all label sequences, any client: the
   tokens in use are the tracked seeds plus the calls holding a token for a seed that is not in
   the table (an insert between its token and its store, a finish between its delete and its
   release); never more tracked seeds than tokens in use, never more tokens in use than
   configured, no seed tracked twice; with no call in progress the two are equal. *)
Theorem C12_accounting : forall v n m ls s, v_fb_fix v = true ->
  run v (init n m) ls = Some s -> crashed s = false ->
  tokens s = length (table s) + sumw w_trans (calls s)
  /\ length (table s) <= tokens s <= n
  /\ NoDup (table s)
  /\ (calls s = [] -> tokens s = length (table s)).
Proof. exact accounting_lemma. Qed.
Print Assumptions C12_accounting.

(* A token is taken exactly when a seed is accepted and given back exactly when that seed is
   marked finished - per seed j, in every reachable state: entries for j in the table
   + finishes of j that returned nil (or have deleted and are about to) = inserts of j that
   returned nil (or have stored and are about to). *)
Theorem C12_token_ledger : forall v n m ls s, v_fb_fix v = true ->
  run v (init n m) ls = Some s -> crashed s = false ->
  (forall j, cnt j (table s) + cntret (OFin j) ROk (rets s) + sumw (w_rel_id j) (calls s)
             = cntret (OIns j) ROk (rets s) + sumw (w_send_id j) (calls s))
  /\ (calls s = [] -> forall j, cnt j (table s) + cntret (OFin j) ROk (rets s) = cntret (OIns j) ROk (rets s)).
Proof. exact ledger_lemma. Qed.
Print Assumptions C12_token_ledger.

(* Nothing in transit is lost or reordered (any client, either version of the code): what the
   consumers received, then the output buffer, then the item run() holds, then the input channel
   is exactly the sequence of seeds of the inserts and feedbacks that returned nil, in the order
   of those returns. *)
Theorem C12_fifo_conservation : forall v n m ls s, run v (init n m) ls = Some s ->
  consumed s ++ outq s ++ hand_list s ++ input s = rev (omap send_ok (rets s)).
Proof. exact fifo_lemma. Qed.
Print Assumptions C12_fifo_conservation.

(* Every accepted seed reaches the output as long as a consumer reads it. *)
Theorem C12_accepted_reaches_output : forall v n m ls s,
  run v (init n m) ls = Some s -> crashed s = false -> running s = true ->
  (exists s', run v s (drain_labels s) = Some s'
     /\ consumed s' = rev (omap send_ok (rets s')) /\ rets s' = rets s
     /\ outq s' = [] /\ hand s' = None /\ input s' = [])
  /\ (forall ls' s', forallb sys_step ls' = true -> run v s ls' = Some s' ->
        flow s' = rev (omap send_ok (rets s')) /\ rets s' = rets s
        /\ sys_measure s' + length ls' <= sys_measure s
        /\ (sys_measure s' = 0 -> consumed s' = rev (omap send_ok (rets s')))
        /\ (0 < sys_measure s' -> exists l s'', sys_step l = true /\ step v s' l = Some s'')).
Proof. exact delivery_lemma. Qed.
Print Assumptions C12_accepted_reaches_output.

(* Feedback costs no token: no step of ReceiveFeedback changes the tokens in use. *)
Theorem C12_feedback_costs_no_token : forall v s l s',
  step v s l = Some s' -> fb_step l = true \/ (exists i, l = FbSwap i) -> tokens s' = tokens s.
Proof. exact fb_no_token_lemma. Qed.
Print Assumptions C12_feedback_costs_no_token.

(* Feeding a tracked seed back never blocks: in every state reactor + well-formed client reach,
   a feedback at its select (and an insert at its send) finds room in the input channel, so its
   send arm is enabled. *)
Theorem C12_feedback_never_blocks : forall n m ls s i, runw fixed (init n m) ls = Some s ->
  (In (PFbSel i) (calls s) -> length (input s) < cap s /\ exists s', step fixed s (FbSelect i ArmChan) = Some s')
  /\ (In (PInsSend i) (calls s) -> length (input s) < cap s /\ exists s', step fixed s (InsSend i) = Some s').
Proof. exact never_blocks_lemma. Qed.
Print Assumptions C12_feedback_never_blocks.

(* The input buffer has room for every token holder - all token counts n, no bound: in every state
   reactor + well-formed client reach, (calls carrying a tracked seed towards the input channel)
   + (items buffered in it) <= tracked seeds <= tokens in use <= n = capacity of the input channel.
   (The model's single [cap] is tied to the real cap(tokenPool) and cap(input) for n up to 200000 by
   the `reactorcfg` driver.) *)
Theorem C12_input_has_room : forall n m ls s, runw fixed (init n m) ls = Some s ->
  cap s = n
  /\ sumw w_loc (calls s) + length (input s) <= length (table s)
  /\ length (table s) <= tokens s /\ tokens s <= cap s.
Proof. exact input_has_room_lemma. Qed.
Print Assumptions C12_input_has_room.

Theorem C12_wellformed_client_never_panics : forall n m ls s,
  runw fixed (init n m) ls = Some s -> crashed s = false.
Proof. exact wf_no_crash_lemma. Qed.
Print Assumptions C12_wellformed_client_never_panics.

(* Rejection without side effects, in any state and under any concurrency: a step on which a call
   returns "feedback item not present", "finished item not found" or "not initialized" leaves
   tokens, state table, channels and flags as they were. *)
Theorem C12_rejected_calls_change_nothing : forall v s l s' o r, v_fb_fix v = true ->
  step v s l = Some s' -> rets s' = (o, r) :: rets s ->
  r = RNotPresent \/ r = RNotFound \/ r = RNotInit -> observe s' = observe s.
Proof. exact reject_pure_lemma. Qed.
Print Assumptions C12_rejected_calls_change_nothing.

(* Feedback for a seed the reactor does not track is rejected. *)
Theorem C12_unknown_feedback_rejected : forall s i,
  crashed s = false -> nilled s = false -> ~ In i (table s) ->
  exists s', run fixed s [FbCall i; FbLoad i] = Some s'
             /\ rets s' = (OFb i, RNotPresent) :: rets s
             /\ observe s' = observe s /\ calls s' = calls s.
Proof. exact unknown_feedback_lemma. Qed.
Print Assumptions C12_unknown_feedback_rejected.

(* A finish releases exactly one token and removes the seed; repeating it is rejected. *)
Theorem C12_repeated_finish_rejected : forall v n m ls s i, v_fb_fix v = true ->
  run v (init n m) ls = Some s -> crashed s = false -> nilled s = false -> In i (table s) ->
  exists s1 s2,
    run v s [FinCall i; FinDelete i; FinRelease i] = Some s1
    /\ rets s1 = (OFin i, ROk) :: rets s /\ S (tokens s1) = tokens s /\ ~ In i (table s1)
    /\ run v s1 [FinCall i; FinDelete i] = Some s2
    /\ rets s2 = (OFin i, RNotFound) :: rets s1 /\ observe s2 = observe s1 /\ calls s2 = calls s1.
Proof. exact repeated_finish_lemma. Qed.
Print Assumptions C12_repeated_finish_rejected.

(* Once frozen or stopping the reactor accepts nothing further: from any state in which no call
   has already passed its test of ctx/freezeCtx, after the Freeze (or the cancel of Stop) label
   and ANY continuation: no seed is added to the state table, nothing is sent to the input
   channel, no insert and no feedback returns nil. *)
Theorem C12_closed_accepts_nothing : forall s0 l ls s1 s2,
  l = Freeze \/ l = StopCancel ->
  nilled s0 = false -> sumw w_past (calls s0) = 0 ->
  step fixed s0 l = Some s1 -> run fixed s1 ls = Some s2 ->
  (forall j, In j (table s2) -> In j (table s0))
  /\ sent s2 = sent s0
  /\ exists new, rets s2 = new ++ rets s0 /\ Forall (fun x => accepting x = false) new.
Proof. exact closed_accepts_nothing_lemma. Qed.
Print Assumptions C12_closed_accepts_nothing.

(* After Stop() has completed every call reports "not initialized" and changes nothing. *)
Theorem C12_stopped_not_initialized : forall v s o, crashed s = false -> nilled s = true ->
  step v s (match o with OIns i => InsCall i | OFb i => FbCall i | OFin i => FinCall i end)
  = Some (ret o RNotInit s).
Proof. exact stopped_lemma. Qed.
Print Assumptions C12_stopped_not_initialized.

(* No deadlock (reactor + well-formed client, at least one token): whenever a call is in progress,
   a step of a call, of run(), of a consumer, or the finish of a held seed is enabled; and every
   execution of call / run() / consumer steps is bounded by the measure - so every call returns
   or is an insert waiting for a token that a finish will free. *)
Theorem C12_progress : forall n m ls s, 1 <= n -> runw fixed (init n m) ls = Some s ->
  (calls s <> [] -> exists l s', progress_label l = true /\ wf_label s l = true /\ step fixed s l = Some s')
  /\ (forall ls' s', forallb internal ls' = true -> run fixed s ls' = Some s' ->
        measure s' + length ls' <= measure s).
Proof. exact progress_lemma. Qed.
Print Assumptions C12_progress.

(* The code before the fixes violates the property (both replayed on the real code: corpus/C12). *)
Theorem C12_unknown_feedback_orig_refuted :
  exists ls s s2,
    run original (init 1 1) ls = Some s
    /\ crashed s = false /\ calls s = [] /\ rets s = [(OFb 7, RNotPresent)]
    /\ table s = [7] /\ tokens s = 0
    /\ run original s [FinCall 7; FinDelete 7] = Some s2
    /\ calls s2 = [PFinRel 7] /\ step original s2 (FinRelease 7) = None.
Proof. exact unknown_feedback_orig_refuted. Qed.
Print Assumptions C12_unknown_feedback_orig_refuted.

Theorem C12_frozen_accepts_orig_refuted :
  exists s0 ls s2,
    run original (init 2 1) [InsCall 1; InsSelect 1 ArmChan; InsStore 1; InsSend 1; RunRecv; RunHand] = Some s0
    /\ calls s0 = [] /\ nilled s0 = false
    /\ run original s0 (Freeze :: ls) = Some s2
    /\ frozen s2 = true
    /\ rets s2 = [(OFb 1, ROk); (OIns 2, ROk)] ++ rets s0
    /\ table s2 = [2; 1] /\ sent s2 = sent s0 ++ [2; 1].
Proof. exact frozen_accepts_orig_refuted. Qed.
Print Assumptions C12_frozen_accepts_orig_refuted.

(* A seeded mutation of the feedback fix (Load, then a plain Store instead of the CompareAndSwap loop)
   violates the accounting under a feedback racing a finish of the same seed; the committed code
   rejects the feedback on the same schedule.  (Replayed on the real code by the `reactorc` driver's
   racing rounds.) *)
Theorem C12_feedback_loadstore_refuted :
  exists s s',
    run loadstore (init 2 1) (ls_race ++ [FbCheck 1 ArmChan; FbSelect 1 ArmChan]) = Some s
    /\ crashed s = false /\ calls s = []
    /\ rets s = [(OFb 1, ROk); (OFin 1, ROk); (OIns 1, ROk)]
    /\ table s = [1] /\ tokens s = 0
    /\ run fixed (init 2 1) (ls_race ++ [FbLoad 1]) = Some s'
    /\ calls s' = [] /\ rets s' = [(OFb 1, RNotPresent); (OFin 1, ROk); (OIns 1, ROk)]
    /\ table s' = [] /\ tokens s' = 0.
Proof. exact feedback_loadstore_refuted. Qed.
Print Assumptions C12_feedback_loadstore_refuted.
