(* C01 - Each accepted seed is finished exactly once, only after its whole tree is done.
   Only property theorems; each closed by [exact] of a lemma proved elsewhere.

   The pipeline LTS (Pipe/PipeLts.v) is the closed system source queue -> reactor -> four stages
   -> finisher with W workers per stage and channels of capacity W; a label sequence fixes the
   interleaving AND every answer of the outside world (normalisation, filters, seen-store, server
   responses), so "forall ls" below is "for every schedule and every site behaviour".

   The per-seed facts about one pipeline pass (every stage function returns without panic on a
   tree satisfying the seed invariant; the finisher feeds back exactly the trees with pending
   nodes) are proved in Stage/PassProofs.v / PassClosed.v and restated below. *)
From Coq Require Import Permutation.
From ZenoV Require Import Tree.Item Tree.ItemSpec Stage.Pass Stage.PassSpec Stage.PassClosed Pipe.PipeLts Pipe.PipeProofs Pipe.PipeClosed Pipe.PipeTerm.
Open Scope N_scope.

(* Safety, in every reachable state: no stage panics; no seed is reported finished twice; a seed is
   reported only when no node of its tree awaits fetching or post-processing; every queue row is
   queued, in flight or finished - exactly one of the three (never dropped, never duplicated); the
   reactor's table is exactly the set of seeds in flight and equals the tokens in use, at most W. *)
Theorem C01_pipeline_safe : forall w c rows ls s,
  NoDup (map row_id rows) -> run (init w c rows) ls = Some s ->
  p_panicked s = false
  /\ NoDup (map fst (p_finished s))
  /\ (forall id t, In (id, t) (p_finished s) -> no_pending t = true)
  /\ Permutation (map row_id rows) (map row_id (p_src s) ++ flight_ids s ++ map fst (p_finished s))
  /\ NoDup (map row_id (p_src s) ++ flight_ids s ++ map fst (p_finished s))
  /\ Permutation (flight_ids s) (p_table s)
  /\ p_tokens s = length (p_table s) /\ (p_tokens s <= w)%nat.
Proof. exact pipeline_safe_closed. Qed.
Print Assumptions C01_pipeline_safe.

(* No deadlock: while a row is queued or a seed is in flight, some step is enabled - whatever the
   interleaving so far (in particular the finisher's feedback send never blocks for good). *)
Theorem C01_deadlock_free : forall w c rows ls s,
  NoDup (map row_id rows) -> (1 <= w)%nat -> run (init w c rows) ls = Some s ->
  (p_src s <> [] \/ p_table s <> []) -> exists l s', step s l = Some s'.
Proof. exact pipeline_deadlock_free_closed. Qed.
Print Assumptions C01_deadlock_free.

(* Every execution that cannot be extended ends with every row reported finished exactly once,
   an empty queue, an empty reactor and all tokens free. *)
Theorem C01_all_finished_exactly_once_at_quiescence : forall w c rows ls s,
  NoDup (map row_id rows) -> (1 <= w)%nat -> run (init w c rows) ls = Some s ->
  (forall l, step s l = None) ->
  p_src s = [] /\ p_table s = [] /\ p_tokens s = 0%nat /\ in_flight s = []
  /\ Permutation (map row_id rows) (map fst (p_finished s)).
Proof. exact pipeline_quiescent_closed. Qed.
Print Assumptions C01_all_finished_exactly_once_at_quiescence.

(* Termination: with --domains-crawl off (the case for which C06 bounds the passes of a seed) every
   execution is finite - at most 10 * (4 * (max-redirect + 1)) + 10 steps per queue row - whatever
   the interleaving and whatever the sites answer.  With deadlock freedom and the theorem above:
   every maximal execution ends with every row reported finished exactly once (never dropped). *)
Theorem C01_every_execution_is_finite : forall w c rows ls s,
  NoDup (map row_id rows) -> domains_crawl c = false -> run (init w c rows) ls = Some s ->
  (length ls <= length rows * (10 * (4 * (N.to_nat (max_redirect c) + 1)) + 10))%nat.
Proof. exact pipeline_execution_bound. Qed.
Print Assumptions C01_every_execution_is_finite.

(* "...is reported BACK TO THAT QUEUE as finished exactly once": read at the queue's side.  [reports] is the list
   of finish reports the queue receives along an execution - from the finisher (a seed whose tree is done) and
   from the queue's own consumer, which finishes a row AT ONCE when its text is not a URL ([LDiscard]; whether a
   text parses is an answer of the outside world, chosen by the label).  Along every execution: no row is
   reported twice, only rows of the queue are reported, every row is queued, in flight or reported; in a state
   that cannot move every row has been reported exactly once. *)
Theorem C01_queue_hears_of_every_row_exactly_once : forall w c rows ls s,
  NoDup (map row_id rows) -> run (init w c rows) ls = Some s ->
  NoDup (reports (init w c rows) ls)
  /\ (forall id, In id (reports (init w c rows) ls) -> In id (map row_id rows))
  /\ Permutation (map row_id rows) (map row_id (p_src s) ++ flight_ids s ++ reports (init w c rows) ls)
  /\ ((1 <= w)%nat -> (forall l, step s l = None) -> Permutation (map row_id rows) (reports (init w c rows) ls)).
Proof. exact reports_exactly_once_closed. Qed.
Print Assumptions C01_queue_hears_of_every_row_exactly_once.

(* A row that has been reported is out of the pipeline for good: at every later moment of every continuation it
   is not queued, not tracked by the reactor, in no channel and with no worker - and it is not reported again. *)
Theorem C01_reported_row_never_in_the_pipeline_again : forall w c rows la lb s1 s2 id,
  NoDup (map row_id rows) -> run (init w c rows) la = Some s1 -> In id (reports (init w c rows) la) ->
  run s1 lb = Some s2 ->
  ~ In id (map row_id (p_src s2)) /\ ~ In id (flight_ids s2) /\ ~ In id (p_table s2) /\ ~ In id (reports s1 lb).
Proof. exact reported_never_again_closed. Qed.
Print Assumptions C01_reported_row_never_in_the_pipeline_again.

(* The consumer's discard arm: a row that is finished at once was at no earlier moment of the execution in the
   pipeline or reported; the step takes no token, leaves the reactor's table and every channel as they were and
   delivers exactly one report; at no later moment is the row in the pipeline or reported again. *)
Theorem C01_row_finished_at_once_is_never_in_the_pipeline : forall w c rows ls s id u h r,
  NoDup (map row_id rows) -> run (init w c rows) ls = Some s -> p_src s = (id, u, h) :: r ->
  (forall la lb s0, ls = la ++ lb -> run (init w c rows) la = Some s0 ->
     ~ In id (flight_ids s0) /\ ~ In id (p_table s0) /\ ~ In id (reports (init w c rows) la))
  /\ exists s', step s LDiscard = Some s' /\ report_of s LDiscard = [id]
       /\ p_src s' = r /\ p_tokens s' = p_tokens s /\ p_table s' = p_table s /\ p_places s' = p_places s
       /\ forall lb s2, run s' lb = Some s2 ->
            ~ In id (map row_id (p_src s2)) /\ ~ In id (flight_ids s2) /\ ~ In id (p_table s2) /\ ~ In id (reports s' lb).
Proof. exact discarded_row_never_in_pipeline_closed. Qed.
Print Assumptions C01_row_finished_at_once_is_never_in_the_pipeline.

(* ---- one seed's whole life, for every list of per-pass oracles (= every site behaviour, every
   seen-store answer, every filter outcome) ---- *)

(* no stage ever panics *)
Theorem C01_no_stage_panics : forall c os u hops w, run_passes c os (seed0 u hops) <> Panic w.
Proof. exact a_no_panic. Qed.
Print Assumptions C01_no_stage_panics.

(* at every stage boundary of every pass the tree has unique ids and passes CheckConsistency *)
Theorem C01_wellformed_at_every_stage_boundary : forall c os u hops x,
  In x (run_trees c os (seed0 u hops)) -> NoDup (ids x) /\ check_consistency x = 0%nat.
Proof. exact b_wellformed_at_every_boundary. Qed.
Print Assumptions C01_wellformed_at_every_stage_boundary.

(* the finisher reports the seed finished if and only if no node of its tree awaits fetching or
   post-processing; otherwise the seed is fed back, satisfies the invariant again and its tree is
   exactly one level deeper *)
Theorem C01_finish_iff_nothing_pending : forall c os1 o u hops t next,
  run_passes c os1 (seed0 u hops) = Ok (t, next, DFeedback) ->
  exists t1 t2 t3 next' t4 d,
    pre_worker o t = Ok t1 /\ arch_worker o t1 = Ok t2 /\ post_worker c o t2 next = Ok (t3, next')
    /\ fin_worker t3 = Ok (t4, d) /\ pass c o (t, next) = Ok (t4, next', d)
    /\ (d = DFinish <-> no_pending t3 = true) /\ no_pending t4 = no_pending t3
    /\ (d = DFeedback -> Inv t4 next' /\ max_depth t4 = S (max_depth t)).
Proof. exact c_finish_iff_nothing_pending. Qed.
Print Assumptions C01_finish_iff_nothing_pending.

(* within one seed's tree no URL is fetched by two different non-seed nodes, over its whole life *)
Theorem C01_fetch_once : forall c os u hops,
  NoDup (map fst (run_fetched c os (seed0 u hops))) /\ NoDup (map snd (run_fetched c os (seed0 u hops))).
Proof. exact e_fetch_once. Qed.
Print Assumptions C01_fetch_once.

(* Per-worker asset concurrency: the archiver fetches the nodes of the working level in parallel
   goroutines, each writing its own node.  Whatever order they finish in (any concurrency bound,
   any interleaving of the fetches), the stage's result is the tree the model computes. *)
From Coq Require Import Permutation.
From ZenoV Require Import Stage.ArchOrder.
Theorem C01_archive_order_irrelevant : forall o t ns,
  NoDup (ids t) -> Permutation (nodes_at (max_depth t) t) ns ->
  fold_left (arch_step o) ns t = archive o t.
Proof. exact archive_order_irrelevant. Qed.
Print Assumptions C01_archive_order_irrelevant.

(* "...only after every URL in its tree (the seed, its REDIRECT TARGETS and its embedded assets)...": a 3xx answer
   with redirects left always puts its target into the tree - whatever the node's depth, its MIME type, the asset
   capture and domains-crawl settings (the post-processor looks at the redirect before any of its "nothing more to
   do here" rules); at the limit the node is completed instead. *)
From ZenoV Require Import Stage.RedirectFollowed.
Theorem C01_redirect_always_followed : forall c o dwr1 n t next r,
  st_of n = Archived -> o_fetch o (id_of n) = Some r -> r_redirect r = true ->
  (nredir (inf n) < max_redirect c)%N ->
  post_item c o dwr1 n (t, next) =
    match add_child (id_of n) (new_child next (r_loc r) (nhops (inf n)) (nredir (inf n) + 1)%N false) GotRedirected t with
    | Some t' => (t', (next + 1)%N)
    | None => (t, next)
    end.
Proof. exact post_item_follows_redirect. Qed.
Print Assumptions C01_redirect_always_followed.

(* ... and the target stays: the "bare domain" rule that drops an extracted asset with an empty path does not apply to
   the target of a redirect (a redirect to the site root is the most ordinary redirect there is) *)
Theorem C01_redirect_target_kept : forall o n p r t u ep,
  st_of n = Fresh -> st_of p = GotRedirected -> o_pre o (id_of n) = POk u false ep ->
  pre_loop o ((n, Some p) :: r) t = pre_loop o r (set_url_of (id_of n) u t).
Proof. exact pre_loop_keeps_redirect_target. Qed.
Print Assumptions C01_redirect_target_kept.
