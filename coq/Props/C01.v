(* C01 - Each accepted seed is finished exactly once, only after its whole tree is done.
   Only property theorems; each closed by [exact] of a lemma proved elsewhere.

   The pipeline LTS (Pipe/PipeLts.v) is the closed system source queue -> reactor -> four stages
   -> finisher with W workers per stage and channels of capacity W; a label sequence fixes the
   interleaving AND every answer of the outside world (normalisation, filters, seen-store, server
   responses), so "forall ls" below is "for every schedule and every site behaviour".

   The two hypotheses are the per-seed theorems about one pipeline pass, stated in
   Stage/PassSpec.v (every stage function returns without panic on a tree satisfying the seed
   invariant; the finisher feeds back exactly the trees with pending nodes).  They are closed in
   Props/C01 as soon as Stage/PassProofs.v is complete; until then C01 is proved RELATIVE to them
   (and the correspondence check exercises exactly those two statements pass by pass against the
   real stage workers). *)
From Coq Require Import Permutation.
From ZenoV Require Import Tree.Item Tree.ItemSpec Stage.Pass Stage.PassSpec Pipe.PipeLts Pipe.PipeProofs.
Open Scope N_scope.

(* Safety, in every reachable state: no stage panics; no seed is reported finished twice; a seed is
   reported only when no node of its tree awaits fetching or post-processing; every queue row is
   queued, in flight or finished - exactly one of the three (never dropped, never duplicated); the
   reactor's table is exactly the set of seeds in flight and equals the tokens in use, at most W. *)
Theorem C01_pipeline_safe : seed0_inv_stmt -> pass_preserves_stmt ->
  forall w c rows ls s,
  NoDup (map row_id rows) -> run (init w c rows) ls = Some s ->
  p_panicked s = false
  /\ NoDup (map fst (p_finished s))
  /\ (forall id t, In (id, t) (p_finished s) -> no_pending t = true)
  /\ Permutation (map row_id rows) (map row_id (p_src s) ++ flight_ids s ++ map fst (p_finished s))
  /\ NoDup (map row_id (p_src s) ++ flight_ids s ++ map fst (p_finished s))
  /\ Permutation (flight_ids s) (p_table s)
  /\ p_tokens s = length (p_table s) /\ (p_tokens s <= w)%nat.
Proof. exact pipeline_safe. Qed.
Print Assumptions C01_pipeline_safe.

(* No deadlock: while a row is queued or a seed is in flight, some step is enabled - whatever the
   interleaving so far (in particular the finisher's feedback send never blocks for good). *)
Theorem C01_deadlock_free : seed0_inv_stmt -> pass_preserves_stmt ->
  forall w c rows ls s,
  NoDup (map row_id rows) -> (1 <= w)%nat -> run (init w c rows) ls = Some s ->
  (p_src s <> [] \/ p_table s <> []) -> exists l s', step s l = Some s'.
Proof. exact pipeline_deadlock_free. Qed.
Print Assumptions C01_deadlock_free.

(* Every execution that cannot be extended ends with every row reported finished exactly once,
   an empty queue, an empty reactor and all tokens free. *)
Theorem C01_all_finished_exactly_once_at_quiescence : seed0_inv_stmt -> pass_preserves_stmt ->
  forall w c rows ls s,
  NoDup (map row_id rows) -> (1 <= w)%nat -> run (init w c rows) ls = Some s ->
  (forall l, step s l = None) ->
  p_src s = [] /\ p_table s = [] /\ p_tokens s = 0%nat /\ in_flight s = []
  /\ Permutation (map row_id rows) (map fst (p_finished s)).
Proof. exact pipeline_quiescent. Qed.
Print Assumptions C01_all_finished_exactly_once_at_quiescence.
