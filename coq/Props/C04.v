(* C04 - A stopped or killed job resumes all unfinished seeds; finished implies captured.
   Only property theorems; each closed by [exact] of a lemma proved in Pipe/CrashProofs.v.

   Pipe/CrashLts.v: durable state = rows of lq.db (FRESH / CLAIMED, deleted when finished) and the
   complete records of the WARC files (plus possibly one partial tail); volatile state = consumer
   buffer, seeds in the reactor, pending delete batch.  A label sequence fixes every crash point
   (LCrash may come after ANY prefix), every graceful-stop moment and every restart. *)
From ZenoV Require Import Pipe.CrashLts Pipe.CrashProofs.
Open Scope N_scope.

(* At every instant of every history - any number of crashes, stops and restarts included - every
   capture the WARC writer acknowledged is among the complete records on disk, every row of the
   queue is still there unless it was deleted (= its seed was reported finished), and a deleted
   row never comes back. *)
Theorem C04_finished_implies_captured : forall reset ids ls s,
  run (init reset ids) ls = Some s ->
  (forall id u, In (id, u) (c_acked s) -> In (id, u) (c_warc s))
  /\ (forall i, In i ids -> In i (row_ids s) \/ In i (c_deleted s))
  /\ (forall i, In i (c_deleted s) -> ~ In i (row_ids s)).
Proof. exact finished_implies_captured. Qed.
Print Assumptions C04_finished_implies_captured.

(* The complete records on disk only ever grow: no crash, stop or restart removes or reorders one
   (the files stay readable record by record up to the last complete record). *)
Theorem C04_complete_prefix_survives : forall ls s s',
  run s ls = Some s' -> exists ext, c_warc s' = c_warc s ++ ext.
Proof. exact complete_prefix_survives. Qed.
Print Assumptions C04_complete_prefix_survives.

(* After a restart no row stays stranded as handed-out: every row that was not deleted is FRESH,
   i.e. will be handed out and crawled again (that it then IS crawled and finished is C01). *)
Theorem C04_restart_hands_out_everything : forall ids ls s s',
  run (init true ids) ls = Some s -> step s LRestart = Some s' ->
  all_fresh s' /\ row_ids s' = row_ids s
  /\ (forall i, In i ids -> In i (row_ids s') \/ In i (c_deleted s')).
Proof. exact restart_hands_out_everything. Qed.
Print Assumptions C04_restart_hands_out_everything.

(* The code BEFORE "fix: rows left CLAIMED by a previous run are handed out again ...": a kill after
   a claim, or a graceful stop with a row in the consumer's buffer, strands the row for ever. *)
Theorem C04_restart_orig_refuted :
  exists ls s, run (init false [1; 2]) ls = Some s /\ c_up s = true
               /\ In (Row 1 true) (c_rows s) /\ c_buf s = [] /\ c_flight s = [] /\ c_pend s = [].
Proof. exact restart_orig_refuted. Qed.
Print Assumptions C04_restart_orig_refuted.

Theorem C04_stop_orig_refuted :
  exists ls s, run (init false [1; 2]) ls = Some s /\ c_up s = true
               /\ In (Row 2 true) (c_rows s) /\ In (Row 1 false) (c_rows s) /\ c_buf s = [].
Proof. exact stop_orig_refuted. Qed.
Print Assumptions C04_stop_orig_refuted.

(* non-vacuity: a history with a finished seed, a crash that leaves a partial record, a restart *)
Theorem C04_crash_run_example :
  match run (init true [1; 2; 3])
     [LClaim [1; 2]; LInsert 1; LInsert 2; LWrite 1 10; LAck 1 10; LWrite 2 20; LFinish 1; LDelete [1];
      LClaim [3]; LCrash true; LRestart; LClaim [2; 3]] with
  | Some s => map r_id (c_rows s) = [2; 3] /\ c_deleted s = [1] /\ c_warc s = [(1, 10); (2, 20)]
              /\ c_acked s = [(1, 10)] /\ c_buf s = [2; 3]
  | None => False
  end.
Proof. exact crash_run. Qed.
Print Assumptions C04_crash_run_example.
