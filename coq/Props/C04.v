(* C04 - A stopped or killed job resumes all unfinished seeds; finished implies captured.
   Only property theorems; each closed by [exact] of a lemma proved in Pipe/CrashProofs.v.

   Pipe/CrashLts.v: durable state = rows of lq.db (FRESH / CLAIMED, deleted when finished) and the
   complete records of the WARC files (plus possibly one partial tail); volatile state = consumer
   buffer, seeds in the reactor, pending delete batch.  A label sequence fixes every crash point
   (LCrash may come after ANY prefix), every graceful-stop moment and every restart. *)
From ZenoV Require Import Pipe.CrashLts Pipe.CrashProofs.
Open Scope N_scope.

(* At every instant of every history - any number of crashes, stops and restarts included - every
   capture the WARC writer acknowledged is among the complete records on disk, every row of the
   queue is still there unless it was deleted (= its seed was reported finished), and a deleted
   row never comes back. *)
Theorem C04_finished_implies_captured : forall reset ids ls s,
  run (init reset ids) ls = Some s ->
  (forall id u, In (id, u) (c_acked s) -> In (id, u) (c_warc s))
  /\ (forall i, In i ids -> In i (row_ids s) \/ In i (c_deleted s))
  /\ (forall i, In i (c_deleted s) -> ~ In i (row_ids s)).
Proof. exact finished_implies_captured. Qed.
Print Assumptions C04_finished_implies_captured.

(* The complete records on disk only ever grow: no crash, stop or restart removes or reorders one
   (the files stay readable record by record up to the last complete record). *)
Theorem C04_complete_prefix_survives : forall ls s s',
  run s ls = Some s' -> exists ext, c_warc s' = c_warc s ++ ext.
Proof. exact complete_prefix_survives. Qed.
Print Assumptions C04_complete_prefix_survives.

(* After a restart no row stays stranded as handed-out: every row that was not deleted is FRESH,
   i.e. will be handed out and crawled again (that it then IS crawled and finished is C01). *)
Theorem C04_restart_hands_out_everything : forall ids ls s s',
  run (init true ids) ls = Some s -> step s LRestart = Some s' ->
  all_fresh s' /\ row_ids s' = row_ids s
  /\ (forall i, In i ids -> In i (row_ids s') \/ In i (c_deleted s')).
Proof. exact restart_hands_out_everything. Qed.
Print Assumptions C04_restart_hands_out_everything.

(* The code BEFORE "fix: rows left CLAIMED by a previous run are handed out again ...": a kill after
   a claim, or a graceful stop with a row in the consumer's buffer, strands the row for ever. *)
Theorem C04_restart_orig_refuted :
  exists ls s, run (init false [1; 2]) ls = Some s /\ c_up s = true
               /\ In (Row 1 true) (c_rows s) /\ c_buf s = [] /\ c_flight s = [] /\ c_pend s = [].
Proof. exact restart_orig_refuted. Qed.
Print Assumptions C04_restart_orig_refuted.

Theorem C04_stop_orig_refuted :
  exists ls s, run (init false [1; 2]) ls = Some s /\ c_up s = true
               /\ In (Row 2 true) (c_rows s) /\ In (Row 1 false) (c_rows s) /\ c_buf s = [].
Proof. exact stop_orig_refuted. Qed.
Print Assumptions C04_stop_orig_refuted.

(* non-vacuity: a history with a finished seed, a crash that leaves a partial record, a restart *)
Theorem C04_crash_run_example :
  match run (init true [1; 2; 3])
     [LClaim [1; 2]; LInsert 1; LInsert 2; LWrite 1 10; LAck 1 10; LWrite 2 20; LFinish 1; LDelete [1];
      LClaim [3]; LCrash true; LRestart; LClaim [2; 3]] with
  | Some s => map r_id (c_rows s) = [2; 3] /\ c_deleted s = [1] /\ c_warc s = [(1, 10); (2, 20)]
              /\ c_acked s = [(1, 10)] /\ c_buf s = [2; 3]
  | None => False
  end.
Proof. exact crash_run. Qed.
Print Assumptions C04_crash_run_example.

(* ======== second model (Pipe/CrashSeen.v): the seen-store and the per-seed fetch ========
   The seen-store is durable and written when a seed is pre-processed, before its fetch; a seed is
   reported finished only once its own URL has been dealt with in the current run (captured with a
   complete record, failed for good) or the store answered "seen". *)
From ZenoV Require Import Pipe.CrashSeen Pipe.CrashSeenProofs.

(* Finished implies captured, seed by seed, for every history of claims, fetches, failures,
   finishes, delete batches, kills, stops and restarts: a row is deleted only for a seed whose own
   URL has a complete response record on disk or failed for good - the ONLY other way, and only with
   the local seencheck in use, is a seed that a kill or stop caught between the seen-store write and
   its capture (known finding seen-write-ahead, characterised exactly). *)
Theorem C04_deleted_seed_accounted : forall sc ids ls s,
  srun (sinit sc ids) ls = Some s ->
  forall i, In i (s_deleted s) ->
    In i (s_warc s) \/ In i (s_failed s) \/ (sc = true /\ In i (s_lostpre s)).
Proof. exact deleted_accounted. Qed.
Print Assumptions C04_deleted_seed_accounted.

(* --disable-seencheck: no exception, whatever the kill and stop moments *)
Theorem C04_deleted_seed_captured_without_seencheck : forall ids ls s,
  srun (sinit false ids) ls = Some s ->
  forall i, In i (s_deleted s) -> In i (s_warc s) \/ In i (s_failed s).
Proof. exact deleted_captured_without_seencheck. Qed.
Print Assumptions C04_deleted_seed_captured_without_seencheck.

(* ... and none either, seencheck or not, in a history without a kill or stop *)
Theorem C04_deleted_seed_captured_uninterrupted : forall sc ids ls s,
  srun (sinit sc ids) ls = Some s -> interrupts ls = false ->
  forall i, In i (s_deleted s) -> In i (s_warc s) \/ In i (s_failed s).
Proof. exact deleted_captured_uninterrupted. Qed.
Print Assumptions C04_deleted_seed_captured_uninterrupted.

(* the exception is real: pre-processed, killed before the fetch, resumed, skipped as seen, deleted
   with no record and no failure *)
Theorem C04_seen_write_ahead_refuted :
  exists ls s, srun (sinit true [1]) ls = Some s /\ In 1 (s_deleted s) /\ s_rows s = []
               /\ s_warc s = [] /\ s_failed s = [] /\ s_lostpre s = [1].
Proof. exact seen_write_ahead_witness. Qed.
Print Assumptions C04_seen_write_ahead_refuted.

(* a resumed row is really crawled again: in every run a seed is reported finished only after its own
   URL was fetched (or failed for good) in THAT run, unless the seen-store holds it *)
Theorem C04_finish_needs_fetch_in_this_run : forall sc ids ls s id s',
  srun (sinit sc ids) ls = Some s -> sstep s (SFinish id) = Some s' ->
  In id (s_done s) \/ (sc = true /\ In id (s_seen s)).
Proof. exact finish_needs_fetch_in_this_run. Qed.
Print Assumptions C04_finish_needs_fetch_in_this_run.

(* the first model simulates the second (SPre and SFail stutter, SCapture = LWrite;LAck), so its
   theorems hold of the richer model: *)
Theorem C04_second_model_refines_first : forall sc ids ls s,
  srun (sinit sc ids) ls = Some s ->
  run (init true ids) (flat_map abs_label ls) = Some (abs s).
Proof. exact second_refines_first. Qed.
Print Assumptions C04_second_model_refines_first.

Theorem C04_rows_never_lost : forall sc ids ls s,
  srun (sinit sc ids) ls = Some s ->
  (forall i, In i ids -> In i (srow_ids s) \/ In i (s_deleted s))
  /\ (forall i, In i (s_deleted s) -> ~ In i (srow_ids s)).
Proof. exact rows_never_lost. Qed.
Print Assumptions C04_rows_never_lost.

(* non-vacuity: the kill catches seed 2 after its capture and seed 3 after the seen-store write only;
   the resumed run skips both: 2 has its record, 3 is the lost one *)
Theorem C04_crash_seen_example :
  match srun (sinit true [1; 2; 3])
     [SClaim [1; 2; 3]; SInsert 1; SInsert 2; SInsert 3; SPre 1; SPre 2; SPre 3; SCapture 1; SFinish 1; SDelete [1];
      SCapture 2; SCrash; SRestart] with
  | Some s => match drive s [2; 3] with
              | Some s2 => s_warc s2 = [1; 2] /\ s_lostpre s2 = [3] /\ s_pend s2 = [3; 2] /\ s_deleted s2 = [1]
              | None => False
              end
  | None => False
  end.
Proof. exact crash_seen_example. Qed.
Print Assumptions C04_crash_seen_example.

(* The first run of a job - whether it is still going, or was killed or stopped at any instant: a row is deleted only for
   a seed whose own URL was REQUESTED in that run (the request ended in a complete record or failed for good).  Nothing
   else - not "already seen", not "out of scope": the queue's rows are in scope - ends a queued URL.  (After a restart the
   seen-store can: C04_seen_write_ahead_refuted.) *)
Theorem C04_first_run_deleted_was_fetched : forall sc ids ls s,
  srun (sinit sc ids) ls = Some s -> no_restart ls = true ->
  forall i, In i (s_deleted s) -> In i (s_warc s) \/ In i (s_failed s).
Proof. exact first_run_deleted_was_fetched. Qed.
Print Assumptions C04_first_run_deleted_was_fetched.

Theorem C04_first_run_example :
  exists s, srun (sinit true [1; 2])
     [SClaim [1; 2]; SInsert 1; SInsert 2; SPre 1; SPre 2; SCapture 1; SFail 2; SFinish 1; SFinish 2; SDelete [1; 2]; SCrash] = Some s
  /\ s_deleted s = [1; 2] /\ s_warc s = [1] /\ s_failed s = [2].
Proof. exact first_run_example. Qed.
Print Assumptions C04_first_run_example.

(* "Resumes all unfinished seeds", as a possibility theorem over every history: once the job is
   started again, EVERY row still in the table - none is stranded as handed-out - can be handed out,
   pre-processed, fetched unless the seen-store holds it, finished and deleted: that continuation is
   a run of the model and leaves the table empty (each of those rows is then accounted for by
   C04_deleted_seed_accounted). *)
From ZenoV Require Import Pipe.CrashResume.
Theorem C04_resume_completes : forall sc ids ls s s',
  NoDup ids -> srun (sinit sc ids) ls = Some s -> sstep s SRestart = Some s' ->
  exists s2 s3, drive s' (srow_list s') = Some s2
                /\ sstep s2 (SDelete (srow_list s')) = Some s3
                /\ s_rows s3 = []
                /\ (forall i, In i (srow_list s') -> In i (s_deleted s3)).
Proof. exact resume_completes. Qed.
Print Assumptions C04_resume_completes.
