(* C02 - Accepted responses are in the WARC, byte-exact, before the seed is finished
   (component-level slice: ProcessBody, the discard policy, archive()'s per-item sequence).
   This file contains only the property theorems; each is closed by [exact] of a lemma proved
   elsewhere and followed by Print Assumptions. *)
From ZenoV Require Import Warc.Body Warc.BodyProofs Warc.Discard Warc.DiscardProofs Warc.Retry Warc.RetryProofs.

(* ProcessBody.  For every configuration, MIME oracle, deadline behaviour and reader script: if
   it returns nil then every byte of the body was taken from the reader (so the recorder that
   tees the connection saw every byte) and the body was closed; the MIME type was detected on
   exactly the first min(2048, length) bytes; when the MIME rule selects spooling the copy given
   to the post-processor is byte-identical to the whole body, otherwise none is kept; in the
   drain-only configuration the type is that of the empty string and the copy, if any, is empty. *)
Theorem C02_body_drained :
  forall c mime_of s, let r := process_body c mime_of s in
  pb_closed r = true /\ (pb_cons r <= slen s)%N /\
  (pb_err r = None ->
     pb_cons r = slen s /\
     if drain_only c
     then pb_mime r = Some (mime_of []) /\
          pb_spool r = (if needs_spool (mime_of []) then Some [] else None)
     else exists buf, expand buf = firstn (N.to_nat sniff) (expand (sdata s)) /\
          pb_mime r = Some (mime_of buf) /\
          if needs_spool (mime_of buf)
          then exists sp, pb_spool r = Some sp /\ expand sp = expand (sdata s)
          else pb_spool r = None).
Proof. exact body_drained_lemma. Qed.
Print Assumptions C02_body_drained.

Theorem C02_body_error_no_spool : forall c mime_of s,
  pb_err (process_body c mime_of s) <> None -> pb_spool (process_body c mime_of s) = None.
Proof. exact body_error_no_spool_lemma. Qed.
Print Assumptions C02_body_error_no_spool.

(* ProcessBody fails only for a reason: without a Read error and a failing deadline it succeeds *)
Theorem C02_body_quiet_ok : forall c mime_of s,
  conn_never_fails (p_conn c) -> quiet s -> pb_err (process_body c mime_of s) = None.
Proof. exact body_quiet_ok_lemma. Qed.
Print Assumptions C02_body_quiet_ok.

(* the comparison of run-length encoded data used by the monitors means byte equality *)
Theorem C02_same_bytes_sound : forall a b, same_bytes a b = true -> expand a = expand b.
Proof. exact same_bytes_sound. Qed.
Print Assumptions C02_same_bytes_sound.

(* Discard policy: for every status code, cf-mitigated value and configured list the default
   hook chain discards exactly challenge pages and listed statuses, and names the reason. *)
Theorem C02_discard_iff : forall dl st cf,
  (fst (chain default_hooks dl st cf) = true <-> policy_rejects dl st cf)
  /\ (snd (chain default_hooks dl st cf) = RChallenge <-> challenge st cf)
  /\ (snd (chain default_hooks dl st cf) = RInList <-> In st dl /\ ~ challenge st cf)
  /\ (fst (chain default_hooks dl st cf) = false <-> snd (chain default_hooks dl st cf) = RAllPassed).
Proof. exact discard_iff_lemma. Qed.
Print Assumptions C02_discard_iff.

Theorem C02_retry_iff : forall dl st cf,
  needs_retry (Some default_hooks) dl st cf = true <->
  ((500 <= st \/ st = 408 \/ st = 425 \/ st = 429) \/ challenge st cf)%Z.
Proof. exact retry_iff_lemma. Qed.
Print Assumptions C02_retry_iff.

Theorem C02_chain_order : forall dl st cf,
  fst (chain [HStatus; HCloudflare] dl st cf) = fst (chain default_hooks dl st cf).
Proof. exact chain_order_lemma. Qed.
Print Assumptions C02_chain_order.

(* Hooks are functions of (status, headers) that leave the body alone.  The chain as the code
   builds it, seen as a function of the WHOLE response (status, header map, body reader): for
   every list of the code's hooks, every discard list, every response - whatever its Server and
   other headers, whatever its body, whatever the type of the reader state - the verdict is the
   one computed from the status code and Header.Get("cf-mitigated") alone, and the body reader is
   handed on exactly as received. *)
Theorem C02_hooks_pure : forall (B : Type) hooks dl (r : resp B),
  gchain (map (hook_fn dl) hooks) r =
  (chain hooks dl (rs_status r) (header_get cf_key (rs_header r)), rs_body r).
Proof. exact @hooks_pure_lemma. Qed.
Print Assumptions C02_hooks_pure.

(* Builder.Build() over ANY list of hooks (future discarders included): if every hook hands the
   body on untouched and decides independently of it, so does the chain *)
Theorem C02_chain_pure : forall (B : Type) (hs : list (ghook B)),
  Forall pure_hook hs -> pure_hook (gchain hs).
Proof. exact @chain_pure_lemma. Qed.
Print Assumptions C02_chain_pure.

(* "response or identical-payload revisit": what the recorder digests after asking the chain
   (WARC-Payload-Digest, the key of local dedupe) is the payload itself exactly when the policy
   keeps the exchange; so two kept exchanges that reach the digest with the same bytes have
   identical payloads *)
Theorem C02_revisit_identical : forall (B : Type) hooks dl (r1 r2 : resp B) p,
  recorder_payload (Some (gchain (map (hook_fn dl) hooks))) r1 = Some p ->
  recorder_payload (Some (gchain (map (hook_fn dl) hooks))) r2 = Some p ->
  rs_body r1 = p /\ rs_body r2 = p.
Proof. exact @revisit_identical_lemma. Qed.
Print Assumptions C02_revisit_identical.

(* ... and why the body must be left alone: one hook that keeps the response but consumes the
   head of the body makes two different payloads with a common tail indistinguishable to the
   recorder, and neither digest is the payload's *)
Theorem C02_impure_hook_refuted :
  exists (r1 r2 : resp bytes) dl,
    rs_body r1 <> rs_body r2 /\
    let hook := Some (gchain (peeking_hook 4 :: map (hook_fn dl) default_hooks)) in
    recorder_payload hook r1 = recorder_payload hook r2 /\
    recorder_payload hook r1 <> Some (rs_body r1).
Proof. exact impure_hook_refuted. Qed.
Print Assumptions C02_impure_hook_refuted.

(* archive(): at most MaxRetry + 1 requests per item, for every outcome sequence *)
Theorem C02_attempts_le : forall cfg pb os,
  (count_req (fst (archive_item cfg pb os)) <= a_max_retry cfg + 1)%N.
Proof. exact attempts_le_lemma. Qed.
Print Assumptions C02_attempts_le.

(* archive(): on every exit every response body that was opened has been closed exactly once *)
Theorem C02_bodies_closed_on_every_exit : forall cfg pb os,
  bodies_ok (fst (archive_item cfg pb os)) = true.
Proof. exact bodies_closed_lemma. Qed.
Print Assumptions C02_bodies_closed_on_every_exit.

(* archive(): SetStatus(ItemArchived) comes last, directly after - request k, its response,
   ProcessBody succeeded on it, and in sync mode the feedback of request k was received *)
Theorem C02_written_before_archived : forall cfg pb os,
  snd (archive_item cfg pb os) = XReturn SArchived ->
  exists pre k st cf,
    fst (archive_item cfg pb os) = pre ++ [EReq k; EOpen k; EProcess k true] ++ await cfg k ++ [EStatus SArchived]
    /\ ~ In (EStatus SArchived) pre /\ k = count_req pre
    /\ nth_error os (N.to_nat k) = Some (OResp st cf)
    /\ needs_retry (a_hooks cfg) (a_dl cfg) st cf = false
    /\ (a_async cfg = false -> await cfg k = [EAwait k]).
Proof. exact written_before_archived_lemma. Qed.
Print Assumptions C02_written_before_archived.

(* ... and with the WARC writer in the picture: in every history that interleaves archive()'s
   events with the writer's and respects the recorder's feedback contract, the exchange the item
   is archived for was written (or dropped by the recorder) before SetStatus(ItemArchived) *)
Theorem C02_written_before_archived_hist : forall cfg pb os h h1 h2,
  a_async cfg = false ->
  proj h = fst (archive_item cfg pb os) ->
  feedback_sound h ->
  h = h1 ++ GA (EStatus SArchived) :: h2 ->
  exists k, (k + 1 = count_req (proj h1))%N
            /\ In (EProcess k true) (proj h1)
            /\ (In (GWritten k) h1 \/ In (GDropped k) h1).
Proof. exact written_before_archived_hist_lemma. Qed.
Print Assumptions C02_written_before_archived_hist.

(* every response's write is confirmed before the next request and before the item leaves
   archive(): true of the variant that waits on the retry / give-up paths too
   (fixes/C02-await-feedback.diff), refuted for the code as it is *)
Theorem C02_all_awaited_fixed : all_awaited_stmt true.
Proof. exact all_awaited_fixed_lemma. Qed.
Print Assumptions C02_all_awaited_fixed.

Theorem C02_all_awaited_orig_refuted : ~ all_awaited_stmt false.
Proof. exact all_awaited_orig_refuted. Qed.
Print Assumptions C02_all_awaited_orig_refuted.
