(* C07 - Page requisites in standard HTML attributes are all fetched, correctly resolved.
   This file contains only the property theorems; each is closed by [exact] of a lemma proved
   in coq/Html and followed by Print Assumptions.

   Vocabulary (coq/Html): [node] DOM; [all_elems dom] its elements in document order;
   [referenced c e u] (Spec.v): element e references u through img src/srcset, script src,
   link href, source src/srcset, video/audio src, url() in a style element or a style attribute,
   its tag is not disabled in c, and the code's NAMED exclusions do not apply (what is left of
   them after the repairs: the style-attribute "not a URL" filter and the "#wp-" filter);
   [html_assets], [html_outlinks], [post_assets], [post_outlinks], [requested] (Html.v): the
   transcription of HTMLAssets, HTMLOutlinks, postprocessItem and the next pass;
   [resolve] (Ref.v): RFC 3986 section 5.2.2.  Third-party code enters as the quantified
   functions (JSON / xurls heuristics, net/url, ada): the statements hold for every such
   function, resp. for every one that meets the stated hypothesis. *)
From Coq Require Import List Ascii String NArith ZArith Bool.
From ZenoV Require Import Lib.Hex Html.Bytes Html.Scan Html.Html Html.Ref Html.Plant Html.Spec
  Html.Chain Html.ScanProofs Html.HtmlProofs Html.ChainProofs.
Import ListNotations.

(* Every URL planted in a standard embedding attribute is among the strings HTMLAssets returns -
   for all DOMs (with or without <base>: extraction does not look at it), all configurations,
   whatever the JSON and script heuristics add. *)
Theorem C07_standard_attrs_extracted :
  forall (data_item_urls : bytes -> list bytes) (script_extra : node -> list bytes)
         (c : cfg) (dom : list node) (e : node) (u : bytes),
  In e (all_elems dom) -> referenced c e u ->
  In u (html_assets data_item_urls script_extra c dom).
Proof. exact standard_attrs_extracted_lemma. Qed.
Print Assumptions C07_standard_attrs_extracted.

(* The srcset splitter returns every candidate URL of a well-formed value, as HTML reads it:
   URLs without ASCII white space that neither start nor end with a comma (commas inside are
   fine), descriptors introduced by any ASCII white space, a comma right after a URL followed by
   white space. *)
Theorem C07_srcset_split_complete : forall (cs : list scand) (c : scand),
  wf_cands cs = true -> In c cs ->
  In (sc_url c) (srcset_urls (render_srcset cs)).
Proof. exact srcset_split_complete_lemma. Qed.
Print Assumptions C07_srcset_split_complete.

(* The scanner of style elements returns the URL of every url(...) token of a well-formed style
   text, as written (quotes inside and double slashes included), unless it starts with "#wp-". *)
Theorem C07_css_urls_complete : forall (d : list ctok * bytes) (t : ctok),
  wf_css d = true -> In t (fst d) -> css_kept (ct_url t) = true ->
  In (ct_url t) (css_urls (render_css d)).
Proof. exact css_urls_complete_lemma. Qed.
Print Assumptions C07_css_urls_complete.

(* The scanner of style attributes returns the body of every parenthesised token of a
   well-formed value unless the "not a URL" filter (percent sign, "0.", "--font", ...) applies. *)
Theorem C07_style_attr_complete : forall (d : list stok * bytes) (t : stok),
  wf_sty d = true -> In t (fst d) -> style_attr_skip (st_body t) = false ->
  In (st_body t) (style_attr_urls (render_sty d)).
Proof. exact style_attr_complete_lemma. Qed.
Print Assumptions C07_style_attr_complete.

(* Every <a href> target, resolved by resolveURL, is among HTMLOutlinks' URLs, and among the
   items postprocessItem returns whenever the item is a 200 at an admissible depth and the hop
   limit allows (item.go after the repair of its third guard, see C07_guard_as_found_refuted). *)
Theorem C07_anchors_become_outlinks :
  forall (onclick_url : bytes -> option bytes) (resolve_url : bytes -> bytes -> option bytes)
         (dc_match : bytes -> bool) (page_links : list bytes)
         (c : cfg) (s : pstate) (page : bytes) (dom : list node) (e : node) (u r : bytes),
  In e (all_elems dom) -> anchor c e u ->
  resolve_url (base_of dom) u = Some r -> r <> [] ->
  post_stops_fixed c s = false -> (p_hops s < c_maxhops c)%Z ->
  In r (html_outlinks onclick_url resolve_url c page dom)
  /\ In r (post_outlinks onclick_url resolve_url true dc_match page_links c s page dom).
Proof. exact anchors_become_outlinks_lemma. Qed.
Print Assumptions C07_anchors_become_outlinks.

(* Dispatch order of extractOutlinks (IsS3 is asked before IsHTML): the bucket-listing decoder
   only gets responses whose Content-Type contains "xml" and is not application/xhtml+xml; for
   every other content type the outlinks are those of the HTML extractor WHATEVER the Server
   header says - so, with the previous theorem, the anchors of a text/html or XHTML page served
   by AmazonS3, UploadServer, Windows-Azure-Blob ... are handed on. *)
Theorem C07_outlinks_dispatch :
  forall (onclick_url : bytes -> option bytes) (resolve_url : bytes -> bytes -> option bytes)
         (dc_match : bytes -> bool) (page_links s3_out : list bytes)
         (server ctype : bytes) (c : cfg) (s : pstate) (page : bytes) (dom : list node),
  containsb (bs "xml") ctype = false \/ is_xhtml ctype = true ->
  post_outlinks_resp onclick_url resolve_url true dc_match page_links s3_out server ctype c s page dom
  = post_outlinks onclick_url resolve_url true dc_match page_links c s page dom.
Proof. exact outlinks_dispatch_lemma. Qed.
Print Assumptions C07_outlinks_dispatch.

(* IsS3 as found (before the repair C07-s3-xhtml) claimed an XHTML page served by an S3-like
   store: the first list is what the code as found handed on, the second what it hands on now. *)
Theorem C07_s3_dispatch_as_found_refuted :
  exists (c : cfg) (s : pstate) (dom : list node) (e : node) (u : bytes),
    In e (all_elems dom) /\ anchor c e u
    /\ post_stops_fixed c s = false /\ (p_hops s < c_maxhops c)%Z
    /\ post_outlinks_resp_orig (fun _ => None) (fun _ x => Some x) true (fun _ => false) [] []
         (bs "AmazonS3") (bs "application/xhtml+xml") c s (bs "https://site.example.com/p.html") dom = []
    /\ post_outlinks_resp (fun _ => None) (fun _ x => Some x) true (fun _ => false) [] []
         (bs "AmazonS3") (bs "application/xhtml+xml") c s (bs "https://site.example.com/p.html") dom = [u].
Proof. exact s3_xhtml_orig_refuted. Qed.
Print Assumptions C07_s3_dispatch_as_found_refuted.

(* Composition with the postprocessor and the next pass: on a page without <base>, every
   planted simple reference that is not the page itself becomes a child whose normalised URL is
   the RFC 3986 resolution against the page URL - unless asset capture is off or the item is
   not a 200 at an admissible depth.  NormalizeURL's parser is the quantified [norm]. *)
Theorem C07_requested_unless_excused :
  forall (data_item_urls : bytes -> list bytes) (script_extra : node -> list bytes)
         (page : loc) (norm : bytes -> option bytes),
  (forall r, simple_ref r = true -> norm (render_ref r) = Some (render_loc (resolve page r))) ->
  forall (c : cfg) (s : pstate) (dom : list node) (e : node) (r : ref),
  has_base dom = false ->
  In e (all_elems dom) -> referenced c e (render_ref r) ->
  simple_ref r = true ->
  trim_quotes (render_ref r) = render_ref r ->
  render_ref r <> render_loc page ->
  post_stops_fixed c s = false -> c_noassets c = false ->
  In (render_loc (resolve page r))
     (requested data_item_urls script_extra true norm c s (render_loc page) dom).
Proof. exact requested_unless_excused_lemma. Qed.
Print Assumptions C07_requested_unless_excused.

(* The same for anchors: resolved by resolveURL in this pass, normalised without parent in the
   next one. *)
Theorem C07_anchors_queued_resolved :
  forall (page : loc) (onclick_url : bytes -> option bytes)
         (resolve_url : bytes -> bytes -> option bytes) (dc_match : bytes -> bool)
         (page_links : list bytes) (norm0 : bytes -> option bytes),
  (forall r, simple_ref r = true ->
     exists t, resolve_url [] (render_ref r) = Some t /\ t <> []
               /\ norm0 (trim_quotes t) = Some (render_loc (resolve page r))) ->
  forall (c : cfg) (s : pstate) (dom : list node) (e : node) (r : ref),
  has_base dom = false ->
  In e (all_elems dom) -> anchor c e (render_ref r) -> simple_ref r = true ->
  post_stops_fixed c s = false -> (p_hops s < c_maxhops c)%Z ->
  In (render_loc (resolve page r))
     (flat_map (fun u => opt_list (norm0 (trim_quotes u)))
        (post_outlinks onclick_url resolve_url true dc_match page_links c s (render_loc page) dom)).
Proof. exact anchors_queued_resolved_lemma. Qed.
Print Assumptions C07_anchors_queued_resolved.

(* Redirects do not count for the depth limit: a page that answered 200 behind ANY number of
   redirects is at depth 0 for GetDepthWithoutRedirections (while GetDepth counts the hops). *)
Theorem C07_redirects_do_not_count : forall n : nat,
  dwr (redirect_path n) = 0%Z /\ depth (redirect_path n) = Z.of_nat n.
Proof. exact (fun n => conj (redirects_do_not_count_lemma n) (depth_counts_redirects n)). Qed.
Print Assumptions C07_redirects_do_not_count.

(* The base of resolution moves along a redirect chain: every child is normalised against its
   PARENT item's URL, so the chain of Location references leads to the hop-by-hop RFC 3986
   resolution - for all chains, whatever their length. *)
Theorem C07_follow_chain :
  forall (norm : bytes -> bytes -> option bytes) (locations : list ref) (seed : loc),
  (forall p, In p (chain_pages seed locations) -> norm_rfc_at norm p) ->
  Forall (fun r => simple_ref r = true /\ trim_quotes (render_ref r) = render_ref r) locations ->
  follow norm (render_loc seed) (map render_ref locations)
  = Some (render_loc (follow_spec seed locations)).
Proof. exact follow_chain_lemma. Qed.
Print Assumptions C07_follow_chain.

(* And the page at the end of the chain gets its requisites requested resolved against the PAGE
   (not the seed), at every chain length: the depth excuse does not apply, and preprocess()
   builds a request for the RFC 3986 resolution unless it is a bare domain or the URL of an item
   already in the seed tree ([tree]: DedupeItems, "already seen"). *)
Theorem C07_requested_behind_redirects :
  forall (norm : bytes -> bytes -> option bytes)
         (data_item_urls : bytes -> list bytes) (script_extra : node -> list bytes)
         (is_root : bytes -> bool),
  (forall l : loc, is_root (render_loc l) = match l_segs l with [[]] => true | _ => false end) ->
  forall (seed : loc) (locations : list ref) (tree : list bytes)
         (c : cfg) (mime_html : bool) (hops : Z) (dc : bool)
         (dom : list node) (e : node) (r : ref),
  let page := follow_spec seed locations in
  let s := PState 200 (dwr (redirect_path (List.length locations))) mime_html hops dc in
  norm_rfc_at norm page ->
  has_base dom = false ->
  In e (all_elems dom) -> referenced c e (render_ref r) ->
  simple_ref r = true ->
  trim_quotes (render_ref r) = render_ref r ->
  render_ref r <> render_loc page ->
  l_segs (resolve page r) <> [[]] ->
  ~ In (render_loc (resolve page r)) tree ->
  c_noassets c = false ->
  In (render_loc (resolve page r))
     (pre_requests data_item_urls script_extra true (norm (render_loc page)) is_root tree
                   c s (render_loc page) dom).
Proof. exact requested_behind_redirects_lemma. Qed.
Print Assumptions C07_requested_behind_redirects.

(* item.go as found: with --disable-assets-capture the anchors of a page within the hop limit
   are not handed on (the first list is what the code as found returns, the second what the
   repaired guard returns). *)
Theorem C07_guard_as_found_refuted :
  exists (c : cfg) (s : pstate) (dom : list node) (e : node) (u : bytes),
    In e (all_elems dom) /\ anchor c e u
    /\ post_stops_fixed c s = false /\ (p_hops s < c_maxhops c)%Z
    /\ post_outlinks (fun _ => None) (fun _ x => Some x) false (fun _ => false) [] c s
                     (bs "https://site.example.com/p.html") dom = []
    /\ post_outlinks (fun _ => None) (fun _ x => Some x) true (fun _ => false) [] c s
                     (bs "https://site.example.com/p.html") dom = [u].
Proof. exact outlinks_without_assets_refuted. Qed.
Print Assumptions C07_guard_as_found_refuted.

(* The named exclusion that is left is real (a known finding): a percent escape in a style
   attribute. *)
Theorem C07_exclusions_are_real :
  exists d t, wf_sty d = true /\ In t (fst d) /\ ~ In (st_body t) (style_attr_urls (render_sty d)).
Proof. exact style_attr_percent_refuted. Qed.
Print Assumptions C07_exclusions_are_real.

(* The code as found (before the repairs C07-srcset-whitespace, C07-srcset-comma,
   C07-css-url-quotes, C07-css-url-slashslash) lost well-formed references that the repaired
   code returns: a comma inside a srcset URL, a tab before the descriptor, "//" and quotes
   inside url(...) of a style element. *)
Theorem C07_scanners_as_found_refuted :
  (exists cs c, wf_cands cs = true /\ In c cs
                /\ ~ In (sc_url c) (srcset_urls_orig (render_srcset cs))
                /\ In (sc_url c) (srcset_urls (render_srcset cs)))
  /\ (exists cs c, wf_cands cs = true /\ In c cs
                   /\ ~ In (sc_url c) (srcset_urls_orig (render_srcset cs))
                   /\ In (sc_url c) (srcset_urls (render_srcset cs)))
  /\ css_urls_orig (bs "a{background:url(//cdn.example.net/x.png)}") = [bs "http://cdn.example.net/x.png"]
  /\ css_urls_orig (bs "a{background:url(/x//y.png)}") = [bs "/xhttp://y.png"]
  /\ css_urls_orig (bs "a{background:url(""/img/o'brien.png"")}") = [bs "/img/obrien.png"]
  /\ css_urls (bs "a{background:url(//cdn.example.net/x.png)}") = [bs "//cdn.example.net/x.png"]
  /\ css_urls (bs "a{background:url(/x//y.png)}") = [bs "/x//y.png"]
  /\ css_urls (bs "a{background:url( ""/img/o'brien.png"" )}") = [bs "/img/o'brien.png"].
Proof.
  exact (conj srcset_comma_orig_refuted (conj srcset_tab_orig_refuted css_rewrite_orig_refuted)).
Qed.
Print Assumptions C07_scanners_as_found_refuted.
