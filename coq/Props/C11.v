(* C11 - The item tree stays well-formed and completion is detected exactly.
   Only property theorems; each closed by [exact] of a lemma proved in Tree/ItemProofs.v
   (statements fixed in Tree/ItemSpec.v, spelled out here with their quantifiers);
   C11_dedupe_unique_all: lemma and statement in Tree/DedupeAll.v. *)
From ZenoV Require Import Tree.Item Tree.ItemSpec Tree.Witness Tree.ItemProofs Tree.DedupeAll.
Open Scope N_scope.

(* ---- well-formedness through every operation sequence ---------------------------------------
   For EVERY list of stage operations (add asset / add redirect target / remove child / status
   change / URL normalisation / seed done / DedupeItems / markCompleted / CompleteAndCheck; see
   [sop], [apply_op] in ItemSpec.v) and EVERY start tree: if ids are unique and CheckConsistency
   passes, and each operation is performed in a state where its guard holds ([op_guard]: the
   precondition under which the real stage performs it), then ids are unique and CheckConsistency
   passes at the end ... *)
Theorem C11_ops_preserve_wf : forall (ops : list sop) (t : item),
  NoDup (ids t) /\ check_consistency t = 0%nat ->
  ops_ok ops t ->
  NoDup (ids (fold_left apply_op ops t)) /\ check_consistency (fold_left apply_op ops t) = 0%nat.
Proof. exact ops_preserve_wf_lemma. Qed.
Print Assumptions C11_ops_preserve_wf.

(* ... and after every prefix of the sequence *)
Theorem C11_ops_preserve_wf_throughout : forall (ops : list sop) (t : item),
  NoDup (ids t) /\ check_consistency t = 0%nat ->
  ops_ok ops t ->
  forall k : nat,
    NoDup (ids (fold_left apply_op (firstn k ops) t))
    /\ check_consistency (fold_left apply_op (firstn k ops) t) = 0%nat.
Proof. exact ops_preserve_wf_all_lemma. Qed.
Print Assumptions C11_ops_preserve_wf_throughout.

(* in a well-formed tree every Fresh node is a leaf (rule 4 of CheckConsistency) *)
Theorem C11_wf_fresh_leaves : forall t : item,
  NoDup (ids t) /\ check_consistency t = 0%nat -> fresh_leaves t = true.
Proof. exact WF_fresh_leaves_lemma. Qed.
Print Assumptions C11_wf_fresh_leaves.

(* the guards are satisfiable: a 21-step life of a seed that uses every operation *)
Theorem C11_ops_nonvacuous :
  (NoDup (ids seed_tree) /\ check_consistency seed_tree = 0%nat) /\ ops_ok ops1 seed_tree.
Proof. exact ops1_ok. Qed.
Print Assumptions C11_ops_nonvacuous.

(* ---- de-duplication is exact ------------------------------------------------------------------
   Inv0 = the state in which preprocess calls DedupeItems: unique ids, Fresh nodes are leaves, the
   nodes already worked on (not Fresh) have pairwise distinct URLs. *)
Theorem C11_dedupe_unique : forall t : item,
  NoDup (ids t) /\ fresh_leaves t = true /\ NoDup (worked_urls t) ->
  NoDup (nonseed_urls (dedupe t)).
Proof. exact dedupe_unique_lemma. Qed.
Print Assumptions C11_dedupe_unique.

(* "Exactly one node per URL" needs none of the pipeline's side conditions: on EVERY tree with
   unique ids (any shape, any statuses, Fresh nodes with children, several worked-on nodes with
   one URL, ...) the result of DedupeItems has pairwise distinct URLs on its non-seed nodes.
   Every visited node that is still attached is the map entry of its URL; a node that loses the
   entry is detached through its recorded parent; nodes visited inside an already detached
   subtree are not part of the result.  (Tree/DedupeAll.v proves it for every survivor rule.)
   The other dedupe theorems do need Inv0: outside it a URL can be lost altogether. *)
Theorem C11_dedupe_unique_all : forall t : item,
  NoDup (ids t) -> NoDup (nonseed_urls (dedupe t)).
Proof. exact dedupe_unique_all_lemma. Qed.
Print Assumptions C11_dedupe_unique_all.

Theorem C11_dedupe_keeps : forall t : item,
  NoDup (ids t) /\ fresh_leaves t = true /\ NoDup (worked_urls t) ->
  forall u : N, In u (nonseed_urls t) <-> In u (nonseed_urls (dedupe t)).
Proof. exact dedupe_keeps_lemma. Qed.
Print Assumptions C11_dedupe_keeps.

Theorem C11_dedupe_keeps_worked : forall (t n : item),
  NoDup (ids t) /\ fresh_leaves t = true /\ NoDup (worked_urls t) ->
  In n (nonseed_nodes t) -> is_fresh_node n = false -> In (id_of n) (ids (dedupe t)).
Proof. exact dedupe_keeps_worked_lemma. Qed.
Print Assumptions C11_dedupe_keeps_worked.

Theorem C11_dedupe_ids : forall t : item,
  NoDup (ids t) /\ fresh_leaves t = true /\ NoDup (worked_urls t) ->
  NoDup (ids (dedupe t)) /\ incl (ids (dedupe t)) (ids t) /\ id_of (dedupe t) = id_of t.
Proof. exact dedupe_ids_lemma. Qed.
Print Assumptions C11_dedupe_ids.

Theorem C11_dedupe_consistent : forall t : item,
  NoDup (ids t) /\ fresh_leaves t = true /\ NoDup (worked_urls t) ->
  check_consistency t = 0%nat -> check_consistency (dedupe t) = 0%nat.
Proof. exact dedupe_consistent_lemma. Qed.
Print Assumptions C11_dedupe_consistent.

(* what DedupeItems does in that state: it drops some Fresh nodes, marks completed, nothing else *)
Theorem C11_dedupe_prune : forall t : item,
  NoDup (ids t) /\ fresh_leaves t = true /\ NoDup (worked_urls t) ->
  exists dead : N -> bool,
    (forall n, In n (nonseed_nodes t) -> dead (id_of n) = true -> is_fresh_node n = true)
    /\ dedupe t = mark_completed (prune dead t).
Proof. exact dedupe_prune_lemma. Qed.
Print Assumptions C11_dedupe_prune.

(* the hypothesis is met by a tree on which DedupeItems has real work to do *)
Theorem C11_dedupe_nonvacuous :
  Inv0 big_tree
  /\ nonseed_urls big_tree = [1; 2; 3; 2; 7; 7; 4; 4; 9; 10]
  /\ nonseed_urls (dedupe big_tree) = [1; 2; 3; 7; 4; 9; 10]
  /\ ids (dedupe big_tree) = [0; 1; 2; 3; 6; 4; 9; 10].
Proof. exact dedupe_big_tree. Qed.
Print Assumptions C11_dedupe_nonvacuous.

(* ---- completion is detected exactly -------------------------------------------------------------
   On every tree in which a terminal node (Completed / Seen / Failed) has no pending descendant
   ([closed]; part of the pipeline invariant, Stage/PassSpec.v), CompleteAndCheck answers "complete"
   if and only if no node awaits fetching or post-processing (Fresh / PreProcessed / Archived), and
   marking does not hide pending work. *)
Theorem C11_complete_iff : forall t : item,
  closed t = true ->
  snd (complete_and_check t) = no_pending t
  /\ no_pending (fst (complete_and_check t)) = no_pending t.
Proof. exact complete_iff_lemma. Qed.
Print Assumptions C11_complete_iff.

(* [closed] is necessary: well-formedness alone does not make the answer exact *)
Theorem C11_complete_needs_closed :
  exists t : item,
    (NoDup (ids t) /\ check_consistency t = 0%nat) /\ closed t = false
    /\ snd (complete_and_check t) = true /\ no_pending t = false.
Proof. exact complete_needs_closed. Qed.
Print Assumptions C11_complete_needs_closed.

(* ---- the defect ---------------------------------------------------------------------------------
   The de-duplication rule of the code BEFORE "fix: DedupeItems ..." discards a URL altogether on
   a well-formed tree the pipeline reaches (assets of assets); the fixed rule keeps it. *)
Theorem C11_dedupe_orig_refuted :
  Inv0 w_tree /\ check_consistency w_tree = 0%nat /\
  exists u, In u (nonseed_urls w_tree) /\ ~ In u (nonseed_urls (dedupe_orig w_tree)).
Proof. exact dedupe_orig_refuted_w. Qed.
Print Assumptions C11_dedupe_orig_refuted.

Theorem C11_dedupe_fixed_witness :
  nonseed_urls (dedupe w_tree) = [1; 2; 9] /\ check_consistency (dedupe w_tree) = 0%nat.
Proof. exact dedupe_fixed_keeps_w. Qed.
Print Assumptions C11_dedupe_fixed_witness.
