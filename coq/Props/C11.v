(* C11 - The item tree stays well-formed and completion is detected exactly.
   Only property theorems; each closed by [exact] of a lemma proved elsewhere. *)
From ZenoV Require Import Tree.Item Tree.ItemSpec Tree.Witness.
Open Scope N_scope.

(* The de-duplication rule of the code BEFORE "fix: DedupeItems ..." discards a URL altogether on
   a well-formed tree the pipeline reaches (assets of assets); the fixed rule keeps it. *)
Theorem C11_dedupe_orig_refuted :
  Inv0 w_tree /\ check_consistency w_tree = 0%nat /\
  exists u, In u (nonseed_urls w_tree) /\ ~ In u (nonseed_urls (dedupe_orig w_tree)).
Proof. exact dedupe_orig_refuted_w. Qed.
Print Assumptions C11_dedupe_orig_refuted.

Theorem C11_dedupe_fixed_witness :
  nonseed_urls (dedupe w_tree) = [1; 2; 9] /\ check_consistency (dedupe w_tree) = 0%nat.
Proof. exact dedupe_fixed_keeps_w. Qed.
Print Assumptions C11_dedupe_fixed_witness.
