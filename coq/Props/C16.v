(* C16 - Resource use does not grow with the number of seeds processed.
   Only property theorems; each closed by [exact] of a lemma proved elsewhere.  Goroutine and file
   descriptor counts are facts of the Go runtime and the OS that no model can exhibit: they are
   measured by the correspondence check (N seeds against 4N seeds), not proved. *)
From Coq Require Import Permutation ZArith.
From ZenoV Require Import Tree.Item Stage.Pass Pipe.PipeLts Pipe.PipeProofs Pipe.PipeClosed Stage.Bodies.
From ZenoV Require Rate.Manager Rate.ManagerProofs Warc.Retry Warc.RetryProofs Pipe.LogFile Pipe.LogFileProofs.

(* After the queue drains - in any state in which nothing can move - the reactor tracks no seed,
   all tokens are free and nothing is in flight: for EVERY list of queue rows (any number of
   seeds), worker count, configuration, interleaving and site behaviour. *)
Theorem C16_idle_at_quiescence : forall w c rows ls s,
  NoDup (map row_id rows) -> (1 <= w)%nat -> run (init w c rows) ls = Some s ->
  (forall l, step s l = None) ->
  p_src s = [] /\ p_table s = [] /\ p_tokens s = 0%nat /\ in_flight s = []
  /\ Permutation (map row_id rows) (map fst (p_finished s)).
Proof. exact pipeline_quiescent_closed. Qed.
Print Assumptions C16_idle_at_quiescence.

(* ... and at every moment the number of tracked seeds is at most the number of workers, however
   many rows the queue holds *)
Theorem C16_in_flight_bounded : forall w c rows ls s,
  NoDup (map row_id rows) -> run (init w c rows) ls = Some s ->
  p_panicked s = false
  /\ NoDup (map fst (p_finished s))
  /\ (forall id t, In (id, t) (p_finished s) -> no_pending t = true)
  /\ Permutation (map row_id rows) (map row_id (p_src s) ++ flight_ids s ++ map fst (p_finished s))
  /\ NoDup (map row_id (p_src s) ++ flight_ids s ++ map fst (p_finished s))
  /\ Permutation (flight_ids s) (p_table s)
  /\ p_tokens s = length (p_table s) /\ (p_tokens s <= w)%nat.
Proof. exact pipeline_safe_closed. Qed.
Print Assumptions C16_in_flight_bounded.

(* No response body stays open: a seed leaves the postprocessor holding no body, whatever the
   archiver attached and wherever children were added ... *)
Theorem C16_no_body_after_postprocessing : forall f t, any_open (post_stage f t) = false.
Proof. exact no_body_after_post. Qed.
Print Assumptions C16_no_body_after_postprocessing.

(* ... and archive() closes every response body it opened on every exit of its retry loop *)
Theorem C16_bodies_closed_on_every_exit : forall cfg pb outcomes,
  Retry.bodies_ok (fst (Retry.archive_item cfg pb outcomes)) = true.
Proof. exact RetryProofs.bodies_closed_lemma. Qed.
Print Assumptions C16_bodies_closed_on_every_exit.

(* The per-host limiter table stays within its configured bound along every history of bucket
   requests, evictions and clean-ups (non-empty host names, fewer than 2^31-1 requests) *)
Theorem C16_limiter_table_bounded : forall mx c r ls m gs,
  Manager.hosts_nonempty ls -> (Manager.gets ls < Manager.MAXINT32)%Z ->
  Manager.mrun (Manager.new_manager mx c r) ls = Some (m, gs) ->
  (Manager.tab_len (Manager.mg_tab m) <= Z.max mx 1)%Z.
Proof. exact ManagerProofs.table_bounded_lemma. Qed.
Print Assumptions C16_limiter_table_bounded.

(* The rotated log file (--log-file-rotation) holds at most one descriptor after every sequence of
   rotations, writes and closes, whatever their number (= however long the crawl lasts) - exactly one
   as long as it has not been closed: rotateFile() closes the file it replaces *)
Theorem C16_log_file_holds_one_descriptor : forall first ls,
  (LogFile.open_count (LogFile.rrun LogFile.rotate first ls) <= 1)%N
  /\ (LogFile.never_closed ls = true -> LogFile.open_count (LogFile.rrun LogFile.rotate first ls) = 1%N).
Proof. exact LogFileProofs.log_file_one_descriptor_lemma. Qed.
Print Assumptions C16_log_file_holds_one_descriptor.
