(* C03 - Graceful stop always terminates and finalises the WARC output.
   Only property theorems; each closed by [exact] of a lemma proved in Pipe/StopProofs.v.

   The stop LTS (Pipe/StopLts.v) has one process per stage worker goroutine (idle / working /
   blocked sending / blocked acknowledging a pause / returned), the reactor's run loop, the WARC
   files and the stopper goroutine executing controler.stopPipeline() after reactor.Freeze().
   A state fixes the stop moment: any number of workers per stage in any of these states, any
   channel contents, any pending pause tokens, any number of WARC files; the label sequence fixes
   the interleaving.  Environment hypothesis (the [LWork] label is always enabled for a working
   worker): a fetch in progress ends (HTTP timeouts). *)
From ZenoV Require Import Pipe.StopLts Pipe.StopProofs Pipe.WarcStopLts Pipe.WarcStopProofs.

(* Bounded time, without crash: from EVERY well-formed state at the stop moment and for EVERY
   interleaving, at most [measure st] steps can happen (an explicit bound: 13 per seed in the
   reactor input, 12/9/6/3 per seed waiting before stage 1/2/3/4, at most 12 per busy worker, 3
   per pending pause token, 10 for the stopper); and an execution that cannot be extended has
   reached the stopped state: stop sequence complete, every stage worker returned, every WARC
   file closed and renamed, reactor stopped. *)
Theorem C03_stop_terminates : forall st ls st',
  wf st -> s_pc st = 0 -> s_ackexit st = true -> run st ls = Some st' ->
  length ls <= measure st
  /\ ((forall l, step st' l = None) -> final st').
Proof. exact stop_terminates. Qed.
Print Assumptions C03_stop_terminates.

(* every single step strictly decreases the measure (no livelock), for both worker variants *)
Theorem C03_step_decreases : forall st l st',
  wf st -> step st l = Some st' -> measure st' < measure st.
Proof. exact step_decreases. Qed.
Print Assumptions C03_step_decreases.

(* no deadlock before the end of the stop sequence: with workers that observe the cancellation
   while acknowledging a pause, some label is enabled in every state that is not stopped *)
Theorem C03_progress : forall st,
  SInv st -> s_ackexit st = true -> s_pc st < PC_DONE -> exists l st', step st l = Some st'.
Proof. exact progress. Qed.
Print Assumptions C03_progress.

(* The worker loop BEFORE "fix: a paused stage worker observes stop" (s_ackexit = false): a worker
   blocked in `ResumeCh <- struct{}{}` has no ctx.Done() arm; stop-while-paused reaches a state
   that is not stopped and in which nothing but an (absent) Resume could ever move. *)
Theorem C03_stop_orig_refuted :
  wf paused_state /\ s_pc paused_state = 0 /\
  exists ls st', run paused_state ls = Some st' /\ ~ final st'
    /\ (forall l, l <> LAckDone 0 -> step st' l = None).
Proof. exact stop_orig_refuted. Qed.
Print Assumptions C03_stop_orig_refuted.

(* non-vacuity: a busy, partly paused pipeline with two workers per stage is stopped *)
Theorem C03_busy_pipeline_stops :
  wf busy_state /\ s_pc busy_state = 0 /\
  match run busy_state
     [LStopper; LAckExit 0; LWork 1; LAbort 1; LStopper;
      LStopper; LAbort 2; LPause 3; LAckExit 3; LStopper; LStopper;
      LStopper; LTake 4; LWork 4; LSend 4; LExit 4; LWork 5; LAbort 5; LStopper;
      LStopper; LSend 6; LTake 6; LWork 6; LSend 6; LExit 6; LExit 7; LStopper; LStopper] with
  | Some st => s_pc st = PC_DONE /\ forallb (fun w => match w_st w with WGone => true | _ => false end) (s_workers st) = true
               /\ s_writers st = [WrRenamed; WrRenamed]
  | None => False
  end.
Proof. exact busy_stops. Qed.
Print Assumptions C03_busy_pipeline_stops.

(* ---- The WARC side of the stop sequence (Pipe/WarcStopLts.v): stopper step 4 of the LTS above
   ("close and rename the WARC files") opened up.  Processes: the archiver workers with their fetch
   goroutines, the dialer goroutines of the WARC client (one per connection, counted by
   Client.WaitGroup), the WARCWriter channel (capacity [g_cap]), the pool of recordWriter goroutines,
   and the stopper executing archiver.Stop(): cancel; wait for the workers; WaitGroup.Wait;
   close(WARCWriter); wait for every writer; close(ErrChan).  All theorems: for EVERY state [wwf] at the
   stop moment (any workers in any state, any number of exchanges under way, any channel content within
   the capacity, any pool >= 1 with writers in any phase, synchronous or asynchronous writing, any
   capacity incl. an unbuffered channel, any number of records per batch) and EVERY label sequence.
   Environment hypothesis: a fetch in progress ends ([XFetchEnd] is always enabled). ---- *)

(* without crashing: no reachable state has panicked (a send on the closed WARCWriter channel, a send on
   the closed ErrChan), and the channel never exceeds its capacity *)
Theorem C03_warc_no_panic : forall st ls st',
  wwf st -> real_order st -> x_pc st = 0 -> wrun st ls = Some st' ->
  x_panicked st' = false /\ queued st' <= g_cap (x_cfg st').
Proof. exact warc_stop_no_panic. Qed.
Print Assumptions C03_warc_no_panic.

(* every single step strictly decreases the explicit measure, in every variant of the stop order *)
Theorem C03_warc_step_decreases : forall st l st',
  wstep st l = Some st' -> wmeasure st' < wmeasure st.
Proof. exact wstep_decreases. Qed.
Print Assumptions C03_warc_step_decreases.

(* bounded time: at most [wmeasure st] steps; an execution that no step of the system itself (every label
   but the failures chosen by the environment and the hand-on to the next stage) can extend is final:
   archiver.Stop() has returned, every worker has returned, every writer has closed and renamed its file,
   no exchange is under way or queued *)
Theorem C03_warc_stop_terminates : forall st ls st',
  wwf st -> real_order st -> x_pc st = 0 -> wrun st ls = Some st' ->
  length ls <= wmeasure st
  /\ ((forall l, fair l = true -> wstep st' l = None) -> wfinal st').
Proof. exact warc_stop_terminates. Qed.
Print Assumptions C03_warc_stop_terminates.

(* complete records only: in EVERY reachable state (from any state whatsoever) every renamed file holds
   whole batches only - a file is renamed between two batches or after the channel is drained, never
   inside a batch -, and in a final state no *.open file is left and nothing is partly written *)
Theorem C03_warc_files_complete : forall st ls st',
  untorn st -> wrun st ls = Some st' ->
  untorn st' /\ (wfinal st' -> files_final st').
Proof. exact warc_stop_files_complete. Qed.
Print Assumptions C03_warc_files_complete.

(* nothing is lost: records on disk + records owed to the disk (k per exchange that is being fetched,
   assembled, queued or held by a writer, the rest of a batch that is being written) change only by +k per
   fetch started and -k per exchange the dialer gives up (discard hook, read error); so after Stop() the
   disk holds everything that was on disk or under way at the stop moment or started afterwards *)
Theorem C03_warc_nothing_lost : forall st ls st',
  wwf st -> real_order st -> x_pc st = 0 -> wrun st ls = Some st' ->
  wdisk st' + wowed st' + g_k (x_cfg st) * drops ls = wdisk st + wowed st + g_k (x_cfg st) * starts ls
  /\ (wfinal st' -> wdisk st' + g_k (x_cfg st) * drops ls = wdisk st + wowed st + g_k (x_cfg st) * starts ls).
Proof. exact warc_stop_nothing_lost. Qed.
Print Assumptions C03_warc_nothing_lost.

(* no deadlock: in every reachable state that is not final some step of the system itself is enabled -
   including a full or unbuffered channel (hand-over to a writer) and a fetch goroutine that waits for the
   feedback of a batch that is still on its way *)
Theorem C03_warc_progress : forall st ls st',
  wwf st -> real_order st -> x_pc st = 0 -> wrun st ls = Some st' -> ~ wfinal st' ->
  exists l s, wstep st' l = Some s /\ fair l = true.
Proof. exact warc_stop_progress. Qed.
Print Assumptions C03_warc_progress.

(* the order of archiver.Stop() matters: closing the client without waiting for the workers lets a worker
   that is still inside archive() dial after close(WARCWriter) - the dialer goroutine's send panics *)
Theorem C03_warc_order_matters_refuted :
  wwf early_close_state /\ x_pc early_close_state = 0 /\
  exists ls st', wrun early_close_state ls = Some st' /\ x_panicked st' = true.
Proof. exact warc_stop_order_matters_refuted. Qed.
Print Assumptions C03_warc_order_matters_refuted.

(* ... and so does WaitGroup.Wait() before close(WARCWriter): with asynchronous writing the worker returns
   while the dialer goroutine of its last fetch still assembles the batch *)
Theorem C03_warc_no_waitgroup_refuted :
  wwf no_wg_state /\ x_pc no_wg_state = 0 /\
  exists ls st', wrun no_wg_state ls = Some st' /\ x_panicked st' = true.
Proof. exact warc_stop_no_waitgroup_refuted. Qed.
Print Assumptions C03_warc_no_waitgroup_refuted.

(* non-vacuity: synchronous writing, two workers fetching (one also waiting for a queued batch), a pool of
   two with one writer in the middle of a batch, a seed still queued; a schedule with a rotation, a fetch
   started after the stop request, a discarded exchange and a direct hand-over reaches the final state with
   9 + 7 + 2*1 - 2*1 = 16 records in four renamed files *)
Theorem C03_warc_busy_stops :
  wwf busy_warc_state /\ real_order busy_warc_state /\ x_pc busy_warc_state = 0 /\ untorn busy_warc_state /\
  wdisk busy_warc_state = 9 /\ wowed busy_warc_state = 7 /\ starts busy_warc_schedule = 1 /\ drops busy_warc_schedule = 1 /\
  match wrun busy_warc_state busy_warc_schedule with
  | Some st => x_pc st = WPC_DONE /\ x_panicked st = false /\ x_aw st = [AwGone; AwGone]
               /\ x_writers st = [WRT PhDone 0 [WF 8 false; WF 4 false]; WRT PhDone 0 [WF 4 false; WF 0 false]]
               /\ wdisk st = 16 /\ inflight st + queued st = 0
  | None => False
  end.
Proof. exact busy_warc_stops. Qed.
Print Assumptions C03_warc_busy_stops.

(* ---- The rate limiter's share of "returns within bounded time" (Pipe/LimiterWait.v, on C13's bucket model
   Rate/Bucket.v).  archiver.Stop() waits for the workers; a worker inside archive() first waits for the host's token in
   BucketManager.Wait(), a polling loop that does not watch the context.  The wait is bounded by the bucket itself, in
   EVERY reachable state: for every capacity c, configured rate r, creation instant, and every history h of polls,
   failure statuses (5xx: rate halved [fails] times; 429/403/408/425: penalty) and successes at any instants up to T:
   once the longest penalty (30 s) has run out after T and the time since then is worth n tokens at the floor rate
   min(1/2, r) ([covered]), the polls of all n waiting goroutines are granted.  This discharges, for the limiter, the
   environment hypothesis of the stage model above ("a worker that is processing a seed finishes"). ---- *)
From ZenoV Require Import Rate.Bucket Pipe.LimiterWait Pipe.LimiterWaitHarness Pipe.LimiterWaitProofs.

Theorem C03_limiter_wait_bounded : forall (c r : Q) (t0 : Z) (h : list op) (T t : Z) (n : nat),
  (0 <= c)%Q -> (0 <= r)%Q -> (time_zero <= t0)%Z -> (t0 <= T)%Z -> before T h ->
  (inject_Z (Z.of_nat n) <= c)%Q -> covered r (Z.of_nat n) T t ->
  snd (polls n t (Bucket.final (new_bucket c r t0) h)) = Z.of_nat n.
Proof. exact limiter_wait_bounded_lemma. Qed.
Print Assumptions C03_limiter_wait_bounded.

(* the usual configurations (at least half a token per second; the crawler's default and the harness's are 50):
   every one of n waiting goroutines has its token 30 s + 2 s * n after the host's last answer *)
Theorem C03_limiter_wait_bounded_usual : forall (c r : Q) (t0 : Z) (h : list op) (T t : Z) (n : nat),
  (0 <= c)%Q -> (1 # 2 <= r)%Q -> (time_zero <= t0)%Z -> (t0 <= T)%Z -> before T h ->
  (inject_Z (Z.of_nat n) <= c)%Q -> (T + wait_bound_ns (Z.of_nat n) <= t)%Z ->
  snd (polls n t (Bucket.final (new_bucket c r t0) h)) = Z.of_nat n.
Proof. exact limiter_wait_bounded_usual_lemma. Qed.
Print Assumptions C03_limiter_wait_bounded_usual.

(* the monitor of the "limwait" leg is the theorem's own statement: where its hypotheses (decided on the case's input)
   hold, all n final polls are granted in the model - the monitor demands the same of the real bucket *)
Theorem C03_limiter_monitor_is_theorem : forall cs : lcase,
  hyps cs = true ->
  snd (polls (Z.to_nat (lc_n cs)) (lc_t cs)
         (Bucket.final (new_bucket (lc_cap cs) (lc_rate cs) (lc_t0 cs)) (map op_of (lc_ops cs)))) = lc_n cs.
Proof. exact limwait_monitor_lemma. Qed.
Print Assumptions C03_limiter_monitor_is_theorem.

(* the bound rests on the refill floor: a 5xx branch without it (rate * 2^-(n(n+1)/2) after n answers) keeps a worker
   waiting ten hours after six answers 503 of its host, where the code's bucket serves it after 32 s at the latest *)
Theorem C03_limiter_wait_needs_floor_refuted :
  before 60000000 six_503 /\
  snd (try (60000000 + wait_bound_ns 1) (Bucket.final bucket150 six_503)) = true /\
  snd (try (60000000 + wait_bound_ns 1) (final_nofloor bucket150 six_503)) = false /\
  snd (try (60000000 + 10 * HOUR) (final_nofloor bucket150 six_503)) = false.
Proof. exact limiter_wait_needs_floor_refuted. Qed.
Print Assumptions C03_limiter_wait_needs_floor_refuted.
