(* C03 - Graceful stop always terminates and finalises the WARC output.
   Only property theorems; each closed by [exact] of a lemma proved in Pipe/StopProofs.v.

   The stop LTS (Pipe/StopLts.v) has one process per stage worker goroutine (idle / working /
   blocked sending / blocked acknowledging a pause / returned), the reactor's run loop, the WARC
   files and the stopper goroutine executing controler.stopPipeline() after reactor.Freeze().
   A state fixes the stop moment: any number of workers per stage in any of these states, any
   channel contents, any pending pause tokens, any number of WARC files; the label sequence fixes
   the interleaving.  Environment hypothesis (the [LWork] label is always enabled for a working
   worker): a fetch in progress ends (HTTP timeouts). *)
From ZenoV Require Import Pipe.StopLts Pipe.StopProofs.

(* Bounded time, without crash: from EVERY well-formed state at the stop moment and for EVERY
   interleaving, at most [measure st] steps can happen (an explicit bound: 13 per seed in the
   reactor input, 12/9/6/3 per seed waiting before stage 1/2/3/4, at most 12 per busy worker, 3
   per pending pause token, 10 for the stopper); and an execution that cannot be extended has
   reached the stopped state: stop sequence complete, every stage worker returned, every WARC
   file closed and renamed, reactor stopped. *)
Theorem C03_stop_terminates : forall st ls st',
  wf st -> s_pc st = 0 -> s_ackexit st = true -> run st ls = Some st' ->
  length ls <= measure st
  /\ ((forall l, step st' l = None) -> final st').
Proof. exact stop_terminates. Qed.
Print Assumptions C03_stop_terminates.

(* every single step strictly decreases the measure (no livelock), for both worker variants *)
Theorem C03_step_decreases : forall st l st',
  wf st -> step st l = Some st' -> measure st' < measure st.
Proof. exact step_decreases. Qed.
Print Assumptions C03_step_decreases.

(* no deadlock before the end of the stop sequence: with workers that observe the cancellation
   while acknowledging a pause, some label is enabled in every state that is not stopped *)
Theorem C03_progress : forall st,
  SInv st -> s_ackexit st = true -> s_pc st < PC_DONE -> exists l st', step st l = Some st'.
Proof. exact progress. Qed.
Print Assumptions C03_progress.

(* The worker loop BEFORE "fix: a paused stage worker observes stop" (s_ackexit = false): a worker
   blocked in `ResumeCh <- struct{}{}` has no ctx.Done() arm; stop-while-paused reaches a state
   that is not stopped and in which nothing but an (absent) Resume could ever move. *)
Theorem C03_stop_orig_refuted :
  wf paused_state /\ s_pc paused_state = 0 /\
  exists ls st', run paused_state ls = Some st' /\ ~ final st'
    /\ (forall l, l <> LAckDone 0 -> step st' l = None).
Proof. exact stop_orig_refuted. Qed.
Print Assumptions C03_stop_orig_refuted.

(* non-vacuity: a busy, partly paused pipeline with two workers per stage is stopped *)
Theorem C03_busy_pipeline_stops :
  wf busy_state /\ s_pc busy_state = 0 /\
  match run busy_state
     [LStopper; LAckExit 0; LWork 1; LAbort 1; LStopper;
      LStopper; LAbort 2; LPause 3; LAckExit 3; LStopper; LStopper;
      LStopper; LTake 4; LWork 4; LSend 4; LExit 4; LWork 5; LAbort 5; LStopper;
      LStopper; LSend 6; LTake 6; LWork 6; LSend 6; LExit 6; LExit 7; LStopper; LStopper] with
  | Some st => s_pc st = PC_DONE /\ forallb (fun w => match w_st w with WGone => true | _ => false end) (s_workers st) = true
               /\ s_writers st = [WrRenamed; WrRenamed]
  | None => False
  end.
Proof. exact busy_stops. Qed.
Print Assumptions C03_busy_pipeline_stops.
