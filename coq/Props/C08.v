(* C08 - Seen URLs are not refetched; nothing is skipped as seen unless the store said so.
   Only the property theorems: each is closed by [exact] of a lemma of Seen/SeenProofs.v and
   followed by Print Assumptions.

   Model: Seen/Seen.v.  URLs are canonical strings (interned); [hash] is the key function of the
   local store (fnv64a of the canonical string, printed in decimal) and is a parameter of every
   statement - only C08_seen_only_if_recorded needs anything of it (injective on the URLs in play).
   A history is a list of operations over ONE persistent store: direct SeencheckItem calls,
   preprocess calls, closing and re-opening the store.  [work_nodes d None t] lists the nodes at the
   working depth of tree t, in the order of the loop, each with the type ("seed" for the seed and for
   redirect targets, "asset" for children) it is checked as.  A concurrent execution in which every
   operation has returned before the next one starts IS such a history (the operations touch the
   store through LevelDB only). *)
From Coq Require Import List NArith Bool.
From ZenoV Require Import Tree.Item Tree.ItemSpec Seen.Seen Seen.SeenProofs.
Import ListNotations.

(* Once a URL has been recorded, every later check of it yields Seen - except a check as seed /
   redirect target while it is recorded only as asset, which lets the node through and records the
   URL as seed.  For every key function, initial store, history before (h1), operation o that checked
   u (as ty0), history in between (h2), and every node of every later tree. *)
Theorem C08_seen_after_record :
  forall (hash : N -> N) (s0 : store) (h1 : list op) (o : op) (h2 : list op) (t : item) (u : N) (ty0 : kind)
         (i : nat) (n : item) (ty : kind),
  In (u, ty0) (op_work o) ->
  nth_error (work_nodes (max_depth t) None t) i = Some (n, ty) ->
  url_of n = u ->
  let s := run hash s0 (h1 ++ o :: h2) in
  let s_i := fst (check_list hash s (firstn i (level_work t))) in
  exists k n',
    lookup (hash u) s_i = Some k /\ kind_le ty0 k = true /\
    nth_error (nodes_at (max_depth t) (snd (seencheck_item hash s t))) i = Some n' /\
    (n' = mark_seen n
     \/ (ty = KSeed /\ k = KAsset /\ n' = n
         /\ lookup (hash u) (fst (seencheck_item hash s t)) = Some KSeed)).
Proof. exact seen_after_record_lemma. Qed.
Print Assumptions C08_seen_after_record.

(* A node is marked Seen only if the store, asked for the node's key at that moment, reported an
   entry - and for a seed / redirect target only if that entry says "seed". *)
Theorem C08_seen_only_if_reported_local :
  forall (hash : N -> N) (s : store) (t : item) (i : nat) (n n' : item) (ty : kind),
  nth_error (work_nodes (max_depth t) None t) i = Some (n, ty) ->
  nth_error (nodes_at (max_depth t) (snd (seencheck_item hash s t))) i = Some n' ->
  n' = n
  \/ (n' = mark_seen n
      /\ exists k, lookup (hash (url_of n)) (fst (check_list hash s (firstn i (level_work t)))) = Some k
                   /\ (ty = KSeed -> k = KSeed)).
Proof. exact seen_only_if_reported_lemma. Qed.
Print Assumptions C08_seen_only_if_reported_local.

(* ... and no node outside the working depth is touched at all. *)
Theorem C08_only_working_depth_touched :
  forall (hash : N -> N) (s : store) (t : item) (x : info),
  In x (infos (snd (seencheck_item hash s t))) ->
  In x (infos t) \/ In x (map inf (nodes_at (max_depth t) (snd (seencheck_item hash s t)))).
Proof. exact only_working_depth_touched_lemma. Qed.
Print Assumptions C08_only_working_depth_touched.

(* Over a whole job (empty store at the start): with a key function that is injective on the URLs in
   play, a node is marked only if the SAME URL was checked before - by an earlier operation of the
   history or by an earlier node of the same tree. *)
Theorem C08_seen_only_if_recorded :
  forall (hash : N -> N) (U : N -> Prop),
  (forall u v, U u -> U v -> hash u = hash v -> u = v) ->
  forall (h : list op) (t : item) (i : nat) (n n' : item) (ty : kind),
  (forall u ty, In (u, ty) (flat_map op_work h ++ level_work t) -> U u) ->
  nth_error (work_nodes (max_depth t) None t) i = Some (n, ty) ->
  nth_error (nodes_at (max_depth t) (snd (seencheck_item hash (run hash [] h) t))) i = Some n' ->
  n' <> n ->
  (exists o ty', In o h /\ In (url_of n, ty') (op_work o))
  \/ (exists j n0 ty', j < i /\ nth_error (work_nodes (max_depth t) None t) j = Some (n0, ty')
                       /\ url_of n0 = url_of n).
Proof. exact seen_only_if_recorded_lemma. Qed.
Print Assumptions C08_seen_only_if_recorded.

(* Entries are never lost or downgraded, whatever follows (including Close / Start). *)
Theorem C08_store_monotone :
  forall (hash : N -> N) (s : store) (h h' : list op) (k : N) (v : kind),
  lookup k (run hash s h) = Some v ->
  exists v', lookup k (run hash s (h ++ h')) = Some v' /\ kind_le v v' = true.
Proof. exact store_monotone_lemma. Qed.
Print Assumptions C08_store_monotone.

(* With a key function that is injective on the URLs in play, the store of a job holds for every URL
   exactly the strongest type it has been checked as (and nothing for a URL never checked). *)
Theorem C08_store_exact :
  forall (hash : N -> N) (U : N -> Prop),
  (forall u v, U u -> U v -> hash u = hash v -> u = v) ->
  forall (h : list op) (u : N),
  U u -> (forall u' ty, In (u', ty) (flat_map op_work h) -> U u') ->
  lookup (hash u) (run hash [] h) = strongest u (flat_map op_work h).
Proof. exact store_exact_lemma. Qed.
Print Assumptions C08_store_exact.

(* Within one seed's tree, after preprocess (local store), no URL is held by two non-seed nodes - so
   no URL is fetched by two different non-seed nodes, in this pass or across passes (the nodes
   fetched earlier are still in the tree).  Inv0 is the state in which preprocess finds the tree
   (C11 / C01). *)
Theorem C08_no_two_nonseed_same_url :
  forall (hash : N -> N) (s : store) (t : item) (s' : store) (t' : item),
  Inv0 t -> pre_core (seencheck_item hash) s t = Some (s', t') -> NoDup (nonseed_urls t').
Proof. exact no_two_nonseed_same_url_lemma. Qed.
Print Assumptions C08_no_two_nonseed_same_url.

(* the same with the crawl HQ as the seen-store, whatever it answers *)
Theorem C08_no_two_nonseed_same_url_hq :
  forall (reply : list (N * kind) -> hq_reply) (t t' : item) (u u' : unit),
  Inv0 t -> pre_core (fun (_ : unit) t => (tt, snd (hq_seencheck reply t))) u t = Some (u', t') ->
  NoDup (nonseed_urls t').
Proof. exact no_two_nonseed_same_url_hq_lemma. Qed.
Print Assumptions C08_no_two_nonseed_same_url_hq.

(* The nodes the seencheck marked are filtered out before the requests are built: after preprocess a
   node at the working depth is PreProcessed (carries a request) exactly when it was still Fresh
   after the seencheck; or every node was marked and the seed is completed without any request. *)
Theorem C08_seen_not_requested :
  forall (hash : N -> N) (s : store) (t : item) (s' : store) (t' : item),
  pre_core (seencheck_item hash) s t = Some (s', t') ->
  nodes_at (max_depth t) (dedupe t) <> [] ->
  let d := max_depth t in
  let t2 := snd (seencheck_item hash s (dedupe t)) in
  s' = fst (seencheck_item hash s (dedupe t)) /\
  ((forallb (fun n => negb (is_fresh n)) (nodes_at d t2) = true /\ t' = set_root Completed t2)
   \/ nodes_at d t' = map (fun n => if is_fresh n then set_root PreProcessed n else n) (nodes_at d t2)).
Proof. exact seen_not_requested_lemma. Qed.
Print Assumptions C08_seen_not_requested.

(* Crawl HQ (code as fixed: the canonical text is sent and compared).  A node is marked Seen only if
   the HQ answered and did not return the node's text - the text it was asked about for this node. *)
Theorem C08_hq_seen_only_if_reported :
  forall (reply : list (N * kind) -> hq_reply) (t : item) (i : nat) (n n' : item) (ty : kind),
  nth_error (work_nodes (max_depth t) None t) i = Some (n, ty) ->
  nth_error (nodes_at (max_depth t) (snd (hq_seencheck reply t))) i = Some n' ->
  n' = n
  \/ (n' = mark_seen n
      /\ exists answer, reply (hq_sent t) = HROk answer /\ ~ In (url_of n) answer
                        /\ (is_fresh n = true -> In (url_of n, ty) (hq_sent t))).
Proof. exact hq_seen_only_if_reported_lemma. Qed.
Print Assumptions C08_hq_seen_only_if_reported.

(* ... and it is marked whenever the HQ did not return its text. *)
Theorem C08_hq_seen_if_reported :
  forall (reply : list (N * kind) -> hq_reply) (t : item) (i : nat) (n : item) (ty : kind) (answer : list N),
  max_depth t <> 0 -> hq_sent t <> [] -> reply (hq_sent t) = HROk answer ->
  nth_error (work_nodes (max_depth t) None t) i = Some (n, ty) ->
  ~ In (url_of n) answer ->
  nth_error (nodes_at (max_depth t) (snd (hq_seencheck reply t))) i = Some (mark_seen n).
Proof. exact hq_seen_if_reported_lemma. Qed.
Print Assumptions C08_hq_seen_if_reported.

(* The code BEFORE the fix (raw text sent, canonical text compared) violates it: a node is marked
   seen although the HQ returned the very text sent for it. *)
Theorem C08_hq_orig_refuted :
  exists (items : list hnode) (answer : list N) (i : nat) (n : hnode),
    nth_error items i = Some n /\ h_fresh n = true
    /\ In (h_raw n, h_type n) (hq_sent_orig items)
    /\ incl answer (map fst (hq_sent_orig items))
    /\ In (h_raw n) answer
    /\ nth_error (hq_flags_orig answer items) i = Some true.
Proof. exact hq_orig_refuted_lemma. Qed.
Print Assumptions C08_hq_orig_refuted.

(* Histories against a crawl HQ that behaves like a set of texts (hq_ref): once a URL was handed to
   the HQ, every later Fresh non-seed node with the same canonical URL is marked Seen. *)
Theorem C08_hq_seen_after_record :
  forall (S0 : list N) (h1 : list item) (t1 : item) (h2 : list item) (t : item) (u : N) (ty0 : kind)
         (i : nat) (n : item) (ty : kind),
  max_depth t1 <> 0 -> In (u, ty0) (hq_sent t1) ->
  nth_error (work_nodes (max_depth t) None t) i = Some (n, ty) ->
  url_of n = u -> is_fresh n = true -> max_depth t <> 0 ->
  let S := hq_run S0 (h1 ++ t1 :: h2) in
  nth_error (nodes_at (max_depth t) (snd (hq_step S t))) i = Some (mark_seen n).
Proof. exact hq_seen_after_record_lemma. Qed.
Print Assumptions C08_hq_seen_after_record.

(* The request of one pass put to the HQ in several batches (--hq-batch-size), for EVERY partition
   of the request and every reply to every batch: [ex] lists the exchanges (batch, reply) in order.
   A node is marked Seen only if every batch was answered and no answer returned the node's text;
   in particular the batch its text travelled in was answered without it. *)
Theorem C08_hq_batched_seen_only_if_reported :
  forall (ex : list hq_exchange) (t : item) (i : nat) (n n' : item) (ty : kind),
  concat (map fst ex) = hq_sent t ->
  nth_error (work_nodes (max_depth t) None t) i = Some (n, ty) ->
  nth_error (nodes_at (max_depth t) (snd (hq_seencheck_ex ex t))) i = Some n' ->
  n' = n
  \/ (n' = mark_seen n
      /\ (forall b r, In (b, r) ex -> exists a, r = HROk a /\ ~ In (url_of n) a)
      /\ (is_fresh n = true ->
          exists b a, In (b, HROk a) ex /\ In (url_of n, ty) b /\ ~ In (url_of n) a)).
Proof. exact hq_batched_seen_only_if_reported_lemma. Qed.
Print Assumptions C08_hq_batched_seen_only_if_reported.

(* ... and it is marked whenever every batch was answered and none returned its text. *)
Theorem C08_hq_batched_seen_if_reported :
  forall (ex : list hq_exchange) (t : item) (i : nat) (n : item) (ty : kind),
  max_depth t <> 0 -> hq_sent t <> [] ->
  (forall b r, In (b, r) ex -> exists a, r = HROk a /\ ~ In (url_of n) a) ->
  nth_error (work_nodes (max_depth t) None t) i = Some (n, ty) ->
  nth_error (nodes_at (max_depth t) (snd (hq_seencheck_ex ex t))) i = Some (mark_seen n).
Proof. exact hq_batched_seen_if_reported_lemma. Qed.
Print Assumptions C08_hq_batched_seen_if_reported.

(* Against the reference HQ the outcome of a pass (statuses and the set the HQ holds afterwards) does
   not depend on the batching: for every way [split] of cutting a request into consecutive batches
   the answers of the batches, one after the other, are the answer to the whole request.  So
   C08_hq_seen_after_record holds for every batching as well. *)
Theorem C08_hq_batching_irrelevant :
  forall (split : list (N * kind) -> list (list (N * kind))),
  (forall l, concat (split l) = l) ->
  forall (S : list N) (t : item), hq_step_parts split S t = hq_step S t.
Proof. exact hq_batching_irrelevant_lemma. Qed.
Print Assumptions C08_hq_batching_irrelevant.

(* Batches of b >= 1 entries (the last one shorter) are such a partition: every batch size gives
   what the single request gives. *)
Theorem C08_hq_batch_size_irrelevant :
  forall (b : nat), b <> 0 ->
  (forall l : list (N * kind), concat (chunks b l) = l /\ Forall (fun p => p <> [] /\ length p <= b) (chunks b l))
  /\ forall (S : list N) (t : item), hq_step_parts (chunks b) S t = hq_step S t.
Proof. exact hq_batch_size_irrelevant_lemma. Qed.
Print Assumptions C08_hq_batch_size_irrelevant.

(* The hypotheses are met by a concrete history with duplicates, promotion and a re-opened store. *)
Theorem C08_nonvacuous :
  Inv0 Tree.Witness.big_tree
  /\ nonseed_urls Tree.Witness.big_tree = [1; 2; 3; 2; 7; 7; 4; 4; 9; 10]%N
  /\ exists s' t', pre_core (seencheck_item hid) (run hid [] (firstn 3 ex_hist)) Tree.Witness.big_tree = Some (s', t')
     /\ nonseed_urls t' = [1; 2; 3; 7; 4; 9; 10]%N
     /\ map st_of (nodes_at 3 t') = [Seen; PreProcessed]
     /\ map url_of (nodes_at 3 t') = [7; 9]%N.
Proof. exact pre_core_nonvacuous. Qed.
Print Assumptions C08_nonvacuous.
