(* C17 - Operational counters are exact under concurrency.
   Only property theorems; each is closed by [exact] of a lemma proved in Stats/ and followed by
   Print Assumptions.

   Vocabulary (Stats/Atomics.v): a burst is a list of scripts (one list of API calls per goroutine);
   [exec_all scripts m0 sched] runs the goroutines [map compile scripts] from memory m0 under the
   schedule [sched] - an arbitrary list of (goroutine index, clock readings) - where every step
   executes ONE atomic action (or one critical section) of the chosen goroutine.  All theorems
   quantify over all scripts, all initial memories satisfying the bucket invariant, and ALL
   schedules.  [wrap] is reduction mod 2^64. *)
From Coq Require Import Permutation.
From ZenoV Require Import Stats.Atomics Stats.AtomicsBase Stats.Effects Stats.StatsProofs Stats.GaugeProofs Stats.StopProofs Stats.Witness.
Open Scope N_scope.

(* Totals.  Whatever else the goroutines do (resets, per-second getters, stats.Reset(), TUI reads,
   concurrent creation of bucket keys), once they have all returned the total reported for URLs
   crawled / seeds finished / any status-code key is the initial total plus everything issued. *)
Theorem C17_totals_exact : forall r scripts sched m0,
  Inv m0 -> finished (exec_all scripts m0 sched) = true ->
  forall clk, rs_val (runseq (compile_op (ORateGetTotal r)) clk (c_mem (exec_all scripts m0 sched)))
              = VN (wrap (get m0 (LTotal r) + issued r (concat scripts))).
Proof. exact totals_exact_lemma. Qed.
Print Assumptions C17_totals_exact.

(* ... and with the exported API (step 1) "everything issued" is the NUMBER of events. *)
Theorem C17_totals_count_events : forall r ops,
  issued r ops = sumN (incr_steps r ops)
  /\ ((forall s, In s (incr_steps r ops) -> s = 1) -> issued r ops = N.of_nat (length (incr_steps r ops))).
Proof.
  exact (fun r ops => conj (issued_steps r ops)
           (fun H => eq_trans (issued_steps r ops) (sumN_ones (incr_steps r ops) H))).
Qed.
Print Assumptions C17_totals_count_events.

(* Any word that the scripts only add to (gauges without Reset, mean fields without Reset, the
   per-second count without getters) ends at initial + sum of what was added. *)
Theorem C17_additive_exact : forall l scripts sched m0,
  Inv m0 -> forallb (additive l) scripts = true -> finished (exec_all scripts m0 sched) = true ->
  get (c_mem (exec_all scripts m0 sched)) l = wrap (get m0 l + sigma l (concat scripts))
  /\ Inv (c_mem (exec_all scripts m0 sched)).
Proof. exact additive_exact_lemma. Qed.
Print Assumptions C17_additive_exact.

(* The form in which the correspondence check uses it: scripts given as (call, repetitions) pairs. *)
Theorem C17_run_length_prediction : forall l rle sched m0,
  Inv m0 -> forallb (additive_segs l) rle = true ->
  finished (exec_all (map expand rle) m0 sched) = true ->
  get (c_mem (exec_all (map expand rle) m0 sched)) l = wrap (get m0 l + sigma_segs l (concat rle)).
Proof. exact run_length_prediction_lemma. Qed.
Print Assumptions C17_run_length_prediction.

(* Means.  Without a reset of mean m in the burst: count = number of adds, sum = sum of the values;
   the getter returns exactly that pair (Go divides the two as float64). *)
Theorem C17_mean_exact : forall m scripts sched m0,
  Inv m0 ->
  forallb (additive (LMCount m)) scripts = true -> forallb (additive (LMSum m)) scripts = true ->
  finished (exec_all scripts m0 sched) = true ->
  forall clk, rs_val (runseq (compile_op (OMeanGet m)) clk (c_mem (exec_all scripts m0 sched)))
    = VPair (wrap (get m0 (LMCount m) + N.of_nat (length (added_values m (concat scripts)))))
            (wrap (get m0 (LMSum m) + sumN (added_values m (concat scripts)))).
Proof. exact mean_exact_lemma. Qed.
Print Assumptions C17_mean_exact.

(* Means under reset (after fixes/C17-mean-mutex): if every value added to mean m is v then
   sum = count * v at EVERY point of EVERY schedule, whatever is reset concurrently. *)
Theorem C17_mean_consistent_under_reset : forall m v scripts sched m0,
  Inv m0 -> MC m v m0 -> forallb (forallb (value_ok m v)) scripts = true ->
  MC m v (c_mem (exec_all scripts m0 sched)).
Proof. exact mean_consistent_lemma. Qed.
Print Assumptions C17_mean_consistent_under_reset.

(* The code as found (two independent atomics per mean operation) violates it. *)
Theorem C17_mean_reset_orig_refuted :
  exists sched,
    let c := run (start orig_threads []) sched in
    finished c = true
    /\ get (c_mem c) (LMCount MResp) = 1 /\ get (c_mem c) (LMSum MResp) = 10
    /\ ~ MC MResp 5 (c_mem c).
Proof. exact mean_reset_orig_refuted_lemma. Qed.
Print Assumptions C17_mean_reset_orig_refuted.

(* Worker gauges.  Workers do Incr; body; deferred Decr, the bodies never touch the gauge.  At every
   point of every schedule the gauge is the number of live workers; zero once all have returned. *)
Theorem C17_gauge_exact : forall c bodies sched m0,
  wfm m0 -> forallb (gauge_free c) bodies = true ->
  let cf := run (start (map (worker c) bodies) m0) sched in
  get (c_mem cf) (LCnt c) = wrap (get m0 (LCnt c) + N.of_nat (live_count c (c_trace cf) (length bodies)))
  /\ (finished cf = true -> live_count c (c_trace cf) (length bodies) = 0%nat).
Proof. exact gauge_exact_lemma. Qed.
Print Assumptions C17_gauge_exact.

(* Zero after stop.  A stage's workers are  Incr; body; Decr; wg.Done()  (wg.Done is the worker's first
   defer, so it runs last) after Start() did wg.Add(1) for each; Stop() = cancel(); wg.Wait() returns
   only once the WaitGroup counter is 0.  At every point of every interleaving of the workers'
   actions (their exit actions included): counter 0 => the gauge is back at its initial value. *)
Theorem C17_stop_returned_gauge_zero : forall c bodies sched m0,
  wfm m0 -> forallb (gauge_free c) bodies = true ->
  get m0 (LWg c) = N.of_nat (length bodies) -> N.of_nat (length bodies) < W ->
  let cf := run (start (map (stage_worker c) bodies) m0) sched in
  stop_returned c (c_mem cf) = true -> get (c_mem cf) (LCnt c) = get m0 (LCnt c).
Proof. exact stop_returned_gauge_zero_lemma. Qed.
Print Assumptions C17_stop_returned_gauge_zero.

(* The order of the deferred calls is what makes it true: with wg.Done() running before the
   decrement, Stop() can return while the gauge still counts workers. *)
Theorem C17_stop_returned_bad_order_refuted :
  exists sched,
    let cf := run (start (map (stage_worker_bad CPost) [[]; []]) [(LWg CPost, 2)]) sched in
    stop_returned CPost (c_mem cf) = true /\ get (c_mem cf) (LCnt CPost) = 2.
Proof. exact stop_returned_bad_order_refuted_lemma. Qed.
Print Assumptions C17_stop_returned_bad_order_refuted.

(* counter.decr(step) - an Add of ^uint64(step-1) - is subtraction mod 2^64, for every step. *)
Theorem C17_decr_is_subtraction : forall x s, s < W -> wrap (wrap (x + s) + decr_arg s) = wrap x.
Proof. exact decr_is_subtraction_lemma. Qed.
Print Assumptions C17_decr_is_subtraction.

(* The hypothesis "bodies never touch the gauge" is needed: stats.Reset() with a live worker. *)
Theorem C17_gauge_reset_breaks :
  exists sched,
    let c := run (start [worker CPre []; compile [OCntReset CPre]] []) sched in
    finished c = true /\ get (c_mem c) (LCnt CPre) = W - 1.
Proof. exact gauge_reset_breaks_lemma. Qed.
Print Assumptions C17_gauge_reset_breaks.

(* The key set of the status-code bucket. *)
Theorem C17_keyset_exact : forall k scripts sched m0,
  Inv m0 -> finished (exec_all scripts m0 sched) = true ->
  get (c_mem (exec_all scripts m0 sched)) (LPresent k) =
  if existsb (incr_of_key k) (concat scripts) then 1 else get m0 (LPresent k).
Proof. exact keyset_exact_lemma. Qed.
Print Assumptions C17_keyset_exact.

(* Order is irrelevant: two bursts that issue the same multiset of adding/reading calls -
   distributed over goroutines in any way, under any schedules - end in the same state... *)
Theorem C17_order_irrelevant : forall scripts1 scripts2 sched1 sched2 m0,
  Inv m0 ->
  forallb (forallb comm_op) scripts1 = true -> forallb (forallb comm_op) scripts2 = true ->
  Permutation (concat scripts1) (concat scripts2) ->
  finished (exec_all scripts1 m0 sched1) = true -> finished (exec_all scripts2 m0 sched2) = true ->
  forall l, compared l = true ->
    get (c_mem (exec_all scripts1 m0 sched1)) l = get (c_mem (exec_all scripts2 m0 sched2)) l.
Proof. exact order_irrelevant_lemma. Qed.
Print Assumptions C17_order_irrelevant.

(* ... namely the state a single goroutine reaches by making the calls one after the other. *)
Theorem C17_concurrent_equals_sequential : forall scripts sched m0 clk,
  Inv m0 -> forallb (forallb comm_op) scripts = true -> finished (exec_all scripts m0 sched) = true ->
  forall l, compared l = true ->
    get (c_mem (exec_all scripts m0 sched)) l = get (rs_mem (runseq (compile (concat scripts)) clk m0)) l.
Proof. exact concurrent_equals_sequential_lemma. Qed.
Print Assumptions C17_concurrent_equals_sequential.

(* The archiver as found counted only the response it finally accepted: three 5xx responses served,
   the 503 and 500 totals read 0.  (Fixed in /repo by 3ec1779; [arch_calls] is the fixed code.) *)
Theorem C17_status_counts_orig_refuted :
  let served := [attempts 2 [503; 200]; attempts 2 [500; 500]] in
  let total calls k := rs_val (runseq (compile_op (ORateGetTotal (RKey k))) []
                         (c_mem (exec_all [expand calls] [] (flat_map (fun _ => [L 0]) (List.seq 0 20))))) in
  served = [[503; 200]; [500; 500]]
  /\ finished (exec_all [expand (arch_calls_orig served)] [] (flat_map (fun _ => [L 0]) (List.seq 0 20))) = true
  /\ total (arch_calls_orig served) 503 = VN 0 /\ total (arch_calls_orig served) 500 = VN 0
  /\ total (arch_calls_orig served) 200 = VN 1
  /\ total (arch_calls served) 503 = VN 1 /\ total (arch_calls served) 500 = VN 2.
Proof. exact status_counts_orig_refuted_lemma. Qed.
Print Assumptions C17_status_counts_orig_refuted.

(* The bucket's mutex is what makes this true: its body run unlocked loses an update. *)
Theorem C17_bucket_unlocked_refuted :
  exists sched,
    let c := run (start [bucket_incr_body 7 1; bucket_incr_body 7 1] []) sched in
    finished c = true /\ get (c_mem c) (LTotal (RKey 7)) = 1.
Proof. exact bucket_unlocked_refuted_lemma. Qed.
Print Assumptions C17_bucket_unlocked_refuted.
