(* C10 - No server-controlled input can crash or hang the crawler.
   Theorems about ZENO'S OWN byte-level code only: transcriptions in which every Go operation that
   can panic (slice, index, nil dereference) is explicit.  [exists r, f x = Ok r] says: for this
   input no slice / index / dereference is out of bounds (not [Panic]) and every loop finishes
   within the stated fuel (not [Timeout]).  Third-party decoders (x/net/html, encoding/json,
   encoding/xml, m3u8, pdfcpu, mimetype, xurls, ada) are NOT covered by any theorem here: for them
   the check is fuzzing in isolated child processes, which is a search and not a proof.
   This file contains only the property theorems; each is closed by [exact] of a lemma proved
   elsewhere and followed by Print Assumptions. *)
From ZenoV Require Import Safe.GoOps Safe.GoOpsProofs Safe.Scanners Safe.ScannersProofs
  Safe.Dispatch Safe.DispatchProofs Safe.DomainsCrawl Safe.DomainsCrawlProofs.
Open Scope Z_scope.

(* hasFileExtension: all three slices are in bounds for every byte string. *)
Theorem C10_has_file_extension_never_panics :
  forall s : bytes, exists b, has_file_extension s = Ok b.
Proof. exact has_file_extension_never_panics_lemma. Qed.
Print Assumptions C10_has_file_extension_never_panics.

(* isLikelyJSON (the string is TrimSpace'd first): str[0] and str[len(str)-1] are in bounds for every
   byte string ... *)
Theorem C10_is_likely_json_never_panics :
  forall s : bytes, exists b, is_likely_json s = Ok b.
Proof. exact is_likely_json_never_panics_lemma. Qed.
Print Assumptions C10_is_likely_json_never_panics.

(* ... exactly because of the length test in front of them. *)
Theorem C10_is_likely_json_guard_needed :
  forall guard, (forall s : bytes, is_likely_json_g guard s <> Panic) <-> 1 <= guard.
Proof. exact is_likely_json_guard_needed_lemma. Qed.
Print Assumptions C10_is_likely_json_guard_needed.

(* GetShortID: every slice is in bounds; the result is a prefix of the id. *)
Theorem C10_get_short_id_never_panics :
  forall id : bytes, exists r n, get_short_id id = Ok r /\ r = firstn n id.
Proof. exact get_short_id_never_panics_lemma. Qed.
Print Assumptions C10_get_short_id_never_panics.

(* Link header parser (ExtractURLsFromHeader + parseAttr): parts[0], parts[1:], kv[0], kv[1] are in
   bounds for every header value, and the loops make at most 2*len+1 iterations together. *)
Theorem C10_link_header_never_panics :
  forall link : bytes, exists urls steps,
    link_header_steps link = Ok (urls, steps) /\ 0 <= steps <= 2 * len link + 1.
Proof. exact link_header_never_panics_lemma. Qed.
Print Assumptions C10_link_header_never_panics.

(* extractFromScriptContent: for every script text and whatever the JSON decoder answers,
   jsonContent[1] and jsonContent[1][:payloadEndPosition+1] are in bounds, the brace scan ends with
   fuel len(content)+1 and makes at most len(content) iterations (runes of any width, invalid
   UTF-8 included). *)
Theorem C10_extract_from_script_never_panics :
  forall (json_urls : bytes -> option (list bytes)) (content : bytes),
    (exists r, extract_from_script json_urls content = Ok r)
    /\ (exists p n, script_payload content = Ok (p, n) /\ 0 <= n <= len content).
Proof. exact extract_from_script_never_panics_lemma. Qed.
Print Assumptions C10_extract_from_script_never_panics.

(* The rune-wise brace scan of the Go loop stops where a byte-wise scan stops: a multi-byte or
   invalid UTF-8 sequence can neither hide a brace nor fake one. *)
Theorem C10_brace_scan_bytewise :
  forall fuel (s : bytes) pos o c it e n,
    brace_scan fuel s pos o c it = Ok (e, n) -> e = brace_scan_bytes s pos o c.
Proof. exact brace_scan_bytewise_lemma. Qed.
Print Assumptions C10_brace_scan_bytewise.

(* srcsetURLs (the srcset / data-srcset helper of HTMLAssets, a hand-written index loop): for every
   attribute value every value[i] and value[start:i] is in bounds, the loops end (outer fuel
   len+1, inner fuel len+1 each), at most len(value) candidates are produced, and no returned URL is
   empty. *)
Theorem C10_srcset_never_panics :
  forall v : bytes, exists urls steps,
    srcset_urls_steps v = Ok (urls, steps) /\ 0 <= steps <= len v /\ Forall (fun u => u <> []) urls.
Proof. exact srcset_never_panics_lemma. Qed.
Print Assumptions C10_srcset_never_panics.

(* reddit.ExtractAPIPostPermalinks: whatever the JSON decoder yields for data.dist and
   data.children (the server controls both, independently), Children[0] is in bounds. *)
Theorem C10_reddit_permalinks_never_panics :
  forall decoded : option (Z * list bytes), exists r, reddit_permalinks decoded = Ok r.
Proof. exact reddit_permalinks_never_panics_lemma. Qed.
Print Assumptions C10_reddit_permalinks_never_panics.

(* Post-processing dispatch (postprocessItem, extractAssets, extractOutlinks, the Is* predicates):
   for every status code, every valuation of the header / MIME / URL / body predicates, body kept
   or not, every configuration and every extractor outcome, nothing nil is dereferenced - given
   what the archiver establishes for an item it marks archived (response, MIME, parsed URL). *)
Theorem C10_dispatch_nil_safe :
  forall (c : conf) (v : view) (p : preds) (x : exts),
    archiver_inv v -> exists o, postprocess_item c v p x = Ok o.
Proof. exact dispatch_nil_safe_lemma. Qed.
Print Assumptions C10_dispatch_nil_safe.

(* The archiver's half of that invariant: ProcessBody returning nil has set the MIME type, whatever
   the status code and whichever of its reads / writes failed. *)
Theorem C10_process_body_sets_mime :
  forall e mime_set body_set, process_body e = Some (mime_set, body_set) -> mime_set = true.
Proof. exact process_body_sets_mime_lemma. Qed.
Print Assumptions C10_process_body_sets_mime.

(* An item in any other state is returned untouched even if everything is nil. *)
Theorem C10_dispatch_not_archived :
  forall c v p x, v_status v <> Archived -> postprocess_item c v p x = Ok (Out (v_status v) 0 0).
Proof. exact dispatch_not_archived_lemma. Qed.
Print Assumptions C10_dispatch_not_archived.

(* The domains-crawl matcher, consulted by postprocessItem for every extracted outlink: for EVERY
   operator configuration (any plain domains, stored URLs and regular expressions, in any number),
   every link text, every parser and every regular-expression semantics, Match returns - u.Host is
   never read from the nil URL of a failed parse - and a text that does not parse is no match. *)
Theorem C10_domains_crawl_match_total :
  forall (R : Type) (re_match : R -> bytes -> bool) (parse : bytes -> option bytes) (c : dc_conf R) (raw : bytes),
    exists b, dc_match R re_match parse c raw = Ok b /\ (parse raw = None -> b = false).
Proof. exact dc_match_total_lemma. Qed.
Print Assumptions C10_domains_crawl_match_total.

(* ... exactly because of the return in front of the loops: a condition on the configuration put in
   front of that return is safe iff it holds for every configuration with a plain domain or a
   host-only URL (lemma dc_match_regex_first_refuted: "only when no regular expression is
   configured" panics on one domain + one expression + one text that does not parse). *)
Theorem C10_domains_crawl_guard_needed :
  forall (R : Type) (early : dc_conf R -> bool),
    (forall re_match parse c raw, dc_match_g R re_match parse early c raw <> Panic)
    <-> (forall c, reads_host c = true -> early c = true).
Proof. exact dc_match_guard_needed_lemma. Qed.
Print Assumptions C10_domains_crawl_guard_needed.

(* The outlink loop of postprocessItem under domains crawl: for every configuration, hop limit and
   list of link texts it ends without a panic, keeps at most the links it was given and only those,
   and keeps all of them unchanged when domains crawl is off. *)
Theorem C10_domains_crawl_outlinks_total :
  forall (R : Type) (re_match : R -> bytes -> bool) (parse : bytes -> option bytes) (c : dc_conf R)
         (item_hops max_hops : Z) (links : list (bytes * Z)),
    exists kept, outlinks_loop R re_match parse c item_hops max_hops links = Ok kept
                 /\ (List.length kept <= List.length links)%nat
                 /\ incl (map fst kept) (map fst links)
                 /\ (dc_enabled c = false -> kept = links).
Proof. exact outlinks_loop_total_lemma. Qed.
Print Assumptions C10_domains_crawl_outlinks_total.
