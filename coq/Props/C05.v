(* C05 - No request is ever sent for a URL outside the operator's scope.
   Only the property theorems; each is closed by [exact] of a lemma proved in coq/Scope/. *)
From ZenoV Require Import Scope.Scope Scope.ScopeProofs Scope.TreeFacts Scope.PreProofs.
Open Scope N_scope.

(* For EVERY item tree with unique ids (Go: pointers), every operator configuration, every answer
   of the URL parsers / regexp / seen-store / http.NewRequest: a node that leaves preprocess()
   with a request attached (status PreProcessed) and had none on entry carries the canonical URL
   of a reference that passed NormalizeURL's scheme and host tests and the include and exclude
   blocks under the effective configuration (defaults appended).  The node's position (seed,
   redirect target, asset, any depth) does not occur in the statement: it holds for all. *)
Theorem C05_request_implies_scope : forall oc nvs seen reqfail t t',
  NoDup (ids t) ->
  preprocess (scope_oracle oc nvs seen reqfail) t = Ok t' ->
  forall m', In m' (flatten t') -> st_of m' = PreProcessed ->
    (exists m, In m (flatten t) /\ id_of m = id_of m' /\ st_of m = PreProcessed)
    \/ accepted oc (nvs (id_of m')) (url_of m').
Proof. exact request_implies_scope_lemma. Qed.
Print Assumptions C05_request_implies_scope.

(* The same for a tree that enters without any request (what the pipeline guarantees), spelled
   out: [in_scope] on the FINAL host (GetParsed().Host after String()), String() and the regex
   answers on it - the URL the request is built from. *)
Theorem C05_request_implies_scope_fresh : forall oc nvs seen reqfail t t',
  NoDup (ids t) -> (forall m, In m (flatten t) -> st_of m <> PreProcessed) ->
  preprocess (scope_oracle oc nvs seen reqfail) t = Ok t' ->
  forall m', In m' (flatten t') -> st_of m' = PreProcessed ->
    exists proto hn v,
      nvs (id_of m') = NVAda proto hn (Some v) /\ v_url v = url_of m'
      /\ shape_ok proto hn = true
      /\ in_scope (gen_cfg oc) (v_host1 v) (v_text v) (v_bits v) = true.
Proof. exact request_implies_scope_fresh_lemma. Qed.
Print Assumptions C05_request_implies_scope_fresh.

(* A seed at the working depth whose URL is rejected (normalisation, shape, include or exclude)
   ends Failed or Completed, childless, and no node of its tree carries a request. *)
Theorem C05_rejected_seed_no_request : forall oc nvs seen reqfail i,
  nst i = Fresh ->
  (forall url, ~ accepted oc (nvs (nid i)) url) ->
  exists t', preprocess (scope_oracle oc nvs seen reqfail) (Node i []) = Ok t'
    /\ (st_of t' = Failed \/ st_of t' = Completed) /\ kids t' = []
    /\ (forall m, In m (flatten t') -> st_of m <> PreProcessed).
Proof. exact rejected_seed_no_request_lemma. Qed.
Print Assumptions C05_rejected_seed_no_request.

(* The code BEFORE fixes/C05-scope-host-before-string tested the host as it was before
   URL.String() rewrote it (idna.ToASCII): the property was false of it, at filter level and at
   tree level (witness replayed on the real code, corpus/C05/scope.inputs). *)
Theorem C05_orig_scope_bypass_refuted :
  exists (oc : opcfg) (v : view),
    passes_orig (gen_cfg oc) v = true
    /\ in_scope (gen_cfg oc) (v_host1 v) (v_text v) (v_bits v) = false.
Proof. exact scope_bypass_refuted. Qed.
Print Assumptions C05_orig_scope_bypass_refuted.

Theorem C05_orig_request_implies_scope_refuted :
  exists oc nvs t t' m',
    NoDup (ids t) /\ (forall m, In m (flatten t) -> st_of m <> PreProcessed)
    /\ preprocess (scope_oracle_orig oc nvs (fun _ => false) (fun _ => false)) t = Ok t'
    /\ In m' (flatten t') /\ st_of m' = PreProcessed
    /\ ~ accepted oc (nvs (id_of m')) (url_of m').
Proof. exact request_implies_scope_orig_refuted. Qed.
Print Assumptions C05_orig_request_implies_scope_refuted.

(* ... and exactly what it did guarantee: the predicate, whenever String() leaves the host alone *)
Theorem C05_orig_passes_is_in_scope : forall (c : opcfg) (v : view),
  v_host0 v = v_host1 v -> passes_orig c v = in_scope c (v_host1 v) (v_text v) (v_bits v).
Proof. exact passes_orig_in_scope_lemma. Qed.
Print Assumptions C05_orig_passes_is_in_scope.

(* The predicate is what the property says, with substring matching. *)
Theorem C05_in_scope_spec : forall (c : opcfg) host text bits,
  in_scope c host text bits = true <->
  ((inc_hosts c = [] /\ inc_strings c = [])
   \/ (exists e, In e (inc_hosts c) /\ substring e host)
   \/ (exists e, In e (inc_strings c) /\ substring e text))
  /\ (forall e, In e (exc_hosts c) -> ~ substring e host)
  /\ (forall e, In e (exc_strings c) -> ~ substring e text)
  /\ ~ In true bits.
Proof. exact in_scope_spec_lemma. Qed.
Print Assumptions C05_in_scope_spec.

Theorem C05_substring_test_exact : forall n h, contains n h = true <-> substring n h.
Proof. exact contains_spec. Qed.
Print Assumptions C05_substring_test_exact.

(* archive.org and archive-it.org are excluded whatever the operator configured. *)
Theorem C05_default_hosts_present : forall oc : opcfg,
  In archive_org (exc_hosts (gen_cfg oc)) /\ In archive_it_org (exc_hosts (gen_cfg oc))
  /\ (forall h, In h (exc_hosts oc) -> In h (exc_hosts (gen_cfg oc))).
Proof. exact default_hosts_present_lemma. Qed.
Print Assumptions C05_default_hosts_present.

Theorem C05_archive_always_excluded : forall (oc : opcfg) host text bits,
  substring archive_org host \/ substring archive_it_org host ->
  in_scope (gen_cfg oc) host text bits = false.
Proof. exact archive_always_excluded_lemma. Qed.
Print Assumptions C05_archive_always_excluded.

(* With a non-empty include list a URL matching none of its entries is out of scope. *)
Theorem C05_include_required : forall (c : opcfg) host text bits,
  inc_hosts c <> [] \/ inc_strings c <> [] ->
  (forall e, In e (inc_hosts c) -> ~ substring e host) ->
  (forall e, In e (inc_strings c) -> ~ substring e text) ->
  in_scope c host text bits = false.
Proof. exact include_required_lemma. Qed.
Print Assumptions C05_include_required.

(* Exclusion is applied after inclusion and wins. *)
Theorem C05_exclusion_wins : forall (c : opcfg) host text bits,
  excluded c host text bits = true -> in_scope c host text bits = false.
Proof. exact exclusion_wins_lemma. Qed.
Print Assumptions C05_exclusion_wins.

(* --exclusion-file given several times: the lines of ALL files are in force, in file order
   (GenerateCrawlConfig appends).  [matches] stands for Go's regexp. *)
Theorem C05_exclusion_files_membership : forall (files : exclusion_files) re,
  In re (gen_regexes files) <-> exists f, In f files /\ In re f.
Proof. exact gen_regexes_in_lemma. Qed.
Print Assumptions C05_exclusion_files_membership.

Theorem C05_exclusion_files_all_loaded :
  forall (matches : bytes -> bytes -> bool) (files : exclusion_files) f re (c : opcfg) host text,
    In f files -> In re f -> matches re text = true ->
    in_scope c host text (regex_bits matches files text) = false.
Proof. exact exclusion_files_all_loaded_lemma. Qed.
Print Assumptions C05_exclusion_files_all_loaded.

(* What is a line of an exclusion file (bufio.ScanLines, transcribed as [read_lines]): the last
   line counts whether the file ends without a newline, in LF or in CRLF. *)
Theorem C05_exclusion_file_last_line : forall head last : bytes,
  whole_lines head -> no_lf last -> last <> [] ->
  read_lines (head ++ last) = read_lines head ++ [drop_last_cr last]
  /\ read_lines (head ++ last ++ [LF]) = read_lines head ++ [drop_last_cr last]
  /\ read_lines (head ++ last ++ [CR; LF]) = read_lines head ++ [drop_last_cr (last ++ [CR])].
Proof. exact exclusion_file_last_line_lemma. Qed.
Print Assumptions C05_exclusion_file_last_line.

(* ... and is in force, for every regexp oracle, in whichever of the files it stands *)
Theorem C05_exclusion_file_last_line_in_force :
  forall (matches : bytes -> bytes -> bool) (before after : list bytes) (head re eol : bytes) (c : opcfg) host text,
    whole_lines head -> no_lf re -> re <> [] -> drop_last_cr re = re ->
    eol = [] \/ eol = [LF] \/ eol = [CR; LF] ->
    matches re text = true ->
    in_scope c host text
      (map (fun r => matches r text) (gen_regexes_raw (before ++ [head ++ re ++ eol] ++ after))) = false.
Proof. exact exclusion_file_last_line_in_force_lemma. Qed.
Print Assumptions C05_exclusion_file_last_line_in_force.

(* GenerateCrawlConfig leaves the operator's entries exactly as typed (no case folding, nothing
   dropped, nothing added but the two default hosts): the scope is judged against what the
   operator wrote. *)
Theorem C05_gen_cfg_keeps_operator_lists : forall oc : opcfg,
  inc_hosts (gen_cfg oc) = inc_hosts oc /\ inc_strings (gen_cfg oc) = inc_strings oc
  /\ exc_strings (gen_cfg oc) = exc_strings oc.
Proof. exact gen_cfg_other_lemma. Qed.
Print Assumptions C05_gen_cfg_keeps_operator_lists.

Theorem C05_gen_cfg_exclude_hosts_exact : forall (oc : opcfg) h,
  In h (exc_hosts (gen_cfg oc)) <-> In h (exc_hosts oc) \/ h = archive_org \/ h = archive_it_org.
Proof. exact gen_cfg_exact_lemma. Qed.
Print Assumptions C05_gen_cfg_exclude_hosts_exact.

(* Letter case matters in the string filters (paths and queries are case-sensitive): with
   C05_substring_test_exact and the two theorems above, here on the operator's spelling. *)
Theorem C05_string_filters_case_sensitive :
  let ex := gen_cfg (OC [] [] [] [bs "/Private/"; bs "sessionID="]) in
  let inc := gen_cfg (OC [] [bs "/Docs/"] [] []) in
  let h := bs "www.example.com" in
  in_scope ex h (bs "https://www.example.com/Private/report.pdf") [] = false
  /\ in_scope ex h (bs "https://www.example.com/private/report.pdf") [] = true
  /\ in_scope ex h (bs "https://www.example.com/login?sessionID=abc123") [] = false
  /\ in_scope ex h (bs "https://www.example.com/login?sessionid=abc123") [] = true
  /\ in_scope inc h (bs "https://www.example.com/Docs/a.css") [] = true
  /\ in_scope inc h (bs "https://www.example.com/docs/old.css") [] = false.
Proof. exact string_filters_case_sensitive_lemma. Qed.
Print Assumptions C05_string_filters_case_sensitive.

(* NormalizeURL's tests: http/https only, host not localhost / 127.0.0.1, host contains a dot. *)
Theorem C05_shape_ok_spec : forall proto hn,
  shape_ok proto hn = true <->
  (proto = bs "http:" \/ proto = bs "https:")
  /\ hn <> bs "localhost" /\ hn <> bs "127.0.0.1" /\ substring (bs ".") hn.
Proof. exact shape_ok_spec_lemma. Qed.
Print Assumptions C05_shape_ok_spec.

(* ---- every option in view, and the start-up (Scope/Start.v) ------------------------------------------
   --domains-crawl (a hop-count option of the postprocessor, with its own matcher) never widens the
   include filter: an include filter is given and the URL matches none of its entries - it does not
   pass, whatever --domains-crawl holds and whatever domainscrawl.Match answers about the URL. *)
From ZenoV Require Import Scope.Start Scope.StartProofs.
Theorem C05_domains_crawl_never_widens : forall (c : opcfg_x) (dcm : bool) (v : view),
  inc_hosts (x_cfg c) <> [] \/ inc_strings (x_cfg c) <> [] ->
  (forall e, In e (inc_hosts (x_cfg c)) -> ~ ScopeProofs.substring e (v_host1 v)) ->
  (forall e, In e (inc_strings (x_cfg c)) -> ~ ScopeProofs.substring e (v_text v)) ->
  passes_x c dcm v = false.
Proof. exact domains_crawl_never_widens_lemma. Qed.
Print Assumptions C05_domains_crawl_never_widens.

(* Tree level, for every --domains-crawl setting and every answer of its matcher per node: a request
   is attached only to a node whose URL is in scope under the four lists, wherever it sits. *)
Theorem C05_domains_crawl_request_implies_scope :
  forall (oc : opcfg_x) (dcm : N -> bool) nvs seen reqfail t t',
    NoDup (ids t) -> (forall m, In m (flatten t) -> st_of m <> PreProcessed) ->
    preprocess (scope_oracle_x oc dcm nvs seen reqfail) t = Ok t' ->
    forall m', In m' (flatten t') -> st_of m' = PreProcessed ->
      exists proto hn v,
        nvs (id_of m') = NVAda proto hn (Some v) /\ v_url v = url_of m'
        /\ shape_ok proto hn = true
        /\ in_scope (gen_cfg (x_cfg oc)) (v_host1 v) (v_text v) (v_bits v) = true.
Proof. exact domains_crawl_request_implies_scope_lemma. Qed.
Print Assumptions C05_domains_crawl_request_implies_scope.

(* What the two theorems exclude: an include block that asks the matcher lets a URL pass that the
   operator's include filter does not admit. *)
Theorem C05_widened_include_unsound :
  exists (c : opcfg_x) (v : view),
    dc_domain_match (x_domains_crawl c) (v_host1 v) = true
    /\ passes_widened c true v = true /\ passes_x c true v = false
    /\ in_scope (x_cfg c) (v_host1 v) (v_text v) (v_bits v) = false.
Proof. exact passes_widened_unsound. Qed.
Print Assumptions C05_widened_include_unsound.

(* The exclusion files are read ONCE, at start-up; a file is a local path or an http(s) URL and the
   read can fail ([fetch]: file system / network oracle; [compiles]: Go's regexp).  A crawl that
   starts has read every file the operator named and has every line of every one in force. *)
Theorem C05_start_all_exclusion_files_in_force :
  forall (compiles : bytes -> bool) (fs : list fetch) (regs : list bytes),
    load_files compiles fs = Some regs ->
    forall f, In f fs ->
      exists content, f = FOk content /\ forall l, In l (read_lines content) -> In l regs.
Proof. exact start_all_in_force_lemma. Qed.
Print Assumptions C05_start_all_exclusion_files_in_force.

(* The effective list of a crawl that starts is the concatenation the filter theorems speak about. *)
Theorem C05_start_effective_list :
  forall (compiles : bytes -> bool) (fs : list fetch) (regs : list bytes),
    load_files compiles fs = Some regs ->
    regs = gen_regexes_raw (map content_of fs) /\ Forall (readable compiles) fs.
Proof. exact load_files_some_lemma. Qed.
Print Assumptions C05_start_effective_list.

(* A named file that cannot be read (missing, connection refused, time-out, status other than 200,
   body cut short, line above the scanner's limit) or holds a line Go's regexp refuses: the crawl does
   not start - it never runs with only a part of the operator's exclusions. *)
Theorem C05_unreadable_exclusion_file_refuses_start :
  forall (compiles : bytes -> bool) (fs : list fetch) f,
    In f fs -> ~ readable compiles f -> load_files compiles fs = None.
Proof. exact unreadable_refuses_lemma. Qed.
Print Assumptions C05_unreadable_exclusion_file_refuses_start.

Theorem C05_failed_download_refuses_start : forall (compiles : bytes -> bool) (fs : list fetch),
  In FFail fs -> load_files compiles fs = None.
Proof. exact failed_fetch_refuses_lemma. Qed.
Print Assumptions C05_failed_download_refuses_start.

(* Whatever Go's regexp answers: in a crawl that started, a URL matched by a line of ANY named file is
   out of scope under every configuration of the four lists. *)
Theorem C05_started_crawl_excludes_all_files :
  forall (compiles : bytes -> bool) (matches : bytes -> bytes -> bool)
         (fs : list fetch) (regs : list bytes) content l (c : opcfg) host text,
    load_files compiles fs = Some regs ->
    In (FOk content) fs -> In l (read_lines content) -> matches l text = true ->
    in_scope c host text (map (fun r => matches r text) regs) = false.
Proof. exact start_excludes_lemma. Qed.
Print Assumptions C05_started_crawl_excludes_all_files.

(* What they exclude: the loop that skips an unreadable file starts without it. *)
Theorem C05_fail_open_loader_unsound :
  exists (fs : list fetch) (regs : list bytes),
    In FFail fs /\ load_files_skipping (fun _ => true) fs = Some regs
    /\ load_files (fun _ => true) fs = None.
Proof. exact load_files_skipping_unsound. Qed.
Print Assumptions C05_fail_open_loader_unsound.

(* ---- lifted through the pipeline LTS of C01 (Pipe/PipeScope.v) -----------------------------------
   In EVERY execution of the whole pipeline (any worker count, any interleaving, any number of
   seeds and passes, any site behaviour) whose pre-processing answers come from the scope rule
   under the operator configuration [oc], every node that carries a request - in any seed's tree
   while the seed sits between the preprocessor and the archiver, i.e. everything the archiver
   is about to fetch - was accepted: well-shaped and in scope. *)
From ZenoV Require Import Tree.Item Stage.Pass Pipe.PipeLts Pipe.PipeScope.
Theorem C05_fetch_implies_scope_in_pipeline : forall oc w c rows ls s,
  NoDup (map row_id rows) -> Forall (scoped oc) ls -> run (init w c rows) ls = Some s ->
  forall k x m, (k = 4 \/ k = 5)%nat -> In x (place k s) -> In m (flatten (s_tree x)) -> st_of m = PreProcessed ->
    exists nvs proto hn v,
      nvs (id_of m) = NVAda proto hn (Some v) /\ v_url v = url_of m /\ shape_ok proto hn = true
      /\ in_scope (gen_cfg oc) (v_host1 v) (v_text v) (v_bits v) = true.
Proof. exact pipeline_fetch_implies_scope. Qed.
Print Assumptions C05_fetch_implies_scope_in_pipeline.
