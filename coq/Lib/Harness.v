(* Combinators used by the generated case files (correspondence check). *)
From Coq Require Export List NArith ZArith Bool.
Export ListNotations.

Section H.
Context {A : Type}.

(* indices (from 0) of the cases on which [bad] is true *)
Fixpoint bad_from (bad : A -> bool) (i : N) (l : list A) : list N :=
  match l with
  | [] => []
  | a :: r => if bad a then i :: bad_from bad (N.succ i) r else bad_from bad (N.succ i) r
  end.
Definition bad_idx (bad : A -> bool) (l : list A) : list N := bad_from bad 0%N l.

(* (case index, monitor number) for every monitor that is false on a case *)
Fixpoint mon_case (ms : list (A -> bool)) (k : N) (a : A) : list N :=
  match ms with
  | [] => []
  | m :: r => if m a then mon_case r (N.succ k) a else k :: mon_case r (N.succ k) a
  end.
Fixpoint mon_from (ms : list (A -> bool)) (i : N) (l : list A) : list (N * N) :=
  match l with
  | [] => []
  | a :: r => map (fun k => (i, k)) (mon_case ms 0%N a) ++ mon_from ms (N.succ i) r
  end.
Definition mon_idx (ms : list (A -> bool)) (l : list A) : list (N * N) := mon_from ms 0%N l.
End H.
