(* Byte strings as [list ascii]; hex decoding for harness-written case files. *)
From Coq Require Export List Ascii String NArith ZArith Bool.
Export ListNotations.

Definition bytes := list ascii.

Definition hexval (c : ascii) : N :=
  let n := N_of_ascii c in
  if (48 <=? n)%N && (n <=? 57)%N then n - 48
  else if (97 <=? n)%N && (n <=? 102)%N then n - 87
  else if (65 <=? n)%N && (n <=? 70)%N then n - 55
  else 0.

Fixpoint unhex_s (s : string) : bytes :=
  match s with
  | String a (String b r) => ascii_of_N (hexval a * 16 + hexval b) :: unhex_s r
  | _ => []
  end.

(* harness notation: [hx "68747470"] *)
Definition hx (s : string) : bytes := unhex_s s.

Definition bs (s : string) : bytes := list_ascii_of_string s.

Definition byte_eqb (a c : ascii) : bool := Ascii.eqb a c.

Fixpoint bytes_eqb (u v : bytes) : bool :=
  match u, v with
  | [], [] => true
  | a :: u', c :: v' => Ascii.eqb a c && bytes_eqb u' v'
  | _, _ => false
  end.

Lemma bytes_eqb_spec u v : reflect (u = v) (bytes_eqb u v).
Proof.
  revert v; induction u as [|a u IH]; intros [|c v]; simpl; try (constructor; congruence).
  destruct (Ascii.eqb_spec a c) as [->|Hn]; simpl.
  - destruct (IH v) as [->|Hn]; constructor; congruence.
  - constructor; congruence.
Qed.

Lemma bytes_eqb_eq u v : bytes_eqb u v = true <-> u = v.
Proof. destruct (bytes_eqb_spec u v); split; congruence. Qed.

Lemma bytes_eqb_refl u : bytes_eqb u u = true.
Proof. apply bytes_eqb_eq; reflexivity. Qed.
