(* C13 - proofs about Rate/Cancel.v: a Wait call returns only with a token, whatever cancellations
   of the manager's context happen and wherever they fall; so the window bound and the penalty hold
   for the RETURNS of Wait (= the requests archive() sends) across a stop of the crawl. *)
From Coq Require Import Lia Lqa.
From ZenoV Require Import Rate.Bucket Rate.BucketProofs Rate.Manager Rate.ManagerProofs Rate.Cancel.
Open Scope string_scope.
Open Scope list_scope.
Open Scope Z_scope.

Lemma mstep_get_no_grant m h now v m' g :
  mstep m (LGet h now v) = Some (m', g) -> g = None.
Proof.
  cbn [mstep]. destruct (get h now v m); intros H; inversion H; reflexivity.
Qed.

Lemma mstep_nonpoll_no_grant m l m' g :
  is_poll l = false -> mstep m l = Some (m', g) -> g = None.
Proof.
  intros Hp H. destruct l as [h now v|h o|gone].
  - eapply mstep_get_no_grant; eassumption.
  - destruct o as [t|t s|t]; [discriminate Hp| |];
      cbn [mstep] in H; destruct (Manager.find h (mg_tab m));
      cbn [step step_with] in H; inversion H; reflexivity.
  - cbn [mstep] in H. inversion H; reflexivity.
Qed.

Lemma mstep_poll_grant m h now m' y :
  mstep m (LOp h (Try now)) = Some (m', Some y) -> y = (h, now).
Proof.
  cbn [mstep]. destruct (Manager.find h (mg_tab m)) as [e|]; [|intros H; inversion H].
  destruct (step (me_bucket e) (Try now)) as [b' g]. destruct g; intros H; inversion H.
  reflexivity.
Qed.

(* Every run of the system with cancellations IS a run of the manager without them, and the Wait
   calls that returned are exactly that run's token grants, in order. *)
Theorem cancel_returns_are_grants_lemma : forall xs s s' rets,
  wrun s xs = Some (s', rets) ->
  mrun (ws_mgr s) (erase xs) = Some (ws_mgr s', map ret_grant rets).
Proof.
  induction xs as [|x r IH]; intros s s' rets Hrun.
  - cbn [wrun] in Hrun. inversion Hrun; subst. reflexivity.
  - cbn [wrun] in Hrun.
    destruct (wstep s x) as [[s1 g]|] eqn:Hs; [|discriminate].
    destruct (wrun s1 r) as [[s2 gs]|] eqn:Hr; [|discriminate].
    inversion Hrun; subst s' rets; clear Hrun.
    specialize (IH _ _ _ Hr).
    destruct x as [w h now v|w h now|l|].
    + cbn [wstep] in Hs. destruct (waiting_on w (ws_waiting s)); [discriminate|].
      destruct (mstep (ws_mgr s) (LGet h now v)) as [[m' g']|] eqn:Hm; [|discriminate].
      inversion Hs; subst s1 g; clear Hs. cbn [ws_mgr] in IH.
      pose proof (mstep_get_no_grant _ _ _ _ _ _ Hm) as Hg; subst g'.
      cbn [erase mrun]. rewrite Hm, IH. reflexivity.
    + cbn [wstep] in Hs. destruct (waiting_on w (ws_waiting s)) as [h'|]; [|discriminate].
      destruct (String.eqb h' h); [|discriminate].
      destruct (mstep (ws_mgr s) (LOp h (Try now))) as [[m' g']|] eqn:Hm; [|discriminate].
      destruct g' as [y|]; inversion Hs; subst s1 g; clear Hs; cbn [ws_mgr] in IH;
        cbn [erase mrun]; rewrite Hm, IH; [|reflexivity].
      pose proof (mstep_poll_grant _ _ _ _ _ Hm) as Hy; subst y. reflexivity.
    + cbn [wstep] in Hs. destruct (is_poll l) eqn:Hp; [discriminate|].
      destruct (mstep (ws_mgr s) l) as [[m' g']|] eqn:Hm; [|discriminate].
      inversion Hs; subst s1 g; clear Hs. cbn [ws_mgr] in IH.
      pose proof (mstep_nonpoll_no_grant _ _ _ _ Hp Hm) as Hg; subst g'.
      cbn [erase mrun]. rewrite Hm, IH. reflexivity.
    + cbn [wstep] in Hs. inversion Hs; subst s1 g; clear Hs. cbn [ws_mgr] in IH.
      cbn [erase]. exact IH.
Qed.

Lemma host_returns_grants h rets : host_returns h rets = host_grants h (map ret_grant rets).
Proof.
  induction rets as [|[[w h'] t] r IH]; [reflexivity|].
  cbn [host_returns map ret_grant host_grants]. rewrite IH. reflexivity.
Qed.

(* Per host, for a bucket's lifetime: the returns of Wait(h) are the grants of h's bucket on the
   operations addressed to h - cancellations leave no trace. *)
Theorem cancel_host_lifetime_lemma : forall xs h s e s' rets,
  Manager.find h (mg_tab (ws_mgr s)) = Some e -> not_evicted h (erase xs) ->
  wrun s xs = Some (s', rets) ->
  exists e', Manager.find h (mg_tab (ws_mgr s')) = Some e' /\
    me_bucket e' = final (me_bucket e) (host_history h (erase xs)) /\
    host_returns h rets = grants (me_bucket e) (host_history h (erase xs)).
Proof.
  intros xs h s e s' rets Hf Hne Hrun.
  pose proof (cancel_returns_are_grants_lemma _ _ _ _ Hrun) as Hm.
  destruct (lifetime_lemma _ _ _ _ _ _ Hf Hne Hm) as [e' [H1 [H2 H3]]].
  exists e'. split; [exact H1|]. split; [exact H2|].
  rewrite host_returns_grants. exact H3.
Qed.

(* Penalty across a stop: the host's bucket has just taken a throttling failure at f; whatever
   follows - callers entering Wait, polls, other hosts' traffic, further failures and successes,
   cancellations at any point - no Wait(host) returns before f + penalty. *)
Theorem cancel_penalty_lemma : forall c r t0 h1 f st xs host s e s' rets t,
  (0 <= c)%Q -> (0 <= r)%Q -> is_throttle st = true ->
  Manager.find host (mg_tab (ws_mgr s)) = Some e ->
  me_bucket e = fst (step (final (new_bucket c r t0) h1) (Fail f st)) ->
  not_evicted host (erase xs) -> chain f (host_history host (erase xs)) ->
  wrun s xs = Some (s', rets) ->
  In t (host_returns host rets) -> f + penalty_spec (fails (me_bucket e)) <= t.
Proof.
  intros c r t0 h1 f st xs host s e s' rets t Hc Hr Hst Hf Hb Hne Hch Hrun Hin.
  destruct (cancel_host_lifetime_lemma _ _ _ _ _ _ Hf Hne Hrun) as [e' [_ [_ H3]]].
  rewrite H3, Hb in Hin. rewrite Hb.
  exact (proj2 (penalty_honoured_lemma c r t0 h1 f st _ t Hc Hr Hst Hch) Hin).
Qed.

(* Window bound across a stop: a stretch of the system's life whose operations on the host have
   non-decreasing clock readings inside [t1, t2] sees at most capacity + (t2 - t1) * rate returns of
   Wait(host), wherever the cancellations fall. *)
Theorem cancel_window_lemma : forall c r t0 h1 xs host s e s' rets t1 t2,
  (0 <= c)%Q -> (0 <= r)%Q ->
  Manager.find host (mg_tab (ws_mgr s)) = Some e ->
  me_bucket e = final (new_bucket c r t0) h1 ->
  not_evicted host (erase xs) ->
  chain t1 (host_history host (erase xs)) -> end_time t1 (host_history host (erase xs)) <= t2 ->
  wrun s xs = Some (s', rets) ->
  (glen (host_returns host rets) <= c + secs (t2 - t1) * r)%Q.
Proof.
  intros c r t0 h1 xs host s e s' rets t1 t2 Hc Hr Hf Hb Hne Hch Hend Hrun.
  destruct (cancel_host_lifetime_lemma _ _ _ _ _ _ Hf Hne Hrun) as [e' [_ [_ H3]]].
  rewrite H3, Hb. exact (window_bound_lemma c r t0 h1 _ t1 t2 Hc Hr Hch Hend).
Qed.

(* A cancellation alone: nobody returns, nobody stops waiting, the table and its buckets are the same. *)
Lemma cancel_step_lemma s :
  wstep s WCancel = Some (WS (ws_mgr s) true (ws_waiting s), None).
Proof. reflexivity. Qed.

(* ---- non-vacuity ----
   capacity 1, rate 1/s.  Caller 1 is served at once; a 429 is reported at 1 s; caller 2 enters Wait
   at 2 s and is refused; the context is cancelled; caller 2 is refused again at 3 s (inside the
   penalty), and served at 7 s (penalty over at 6 s, one token refilled).  Its Wait returned at 7 s. *)
Definition S1 : Z := 1000000000.
Example cancel_nonvacuous :
  let xs := [WCall 1 "a" 0 ""; WPoll 1 "a" 0;
             WOther (LGet "a" S1 ""); WOther (LOp "a" (Fail S1 429));
             WCall 2 "a" (2 * S1) ""; WPoll 2 "a" (2 * S1);
             WCancel;
             WPoll 2 "a" (3 * S1); WOther (LCleanup []); WPoll 2 "a" (7 * S1)] in
  not_evicted "a" (erase xs) /\
  match wrun (new_wsys 8 1 1) xs with
  | Some (s', rets) =>
      rets = [(1, "a", 0); (2, "a", 7 * S1)] /\ ws_cancelled s' = true /\ ws_waiting s' = [] /\
      host_returns "a" rets = [0; 7 * S1]
  | None => False
  end.
Proof.
  split; [cbn [erase not_evicted]; repeat split; try discriminate; intros []|].
  vm_compute. repeat split; reflexivity.
Qed.

(* the hypotheses of cancel_penalty_lemma are met by the tail of that run: the bucket after the 429 *)
Example cancel_penalty_nonvacuous :
  let pre := [WCall 1 "a" 0 ""; WPoll 1 "a" 0; WOther (LGet "a" S1 ""); WOther (LOp "a" (Fail S1 429))] in
  let xs := [WCall 2 "a" (2 * S1) ""; WPoll 2 "a" (2 * S1); WCancel; WPoll 2 "a" (3 * S1); WPoll 2 "a" (7 * S1)] in
  match wrun (new_wsys 8 1 1) pre with
  | Some (s, _) =>
      match Manager.find "a" (mg_tab (ws_mgr s)) with
      | Some e =>
          me_bucket e = fst (step (final (new_bucket 1 1 0) [Try 0]) (Fail S1 429)) /\
          chain S1 (host_history "a" (erase xs)) /\
          match wrun s xs with
          | Some (_, rets) => host_returns "a" rets = [7 * S1] /\ S1 + penalty_spec (fails (me_bucket e)) = 6 * S1
          | None => False
          end
      | None => False
      end
  | None => False
  end.
Proof.
  vm_compute. repeat split; try reflexivity; intros H; discriminate H.
Qed.

(* What the theorems exclude: with "cancellation releases the callers inside Wait", caller 2 above
   would return at the instant of the cancellation - 1.5 s after the 429, 3.5 s before the penalty is
   over - although a poll at that very instant is refused. *)
Definition blocked_in_penalty : wsys :=
  match wrun (new_wsys 8 1 1)
          [WCall 1 "a" 0 ""; WPoll 1 "a" 0; WOther (LGet "a" S1 ""); WOther (LOp "a" (Fail S1 429));
           WCall 2 "a" (2 * S1) ""; WPoll 2 "a" (2 * S1)] with
  | Some (s, _) => s
  | None => new_wsys 8 1 1
  end.

Lemma release_on_cancel_refuted :
  exists s w h now,
    waiting_on w (ws_waiting s) = Some h /\
    snd (wstep_release_on_cancel s now) = [(w, h, now)] /\
    match wstep s (WPoll w h now) with Some (_, None) => True | _ => False end.
Proof.
  exists blocked_in_penalty, 2, "a", 2500000000.
  split; [|split]; vm_compute; [reflexivity|reflexivity|exact I].
Qed.
