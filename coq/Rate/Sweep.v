(* C13 - model of the stale-bucket sweep of internal/pkg/archiver/ratelimiter/manager.go:
   getBucket stamps the bucket with lastAccess = time.Now() (on creation AND on every hit) and every
   tick of cleanupLoop deletes the buckets with now.Sub(lastAccess) > cleanupFreq.
   Only the (host, lastAccess) projection of the table is kept here; LFU eviction is absent (it needs
   a full table: maxBuckets is assumed larger than the number of hosts).  In Rate/Manager.v the same
   tick is the label [LCleanup gone] with gone = the hosts this model removes.
   Executable definitions only; proofs are in SweepProofs.v. *)
From Coq Require Export String ZArith List Bool.
Export ListNotations.
Open Scope Z_scope.

Definition atab := list (string * Z).      (* host, lastAccess (ns) *)

Fixpoint alookup (h : string) (tab : atab) : option Z :=
  match tab with
  | [] => None
  | (k, a) :: r => if String.eqb k h then Some a else alookup h r
  end.

(* getBucket(h) at time [now] *)
Fixpoint touch (h : string) (now : Z) (tab : atab) : atab :=
  match tab with
  | [] => [(h, now)]
  | (k, a) :: r => if String.eqb k h then (k, now) :: r else (k, a) :: touch h now r
  end.

(* one tick of cleanupLoop at time [now] *)
Definition sweep (now period : Z) (tab : atab) : atab :=
  filter (fun '(_, a) => now - a <=? period) tab.

Inductive sop :=
| SAccess (h : string) (now : Z)     (* Wait / AdjustOnFailure / OnSuccess: each starts with getBucket *)
| STick (now : Z).

Fixpoint srun (period : Z) (tab : atab) (ops : list sop) : atab :=
  match ops with
  | [] => tab
  | SAccess h now :: r => srun period (touch h now tab) r
  | STick now :: r => srun period (sweep now period tab) r
  end.

(* host [h], last accessed at [a], stays in use along [ops]: every tick comes within [period] of the
   most recent access *)
Fixpoint active (h : string) (period a : Z) (ops : list sop) : Prop :=
  match ops with
  | [] => True
  | SAccess k now :: r => if String.eqb k h then active h period now r else active h period a r
  | STick now :: r => now - a <= period /\ active h period a r
  end.

(* time of the most recent access of [h] *)
Fixpoint last_access (h : string) (a : Z) (ops : list sop) : Z :=
  match ops with
  | [] => a
  | SAccess k now :: r => if String.eqb k h then last_access h now r else last_access h a r
  | STick _ :: r => last_access h a r
  end.
