(* C13 / C16 - model of internal/pkg/archiver/ratelimiter/manager.go: the per-host bucket table
   with usage counts, LFU eviction at maxBuckets and the stale-bucket cleanup loop.
   Executable definitions only; proofs are in ManagerProofs.v.

   A labelled transition system.  Labels carry every choice the code leaves open:
     LGet host now victim   getBucket(host) at clock reading [now]; [victim] is the key evictLFU's
                            scan over the Go map ended with (map iteration order is random, so any
                            key of minimal usage count can be it; "" = the scan found none)
     LOp host o             a bucket operation (one Wait poll / adjustOnFailure / onSuccess) on the
                            bucket currently registered for [host]
     LCleanup gone          one tick of cleanupLoop deleting the hosts [gone] it found stale
   BucketManager.Wait(h) is LGet h followed by LOp h (Try _) polls; AdjustOnFailure / OnSuccess are
   LGet h followed by one LOp h.  A poll on a bucket that was evicted meanwhile acts on an object
   that is no longer in the table: here a no-op on the table. *)
From Coq Require Export String.
From ZenoV Require Export Rate.Bucket.
Open Scope Z_scope.

Record mentry := ME { me_host : string; me_usage : Z; me_bucket : bucket }.

Record manager := MG {
  mg_max  : Z;              (* maxBuckets *)
  mg_cap  : Q;              (* capacity of new buckets *)
  mg_rate : Q;              (* refill rate of new buckets *)
  mg_tab  : list mentry     (* buckets: at most one entry per host *)
}.

Definition new_manager (mx : Z) (c r : Q) : manager := MG mx c r [].

Definition MAXINT32 : Z := 2147483647.

Definition tab_len (tab : list mentry) : Z := Z.of_nat (length tab).

Fixpoint find (h : string) (tab : list mentry) : option mentry :=
  match tab with
  | [] => None
  | e :: r => if String.eqb (me_host e) h then Some e else find h r
  end.

Fixpoint update (h : string) (f : mentry -> mentry) (tab : list mentry) : list mentry :=
  match tab with
  | [] => []
  | e :: r => if String.eqb (me_host e) h then f e :: r else e :: update h f r
  end.

Fixpoint remove (h : string) (tab : list mentry) : list mentry :=
  match tab with
  | [] => []
  | e :: r => if String.eqb (me_host e) h then remove h r else e :: remove h r
  end.

(* evictLFU: lfuUsage starts at math.MaxInt32 and is lowered by every strictly smaller count *)
Fixpoint lfu_min (tab : list mentry) : Z :=
  match tab with
  | [] => MAXINT32
  | e :: r => Z.min (me_usage e) (lfu_min r)
  end.

(* can the scan end with lfuKey = v ? *)
Definition valid_victim (tab : list mentry) (v : string) : bool :=
  let m := lfu_min tab in
  if m <? MAXINT32
  then existsb (fun e => String.eqb (me_host e) v && (me_usage e =? m)) tab
  else String.eqb v "".

(* `if lfuKey != "" { delete(bm.buckets, lfuKey) }` *)
Definition evict (tab : list mentry) (v : string) : list mentry :=
  if String.eqb v "" then tab else remove v tab.

(* getBucket *)
Definition get (h : string) (now : Z) (victim : string) (m : manager) : option manager :=
  match find h (mg_tab m) with
  | Some _ =>
      Some (MG (mg_max m) (mg_cap m) (mg_rate m)
               (update h (fun e => ME (me_host e) (me_usage e + 1) (me_bucket e)) (mg_tab m)))
  | None =>
      let fresh := ME h 1 (new_bucket (mg_cap m) (mg_rate m) now) in
      if mg_max m <=? tab_len (mg_tab m)            (* len(bm.buckets) >= bm.maxBuckets *)
      then if valid_victim (mg_tab m) victim
           then Some (MG (mg_max m) (mg_cap m) (mg_rate m) (evict (mg_tab m) victim ++ [fresh]))
           else None
      else Some (MG (mg_max m) (mg_cap m) (mg_rate m) (mg_tab m ++ [fresh]))
  end.

Inductive mlabel :=
| LGet (host : string) (now : Z) (victim : string)
| LOp (host : string) (o : op)
| LCleanup (gone : list string).

(* one transition: the new manager and the release it produced, if any.  [None]: the label is not
   a behaviour of the code (the victim named is not a key the scan can end with). *)
Definition mstep (m : manager) (l : mlabel) : option (manager * option (string * Z)) :=
  match l with
  | LGet h now v =>
      match get h now v m with Some m' => Some (m', None) | None => None end
  | LOp h o =>
      match find h (mg_tab m) with
      | Some e =>
          let '(b', g) := step (me_bucket e) o in
          Some (MG (mg_max m) (mg_cap m) (mg_rate m)
                   (update h (fun e => ME (me_host e) (me_usage e) b') (mg_tab m)),
                if g then Some (h, op_time o) else None)
      | None => Some (m, None)
      end
  | LCleanup gone =>
      Some (MG (mg_max m) (mg_cap m) (mg_rate m) (fold_left (fun t h => remove h t) gone (mg_tab m)), None)
  end.

Fixpoint mrun (m : manager) (ls : list mlabel) : option (manager * list (string * Z)) :=
  match ls with
  | [] => Some (m, [])
  | l :: r =>
      match mstep m l with
      | None => None
      | Some (m1, g) =>
          match mrun m1 r with
          | None => None
          | Some (m2, gs) => Some (m2, match g with Some x => x :: gs | None => gs end)
          end
      end
  end.

(* number of getBucket calls in a label list *)
Fixpoint gets (ls : list mlabel) : Z :=
  match ls with
  | [] => 0
  | LGet _ _ _ :: r => 1 + gets r
  | _ :: r => gets r
  end.

(* no getBucket("") *)
Fixpoint hosts_nonempty (ls : list mlabel) : Prop :=
  match ls with
  | [] => True
  | LGet h _ _ :: r => h <> EmptyString /\ hosts_nonempty r
  | _ :: r => hosts_nonempty r
  end.

(* the bucket operations addressed to [h] *)
Fixpoint host_history (h : string) (ls : list mlabel) : list op :=
  match ls with
  | [] => []
  | LOp h' o :: r => if String.eqb h' h then o :: host_history h r else host_history h r
  | _ :: r => host_history h r
  end.

(* [h] is never named as eviction victim nor as stale *)
Fixpoint not_evicted (h : string) (ls : list mlabel) : Prop :=
  match ls with
  | [] => True
  | LGet _ _ v :: r => v <> h /\ not_evicted h r
  | LCleanup gone :: r => ~ In h gone /\ not_evicted h r
  | _ :: r => not_evicted h r
  end.
