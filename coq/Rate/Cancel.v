(* C13 - BucketManager.Wait as a BLOCKING call, with the cancellation of the context handed to
   NewBucketManager (the archiver's own context: archiver.Stop, SIGINT, crawl time limit).
   Executable definitions only; proofs are in CancelProofs.v.

   manager.go / ratelimiter.go:  Wait(host) = getBucket(host), then the loop of tokenBucket.Wait:
   poll (refill, "tokens >= 1 -> tokens--, return"), else sleep 50 ms and poll again.  The loop has
   ONE exit: the granted poll.  The context is read by cleanupLoop only; neither getBucket nor the
   waiters look at it.  BucketManager.Wait returns a duration, not an error: its caller (archive())
   cannot tell "got a token" from "gave up" and sends the request when Wait returns - so a return
   of Wait IS a release.

   A labelled transition system over Manager.v's, with the callers that are inside Wait as state:
     WCall w host now victim   caller w enters Wait(host): getBucket (label LGet of Manager.v)
     WPoll w host now          one iteration of w's loop: a Try on the host's bucket (LOp host (Try now));
                               if granted, w's Wait returns (release (w, host, now)), else w stays
     WOther l                  any transition of Manager.v that is not a poll: the getBucket and the
                               bucket operation of AdjustOnFailure / OnSuccess, a cleanup tick
     WCancel                   the context is cancelled
   A Try exists only as an iteration of some caller's loop: WOther (LOp _ (Try _)) is not a behaviour.
   After WCancel the cleanup loop returns at its next select; a tick that is already due may still
   win that select, so cleanup ticks stay enabled (more behaviours than the code has, never fewer). *)
From ZenoV Require Export Rate.Manager.
Open Scope Z_scope.

Record wsys := WS {
  ws_mgr : manager;
  ws_cancelled : bool;                (* ctx.Done() is closed *)
  ws_waiting : list (Z * string)      (* callers inside Wait: (caller, host), at most one entry per caller *)
}.

Definition new_wsys (mx : Z) (c r : Q) : wsys := WS (new_manager mx c r) false [].

Inductive wlabel :=
| WCall (w : Z) (host : string) (now : Z) (victim : string)
| WPoll (w : Z) (host : string) (now : Z)
| WOther (l : mlabel)
| WCancel.

Fixpoint waiting_on (w : Z) (l : list (Z * string)) : option string :=
  match l with
  | [] => None
  | (w', h) :: r => if w' =? w then Some h else waiting_on w r
  end.

Fixpoint drop_waiter (w : Z) (l : list (Z * string)) : list (Z * string) :=
  match l with
  | [] => []
  | (w', h) :: r => if w' =? w then drop_waiter w r else (w', h) :: drop_waiter w r
  end.

Definition is_poll (l : mlabel) : bool :=
  match l with LOp _ (Try _) => true | _ => false end.

(* one transition: the new system and the Wait call that returned, if any: (caller, host, time) *)
Definition wstep (s : wsys) (x : wlabel) : option (wsys * option (Z * string * Z)) :=
  match x with
  | WCall w h now v =>
      match waiting_on w (ws_waiting s) with
      | Some _ => None                                      (* w is inside a call already *)
      | None =>
          match mstep (ws_mgr s) (LGet h now v) with
          | Some (m', _) => Some (WS m' (ws_cancelled s) (ws_waiting s ++ [(w, h)]), None)
          | None => None
          end
      end
  | WPoll w h now =>
      match waiting_on w (ws_waiting s) with
      | Some h' =>
          if String.eqb h' h then
            match mstep (ws_mgr s) (LOp h (Try now)) with
            | Some (m', Some _) => Some (WS m' (ws_cancelled s) (drop_waiter w (ws_waiting s)), Some (w, h, now))
            | Some (m', None) => Some (WS m' (ws_cancelled s) (ws_waiting s), None)
            | None => None
            end
          else None
      | None => None                                        (* nobody polls outside Wait *)
      end
  | WOther l =>
      if is_poll l then None
      else match mstep (ws_mgr s) l with
           | Some (m', _) => Some (WS m' (ws_cancelled s) (ws_waiting s), None)
           | None => None
           end
  | WCancel =>
      (* nothing in getBucket / tokenBucket.Wait reads the context: table, buckets and the callers
         inside Wait are what they were *)
      Some (WS (ws_mgr s) true (ws_waiting s), None)
  end.

Fixpoint wrun (s : wsys) (xs : list wlabel) : option (wsys * list (Z * string * Z)) :=
  match xs with
  | [] => Some (s, [])
  | x :: r =>
      match wstep s x with
      | None => None
      | Some (s1, g) =>
          match wrun s1 r with
          | None => None
          | Some (s2, gs) => Some (s2, match g with Some y => y :: gs | None => gs end)
          end
      end
  end.

(* the manager transitions underneath: what is left when the callers' identities and the
   cancellations are forgotten *)
Fixpoint erase (xs : list wlabel) : list mlabel :=
  match xs with
  | [] => []
  | WCall _ h now v :: r => LGet h now v :: erase r
  | WPoll _ h now :: r => LOp h (Try now) :: erase r
  | WOther l :: r => l :: erase r
  | WCancel :: r => erase r
  end.

Definition ret_grant (y : Z * string * Z) : string * Z := let '(_, h, t) := y in (h, t).

(* the times at which Wait calls for [h] returned *)
Fixpoint host_returns (h : string) (rs : list (Z * string * Z)) : list Z :=
  match rs with
  | [] => []
  | (_, h', t) :: r => if String.eqb h' h then t :: host_returns h r else host_returns h r
  end.

(* The design the code does NOT have, kept for the record of what the theorems exclude: a
   cancellation that lets every caller inside Wait go ("do not hold up shutdown for the length of a
   penalty").  All waiting calls return at the instant [now] of the cancellation, no token taken. *)
Definition wstep_release_on_cancel (s : wsys) (now : Z) : wsys * list (Z * string * Z) :=
  (WS (ws_mgr s) true [], map (fun '(w, h) => (w, h, now)) (ws_waiting s)).
