(* C13 / C16 - proofs about Rate/Manager.v *)
From Coq Require Import Lia Lqa.
From ZenoV Require Import Rate.Bucket Rate.BucketProofs Rate.Manager.
Open Scope string_scope.
Open Scope list_scope.
Open Scope Z_scope.

Definition entry_ok (n : Z) (e : mentry) : Prop := me_usage e <= n /\ me_host e <> EmptyString.

Lemma update_len h f tab : length (update h f tab) = length tab.
Proof.
  induction tab as [|e r IH]; [reflexivity|]. cbn [update].
  destruct (String.eqb (me_host e) h); cbn [length]; congruence.
Qed.

Lemma remove_len_le h tab : (length (remove h tab) <= length tab)%nat.
Proof.
  induction tab as [|e r IH]; [apply le_n|]. cbn [remove].
  destruct (String.eqb (me_host e) h); cbn [length]; lia.
Qed.

Lemma remove_len_lt h tab :
  existsb (fun e => String.eqb (me_host e) h) tab = true -> (length (remove h tab) < length tab)%nat.
Proof.
  induction tab as [|e r IH]; [discriminate|]. cbn [existsb remove].
  destruct (String.eqb (me_host e) h); cbn [orb length].
  - intros _. pose proof (remove_len_le h r). lia.
  - intros H. specialize (IH H). lia.
Qed.

Lemma remove_Forall (P : mentry -> Prop) h tab : Forall P tab -> Forall P (remove h tab).
Proof.
  induction 1 as [|e r He Hr IH]; [constructor|]. cbn [remove].
  destruct (String.eqb (me_host e) h); [exact IH|constructor; assumption].
Qed.

Lemma cleanup_len gone : forall tab,
  (length (fold_left (fun t h => remove h t) gone tab) <= length tab)%nat.
Proof.
  induction gone as [|h r IH]; intros tab; [apply le_n|]. cbn [fold_left].
  specialize (IH (remove h tab)). pose proof (remove_len_le h tab). lia.
Qed.

Lemma cleanup_Forall (P : mentry -> Prop) gone : forall tab,
  Forall P tab -> Forall P (fold_left (fun t h => remove h t) gone tab).
Proof.
  induction gone as [|h r IH]; intros tab H; [exact H|]. cbn [fold_left].
  apply IH, remove_Forall, H.
Qed.

Lemma update_Forall2 (P Q : mentry -> Prop) h f tab :
  Forall P tab -> (forall e, P e -> Q e) -> (forall e, P e -> Q (f e)) -> Forall Q (update h f tab).
Proof.
  intros H Hw Hf. induction H as [|e r He Hr IH]; [constructor|]. cbn [update].
  destruct (String.eqb (me_host e) h); constructor; auto.
  eapply Forall_impl; [|exact Hr]. exact Hw.
Qed.

Lemma update_Forall (P : mentry -> Prop) h f tab :
  Forall P tab -> (forall e, P e -> P (f e)) -> Forall P (update h f tab).
Proof. intros H Hf. apply (update_Forall2 P P); auto. Qed.

Lemma Forall_weaken n n' tab : n <= n' -> Forall (entry_ok n) tab -> Forall (entry_ok n') tab.
Proof.
  intros Hle H. eapply Forall_impl; [|exact H]. intros e [H1 H2]. split; [lia|exact H2].
Qed.

Lemma lfu_min_le tab : lfu_min tab <= MAXINT32.
Proof. induction tab as [|e r IH]; cbn [lfu_min]; lia. Qed.

Lemma lfu_min_lt n tab :
  tab <> [] -> n < MAXINT32 -> Forall (entry_ok n) tab -> lfu_min tab < MAXINT32.
Proof.
  intros Hne Hn H. destruct H as [|e r [He _] _]; [congruence|].
  cbn [lfu_min]. pose proof (lfu_min_le r). lia.
Qed.

(* a victim the scan can end with, in a non-empty table of small counts and non-empty names,
   is present and is deleted *)
Lemma evict_shrinks n tab v :
  tab <> [] -> n < MAXINT32 -> Forall (entry_ok n) tab -> valid_victim tab v = true ->
  (length (evict tab v) < length tab)%nat.
Proof.
  intros Hne Hn Hok Hv. unfold valid_victim in Hv.
  pose proof (lfu_min_lt n tab Hne Hn Hok) as Hlt.
  destruct (Z.ltb_spec (lfu_min tab) MAXINT32); [|lia].
  assert (Hex : existsb (fun e => String.eqb (me_host e) v) tab = true).
  { apply existsb_exists in Hv. destruct Hv as (e & Hin & He). apply andb_prop in He.
    apply existsb_exists. exists e. split; [exact Hin|apply He]. }
  unfold evict. destruct (String.eqb_spec v EmptyString) as [->|Hnz].
  - exfalso. apply existsb_exists in Hex. destruct Hex as (e & Hin & He).
    apply String.eqb_eq in He. rewrite Forall_forall in Hok. destruct (Hok e Hin) as [_ Hn0]. congruence.
  - apply remove_len_lt, Hex.
Qed.

Definition bound (mx : Z) : Z := Z.max mx 1.

Definition minv (n : Z) (m : manager) : Prop :=
  0 <= n /\ tab_len (mg_tab m) <= bound (mg_max m) /\ Forall (entry_ok n) (mg_tab m).

Lemma mstep_max m l m' g : mstep m l = Some (m', g) -> mg_max m' = mg_max m.
Proof.
  destruct l as [h now v|h o|gone]; cbn [mstep].
  - unfold get. destruct (find h (mg_tab m)).
    + intros [= <- _]. reflexivity.
    + destruct (mg_max m <=? tab_len (mg_tab m)); [destruct (valid_victim (mg_tab m) v)|];
        try discriminate; intros [= <- _]; reflexivity.
  - destruct (find h (mg_tab m)) as [e|].
    + destruct (step (me_bucket e) o). intros [= <- _]. reflexivity.
    + intros [= <- _]. reflexivity.
  - intros [= <- _]. reflexivity.
Qed.

Lemma app1_len (tab : list mentry) e : tab_len (tab ++ [e]) = tab_len tab + 1.
Proof. unfold tab_len. rewrite app_length. cbn [length]. lia. Qed.

Lemma minv_step n m l m' g :
  minv n m -> n + gets [l] < MAXINT32 -> hosts_nonempty [l] -> mstep m l = Some (m', g) ->
  minv (n + gets [l]) m'.
Proof.
  intros (Hn0 & Hlen & Hok) Hn Hhosts Hst. unfold minv. rewrite (mstep_max _ _ _ _ Hst).
  destruct l as [h now v|h o|gone]; cbn [mstep gets hosts_nonempty] in *.
  - (* getBucket *)
    split; [lia|].
    unfold get in Hst. destruct (find h (mg_tab m)) as [e0|].
    + inversion Hst; subst; clear Hst. cbn [mg_tab]. split.
      * unfold tab_len in *. rewrite update_len. exact Hlen.
      * apply (update_Forall2 (entry_ok n)); [exact Hok| |].
        -- intros e [H1 H2]. split; [lia|exact H2].
        -- intros e [H1 H2]. split; cbn [me_usage me_host]; [lia|exact H2].
    + set (fresh := ME h 1 (new_bucket (mg_cap m) (mg_rate m) now)) in *.
      assert (Hfresh : entry_ok (n + (1 + 0)) fresh)
        by (split; cbn [fresh me_usage me_host]; [lia|apply Hhosts]).
      assert (Hok' : Forall (entry_ok (n + (1 + 0))) (mg_tab m))
        by (apply Forall_weaken with n; [lia|exact Hok]).
      destruct (Z.leb_spec (mg_max m) (tab_len (mg_tab m))) as [Hfull|Hroom].
      * destruct (valid_victim (mg_tab m) v) eqn:Hv; [|discriminate].
        inversion Hst; subst; clear Hst. cbn [mg_tab]. split.
        -- rewrite app1_len.
           destruct (mg_tab m) as [|e r] eqn:Et.
           ++ unfold evict. destruct (String.eqb v ""); cbn [remove tab_len length Z.of_nat]; unfold bound; lia.
           ++ assert (Hs : (length (evict (e :: r) v) < length (e :: r))%nat).
              { apply (evict_shrinks n); [discriminate|lia|exact Hok|exact Hv]. }
              unfold tab_len in *. lia.
        -- apply Forall_app. split; [|constructor; [exact Hfresh|constructor]].
           unfold evict. destruct (String.eqb v ""); [exact Hok'|apply remove_Forall, Hok'].
      * inversion Hst; subst; clear Hst. cbn [mg_tab]. split.
        -- rewrite app1_len. unfold bound. lia.
        -- apply Forall_app. split; [exact Hok'|constructor; [exact Hfresh|constructor]].
  - (* bucket operation *)
    rewrite Z.add_0_r. split; [exact Hn0|].
    destruct (find h (mg_tab m)) as [e|].
    + destruct (step (me_bucket e) o) as [b' g']. inversion Hst; subst; clear Hst. cbn [mg_tab]. split.
      * unfold tab_len in *. rewrite update_len. exact Hlen.
      * apply update_Forall; [exact Hok|]. intros e1 [H1 H2]. split; cbn [me_usage me_host]; assumption.
    + inversion Hst; subst. split; assumption.
  - (* cleanup *)
    rewrite Z.add_0_r. split; [exact Hn0|].
    inversion Hst; subst; clear Hst. cbn [mg_tab]. split.
    + pose proof (cleanup_len gone (mg_tab m)). unfold tab_len in *. lia.
    + apply cleanup_Forall, Hok.
Qed.

Lemma gets_nonneg ls : 0 <= gets ls.
Proof. induction ls as [|[h now v|h o|gone] r IH]; cbn [gets]; lia. Qed.

Lemma minv_run ls : forall n m m' gs,
  minv n m -> n + gets ls < MAXINT32 -> hosts_nonempty ls -> mrun m ls = Some (m', gs) ->
  minv (n + gets ls) m'.
Proof.
  induction ls as [|l r IH]; intros n m m' gs Hinv Hn Hh Hrun.
  - cbn [mrun gets] in *. inversion Hrun; subst. rewrite Z.add_0_r. exact Hinv.
  - cbn [mrun] in Hrun. destruct (mstep m l) as [[m1 g]|] eqn:Est; [|discriminate].
    destruct (mrun m1 r) as [[m2 gs2]|] eqn:Er; [|discriminate]. inversion Hrun; subst; clear Hrun.
    pose proof (gets_nonneg r) as Hr0.
    assert (Hsplit : gets (l :: r) = gets [l] + gets r) by (destruct l; cbn [gets]; lia).
    assert (Hh1 : hosts_nonempty [l] /\ hosts_nonempty r)
      by (destruct l; cbn [hosts_nonempty] in *; tauto).
    pose proof (minv_step n m l m1 g Hinv ltac:(lia) (proj1 Hh1) Est) as H1.
    rewrite Hsplit, Z.add_assoc. apply (IH _ m1 m' gs2 H1); [lia|apply Hh1|exact Er].
Qed.

(* ---- table_bounded --------------------------------------------------------------------
   From the empty table, for every label list the code can produce (every eviction choice, every
   cleanup, every interleaving of bucket operations), with non-empty host names and fewer than
   2^31-1 getBucket calls, the table never holds more than max(maxBuckets, 1) buckets. *)
Theorem table_bounded_lemma mx c r ls m gs :
  hosts_nonempty ls -> gets ls < MAXINT32 ->
  mrun (new_manager mx c r) ls = Some (m, gs) ->
  tab_len (mg_tab m) <= Z.max mx 1.
Proof.
  intros Hh Hg Hrun.
  assert (H0 : minv 0 (new_manager mx c r)).
  { split; [lia|]. split; [cbn; unfold bound; lia|constructor]. }
  pose proof (minv_run ls 0 _ m gs H0 ltac:(lia) Hh Hrun) as (_ & Hlen & _).
  assert (Hmx : forall ls m0 m1 gs1, mrun m0 ls = Some (m1, gs1) -> mg_max m1 = mg_max m0).
  { clear. induction ls as [|l r IH]; intros m0 m1 gs1 H; cbn [mrun] in H.
    - inversion H; reflexivity.
    - destruct (mstep m0 l) as [[m2 g]|] eqn:E; [|discriminate].
      destruct (mrun m2 r) as [[m3 gs3]|] eqn:E2; [|discriminate]. inversion H; subst.
      rewrite (IH _ _ _ E2). exact (mstep_max _ _ _ _ E). }
  rewrite (Hmx _ _ _ _ Hrun) in Hlen. exact Hlen.
Qed.

(* the two hypotheses are needed: with the empty host name the scan's "none found" marker
   coincides with a key, and nothing is deleted ... *)
Lemma table_bounded_needs_nonempty_host :
  exists ls, gets ls < MAXINT32 /\
    match mrun (new_manager 1 1 1) ls with
    | Some (m, _) => tab_len (mg_tab m) = 3
    | None => False
    end.
Proof.
  exists [LGet "" 0 ""; LGet "a" 1 ""; LGet "b" 2 ""]. vm_compute. split; reflexivity.
Qed.

(* ... and counts at or above math.MaxInt32 are invisible to the scan *)
Lemma table_bounded_needs_small_counts :
  let m0 := MG 1 1 1 [ME "a" MAXINT32 (new_bucket 1 1 0)] in
  match mrun m0 [LGet "b" 1 ""] with
  | Some (m, _) => tab_len (mg_tab m) = 2
  | None => False
  end.
Proof. vm_compute. reflexivity. Qed.

(* non-vacuity: a table of 2 under churn of 4 hosts, with evictions *)
Example table_bounded_nonvacuous :
  let ls := [LGet "a" 0 ""; LGet "a" 1 ""; LGet "b" 2 ""; LGet "c" 3 "b"; LGet "d" 4 "c";
             LOp "a" (Try 5); LGet "b" 6 "d"; LCleanup ["a"]; LGet "c" 7 ""] in
  hosts_nonempty ls /\ gets ls < MAXINT32 /\
  match mrun (new_manager 2 1 1) ls with
  | Some (m, gs) => map me_host (mg_tab m) = ["b"; "c"] /\ gs = [("a", 5)]
  | None => False
  end.
Proof.
  split; [cbn [hosts_nonempty]; repeat split; discriminate|].
  split; [reflexivity|]. vm_compute. split; reflexivity.
Qed.

(* the victim must be one the scan can end with: evicting the more-used "a" is not a behaviour *)
Example invalid_victim_rejected :
  mrun (new_manager 2 1 1) [LGet "a" 0 ""; LGet "a" 1 ""; LGet "b" 2 ""; LGet "c" 3 "a"] = None.
Proof. vm_compute. reflexivity. Qed.

(* ---- a bucket's lifetime ---------------------------------------------------------------
   While a host is not evicted (never named as victim or as stale), the manager applies to its
   bucket exactly the operations addressed to that host, and releases for that host exactly what
   the bucket grants: all per-bucket theorems of BucketProofs.v carry over to the host. *)
Fixpoint host_grants (h : string) (gs : list (string * Z)) : list Z :=
  match gs with
  | [] => []
  | (h', t) :: r => if String.eqb h' h then t :: host_grants h r else host_grants h r
  end.

Lemma find_update_same h f tab e :
  find h tab = Some e -> me_host (f e) = me_host e -> find h (update h f tab) = Some (f e).
Proof.
  induction tab as [|e0 r IH]; [discriminate|]. cbn [find update].
  destruct (String.eqb (me_host e0) h) eqn:E.
  - intros [= ->] Hh. cbn [find]. rewrite Hh, E. reflexivity.
  - intros Hf Hh. cbn [find]. rewrite E. apply IH; assumption.
Qed.

Lemma find_update_other h h' f tab :
  h' <> h -> (forall e, me_host (f e) = me_host e) -> find h (update h' f tab) = find h tab.
Proof.
  intros Hne Hf. induction tab as [|e0 r IH]; [reflexivity|]. cbn [find update].
  destruct (String.eqb (me_host e0) h') eqn:E.
  - cbn [find]. rewrite Hf. apply String.eqb_eq in E.
    destruct (String.eqb_spec (me_host e0) h); [congruence|reflexivity].
  - cbn [find]. destruct (String.eqb (me_host e0) h); [reflexivity|exact IH].
Qed.

Lemma find_remove_other h h' tab : h' <> h -> find h (remove h' tab) = find h tab.
Proof.
  intros Hne. induction tab as [|e0 r IH]; [reflexivity|]. cbn [find remove].
  destruct (String.eqb_spec (me_host e0) h') as [E|E].
  - destruct (String.eqb_spec (me_host e0) h); [congruence|exact IH].
  - cbn [find]. destruct (String.eqb (me_host e0) h); [reflexivity|exact IH].
Qed.

Lemma find_app_some h tab e x : find h tab = Some e -> find h (tab ++ x) = Some e.
Proof.
  induction tab as [|e0 r IH]; [discriminate|]. cbn [find app].
  destruct (String.eqb (me_host e0) h); [trivial|exact IH].
Qed.

Lemma find_cleanup_other h gone : forall tab,
  ~ In h gone -> find h (fold_left (fun t h' => remove h' t) gone tab) = find h tab.
Proof.
  induction gone as [|h' r IH]; intros tab Hni; [reflexivity|]. cbn [fold_left].
  rewrite IH by (intros H; apply Hni; right; exact H).
  apply find_remove_other. intros ->. apply Hni. left; reflexivity.
Qed.

Theorem lifetime_lemma ls : forall h m e m' gs,
  find h (mg_tab m) = Some e -> not_evicted h ls -> mrun m ls = Some (m', gs) ->
  exists e', find h (mg_tab m') = Some e' /\
    me_bucket e' = final (me_bucket e) (host_history h ls) /\
    host_grants h gs = grants (me_bucket e) (host_history h ls).
Proof.
  induction ls as [|l r IH]; intros h m e m' gs Hf Hne Hrun.
  - cbn [mrun] in Hrun. inversion Hrun; subst. exists e. repeat split; assumption.
  - cbn [mrun] in Hrun. destruct (mstep m l) as [[m1 g]|] eqn:Est; [|discriminate].
    destruct (mrun m1 r) as [[m2 gs2]|] eqn:Er; [|discriminate]. inversion Hrun; subst; clear Hrun.
    destruct l as [h1 now v|h1 o|gone]; cbn [mstep not_evicted host_history] in *.
    + (* getBucket: h stays, its bucket untouched *)
      destruct Hne as [Hv Hne].
      assert (Hf1 : exists e1, find h (mg_tab m1) = Some e1 /\ me_bucket e1 = me_bucket e).
      { unfold get in Est. destruct (find h1 (mg_tab m)) as [e0|] eqn:Ef1.
        - inversion Est; subst; clear Est. cbn [mg_tab].
          destruct (String.eqb_spec h1 h) as [->|Hd].
          + rewrite Hf in Ef1. inversion Ef1; subst.
            eexists. split; [apply find_update_same; [exact Hf|reflexivity]|reflexivity].
          + exists e. split; [|reflexivity]. rewrite find_update_other; [exact Hf|exact Hd|reflexivity].
        - assert (Hev : find h (evict (mg_tab m) v) = Some e).
          { unfold evict. destruct (String.eqb v ""); [exact Hf|].
            rewrite find_remove_other; [exact Hf|exact Hv]. }
          destruct (mg_max m <=? tab_len (mg_tab m)).
          + destruct (valid_victim (mg_tab m) v); [|discriminate].
            inversion Est; subst; clear Est. cbn [mg_tab]. exists e. split; [|reflexivity].
            apply find_app_some, Hev.
          + inversion Est; subst; clear Est. cbn [mg_tab]. exists e. split; [|reflexivity].
            apply find_app_some, Hf. }
      destruct Hf1 as (e1 & Hf1 & Hb1).
      assert (Hg : g = None).
      { destruct (get h1 now v m); [inversion Est; reflexivity|discriminate]. }
      subst g. destruct (IH h m1 e1 m' gs2 Hf1 Hne Er) as (e' & A & B & C).
      exists e'. rewrite Hb1 in B, C. repeat split; assumption.
    + (* bucket operation *)
      destruct (String.eqb_spec h1 h) as [->|Hd].
      * rewrite Hf in Est. destruct (step (me_bucket e) o) as [b' g'] eqn:Es.
        inversion Est; subst; clear Est.
        set (e1 := ME (me_host e) (me_usage e) b').
        assert (Hf1 : find h (mg_tab (MG (mg_max m) (mg_cap m) (mg_rate m)
                         (update h (fun e0 => ME (me_host e0) (me_usage e0) b') (mg_tab m)))) = Some e1).
        { cbn [mg_tab]. apply (find_update_same h (fun e0 => ME (me_host e0) (me_usage e0) b')); [exact Hf|reflexivity]. }
        destruct (IH h _ e1 m' gs2 Hf1 Hne Er) as (e' & A & B & C).
        exists e'. cbn [e1 me_bucket] in B, C.
        rewrite final_cons, grants_cons, Es. cbn [fst snd].
        split; [exact A|]. split; [exact B|].
        destruct g'; cbn [host_grants]; [rewrite String.eqb_refl|]; congruence.
      * assert (Hf1 : exists e1, find h (mg_tab m1) = Some e1 /\ me_bucket e1 = me_bucket e /\
                        host_grants h (match g with Some x => x :: gs2 | None => gs2 end) = host_grants h gs2).
        { destruct (find h1 (mg_tab m)) as [e0|] eqn:Ef1.
          - destruct (step (me_bucket e0) o) as [b' g']. inversion Est; subst; clear Est. cbn [mg_tab].
            exists e. split; [rewrite find_update_other; [exact Hf|exact Hd|reflexivity]|].
            split; [reflexivity|]. destruct g'; [|reflexivity]. cbn [host_grants].
            destruct (String.eqb_spec h1 h); [congruence|reflexivity].
          - inversion Est; subst. exists e. repeat split; assumption. }
        destruct Hf1 as (e1 & Hf1 & Hb1 & Hg1).
        destruct (IH h m1 e1 m' gs2 Hf1 Hne Er) as (e' & A & B & C).
        exists e'. rewrite Hg1. rewrite Hb1 in B, C. repeat split; assumption.
    + (* cleanup *)
      destruct Hne as [Hni Hne]. inversion Est; subst; clear Est.
      assert (Hf1 : find h (mg_tab (MG (mg_max m) (mg_cap m) (mg_rate m)
                       (fold_left (fun t h' => remove h' t) gone (mg_tab m)))) = Some e).
      { cbn [mg_tab]. rewrite find_cleanup_other; assumption. }
      exact (IH h _ e m' gs2 Hf1 Hne Er).
Qed.

(* ---- eviction resets a host's bucket (finding) ------------------------------------------
   With a table of one bucket (the default: 1 worker x 1 concurrent asset), host "a" receives a
   429 at t = 1 ns (penalty until 5 s + 1 ns); host "b" is then served, which evicts "a"; the next
   request for "a" gets a fresh, full bucket and is released at t = 3 ns. *)
Lemma evict_resets_refuted :
  exists ls f t,
    hosts_nonempty ls /\ gets ls < MAXINT32 /\ In (LOp "a" (Fail f 429)) ls /\
    match mrun (new_manager 1 1 1) ls with
    | Some (_, gs) => In ("a", t) gs
    | None => False
    end /\ f < t /\ t < f + penalty_spec 1.
Proof.
  exists [LGet "a" 0 ""; LOp "a" (Try 0); LGet "a" 1 ""; LOp "a" (Fail 1 429);
          LGet "b" 2 "a"; LOp "b" (Try 2); LGet "a" 3 "b"; LOp "a" (Try 3)].
  exists 1, 3.
  split; [cbn [hosts_nonempty]; repeat split; discriminate|].
  split; [reflexivity|]. split; [cbn [In]; tauto|].
  split; [vm_compute; tauto|]. split; reflexivity.
Qed.
